// Instantiates the repository's GlobalTable<T> (src/engine/engine_global_table.h, unmodified) on a small object type
// whose copy takes several separate stores, so that a partially registered object would be observable by a reader.
#include <cstring>
#include "engine/engine_global_table.h"

struct VfObj { char key[8]; int a; int b; int c; };

namespace mujoco {
template <> const char* GlobalTable<VfObj>::HumanReadableTypeName() { return "vfobj"; }
template <> std::string_view GlobalTable<VfObj>::ObjectKey(const VfObj& o) { return std::string_view(o.key, strnlen(o.key, sizeof(o.key))); }
template <> bool GlobalTable<VfObj>::ObjectEqual(const VfObj& x, const VfObj& y) { return x.a == y.a && x.b == y.b && x.c == y.c; }
template <> bool GlobalTable<VfObj>::CopyObject(VfObj& dst, const VfObj& src, ErrorMessage& err) {
  memcpy(dst.key, src.key, sizeof(dst.key)); dst.a = src.a; dst.b = src.b; dst.c = src.c; return true;
}
}  // namespace mujoco

using Table = mujoco::GlobalTable<VfObj>;
extern "C" {

// writer: register, return slot (mju_error on conflict)
int vf_append(Table* t, const VfObj* o) { return t->AppendIfUnique(*o); }
// reader by slot: the documented protocol - read count(), then GetAtSlotUnsafe(slot, count)
int vf_lookup_slot(Table* t, int slot, VfObj* out) {
  int n = t->count();
  const VfObj* p = t->GetAtSlotUnsafe(slot, n);
  if (!p) return 0;
  *out = *p; return 1;
}
// reader by key
int vf_lookup_key(Table* t, const char* key, VfObj* out, int* slot) {
  int n = t->count();
  const VfObj* p = t->GetByKeyUnsafe(key, slot, n);
  if (!p) return 0;
  *out = *p; return 1;
}
int vf_count(Table* t) { return t->count(); }
}
