// Instantiates the repo's sorting macros (engine_sort.h, unmodified) on a {key, tag} element so that
// stability is observable. VF_RUNSIZE re-defines only the run-length parameter so that merge passes run for small n.
#include <string.h>
#include "engine/engine_sort.h"
#ifdef VF_RUNSIZE
#undef _mjRUNSIZE
#define _mjRUNSIZE VF_RUNSIZE
#endif
typedef struct { int key; int tag; } vfItem;
static inline int vf_cmp(const vfItem* a, const vfItem* b, void* ctx) {
  return (a->key > b->key) - (a->key < b->key);
}
mjSORT(vf_sort_impl, vfItem, vf_cmp);
mjPARTIAL_SORT(vf_partial_impl, vfItem, vf_cmp);
void vf_sort(vfItem* arr, vfItem* buf, int n) { vf_sort_impl(arr, buf, n, 0); }
void vf_partial(vfItem* arr, vfItem* buf, int n, int k) { vf_partial_impl(arr, buf, n, k, 0); }
