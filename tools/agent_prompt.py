#!/usr/bin/env python3
"""Prints the prompt given to a fresh sub-agent that seeds a property-breaking change (only the property text + sandbox facts)."""
import json, sys
pid = sys.argv[1]
prop = [json.loads(l) for l in open('/verif/properties.jsonl') if json.loads(l)['id'] == pid][0]
wt = '/tmp/wt_%s' % pid; out = '/tmp/out_%s' % pid
print(f"""You are given a scratch git worktree of the MuJoCo physics engine repository at {wt}. Work ONLY inside {wt} and {out}; never touch /repo, /verif or any other checkout.

TASK: produce TWO different, realistic, subtle changes to the repository source (each a separate small patch, like a plausible developer mistake or careless refactor) that BREAK the semantic property below, while the code still compiles and the repository's pinned test suite still passes. Each change must need something specific to manifest (a particular input value or boundary, a multi-step sequence of operations, a particular interleaving, a fault at a particular point, or two cooperating sites that each look fine alone) - NOT something any ordinary use would expose at once. Prefer changes in the code the property is anchored in (see "anchors").

PROPERTY {pid}: {prop['title']}
Statement: {prop['statement']}
Quantifier: {prop['quantifier']['text']}
Anchors: {json.dumps(prop['anchors'].get('mechanism'))}
Files: {json.dumps(prop['anchors'].get('files'))}

SANDBOX FACTS: no network. The full libmujoco cannot be built here (CMake dependencies are absent), but every src/engine/*.c translation unit compiles on its own with `clang-14 -I{wt}/include -I{wt}/src -c file.c` (a few need a tiny stub header for <ccd/vec3.h>); static functions can be reached by `#include`-ing the .c file from a small driver, and undefined external symbols can be given small stub definitions in the driver. Python is /venv/bin/python (3.12, numpy, scipy; the pre-installed `mujoco` wheel is a DIFFERENT version and is not this repository's code - load repository Python files by path if needed). The pinned test suite is: `cd {wt} && /venv/bin/python -m pytest -q -p no:cacheprovider --continue-on-collection-errors test/doc doc/ext` (86 tests pass; other test modules fail at collection, that is expected).

DELIVERABLES, in {out}/1/ and {out}/2/ (one directory per change):
  - patch.diff : output of `git -C {wt} diff` for that change alone (apply-able with `git apply` on a clean tree)
  - a demonstration: a small C program plus `demo.sh` (or a Python script run by demo.sh) that takes the repository root as its first argument, builds what it needs from that root, and exits 0 on the unmodified tree but exits non-zero (printing what went wrong) when the change is applied. It must exercise the REAL repository code (compile/include the real files), not a copy.
  - meta.json : {{"property": "{pid}", "summary": "...", "needs_to_manifest": "...", "files_changed": [...], "commands_run": [...]}}
You must verify BOTH directions yourself (demo passes on the clean tree, fails with the patch; pinned tests pass with the patch). Do NOT use `git stash` (stash refs are shared by all worktrees of the repository and other agents work in sibling worktrees): save a change with `git diff > file`, revert with `git checkout -- .`, re-apply with `git apply file`. Leave {wt} clean (`git -C {wt} checkout -- .`) when you finish. Your final message: for each change, 3-4 lines: what was changed, what is needed to trigger it, and how the demo shows it.""")
