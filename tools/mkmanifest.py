#!/verif/.venv/bin/python
"""Regenerates MANIFEST.json from the property modules present under props/ and the not-applicable table below."""
import json, os, sys, importlib, glob
sys.path.insert(0, '/verif')
NA = {
 'C01': 'whole-pipeline determinism of mj_step over arbitrary models: no bounded encoding of the full engine is within reach of the IR executor; the state-copy part is claimed under C26',
 'C02': 'needs the full engine under threads; only the dispatch protocol (C03) and the allocator (C19) are encodable',
 'C09': 'depends on converged iterative solvers over the whole pipeline',
 'C10': 'iterative Newton/CG/PGS convergence; only the shared cost/force law is encodable (C11, C12)',
 'C15': 'GJK/EPA: iterative geometric search with data-dependent termination',
 'C32': 'src/xml needs tinyxml2 (absent, no network) and does not lower; writer/reader are STL/exception-heavy C++',
 'C33': 'the model compiler (src/user) is string/STL/exception-heavy C++ beyond the hand-written IR executor',
 'C35': 'the inference of mass, centre of mass and inertia from geoms and meshes lives in the C++ model compiler (src/user/user_objects.cc, user_mesh.cc: STL containers, exceptions, virtual dispatch - does not lower to IR the executor can run) and in the iterative eigen-solver mju_eig3 (data-dependent sweeps in floating point); the only mass-property code within reach is the sysid parameterisation, claimed under C47',
 'C36': 'same compiler code as C33; no encodable implementation here',
 'C37': 'src/xml does not lower without tinyxml2; XML parsing over libstdc++ strings is out of reach',
 'C38': 'std::unordered_map/std::string/shared_ptr object graphs; no KLEE-class engine for libstdc++ containers',
 'C39': 'same as C38 (VFS is built on STL containers and strings)',
 'C42': 'the generators are string templating over a Schema object (f-strings, join, sorted): with symbolic tokens every formatting step concretises the atom, so a symtok run degenerates into enumerating concrete schemas one by one - enumeration, not a solver verdict; the parser that produces the Schema is claimed under C41',
 'C43': 'JAX-traced float32 programs executed by XLA; nothing symbolic survives the C boundary',
 'C45': 'JAX autodiff through XLA; same reason as C43',
 'C49': 'finite concrete diff against the compiler view - there is no input space for a solver to quantify over',
}
PENDING = 'check not built yet in this framework (see DESIGN.md section 4 for the plan); not claimed until its quick command runs end to end'
props = [json.loads(l) for l in open('/verif/properties.jsonl')]
DESIGN = open('/verif/DESIGN.md').read()
checks, na = [], []
for p in props:
    pid = p['id']
    if os.path.exists('/verif/props/%s.py' % pid):
        m = importlib.import_module('props.' + pid)
        if getattr(m, 'DISABLED', None):
            na.append({'property_id': pid, 'reason': m.DISABLED}); continue
        checks.append({
            'property_id': pid,
            'quick_cmd': './check %s --tier quick' % pid,
            'thorough_cmd': './check %s --tier thorough' % pid,
            'evidence_file': 'evidence/%s.json' % pid,
            'replay_cmd_template': './check %s --replay {path}' % pid,
            'engine': getattr(m, 'ENGINE', 'llsym'),
            'level_claimed': {'category': getattr(m, 'LEVEL', 'other'), 'text': getattr(m, 'LEVEL_TEXT', m.EXPLANATION), 'design_ref': ('DESIGN.md section 4, ' + pid + ' (status: section 9)') if ('### %s ' % pid) in DESIGN else 'DESIGN.md section 9.6, ' + pid},
            'level_note': getattr(m, 'LEVEL_NOTE', '; '.join(getattr(m, 'ASSUMPTIONS', []))),
            'technique': getattr(m, 'TECHNIQUE', 'bounded symbolic execution of the real LLVM IR (own executor) with z3 deciding every obligation; counterexamples replayed natively'),
        })
    else:
        na.append({'property_id': pid, 'reason': NA.get(pid, PENDING)})
man = {
 'version': 1,
 'setup_cmd': 'bash ./setup.sh',
 'hooks': {'guard': 'MUJOCO_VERIF', 'enable': 'no source hooks are needed: all harnesses live in /verif and drive the unmodified translation units',
           'baseline_off_cmd': 'cd /repo && /venv/bin/python -m pytest -ra -q -p no:cacheprovider --timeout=900 --continue-on-collection-errors',
           'source_commits': [], 'add_only': True},
 'engines': [
  {'name': 'llsym', 'path': 'vf/llsym.py', 'serves_properties': [c['property_id'] for c in checks if c['engine'] == 'llsym'],
   'kind_free_text': 'symbolic executor for LLVM-14 textual IR regenerated from /repo on every run (clang -S -emit-llvm), z3 back end, native replay via ctypes'},
  {'name': 'llconc', 'path': 'vf/llconc.py', 'serves_properties': [c['property_id'] for c in checks if c['engine'] == 'llconc'],
   'kind_free_text': 'interleavings of IR function instances at shared-cell accesses (sequentially consistent), data symbolic, z3 decides the per-schedule claims; native replay by stall injection'},
  {'name': 'pysym', 'path': 'vf/pysym.py', 'serves_properties': [c['property_id'] for c in checks if c['engine'] == 'pysym'],
   'kind_free_text': 'real numpy code executed on object arrays of z3 terms'},
  {'name': 'symtok', 'path': 'vf/symtok.py', 'serves_properties': [c['property_id'] for c in checks if c['engine'] == 'symtok'],
   'kind_free_text': 'finite-domain concolic execution of the real Python with z3 deciding path feasibility'},
 ],
 'checks': checks,
 'not_applicable': na,
 'notes': 'Exit codes: 0 held / 1 VIOLATION (replayed on real code) / 3 harness error or inconclusive. Known findings: known_findings.txt.',
}
json.dump(man, open('/verif/MANIFEST.json', 'w'), indent=1)
print('claimed', len(checks), 'not_applicable', len(na))
