#!/usr/bin/env python3
"""Evaluate a seeded change: confirm the demonstration both ways and the pinned tests in a scratch worktree, then
apply the patch to /repo, run the property's check, and revert. Usage: seed_eval.py <PID> <dir with patch.diff demo.sh meta.json> [--tier quick|thorough] [--keep name]"""
import json, os, shutil, subprocess, sys, time
pid, src = sys.argv[1], sys.argv[2].rstrip('/')
tier = 'quick'
if '--tier' in sys.argv: tier = sys.argv[sys.argv.index('--tier') + 1]
name = sys.argv[sys.argv.index('--keep') + 1] if '--keep' in sys.argv else None
def sh(cmd, **kw):
    p = subprocess.run(cmd, shell=True, stdout=subprocess.PIPE, stderr=subprocess.STDOUT, text=True, **kw)
    return p.returncode, p.stdout
res = {'property': pid, 'source_dir': src}
wt = '/tmp/wt_eval_%s_%d' % (pid, os.getpid())
sh('git -C /repo worktree add -q --detach %s HEAD' % wt)
try:
    rc0, out0 = sh('bash %s/demo.sh %s' % (src, wt), cwd=src, timeout=900)
    res['demo_clean_rc'] = rc0
    rc, out = sh('git -C %s apply %s/patch.diff' % (wt, src)); res['apply_rc'] = rc
    rc1, out1 = sh('bash %s/demo.sh %s' % (src, wt), cwd=src, timeout=900)
    res['demo_patched_rc'] = rc1; res['demo_patched_tail'] = out1[-600:]
    rct, outt = sh('cd %s && /venv/bin/python -m pytest -q -p no:cacheprovider --continue-on-collection-errors test/doc doc/ext 2>&1 | tail -1' % wt, timeout=900)
    res['pinned_tests'] = outt.strip()
finally:
    sh('git -C /repo worktree remove --force %s' % wt)
confirmed = res['demo_clean_rc'] == 0 and res['demo_patched_rc'] != 0 and res.get('apply_rc') == 0 and '86 passed' in res['pinned_tests']
res['confirmed'] = confirmed
if confirmed:
    # run the check against a patched scratch worktree (VERIF_REPO), so /repo itself stays untouched while other work goes on;
    # evidence/replays of this run go to a scratch directory
    wt2 = '/tmp/wt_chk_%s_%d' % (pid, os.getpid())
    sh('git -C /repo worktree add -q --detach %s HEAD' % wt2)
    try:
        sh('git -C %s apply %s/patch.diff' % (wt2, src))
        t = time.time()
        env = dict(os.environ, VERIF_REPO=wt2, VERIF_EVIDENCE_DIR='/tmp/seed_evid_%d' % os.getpid(), VERIF_REPLAYS_DIR='/tmp/seed_replays_%d' % os.getpid())
        p = subprocess.run('cd /verif && ./check %s --tier %s' % (pid, tier), shell=True, stdout=subprocess.PIPE, stderr=subprocess.STDOUT, text=True, env=env, timeout=7200)
        rc, out = p.returncode, p.stdout
        res['check_rc'] = rc; res['check_wall_s'] = round(time.time() - t, 1)
        lines = [l for l in out.splitlines() if l.startswith(('VIOLATION', 'KNOWN', 'HARNESS', 'INCONCLUSIVE', '['))]
        res['check_lines'] = lines[:12]
        res['detected'] = rc == 1 and any(l.startswith('VIOLATION') for l in lines)
    finally:
        sh('git -C /repo worktree remove --force %s' % wt2)
        shutil.rmtree('/tmp/seed_evid_%d' % os.getpid(), ignore_errors=True); shutil.rmtree('/tmp/seed_replays_%d' % os.getpid(), ignore_errors=True)
print(json.dumps(res, indent=1))
if name and confirmed:
    dst = '/verif/seeded/%s' % name
    os.makedirs(dst, exist_ok=True)
    for f in os.listdir(src):
        if os.path.isfile(os.path.join(src, f)) and os.path.getsize(os.path.join(src, f)) < 200000 and f != 'prompt.txt': shutil.copy(os.path.join(src, f), dst)
    meta = {}
    try: meta = json.load(open(os.path.join(src, 'meta.json')))
    except Exception: pass
    meta.update({'property': pid, 'confirmed_by': 'tools/seed_eval.py: demo.sh exit 0 on clean scratch worktree, non-zero with patch; pinned tests ' + res['pinned_tests'],
                 'check_tier': tier, 'check_rc': res.get('check_rc'), 'detected': res.get('detected'), 'check_lines': res.get('check_lines')})
    json.dump(meta, open(os.path.join(dst, 'meta.json'), 'w'), indent=1)
