"""C47 sysid log-Cholesky inertia parameters are always physical: the real numpy code of model_modifier.py runs on object arrays of z3 real terms (pysym)."""
import os, sys, types, math
import numpy as np
import z3
from vf import build, pysym
from vf.pysym import S, R
from vf.runner import Checker

ID = 'C47'
LEVEL = 'other'
ENGINE = 'pysym'
TECHNIQUE = ('symbolic execution of the real numpy code (pi_from_theta, pseudoinertia_from_pi, cholesky_decompose_upper, theta_from_pseudoinertia, apply_body_theta_inertia, pi_from_body) on object arrays '
             'of z3 real terms; exp/log/LAPACK-cholesky/mju_quat2Mat enter by contract; z3 (nlsat) decides positivity, definiteness (forall x != 0: x^T J x > 0) and round-trip equalities for ALL parameter values; '
             'counterexamples replayed on the unmodified module with float arrays')
EXPLANATION = ('model_modifier.py is loaded by path from /repo and its functions are executed by numpy on dtype=object arrays whose cells are z3 real terms: the 10 log-Cholesky parameters are free reals, '
               'exp(x) is a fresh positive real per argument, log(y) is a fresh real with log(exp(x)) = x, and np.linalg.cholesky(A) returns fresh lower-triangular cells constrained by L L^T = A with a positive diagonal '
               '(the index reversal around it is the repository\'s code and is executed). z3 is then asked for ANY parameter vector with non-positive mass, a vector x != 0 with x^T J x <= 0, a violated triangle inequality '
               '(on the diagonal entries and on the principal moments, i.e. Sigma = tr(I)/2 - I not positive definite), an asymmetric inertia, a recovered parameter that differs from the input, or - for '
               'apply_body_theta_inertia run on a stand-in body - a centre of mass, a parallel-axis transfer, a fullinertia ordering or a centroidal inertia that is unphysical or that pi_from_body does not map back to the same pi.')
BOUNDS = {'quick': {'theta': 'all real 10-vectors (unbounded; exp enters only through positivity)', 'x': 'all non-zero real 4-vectors / 3-vectors'}, 'thorough': {'same': 'plus the converse direction: every positive-definite pseudo-inertia has a parameter vector that maps back to it'}}
OUTSIDE = ('floating-point effects (exp underflow/overflow for |theta| beyond ~700, rounding in LAPACK); the C++ compiler\'s eigendecomposition of body.fullinertia into inertia/iquat (entered by its contract '
           'R diag(inertia) R^T = fullinertia in the apply->extract round trip); _infer_inertial (needs a compiled MjSpec).')
ASSUMPTIONS = ['real-number semantics', 'np.exp(x): a fresh real e > 0, equal arguments give equal results', 'np.log(y): a fresh real l with (y == exp(x)) -> l == x for every exp term created',
               'np.linalg.cholesky(A): lower-triangular L, positive diagonal, L L^T == A', 'mujoco.mju_quat2Mat enters through inertia_to_fullinertia := the symmetric matrix stored in body.fullinertia (documented order M11,M22,M33,M12,M13,M23)',
               'the spec body is a stand-in object with mass/ipos/inertia/iquat/fullinertia attributes; parameter.py (needs colorama/tabulate) is replaced by a module with the four imported names']
BUDGET = {'quick': 200, 'thorough': 400}
SRC = 'python/mujoco/sysid/_src'
NAMES = ['alpha', 'd1', 'd2', 'd3', 's12', 's23', 's13', 't1', 't2', 't3']


class Ctx:
    """contracts for the compiled numerics the module calls"""
    def __init__(self): self.cons = []; self.n = 0; self.exps = {}; self.logs = []
    def fresh(self, p): self.n += 1; return z3.Real('%s%d' % (p, self.n))
    def exp(self, x):
        x = R(x); k = x.sexpr()
        if k not in self.exps:
            e = self.fresh('e'); self.cons.append(e > 0); self.exps[k] = (x, e)
        return S(self.exps[k][1])
    def log(self, y):
        y = R(y); l = self.fresh('l'); self.logs.append((y, l)); return S(l)
    def cholesky(self, A):
        n = A.shape[0]; L = np.empty((n, n), dtype=object)
        for i in range(n):
            for j in range(n):
                if j <= i:
                    v = self.fresh('L'); L[i, j] = S(v)
                    if i == j: self.cons.append(v > 0)
                else: L[i, j] = S(z3.RealVal(0))
        P = L @ L.T
        for i in range(n):
            for j in range(i + 1): self.cons.append(R(P[i, j]) == R(A[i, j]))
        return L
    def axioms(self):
        return [z3.Implies(y == e, l == x) for (y, l) in self.logs for (x, e) in self.exps.values()]
    def overrides(self):
        return {'exp': self.exp, 'log': self.log, 'linalg': types.SimpleNamespace(cholesky=self.cholesky)}


def load(ctx=None):
    import mujoco
    for name in ('mujoco.sysid', 'mujoco.sysid._src'):
        if name not in sys.modules:
            m = types.ModuleType(name); m.__path__ = []; sys.modules[name] = m
    par = types.ModuleType('mujoco.sysid._src.parameter')
    class Parameter:
        def __init__(self, value): self.value = value
    par.Parameter = Parameter; par.InertiaType = types.SimpleNamespace(Mass=0, MassIpos=1, Pseudo=2); par.ModifierFn = object; par.ParameterDict = dict
    sys.modules['mujoco.sysid._src.parameter'] = par
    mm = pysym.load_by_path('vf_c47_%s' % ('sym' if ctx else 'conc'), os.path.join(build.REPO, SRC, 'model_modifier.py'))
    if ctx is not None: mm.np = pysym.NpShim(ctx.overrides())
    return mm


def fake_body(symbolic):
    """stand-in for mjsBody with its defaults: fullinertia undefined (NaN), iquat identity, inertia zero"""
    mk = lambda n, v: np.array([v] * n, dtype=object) if symbolic else np.full(n, float(v))
    b = types.SimpleNamespace(mass=None, ipos=mk(3, 0.0), inertia=mk(3, 0.0), iquat=mk(4, 0.0), fullinertia=mk(6, float('nan')), explicitinertial=True)
    b.iquat[0] = 1.0
    return b


def isnan(c): return isinstance(c, (float, np.floating)) and c != c


def full_from_body(body):
    """the inertia tensor (about the centre of mass, body axes) the compiler derives from the spec body - documented contract of mjCBody: fullinertia, when defined, wins;
    otherwise R(iquat) diag(inertia) R(iquat)^T"""
    f = body.fullinertia
    sym = any(isinstance(c, S) for c in list(f) + list(np.asarray(body.inertia, dtype=object).ravel()))
    if not isnan(f[0]):
        return np.array([[f[0], f[3], f[4]], [f[3], f[1], f[5]], [f[4], f[5], f[2]]], dtype=object if sym else float)
    q = [c for c in body.iquat]
    if any(isnan(c) for c in q): return None      # neither representation defined: the compiler rejects the body
    w_, x, y, z = q
    Rm = [[1 - 2 * (y * y + z * z), 2 * (x * y - w_ * z), 2 * (x * z + w_ * y)], [2 * (x * y + w_ * z), 1 - 2 * (x * x + z * z), 2 * (y * z - w_ * x)], [2 * (x * z - w_ * y), 2 * (y * z + w_ * x), 1 - 2 * (x * x + y * y)]]
    d = list(np.asarray(body.inertia, dtype=object).ravel())
    out = np.empty((3, 3), dtype=object if sym else float)
    for i in range(3):
        for j in range(3):
            out[i, j] = sum(Rm[i][k] * d[k] * Rm[j][k] for k in range(3))
    return out


def theta_of(model, th, ctx):
    """concrete parameter vector: exp-ed components get log of the model's e value"""
    vals = []
    ev = {k: e for k, (x, e) in ctx.exps.items()}
    for t in th:
        k = t.sexpr()
        if k in ev:
            v = model.eval(ev[k], model_completion=True)
            f = float(z3.simplify(v).as_fraction()) if z3.is_rational_value(z3.simplify(v)) else float(v.approx(20).as_fraction())
            vals.append(math.log(f) if f > 0 else float('nan'))
        else:
            v = z3.simplify(model.eval(t, model_completion=True))
            vals.append(float(v.as_fraction()) if z3.is_rational_value(v) else float(v.approx(20).as_fraction()))
    return np.array(vals)


def numeric_facts(theta):
    """the property evaluated numerically on the unmodified module"""
    mm = load(None)
    pi = mm.pi_from_theta(theta)
    J = mm.pseudoinertia_from_pi(pi)
    Ib = pi[4:].reshape(3, 3)
    ev = np.linalg.eigvalsh(0.5 * (J + J.T)); pm = np.linalg.eigvalsh(0.5 * (Ib + Ib.T))
    out = {'theta': theta.tolist(), 'mass': float(pi[0]), 'min_eig_J': float(ev[0]), 'principal_moments': pm.tolist(), 'asym': float(np.max(np.abs(Ib - Ib.T))), 'J_asym': float(np.max(np.abs(J - J.T)))}
    try:
        out['roundtrip_err'] = float(np.max(np.abs(mm.theta_from_pseudoinertia(J) - theta)))
    except Exception as e:
        out['roundtrip_err'] = float('inf'); out['roundtrip_exc'] = repr(e)
    body = fake_body(False)
    mm._infer_inertial = lambda spec, name: body
    try:
        mm.apply_body_theta_inertia(None, 'b', theta)
        F = full_from_body(body); c = np.asarray(body.ipos, dtype=float)
        if F is None: raise ValueError('body has neither fullinertia nor inertia/iquat defined')
        F = np.asarray(F, dtype=float)
        mm.inertia_to_fullinertia = lambda q, inertia: F
        pi2 = mm.pi_from_body(None, 'b')
        out['apply_extract_err'] = float(np.max(np.abs(pi2 - pi))); out['com_err'] = float(np.max(np.abs(c * pi[0] - pi[1:4])))
        out['centroidal_moments'] = np.linalg.eigvalsh(F).tolist()
        Ib = pi[4:].reshape(3, 3); cc = float(c @ c)
        ref = Ib - pi[0] * (cc * np.eye(3) - np.outer(c, c))
        out['inertia_rel_err'] = float(np.max(np.abs(F - ref)) / max(np.max(np.abs(ref)), 1e-300))
    except Exception as e:
        out['apply_extract_err'] = float('inf'); out['apply_exc'] = repr(e)
    return out


def make_replay(th, ctx, pred):
    def rp(model, witness):
        theta = theta_of(model, th, ctx)
        if not np.all(np.isfinite(theta)): return False, {'theta': str(theta)}
        f = numeric_facts(theta)
        return bool(pred(f)), f
    return rp


TOL = 1e-7


def setup():
    ctx = Ctx(); mm = load(ctx)
    th = [z3.Real(n) for n in NAMES]
    theta = np.array([S(t) for t in th], dtype=object)
    return ctx, mm, th, theta


def unit_physical(tier):
    ck = Checker('physical', tier, timeout_s=60, semantics='real')
    ctx, mm, th, theta = setup()
    pi = mm.pi_from_theta(theta)
    J = mm.pseudoinertia_from_pi(pi)
    ck.functions |= {'pi_from_theta', 'pseudoinertia_from_pi'}
    dec = lambda m: {n: str(m.eval(t, model_completion=True)) for n, t in zip(NAMES, th)} | {'exp': {k: str(m.eval(e, model_completion=True)) for k, (x, e) in ctx.exps.items()}}
    scale = lambda f: max(1.0, abs(f['mass']), max(abs(v) for v in f['principal_moments']))
    ck.prove('pi has 13 entries [m, h(3), I(3x3)] and J is 4x4', [], z3.BoolVal(pi.shape == (13,) and J.shape == (4, 4)), site='pi_from_theta:shape')
    ck.prove('mass > 0', ctx.cons, R(pi[0]) > 0, site='pi_from_theta:mass', decode=dec, replay=make_replay(th, ctx, lambda f: f['mass'] <= 0))
    x = [z3.Real('x%d' % i) for i in range(4)]
    q = sum(x[i] * x[j] * R(J[i, j]) for i in range(4) for j in range(4))
    ck.prove('pseudo-inertia positive definite: x^T J x > 0 for every x != 0', ctx.cons + [z3.Or(*[xi != 0 for xi in x])], q > 0, site='pseudoinertia:definite', decode=dec,
             replay=make_replay(th, ctx, lambda f: f['min_eig_J'] <= TOL * scale(f)))
    ck.prove('pseudo-inertia symmetric', ctx.cons, z3.And(*[R(J[i, j]) == R(J[j, i]) for i in range(4) for j in range(i)]), site='pseudoinertia:symmetric', decode=dec,
             replay=make_replay(th, ctx, lambda f: f['J_asym'] > TOL * scale(f)))
    Ib = pi[4:].reshape(3, 3)
    ck.prove('rotational inertia symmetric', ctx.cons, z3.And(*[R(Ib[i, j]) == R(Ib[j, i]) for i in range(3) for j in range(i)]), site='pi_from_theta:symmetric', decode=dec,
             replay=make_replay(th, ctx, lambda f: f['asym'] > TOL * scale(f)))
    d = [R(Ib[i, i]) for i in range(3)]
    ck.prove('triangle inequalities on the diagonal moments', ctx.cons, z3.And(d[0] + d[1] > d[2], d[0] + d[2] > d[1], d[1] + d[2] > d[0], d[0] > 0, d[1] > 0, d[2] > 0), site='pi_from_theta:triangle-diag', decode=dec,
             replay=make_replay(th, ctx, lambda f: True))
    tr = d[0] + d[1] + d[2]
    sg = [[(tr / 2 if i == j else 0) - R(Ib[i, j]) for j in range(3)] for i in range(3)]
    q3 = sum(x[i] * x[j] * sg[i][j] for i in range(3) for j in range(3))
    def tri_bad(f):
        a, b, c = f['principal_moments']; s = scale(f)
        return a <= TOL * s or a + b <= c + TOL * s
    ck.prove('triangle inequalities on the principal moments: tr(I)/2 - I positive definite', ctx.cons + [z3.Or(*[xi != 0 for xi in x[:3]])], q3 > 0, site='pi_from_theta:triangle-principal', decode=dec,
             replay=make_replay(th, ctx, tri_bad))
    qi = sum(x[i] * x[j] * R(Ib[i, j]) for i in range(3) for j in range(3))
    ck.prove('rotational inertia positive definite', ctx.cons + [z3.Or(*[xi != 0 for xi in x[:3]])], qi > 0, site='pi_from_theta:inertia-definite', decode=dec, replay=make_replay(th, ctx, tri_bad))
    # the first moment h and mass give the pseudo-inertia's last column (layout of J)
    ck.prove('J last column is [h, m] and J[:3,:3] = tr(I)/2 - I', ctx.cons, z3.And(*([R(J[i, 3]) == R(pi[1 + i]) for i in range(3)] + [R(J[3, 3]) == R(pi[0])] + [R(J[i, j]) == sg[i][j] for i in range(3) for j in range(3)])),
             site='pseudoinertia:layout', decode=dec, replay=make_replay(th, ctx, lambda f: True))
    ck.reach('contracts satisfiable', ctx.cons)
    return ck


def unit_roundtrip(tier):
    ck = Checker('roundtrip', tier, timeout_s=90, semantics='real')
    ctx, mm, th, theta = setup()
    J = mm.pseudoinertia_from_pi(mm.pi_from_theta(theta))
    th2 = mm.theta_from_pseudoinertia(J)
    ck.functions |= {'pi_from_theta', 'pseudoinertia_from_pi', 'theta_from_pseudoinertia', 'cholesky_decompose_upper'}
    cons = ctx.cons + ctx.axioms()
    dec = lambda m: {n: str(m.eval(t, model_completion=True)) for n, t in zip(NAMES, th)} | {'exp': {k: str(m.eval(e, model_completion=True)) for k, (x, e) in ctx.exps.items()}}
    ck.prove('theta_from_pseudoinertia returns 10 entries', [], z3.BoolVal(th2.shape == (10,)), site='theta_from_pseudoinertia:shape')
    for i, n in enumerate(NAMES):
        # replay-friendly counterexamples: a visible difference (1e-3 absolute, or 1% in the argument of the logarithm)
        t2 = R(th2[i]); arg = [y for (y, l) in ctx.logs if l.eq(t2)]
        if arg: pref = [z3.Or(*[z3.Or(arg[0] >= z3.RealVal('101/100') * e, arg[0] <= z3.RealVal('99/100') * e) for (x, e) in ctx.exps.values() if x.eq(th[i])])]
        else: pref = [z3.Or(t2 - th[i] >= z3.RealVal('1/1000'), th[i] - t2 >= z3.RealVal('1/1000'))]
        ck.prove('recovered %s equals the input' % n, cons, R(th2[i]) == th[i], site='roundtrip:%s' % n, decode=dec, prefer=pref,
                 replay=make_replay(th, ctx, lambda f: not (f['roundtrip_err'] <= 1e-6 * max(1.0, max(abs(v) for v in f['theta'])))))
    ck.reach('contracts satisfiable (cholesky factor exists)', cons)
    return ck


def unit_apply(tier):
    ck = Checker('apply_body', tier, timeout_s=90, semantics='real')
    ctx, mm, th, theta = setup()
    ck.functions |= {'apply_body_theta_inertia', 'pi_from_theta', 'skew', 'pi_from_body'}
    dec = lambda m: {n: str(m.eval(t, model_completion=True)) for n, t in zip(NAMES, th)} | {'exp': {k: str(m.eval(e, model_completion=True)) for k, (x, e) in ctx.exps.items()}}
    # replay threshold: well above double rounding (1e-16) and far below any modelling-level discrepancy; it is only consulted for inputs on which the solver already found the symbolic claim violated
    bad_apply = lambda f: not (f['apply_extract_err'] <= 1e-11 * max(abs(f['mass']), max(abs(v) for v in f['principal_moments'])) and f['com_err'] <= 1e-11 * max(1.0, abs(f['mass'])) and f.get('inertia_rel_err', 1.0) <= 1e-11)
    rp = make_replay(th, ctx, bad_apply)
    def run():
        body = fake_body(True)
        mm._infer_inertial = lambda spec, name: body
        pi = mm.pi_from_theta(theta)
        mm.apply_body_theta_inertia(None, 'b', theta)
        return body, pi
    npaths = 0
    for pc, (body, pi), eng in pysym.explore(run, base=ctx.cons):
        npaths += 1; ck.queries += eng.nq
        cons = ctx.cons + pc
        ck.prove('body.mass is pi[0]', cons, R(body.mass) == R(pi[0]), site='apply_body_theta_inertia:mass', decode=dec, replay=rp)
        c = [R(v) for v in body.ipos]
        ck.prove('body.ipos is the centre of mass h/m', cons, z3.And(*[c[i] * R(pi[0]) == R(pi[1 + i]) for i in range(3)]), site='apply_body_theta_inertia:ipos', decode=dec, replay=rp)
        F = full_from_body(body)
        ck.prove('the body defines its inertia (fullinertia, or inertia with a defined iquat)', cons, z3.BoolVal(F is not None), site='apply_body_theta_inertia:defined', decode=dec, replay=rp)
        if F is None: continue
        # parallel-axis reference: I_com = I_origin - m (|c|^2 1 - c c^T)
        Ib = pi[4:].reshape(3, 3); m = R(pi[0])
        cc = c[0] * c[0] + c[1] * c[1] + c[2] * c[2]
        ref = [[R(Ib[i, j]) - m * ((cc if i == j else 0) - c[i] * c[j]) for j in range(3)] for i in range(3)]
        # a counterexample convenient to replay: relative error of some entry at least 1e-3 of the largest moment
        big = [z3.Or(*[(R(F[i, j]) - ref[i][j]) * (R(F[i, j]) - ref[i][j]) >= z3.RealVal('1/1000000') * ref[k][k] * ref[k][k] for i in range(3) for j in range(3)]) for k in range(3)]
        ck.prove('compiled inertia (fullinertia in the order M11,M22,M33,M12,M13,M23, or R diag(inertia) R^T) is the origin inertia moved to the centre of mass', cons, z3.And(*[R(F[i, j]) == ref[i][j] for i in range(3) for j in range(3)]),
                 site='apply_body_theta_inertia:parallel-axis', decode=dec, replay=rp, prefer=[z3.And(*big)])
        x = [z3.Real('x%d' % i) for i in range(3)]
        tr = R(F[0, 0]) + R(F[1, 1]) + R(F[2, 2])
        q = sum(x[i] * x[j] * ((tr / 2 if i == j else 0) - R(F[i, j])) for i in range(3) for j in range(3))
        def cent_bad(f):
            a, b, c_ = f['centroidal_moments']; s_ = max(abs(c_), 1e-300); return a <= TOL * s_ or a + b <= c_ + TOL * s_
        ck.prove('centroidal inertia compiles: principal moments positive and satisfy the triangle inequalities', cons + [z3.Or(*[xi != 0 for xi in x])], q > 0, site='apply_body_theta_inertia:centroidal-physical', decode=dec,
                 replay=make_replay(th, ctx, cent_bad), timeout_s=120)
        # extraction from the (compiled) body gives back the same pi
        mm._infer_inertial = lambda spec, name, body=body: body
        mm.inertia_to_fullinertia = lambda q_, inertia, F=F: F
        pi2 = mm.pi_from_body(None, 'b')
        ck.prove('pi_from_body(apply_body_theta_inertia(theta)) == pi_from_theta(theta)', cons, z3.And(*[R(a) == R(b) for a, b in zip(pi2, pi)]) if pi2.shape == pi.shape else z3.BoolVal(False),
                 site='apply_body_theta_inertia:extract', decode=dec, replay=rp, prefer=[z3.And(*big)])
        ck.reach('path %d reachable' % npaths, cons)
    ck.notes.append('paths through apply_body_theta_inertia: %d' % npaths)
    return ck


def unit_converse(tier):
    """every physical pi (J positive definite) has a theta: theta_from_pseudoinertia then pi_from_theta reproduces J"""
    ck = Checker('converse', tier, timeout_s=120, semantics='real')
    ctx = Ctx(); mm = load(ctx)
    # arbitrary symmetric J with a Cholesky factor (<=> positive definite), presented through the contract
    Jv = np.empty((4, 4), dtype=object)
    for i in range(4):
        for j in range(i, 4):
            v = S(z3.Real('J%d%d' % (i, j))); Jv[i, j] = v; Jv[j, i] = v
    th2 = mm.theta_from_pseudoinertia(Jv)
    # exp(log(y)) = y for y > 0: give pi_from_theta an exp that inverts the logs created above
    logs = list(ctx.logs)
    def exp_inv(x):
        x = R(x)
        for (y, l) in logs:
            if l.eq(x): return S(y)
        return ctx.exp(x)
    mm.np = pysym.NpShim(dict(ctx.overrides(), exp=exp_inv))
    pi = mm.pi_from_theta(th2)
    J2 = mm.pseudoinertia_from_pi(pi)
    ck.functions |= {'theta_from_pseudoinertia', 'cholesky_decompose_upper', 'pi_from_theta', 'pseudoinertia_from_pi'}
    for i in range(4):
        for j in range(i, 4):
            ck.prove('J[%d,%d] reproduced from its parameters' % (i, j), ctx.cons, R(J2[i, j]) == R(Jv[i, j]), site='converse:J%d%d' % (i, j))
    ck.reach('a positive definite J exists', ctx.cons)
    return ck


def units(tier):
    u = [('physical', 'unit_physical', {}), ('roundtrip', 'unit_roundtrip', {}), ('apply_body', 'unit_apply', {})]
    if tier != 'quick': u.append(('converse', 'unit_converse', {}))
    return u
