"""C41 The MJCF schema-language parser is total and its checks sound: finite-domain concolic execution of the real parser."""
import os, sys, time, importlib.util, json
import z3
from vf import build
from vf.symtok import Engine, SymAtom, SymSet
from vf.runner import Checker

ID = 'C41'
LEVEL = 'other'
ENGINE = 'symtok'
TECHNIQUE = 'finite-domain concolic execution of the real Python parser/validator: symbolic tokens, z3 decides branch feasibility, depth-first re-execution until the decision tree is exhausted; every non-SchemaError outcome and every accepted path is re-run concretely through parse_string'
EXPLANATION = ('doc/generate/mjcf_schema.py is loaded from /repo; its real _Parser.parse and _validate run on token lists whose kinds, values and line breaks are symbolic atoms over a vocabulary '
               'containing every keyword, type name, facet, cardinality and punctuation the code compares against (plus fresh identifiers, numbers and strings). z3 decides which side of '
               'every comparison is feasible and the code is re-executed depth-first until all paths within the bound are exhausted. Claims: every input ends in a Schema or a SchemaError '
               'carrying a line number inside the text (no other exception); every accepted input, re-parsed concretely by parse_string, satisfies an independently written statement of the '
               'documented rules (no dangling/cyclic use, no duplicate expanded attribute, children/aliases/enum targets exist, constraints name own attributes, requires is binary, variant groups '
               'have no use/required). Grammar-guided prefixes put the symbolic tokens inside element/group/enum bodies so the deep rules are reached.')
BOUNDS = {'quick': {'free token lists': '<= 3 tokens', 'guided': 'prefix + <= 2 symbolic tokens + closing text, and the same prefixes truncated (input ends after the symbolic tokens): 60 scenarios'}, 'thorough': {'free token lists': '<= 4 tokens', 'guided': 'prefix + <= 4 symbolic tokens'}}
OUTSIDE = 'inputs longer than the bound (e.g. use chains deeper than Python\'s recursion limit make _check_group_cycle raise RecursionError - noted, far outside any reachable bound); the regex lexer on arbitrary characters (only rendered token texts are lexed); documentation comments.'
ASSUMPTIONS = ['token values range over the stated vocabulary (the code never inspects characters of identifiers, only compares whole tokens)', 'one representative concrete input per explored path is re-parsed for the rule predicate']
BUDGET = {'quick': 500, 'thorough': 3000}

KINDS = ['ident', 'number', 'string', 'dotdot', '{', '}', '(', ')', '[', ']', '<', '>', ':', '=', ',', '?', '!', '*', '+']
IDENTS = ['enum', 'group', 'element', 'use', 'set', 'child', 'variant', 'requires', 'exclusive', 'together', 'oneof', 'double', 'int', 'bool', 'chars', 'string', 'file', 'id', 'ref', 'flags',
          'field', 'required', 'nodefault', 'min', 'max', 'positive', 'pattern', 'xml', 'alias', 'a', 'b', 'g', 'R']
NUMS = ['0', '1', '2', '2.5', '-1']
STRS = ['"x"', '""']
PUNCT = KINDS[4:]
VAL = IDENTS + NUMS + STRS + ['..'] + PUNCT


def load():
    spec = importlib.util.spec_from_file_location('vf_mjcf_schema_%d' % os.getpid(), os.path.join(build.REPO, 'doc/generate/mjcf_schema.py'))
    m = importlib.util.module_from_spec(spec); sys.modules[spec.name] = m; spec.loader.exec_module(m); return m


def render(tokens):
    """concrete text of a token list [(value, line)]"""
    out = []; line = 1
    for v, ln in tokens:
        while line < ln: out.append('\n'); line += 1
        out.append(v + ' ')
    return ''.join(out)


def sound(S, sch):
    """independent statement of the documented rules for an accepted schema; returns list of violated rules"""
    bad = []
    groups, elements, enums = sch.groups, sch.elements, sch.enums
    def uses(members): return [m for m in members if isinstance(m, S.Use)]
    def attrs(members): return [m for m in members if isinstance(m, S.Attr)]
    for c in list(groups.values()) + list(elements.values()):
        for u in uses(c.members):
            if u.group not in groups: bad.append('dangling use %s' % u.group)
    # cycles
    def reach(g, seen):
        if g in seen: return True
        if g not in groups: return False
        return any(reach(u.group, seen | {g}) for u in uses(groups[g].members))
    for g in groups:
        if reach(g, frozenset()): bad.append('use cycle through %s' % g)
    if bad: return bad
    def expand(members):
        out = []
        for m in members:
            if isinstance(m, S.Attr): out.append(m.name)
            elif isinstance(m, S.Use): out += expand(groups[m.group].members)
        return out
    for e in elements.values():
        names = expand(e.members)
        if len(names) != len(set(names)): bad.append('duplicate attribute in element %s' % e.name)
        ch = [m.name for m in e.members if isinstance(m, S.Child)]
        if len(ch) != len(set(ch)): bad.append('duplicate child in %s' % e.name)
        for c in ch:
            if c not in elements: bad.append('dangling child %s' % c)
        al = e.facets.get('alias')
        if al is not None and al not in elements: bad.append('dangling alias %s' % al)
        for con in [m for m in e.members if isinstance(m, S.Constraint)]:
            for b in con.bundles:
                for n in b:
                    if n not in names: bad.append('constraint names unknown attribute %s' % n)
            if con.kind == 'requires' and (len(con.bundles) != 2 or any(len(b) != 1 for b in con.bundles)): bad.append('requires not binary')
    for g in groups.values():
        own = [a.name for a in attrs(g.members)]
        for con in [m for m in g.members if isinstance(m, S.Constraint)]:
            for b in con.bundles:
                for n in b:
                    if n not in own: bad.append('group constraint names unknown attribute %s' % n)
        if g.variant:
            if uses(g.members): bad.append('variant group with use')
            if any(a.facets.get('required') for a in attrs(g.members)): bad.append('variant group with required attribute')
    for c in list(groups.values()) + list(elements.values()):
        for a in attrs(c.members):
            if a.type in ('enum', 'flags') and a.target not in enums: bad.append('dangling enum %s' % a.target)
    return bad


def explore(ck, S, prefix, nsym, suffix, part, nparts, budget_s, tag):
    E = Engine()
    for attr in ('KNOWN_FACETS', 'ELEMENT_FACETS', 'SCALAR_TYPES', 'CARDINALITIES'):
        setattr(S, attr, SymSet(E, getattr(S, attr)))
    if hasattr(S._Parser, 'CONSTRAINT_VERBS'): S._Parser.CONSTRAINT_VERBS = SymSet(E, S._Parser.CONSTRAINT_VERBS)
    pre_tokens = [t for t in S._lex(prefix, '<p>')[0] if t.kind != 'eof'] if prefix else []
    suf_tokens = [t for t in S._lex(suffix, '<s>')[0] if t.kind != 'eof'] if suffix else []
    ks = [z3.Int('k%d' % i) for i in range(nsym)]; vs = [z3.Int('v%d' % i) for i in range(nsym)]; nls = [z3.Bool('nl%d' % i) for i in range(nsym)]
    n = z3.Int('n')
    base = [n >= 0, n <= nsym]
    for i in range(nsym):
        k, v = ks[i], vs[i]
        base += [k >= 0, k < len(KINDS), v >= 0, v < len(VAL), z3.Implies(k == 0, v < len(IDENTS)), z3.Implies(k == 1, z3.And(v >= len(IDENTS), v < len(IDENTS) + len(NUMS))),
                 z3.Implies(k == 2, z3.And(v >= len(IDENTS) + len(NUMS), v < len(IDENTS) + len(NUMS) + len(STRS))), z3.Implies(k == 3, v == VAL.index('..'))]
        for j, p in enumerate(PUNCT): base.append(z3.Implies(k == 4 + j, v == len(VAL) - len(PUNCT) + j))
    if nsym and nparts > 1: base.append(z3.And(ks[0] >= (part * len(KINDS)) // nparts, ks[0] < ((part + 1) * len(KINDS)) // nparts))
    E.base = base
    t0 = time.time(); npaths = 0; outcomes = {}; done = True
    while True:
        E.reset()
        toks = []; line = 1
        for t in pre_tokens: toks.append(S._Token(t.kind, t.value, t.line)); line = t.line
        ln = 0
        for i in range(nsym):
            if not E.branch(n > i): break
            ln = i + 1
            if E.branch(nls[i]): line += 1
            toks.append(S._Token(SymAtom(E, ks[i], KINDS), SymAtom(E, vs[i], VAL), line))
        for t in suf_tokens: toks.append(S._Token(t.kind, t.value, line + t.line - 1))
        last = line + (suf_tokens[-1].line - 1 if suf_tokens else 0)
        toks.append(S._Token('eof', '', last))
        p = object.__new__(S._Parser); p.path = '<s>'; p.tokens = toks; p.comments = {}; p.pos = 0
        try:
            sch = p.parse(); S._validate(sch); out = 'accepted'
        except S.SchemaError as e:
            out = 'SchemaError' if (isinstance(e.line, int) and 1 <= e.line <= last) else 'SchemaError-bad-line'
        except RecursionError: out = 'RecursionError'
        except Exception as e: out = type(e).__name__
        npaths += 1; outcomes[out] = outcomes.get(out, 0) + 1
        if out != 'SchemaError':
            # concrete confirmation through the public entry point
            m = E.model()
            conc = [(t.value, t.line) for t in pre_tokens]
            l2 = pre_tokens[-1].line if pre_tokens else 1
            for i in range(ln):
                if z3.is_true(m.eval(nls[i], model_completion=True)): l2 += 1
                conc.append((VAL[m.eval(vs[i], model_completion=True).as_long()], l2))
            for t in suf_tokens: conc.append((t.value, l2 + t.line - 1))
            text = render(conc)
            nlines = text.count('\n') + 1
            try:
                sch2 = S.parse_string(text); res = 'accepted'
            except S.SchemaError as e2:
                res = 'SchemaError' if (isinstance(e2.line, int) and 1 <= e2.line <= nlines) else 'SchemaError-bad-line %r (text has %d lines)' % (e2.line, nlines)
            except Exception as e2:
                res = 'EXC %s: %s' % (type(e2).__name__, str(e2)[:80])
            if res.startswith('EXC') or res.startswith('SchemaError-bad-line'):
                ck.obs.append({'name': '%s: parser total (only SchemaError with a valid line)' % tag, 'site': '_Parser.parse:totality', 'status': 'sat', 'time_s': 0, 'semantics': 'symtok', 'kind': 'post',
                               'sample': text[:120], 'witness': {'text': text, 'outcome': res}, 'replay': 'reproduced', 'replay_detail': {'parse_string': res}})
                ck.nviol += 1
            elif res == 'accepted':
                viol = sound(S, sch2)
                if viol:
                    ck.obs.append({'name': '%s: accepted schema satisfies the documented rules' % tag, 'site': '_validate:soundness', 'status': 'sat', 'time_s': 0, 'semantics': 'symtok', 'kind': 'post',
                                   'sample': text[:120], 'witness': {'text': text, 'violated': viol}, 'replay': 'reproduced', 'replay_detail': {'parse_string': 'accepted', 'violated': viol}})
                    ck.nviol += 1
            # proxy artefact (symbolic run failed, concrete run fine): the concrete verdict stands
        if ck.nviol >= ck.max_violations: done = False; break
        if not E.next_path(): break
        if time.time() - t0 > budget_s: done = False; break
    ck.queries += E.nq; ck.solver_s += 0
    ck.paths[tag] = npaths
    ok_exhaustive = done
    ck.obs.append({'name': '%s: every path ends in a Schema or a SchemaError with an in-range line (%d paths, outcomes %s)' % (tag, npaths, outcomes), 'site': 'explore:' + tag,
                   'status': 'unsat' if ok_exhaustive else 'unknown', 'time_s': round(time.time() - t0, 2), 'semantics': 'symtok', 'kind': 'post', 'sample': '%s prefix=%r nsym=%d suffix=%r -> %s' % (tag, prefix, nsym, suffix, outcomes)})
    if not ok_exhaustive and ck.nviol < ck.max_violations: ck.inconclusive.append('%s: decision tree not exhausted within %ds' % (tag, budget_s))
    return outcomes


SCENARIOS = [  # (tag, prefix, suffix)
    ('element-body', 'element a {', '}'), ('element-after-attr', 'element a { b : int', '}'), ('element-use', 'group g { b : int } element a { use', '}'),
    ('element-dup', 'group g { b : int } element a { use g', '}'), ('group-body', 'group g {', '}'), ('group-variant', 'group g variant {', '}'),
    ('group-cycle', 'group a { use b } group b { use', '}'), ('enum-body', 'enum a {', '}'), ('attr-type', 'element a { b :', '}'), ('attr-default', 'element a { b : double =', '}'),
    ('attr-facets', 'element a { b : int (', ') }'), ('element-facets', 'element b { } element a (', ') { }'), ('child', 'element b { } element a { child', '}'),
    ('constraint', 'element a { b : int g : int requires', '}'), ('arity', 'element a { b : double [', '}'),
    ('child-dup', 'element b { } element a { child b ? child', '}'), ('attr-dup', 'element a { b : int b :', '}'), ('use-dup-attr', 'group g { b : int } element a { b : int use', '}'),
    ('alias', 'element b { } element a ( alias =', ') { }'), ('enum-target', 'enum b { a = a } element a { g : enum <', '}'), ('variant-required', 'group g variant { b : int (', ') }'),
    ('variant-use', 'group b { } group g variant { use', '}'), ('requires-extra', 'element a { b : int g : int requires b g', '}'), ('group-constraint', 'group g { b : int exclusive b', '}'),
    ('ref-namespace', 'element a { b : ref <', '}'), ('default-arity', 'element a { b : double [ 2 ] = {', '}'),
    # duplicate expanded attributes by every route: inside one group, through a nested use, through two uses
    ('dup-in-group', 'group g { b : int b : int } element a { use', '}'), ('dup-nested-use', 'group g { b : int } group R { b : int use g } element a { use', '}'),
    ('dup-two-uses', 'group g { b : int } group R { b : int } element a { use g use', '}'), ('dup-group-decl', 'group g { b : int b :', '}')]
# the same prefixes cut off (no closing text): the input ends wherever the symbolic tokens end
TRUNCATED = [(tag + '-eof', pre, '') for tag, pre, suf in SCENARIOS if suf]


def unit_free(tier, n, part, nparts):
    ck = Checker('free_n%d_p%d' % (n, part), tier, semantics='symtok')
    S = load()
    explore(ck, S, '', n, '', part, nparts, 400 if tier == 'quick' else 2500, 'free<=%d' % n)
    ck.functions |= {'_Parser.parse', '_Parser.parse_enum', '_Parser.parse_group', '_Parser.parse_element', '_Parser.parse_member', '_Parser.parse_attr', '_Parser.parse_type', '_Parser.parse_arity',
                     '_Parser.parse_default', '_Parser.parse_facets', '_validate', '_validate_attr', '_check_group_cycle', 'parse_string', '_lex'}
    ck.reach('vocabulary non-empty', [])
    return ck


def unit_guided(tier, tag, prefix, suffix, nsym):
    ck = Checker('guided_%s' % tag, tier, semantics='symtok')
    S = load()
    out = explore(ck, S, prefix, nsym, suffix, 0, 1, 400 if tier == 'quick' else 2500, tag)
    ck.functions |= {'_Parser.parse', '_validate', '_validate_attr', '_check_group_cycle', 'parse_string', '_lex'}
    ck.reach('scenario', [])
    return ck


def units(tier):
    u = []
    if tier == 'quick':
        u += [('free_n2', 'unit_free', {'n': 2, 'part': 0, 'nparts': 1})] + [('free_n3_p%d' % p, 'unit_free', {'n': 3, 'part': p, 'nparts': 4}) for p in range(4)]
        ns = 2
    else:
        u += [('free_n3_p%d' % p, 'unit_free', {'n': 3, 'part': p, 'nparts': 4}) for p in range(4)] + [('free_n4_p%d' % p, 'unit_free', {'n': 4, 'part': p, 'nparts': 16}) for p in range(16)]
        ns = 3
    for tag, pre, suf in SCENARIOS + TRUNCATED: u.append(('guided_%s' % tag, 'unit_guided', {'tag': tag, 'prefix': pre, 'suffix': suf, 'nsym': ns}))
    return u
