"""C11 Constraint forces are admissible: bounds/sign/cone membership of every force the constraint update can return; pyramid encode/decode."""
import z3
from vf import ir, build, llsym, world as W
from vf.leaf import Leaf
from vf.runner import Checker
from props import cu_common as cu
from props.cu_common import CU

ID = 'C11'
LEVEL = 'other'
EXPLANATION = ('llsym runs the real mj_constraintUpdate_impl (the function every solver ends with) in real-algebraic mode for each row type and proves for ALL residuals and parameters: '
               'friction-loss forces satisfy |f| <= frictionloss (and equal +-frictionloss exactly in the linear zones), limit / frictionless / pyramidal forces are >= 0, elliptic contact forces have '
               'normal component >= 0 and friction-weighted tangential norm bounded by it (on the cone boundary in the middle zone, zero in the top zone); the bottom zone is entered only when '
               'mu*N + T <= 0. Also mju_decodePyramid(mju_encodePyramid(f)) = f for forces inside the cone, pyramid edge forces >= 0, decode gives normal = sum of edges.')
BOUNDS = {'quick': {'rows': 'friction, limit, pyramidal, elliptic condim 1, 3, 4', 'pyramid': 'condim 1, 3, 4'}, 'thorough': {'rows': '+ elliptic condim 6', 'pyramid': '+ condim 6'}}
OUTSIDE = 'qfrc_constraint = J^T efc_force (sparse/dense mulJacTVec), mj_contactForce (adhesion offset), forces produced by solver iterations other than through this function.'
ASSUMPTIONS = cu.__dict__.get('ASSUMPTIONS', ['D > 0, R > 0 with D*R = 1, floss >= 0, mu > 0, friction > 0', 'rows of one elliptic contact satisfy D_j mu^2 = D_0 friction_{j-1}^2 (mj_makeImpedance)', 'real-number semantics'])
BUDGET = {'quick': 600, 'thorough': 2400}


def prepare(tier): cu.prepare(); misc()


_c = {}


def misc():
    if 'm' not in _c:
        _c['m'] = ir.load(['src/engine/engine_util_misc.c', 'src/engine/engine_util_blas.c'])
        _c['so'] = build.native_lib(['src/engine/engine_util_misc.c'], ['src/engine/engine_util_blas.c', 'src/engine/engine_util_errmem.c'], name='misc')
    return _c['m'], _c['so']


def unit_rows(tier, rows, tag):
    ck = Checker('admissible_' + tag, tier, timeout_s=150, semantics='real')
    k = cu.K()
    S = CU(rows)
    ck.note_results(S.ex, S.res)
    for p in S.paths():
        f = p['force']; pc = p['pc']
        for i, (kind, j) in enumerate(S.kind):
            if kind == 'fric':
                ck.prove('friction-loss force bounded: |f| <= frictionloss (zone %s)' % p['state'][i], pc, z3.And(f[i] <= S.fl[i], f[i] >= -S.fl[i]), site='mj_constraintUpdate_impl:friction-bound', decode=S.decode(), replay=p['replay'])
                if p['state'][i] == k['mjCNSTRSTATE_LINEARNEG']: ck.prove('linear-negative zone: force = +frictionloss', pc, f[i] == S.fl[i], site='mj_constraintUpdate_impl:friction-linear', decode=S.decode(), replay=p['replay'])
                if p['state'][i] == k['mjCNSTRSTATE_LINEARPOS']: ck.prove('linear-positive zone: force = -frictionloss', pc, f[i] == -S.fl[i], site='mj_constraintUpdate_impl:friction-linear', decode=S.decode(), replay=p['replay'])
            elif kind in ('limit', 'pyr'):
                ck.prove('%s force is non-negative (zone %s)' % ('limit' if kind == 'limit' else 'pyramidal/frictionless contact', p['state'][i]), pc, f[i] >= 0, site='mj_constraintUpdate_impl:nonnegative', decode=S.decode(), replay=p['replay'])
                ck.prove('%s force vanishes when the constraint is satisfied and equals -D*jar otherwise' % kind, pc, f[i] == z3.If(S.jar[i] >= 0, 0, -S.D[i] * S.jar[i]), site='mj_constraintUpdate_impl:unilateral', decode=S.decode(), replay=p['replay'])
            elif kind == 'ell' and j == 0:
                dim = S.condim
                fN = f[i]
                tang = sum([(f[i + q] / S.fr[q - 1]) * (f[i + q] / S.fr[q - 1]) for q in range(1, dim)], z3.RealVal(0))
                ck.prove('elliptic contact: normal force >= 0 and friction-weighted tangential norm <= normal force (zone %s)' % p['state'][i], pc, z3.And(fN >= 0, tang <= fN * fN),
                         site='mj_constraintUpdate_impl:cone', decode=S.decode(), replay=p['replay'], timeout_s=120)
                if p['state'][i] == k['mjCNSTRSTATE_CONE']:
                    ck.prove('elliptic middle zone: force lies on the cone boundary', pc, tang == fN * fN, site='mj_constraintUpdate_impl:cone-boundary', decode=S.decode(), replay=p['replay'], timeout_s=120)
                if p['state'][i] == k['mjCNSTRSTATE_SATISFIED']:
                    ck.prove('elliptic top zone: all components zero', pc, z3.And(*[f[i + q] == 0 for q in range(dim)]), site='mj_constraintUpdate_impl:cone-top', decode=S.decode(), replay=p['replay'])
        ck.reach('zone %s reachable' % p['state'], pc)
    ck.memory_obligations(S.res)
    return ck


def unit_pyramid(tier, dim):
    ck = Checker('pyramid_dim%d' % dim, tier, timeout_s=120, semantics='real')
    m, so = misc()
    I = lambda v: z3.BitVecVal(v, 32)
    ne = max(2 * (dim - 1), 1)
    # decode: linear map
    L = Leaf(ck, m, so, 'mju_decodePyramid', [('arr', 'force', dim, 'out'), ('arr', 'pyramid', ne), ('arr', 'mu', max(dim - 1, 1)), ('i32', 'dim', dim)], pre=lambda v: [x > 0 for x in v['mu']])
    for pc, out, ret, rp in L.paths():
        pyr, mu = L.v['pyramid'], L.v['mu']
        if dim == 1: ck.prove('decodePyramid dim 1: force = edge', pc, out['force'][0] == pyr[0], site='mju_decodePyramid:frictionless', decode=L.decode(), replay=rp); continue
        ck.prove('decodePyramid: normal = sum of edge forces, tangent_i = (e0_i - e1_i) mu_i', pc, z3.And(out['force'][0] == sum(pyr), *[out['force'][i + 1] == (pyr[2 * i] - pyr[2 * i + 1]) * mu[i] for i in range(dim - 1)]),
                 site='mju_decodePyramid:formula', decode=L.decode(), replay=rp)
        ck.prove('decodePyramid of non-negative edge forces lies in the pyramid: normal >= 0, |tangent_i| <= mu_i * normal', pc + [e >= 0 for e in pyr],
                 z3.And(out['force'][0] >= 0, *[z3.And(out['force'][i + 1] <= mu[i] * out['force'][0], out['force'][i + 1] >= -mu[i] * out['force'][0]) for i in range(dim - 1)]), site='mju_decodePyramid:admissible', decode=L.decode(), replay=rp)
    if dim > 1:
        # encode then decode (two real calls chained symbolically)
        L1 = Leaf(ck, m, so, 'mju_encodePyramid', [('arr', 'pyramid', ne, 'out'), ('arr', 'force', dim), ('arr', 'mu', dim - 1), ('i32', 'dim', dim)],
                  pre=lambda v: [x > 0 for x in v['mu']] + [v['force'][0] >= 0] + [z3.And(v['force'][i + 1] <= v['mu'][i] * v['force'][0] / (dim - 1), v['force'][i + 1] >= -v['mu'][i] * v['force'][0] / (dim - 1)) for i in range(dim - 1)])
        for pc, out, ret, rp in L1.paths():
            f, mu, pyr = L1.v['force'], L1.v['mu'], out['pyramid']
            ck.prove('encodePyramid: edge forces are non-negative for a force inside the pyramid', pc, z3.And(*[e >= 0 for e in pyr]), site='mju_encodePyramid:nonnegative', decode=L1.decode(), replay=rp)
            dec = [sum(pyr)] + [(pyr[2 * i] - pyr[2 * i + 1]) * mu[i] for i in range(dim - 1)]
            ck.prove('decodePyramid(encodePyramid(f)) = f for a force inside the pyramid', pc, z3.And(*[a == b for a, b in zip(dec, f)]), site='mju_encodePyramid:roundtrip', decode=L1.decode(), replay=rp)
    return ck


def units(tier):
    u = [('admissible_fric', 'unit_rows', {'rows': [('fric', 0)], 'tag': 'fric'}), ('admissible_limit', 'unit_rows', {'rows': [('limit', 0)], 'tag': 'limit'}),
         ('admissible_pyr', 'unit_rows', {'rows': [('pyr', 0)], 'tag': 'pyr'}), ('admissible_ell1', 'unit_rows', {'rows': [('ell', 1)], 'tag': 'ell1'}),
         ('admissible_ell3', 'unit_rows', {'rows': [('ell', 3)], 'tag': 'ell3'}), ('admissible_ell4', 'unit_rows', {'rows': [('ell', 4)], 'tag': 'ell4'}),
         ('admissible_mixed', 'unit_rows', {'rows': [('eq', 0), ('fric', 0), ('limit', 0), ('ell', 3)], 'tag': 'mixed'})]
    for d in ([1, 3, 4] if tier == 'quick' else [1, 3, 4, 6]): u.append(('pyramid_dim%d' % d, 'unit_pyramid', {'dim': d}))
    if tier == 'thorough': u.append(('admissible_ell6', 'unit_rows', {'rows': [('ell', 6)], 'tag': 'ell6'}))
    return u
