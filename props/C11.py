"""C11 Constraint forces are admissible: bounds/sign/cone membership of every force the constraint update can return; pyramid encode/decode."""
import z3
from vf import ir, build, llsym, world as W
from vf.leaf import Leaf
from vf.runner import Checker
from props import cu_common as cu
from props.cu_common import CU

ID = 'C11'
LEVEL = 'other'
EXPLANATION = ('llsym runs the real mj_constraintUpdate_impl (the function every solver ends with) in real-algebraic mode for each row type and proves for ALL residuals and parameters: '
               'friction-loss forces satisfy |f| <= frictionloss (and equal +-frictionloss exactly in the linear zones), limit / frictionless / pyramidal forces are >= 0, elliptic contact forces have '
               'normal component >= 0 and friction-weighted tangential norm bounded by it (on the cone boundary in the middle zone, zero in the top zone); the bottom zone is entered only when '
               'mu*N + T <= 0. Also mju_decodePyramid(mju_encodePyramid(f)) = f for forces inside the cone, pyramid edge forces >= 0, decode gives normal = sum of edges.'
               ' One Gauss-Seidel sweep of the real solPGS over one island (mj_solPGS_island, numeric callees stubbed with solver-chosen values): each scalar row ends as the projection of old force - residual / diagonal onto the admissible set of its row type.')
BOUNDS = {'quick': {'rows': 'friction, limit, pyramidal, elliptic condim 1, 3, 4, 6', 'pyramid': 'condim 1, 3, 4, 6', 'PGS sweep': 'one iteration, scalar rows, two interleaved islands of 5-6 global rows (layouts a, b, c; either island)'}, 'thorough': {'same': True}}
OUTSIDE = 'qfrc_constraint = J^T efc_force (sparse/dense mulJacTVec), mj_contactForce (adhesion offset), forces produced by solver iterations other than through this function and one PGS sweep over scalar rows (elliptic blocks of PGS, Nesterov extrapolation beyond the first iteration, CG / Newton iterations, convergence).'
ASSUMPTIONS = cu.__dict__.get('ASSUMPTIONS', ['D > 0, R > 0 with D*R = 1, floss >= 0, mu > 0, friction > 0', 'rows of one elliptic contact satisfy D_j mu^2 = D_0 friction_{j-1}^2 (mj_makeImpedance)', 'real-number semantics'])
BUDGET = {'quick': 600, 'thorough': 2400}


def prepare(tier): cu.prepare(); misc(); pgs_mod(); pgs_so()


_c = {}


def misc():
    if 'm' not in _c:
        _c['m'] = ir.load(['src/engine/engine_util_misc.c', 'src/engine/engine_util_blas.c'])
        _c['so'] = build.native_lib(['src/engine/engine_util_misc.c'], ['src/engine/engine_util_blas.c', 'src/engine/engine_util_errmem.c'], name='misc')
    return _c['m'], _c['so']


def unit_rows(tier, rows, tag):
    ck = Checker('admissible_' + tag, tier, timeout_s=150, semantics='real')
    k = cu.K()
    S = CU(rows)
    ck.note_results(S.ex, S.res)
    for p in S.paths():
        f = p['force']; pc = p['pc']
        for i, (kind, j) in enumerate(S.kind):
            if kind == 'fric':
                ck.prove('friction-loss force bounded: |f| <= frictionloss (zone %s)' % p['state'][i], pc, z3.And(f[i] <= S.fl[i], f[i] >= -S.fl[i]), site='mj_constraintUpdate_impl:friction-bound', decode=S.decode(), replay=p['replay'])
                if p['state'][i] == k['mjCNSTRSTATE_LINEARNEG']: ck.prove('linear-negative zone: force = +frictionloss', pc, f[i] == S.fl[i], site='mj_constraintUpdate_impl:friction-linear', decode=S.decode(), replay=p['replay'])
                if p['state'][i] == k['mjCNSTRSTATE_LINEARPOS']: ck.prove('linear-positive zone: force = -frictionloss', pc, f[i] == -S.fl[i], site='mj_constraintUpdate_impl:friction-linear', decode=S.decode(), replay=p['replay'])
            elif kind in ('limit', 'pyr'):
                ck.prove('%s force is non-negative (zone %s)' % ('limit' if kind == 'limit' else 'pyramidal/frictionless contact', p['state'][i]), pc, f[i] >= 0, site='mj_constraintUpdate_impl:nonnegative', decode=S.decode(), replay=p['replay'])
                ck.prove('%s force vanishes when the constraint is satisfied and equals -D*jar otherwise' % kind, pc, f[i] == z3.If(S.jar[i] >= 0, 0, -S.D[i] * S.jar[i]), site='mj_constraintUpdate_impl:unilateral', decode=S.decode(), replay=p['replay'])
            elif kind == 'ell' and j == 0:
                dim = S.condim
                fN = f[i]
                tang = sum([(f[i + q] / S.fr[q - 1]) * (f[i + q] / S.fr[q - 1]) for q in range(1, dim)], z3.RealVal(0))
                ck.prove('elliptic contact: normal force >= 0 and friction-weighted tangential norm <= normal force (zone %s)' % p['state'][i], pc, z3.And(fN >= 0, tang <= fN * fN),
                         site='mj_constraintUpdate_impl:cone', decode=S.decode(), replay=p['replay'], timeout_s=120)
                if p['state'][i] == k['mjCNSTRSTATE_CONE']:
                    ck.prove('elliptic middle zone: force lies on the cone boundary', pc, tang == fN * fN, site='mj_constraintUpdate_impl:cone-boundary', decode=S.decode(), replay=p['replay'], timeout_s=120)
                if p['state'][i] == k['mjCNSTRSTATE_SATISFIED']:
                    ck.prove('elliptic top zone: all components zero', pc, z3.And(*[f[i + q] == 0 for q in range(dim)]), site='mj_constraintUpdate_impl:cone-top', decode=S.decode(), replay=p['replay'])
        ck.reach('zone %s reachable' % p['state'], pc)
    ck.memory_obligations(S.res)
    return ck


def unit_pyramid(tier, dim):
    ck = Checker('pyramid_dim%d' % dim, tier, timeout_s=120, semantics='real')
    m, so = misc()
    I = lambda v: z3.BitVecVal(v, 32)
    ne = max(2 * (dim - 1), 1)
    # decode: linear map
    L = Leaf(ck, m, so, 'mju_decodePyramid', [('arr', 'force', dim, 'out'), ('arr', 'pyramid', ne), ('arr', 'mu', max(dim - 1, 1)), ('i32', 'dim', dim)], pre=lambda v: [x > 0 for x in v['mu']])
    for pc, out, ret, rp in L.paths():
        pyr, mu = L.v['pyramid'], L.v['mu']
        if dim == 1: ck.prove('decodePyramid dim 1: force = edge', pc, out['force'][0] == pyr[0], site='mju_decodePyramid:frictionless', decode=L.decode(), replay=rp); continue
        ck.prove('decodePyramid: normal = sum of edge forces, tangent_i = (e0_i - e1_i) mu_i', pc, z3.And(out['force'][0] == sum(pyr), *[out['force'][i + 1] == (pyr[2 * i] - pyr[2 * i + 1]) * mu[i] for i in range(dim - 1)]),
                 site='mju_decodePyramid:formula', decode=L.decode(), replay=rp)
        ck.prove('decodePyramid of non-negative edge forces lies in the pyramid: normal >= 0, |tangent_i| <= mu_i * normal', pc + [e >= 0 for e in pyr],
                 z3.And(out['force'][0] >= 0, *[z3.And(out['force'][i + 1] <= mu[i] * out['force'][0], out['force'][i + 1] >= -mu[i] * out['force'][0]) for i in range(dim - 1)]), site='mju_decodePyramid:admissible', decode=L.decode(), replay=rp)
    if dim > 1:
        # encode then decode (two real calls chained symbolically)
        L1 = Leaf(ck, m, so, 'mju_encodePyramid', [('arr', 'pyramid', ne, 'out'), ('arr', 'force', dim), ('arr', 'mu', dim - 1), ('i32', 'dim', dim)],
                  pre=lambda v: [x > 0 for x in v['mu']] + [v['force'][0] >= 0] + [z3.And(v['force'][i + 1] <= v['mu'][i] * v['force'][0] / (dim - 1), v['force'][i + 1] >= -v['mu'][i] * v['force'][0] / (dim - 1)) for i in range(dim - 1)])
        for pc, out, ret, rp in L1.paths():
            f, mu, pyr = L1.v['force'], L1.v['mu'], out['pyramid']
            ck.prove('encodePyramid: edge forces are non-negative for a force inside the pyramid', pc, z3.And(*[e >= 0 for e in pyr]), site='mju_encodePyramid:nonnegative', decode=L1.decode(), replay=rp)
            dec = [sum(pyr)] + [(pyr[2 * i] - pyr[2 * i + 1]) * mu[i] for i in range(dim - 1)]
            ck.prove('decodePyramid(encodePyramid(f)) = f for a force inside the pyramid', pc, z3.And(*[a == b for a, b in zip(dec, f)]), site='mju_encodePyramid:roundtrip', decode=L1.decode(), replay=rp)
    return ck


PGS_TUS = ['src/engine/engine_solver.c', 'src/engine/engine_util_blas.c', 'src/engine/engine_util_misc.c', 'src/engine/engine_core_util.c']
PGS_REDIRECT = ['ARdiaginv', 'dualState', 'residual', 'costChange', 'dualStateChange', 'saveStats']
PGS_C = r"""
/* PGS sweep replay: the numeric callees are stubs that hand back solver-chosen values (inverse diagonal per island row, residual per global row) */
static double *vf11_arinv = 0, *vf11_res = 0;
void vf11_set(double* arinv, double* res) { vf11_arinv = arinv; vf11_res = res; }
void vfstub_ARdiaginv(const void* m, const void* d, double* res, int nefc, const int* efclist, int flg) { for (int c = 0; c < nefc; c++) res[c] = vf11_arinv[c]; }
void vfstub_dualState(const void* d, int* state, int ne, int nf, int nefc, const int* efclist) {}
void vfstub_residual(const void* m, const void* d, double* res, int i, int dim, int flg) { res[0] = vf11_res[i]; }
double vfstub_costChange(const double* A, double* force, const double* oldforce, const double* res, int dim) { return 0; }
int vfstub_dualStateChange(const void* d, int* state, int* oldstate, int ne, int nf, int nefc, const int* efclist, int* nchange) { *nchange = 0; return 0; }
void vfstub_saveStats(const void* m, void* d, int island, int iter, double improvement, double gradient, double lineslope, int nactive, int nchange, int neval, int nupdate) {}
"""


def pgs_mod():
    if 'pm' not in _c: _c['pm'] = ir.load(PGS_TUS)
    return _c['pm']


def pgs_so():
    if 'pso' not in _c:
        _c['pso'] = build.native_lib(['src/engine/engine_solver.c'], ['src/engine/engine_util_blas.c', 'src/engine/engine_util_misc.c', 'src/engine/engine_core_util.c', 'src/engine/engine_util_errmem.c', 'src/engine/engine_memory.c',
                                                                     'src/engine/engine_util_sparse.c'], name='solver_pgs', extra_c=PGS_C, redirect=PGS_REDIRECT)
    return _c['pso']


def unit_pgs_sweep(tier, layout, island):
    """one Gauss-Seidel sweep of the real solPGS over the scalar rows of ONE ISLAND (mj_solPGS_island; rows addressed through map_iefc2efc, counts island_ne / island_nf / island_nefc): every row of the island
    ends in its admissible set - equality free, friction loss in [-floss, floss], limit / contact >= 0 - as the projection of (old force - residual * inverse diagonal), and rows of other islands are not touched"""
    from vf.irparse import FpT, IntT
    from props import C06
    ck = Checker('pgs_%s_island%d' % (layout, island), tier, timeout_s=120, semantics='real')
    KC = build.enum_values('mjCNSTR_'); KJ = build.enum_values('mjJAC_')
    # global rows: type per row (e equality, f friction loss, l limit); islands: list of global rows per island, ordered e, f, l inside the island
    LAY = {'a': ('efflll', [[0, 1, 3], [2, 4, 5]]), 'b': ('eefll', [[1, 4], [0, 2, 3]]), 'c': ('fflll', [[1, 2, 4], [0, 3]])}
    types, isl = LAY[layout]; nefc = len(types); rows = isl[island]; n = len(rows)
    tyv = {'e': KC['mjCNSTR_EQUALITY'], 'f': KC['mjCNSTR_FRICTION_DOF'], 'l': KC['mjCNSTR_LIMIT_JOINT']}
    L = build.Layout(); w = W.World('real')
    M, _ = W.full_struct(w, L, 'mjModel_', 'MJMODEL_POINTERS', {'nv': 2}, 'm', default_size=0)
    M.set('opt.disableflags', 0); M.set('opt.enableflags', 0); M.set('opt.jacobian', KJ['mjJAC_DENSE']); M.o.put(M.off('stat.meaninertia'), 'f64', 1.0); M.o.put(M.off('opt.tolerance'), 'f64', 0.0)
    D, _ = W.full_struct(w, L, 'mjData_', 'MJDATA_POINTERS', {'nv': 2, 'nefc': nefc, 'nisland': len(isl)}, 'd', default_size=0)
    D.arr('efc_force', 'f64', nefc, name='efc_force'); D.arr('efc_frictionloss', 'f64', nefc, name='efc_frictionloss')
    D.arr('efc_type', 'i32', nefc, [tyv[t] for t in types]); D.arr('efc_id', 'i32', nefc, [0] * nefc); D.arr('efc_state', 'i32', nefc, [0] * nefc)
    flat = [r for g in isl for r in g]; adr = [sum(len(g) for g in isl[:k]) for k in range(len(isl))]
    D.arr('map_iefc2efc', 'i32', nefc, flat); D.arr('island_iefcadr', 'i32', len(isl), adr); D.arr('island_nefc', 'i32', len(isl), [len(g) for g in isl])
    D.arr('island_ne', 'i32', len(isl), [sum(1 for r in g if types[r] == 'e') for g in isl]); D.arr('island_nf', 'i32', len(isl), [sum(1 for r in g if types[r] == 'f') for g in isl])
    D.set('nefc', nefc); D.set('nisland', len(isl)); D.set('ne', types.count('e')); D.set('nf', types.count('f'))
    ar = w.obj('arena', 8192).zeros(); D.o.put(D.off('arena'), 'ptr', (ar, 0)); D.set('narena', 8192)
    aio, arinv = w.arr('vfarinv', 'f64', n); reo, resv = w.arr('vfres', 'f64', nefc)
    f0 = D.arrays['efc_force'][3]; fl = D.arrays['efc_frictionloss'][3]
    pre = [x > 0 for x in arinv] + [x >= 0 for x in fl]
    P8 = lambda p, k: llsym.Ptr(p.obj, p.off + 8 * k)
    def alloc(ex, st, args, ins): return st.alloc(ex.as_int(args[1]), ('stack', len(st.objs)))
    noop = lambda ex, st, args, ins: None
    def s_ardiag(ex, st, args, ins):
        for c in range(ex.as_int(args[3])): ex.store(st, P8(args[2], c), FpT('double'), arinv[c])
    def s_res(ex, st, args, ins):
        ex.store(st, args[2], FpT('double'), resv[ex.as_int(args[3])])
    def s_dsc(ex, st, args, ins):
        ex.store(st, args[7], IntT(32), z3.BitVecVal(0, 32)); return z3.BitVecVal(0, 32)
    ex = llsym.Exec(pgs_mod(), fpmode='real', loop_bound=4 * nefc + 16,
                    stubs={'mj_stackAllocInfo': alloc, 'mj_markStack': noop, 'mj_freeStack': noop, 'ARdiaginv': s_ardiag, 'dualState': noop, 'residual': s_res, 'costChange': lambda ex, st, a, i: z3.RealVal(0),
                           'dualStateChange': s_dsc, 'saveStats': noop})
    st = w.to_state(ex); st.pc += pre
    I = lambda v: z3.BitVecVal(v, 32)
    res = ex.run('@mj_solPGS_island', [w.P(M.o), w.P(D.o), I(island), I(1)], st); ck.note_results(ex, res)
    dec = lambda mdl: {'row types': types, 'islands': isl, 'island': island, 'efc_force': [str(W.evalnum(mdl, x)) for x in f0], 'frictionloss': [str(W.evalnum(mdl, x)) for x in fl],
                       'residual': [str(W.evalnum(mdl, x)) for x in resv], 'ARinv': [str(W.evalnum(mdl, x)) for x in arinv]}
    nret = 0
    for r in res:
        if r.kind != 'return': continue
        nret += 1
        f1 = [ex.load(r.state, w.P(D.arrays['efc_force'][0], 8 * i), FpT('double')) for i in range(nefc)]
        seq = [('vf11_set', [('ptr', (aio, 0)), ('ptr', (reo, 0))], 'void'), ('mj_solPGS_island', [('ptr', (M.o, 0)), ('ptr', (D.o, 0)), ('i32', island), ('i32', 1)], 'void')]
        rp = C06.seq_replay(w, seq, [('efc_force%d' % i, D.arrays['efc_force'][0], 8 * i, 'f64', f1[i]) for i in range(nefc)], so_fn=pgs_so)
        for c, i in enumerate(rows):
            u = f0[i] - resv[i] * arinv[c]
            if types[i] == 'e': want = u; what = 'equality row %d: unconstrained minimiser' % i
            elif types[i] == 'f': want = z3.If(u < -fl[i], -fl[i], z3.If(u > fl[i], fl[i], u)); what = 'friction-loss row %d: projected onto [-floss, floss]' % i
            else: want = z3.If(u < 0, z3.RealVal(0), u); what = 'limit row %d: projected onto [0, inf)' % i
            ck.prove('island %d, %s (old force - residual / diagonal, then projection onto the set of ITS row type)' % (island, what), r.state.pc, f1[i] == want, site='solPGS:projection', decode=dec, replay=rp)
        other = [i for i in range(nefc) if i not in rows]
        if other: ck.prove('rows of other islands %s keep their force' % other, r.state.pc, z3.And(*[f1[i] == f0[i] for i in other]), site='solPGS:other-islands', decode=dec, replay=rp)
    if nret == 0: ck.error('no returning path')
    ck.paths['pgs'] = nret
    ck.reach('positive diagonal, non-negative friction loss', pre)
    ck.memory_obligations(res, decode=dec)
    return ck


def units(tier):
    u = [('admissible_fric', 'unit_rows', {'rows': [('fric', 0)], 'tag': 'fric'}), ('admissible_limit', 'unit_rows', {'rows': [('limit', 0)], 'tag': 'limit'}),
         ('admissible_pyr', 'unit_rows', {'rows': [('pyr', 0)], 'tag': 'pyr'}), ('admissible_ell1', 'unit_rows', {'rows': [('ell', 1)], 'tag': 'ell1'}),
         ('admissible_ell3', 'unit_rows', {'rows': [('ell', 3)], 'tag': 'ell3'}), ('admissible_ell4', 'unit_rows', {'rows': [('ell', 4)], 'tag': 'ell4'}),
         ('admissible_mixed', 'unit_rows', {'rows': [('eq', 0), ('fric', 0), ('limit', 0), ('ell', 3)], 'tag': 'mixed'})]
    for d in [1, 3, 4, 6]: u.append(('pyramid_dim%d' % d, 'unit_pyramid', {'dim': d}))
    for lay_, k in [('a', 0), ('a', 1), ('b', 0), ('b', 1), ('c', 0), ('c', 1)]: u.append(('pgs_%s_island%d' % (lay_, k), 'unit_pgs_sweep', {'layout': lay_, 'island': k}))
    u.append(('admissible_ell6', 'unit_rows', {'rows': [('ell', 6)], 'tag': 'ell6'}))
    return u
