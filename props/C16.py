"""C16 Ray casting returns the nearest intersection: root selection, sphere/plane leaf intersections, geom elimination filter, mj_ray selection loop."""
import z3
from vf import ir, build, llsym, world as W
from vf.leaf import Leaf
from vf.runner import Checker
from vf.irparse import IntT, FpT

ID = 'C16'
LEVEL = 'other'
TUS = ['src/engine/engine_ray.c', 'src/engine/engine_util_blas.c', 'src/engine/engine_util_misc.c', 'src/engine/engine_util_spatial.c']
EXPLANATION = ('llsym (real-algebraic) runs the real static helpers of engine_ray.c: ray_quad returns the smallest non-negative root of a x^2 + 2 b x + c (or -1 iff there is none / a is degenerate), '
               'ray_sphere returns a point on the sphere with no nearer non-negative intersection, ray_plane returns the in-rectangle front-face intersection; ray_eliminate equals the documented filter '
               '(body exclusion, invisible geom/material, static exclusion, group clamp to [0, mjNGROUP)); mj_ray with the per-geom distance functions uninterpreted returns the minimum non-negative '
               'distance over the geoms that are not eliminated, together with that geom id, and (-1, -1) iff there is none.')
BOUNDS = {'quick': {'mj_ray': 'ngeom <= 2', 'leaf intersections': 'all real inputs'}, 'thorough': {'mj_ray': 'ngeom <= 3'}}
OUTSIDE = 'capsule (unit_capsule is written - on-surface / nearest / miss over the three surface patches - but path feasibility and the miss query do not finish in nlsat, so it is not registered), ellipsoid, cylinder, box, mesh, hfield, flex intersections; mj_multiRay (BVH, angular pre-filter); floating-point rounding.'
ASSUMPTIONS = ['real-number semantics', 'per-geom ray functions uninterpreted in the mj_ray selection loop', 'rotation matrices orthonormal for ray_plane']
BUDGET = {'quick': 600, 'thorough': 1800}
_c = {}
SUP = ['src/engine/engine_util_blas.c', 'src/engine/engine_util_misc.c', 'src/engine/engine_util_spatial.c', 'src/engine/engine_util_errmem.c']


def mod():
    if 'm' not in _c: _c['m'] = ir.load(TUS)
    return _c['m']


def so():
    if 'so' not in _c: _c['so'] = build.native_lib(['src/engine/engine_ray.c'], SUP, name='ray')
    return _c['so']


def so_sel():
    if 'sosel' not in _c:
        extra = 'static double vf_d[16]; static int vf_k = 0;\nvoid vf_set_dist(int i, double v) { vf_d[i] = v; vf_k = 0; }\ndouble vfstub_mju_rayGeom(void) { return vf_d[vf_k++]; }\n'
        _c['sosel'] = build.native_lib(['src/engine/engine_ray.c'], SUP, name='ray_sel', extra_c=extra, redirect=['mju_rayGeom'])
    return _c['sosel']


def lay():
    if 'l' not in _c: _c['l'] = build.Layout()
    return _c['l']


def prepare(tier): mod(); so(); so_sel(); lay()


import fractions
MINVAL = z3.RealVal(str(fractions.Fraction(1e-15)))      # the double constant mjMINVAL, exactly


def unit_quad(tier):
    ck = Checker('ray_quad', tier, timeout_s=120, semantics='real')
    L = Leaf(ck, mod(), so(), 'ray_quad', [('f64', 'a'), ('f64', 'b'), ('f64', 'c'), ('arr', 'x', 2, 'out')], restype='f64')
    a, b, c = L.v['a'], L.v['b'], L.v['c']
    y = z3.Real('y')
    q = lambda t: a * t * t + 2 * b * t + c
    for pc, out, ret, rp in L.paths():
        ck.prove('ray_quad: a returned value >= 0 is a root', pc, z3.Implies(ret >= 0, q(ret) == 0), site='ray_quad:root', decode=L.decode(), replay=rp)
        ck.prove('ray_quad: no smaller non-negative root exists', pc + [ret >= 0, y >= 0, y < ret], q(y) != 0, site='ray_quad:nearest', decode=L.decode(), replay=rp)
        ck.prove('ray_quad: -1 is returned only when a < mjMINVAL or no non-negative root exists', pc + [ret < 0, a >= MINVAL, y >= 0], q(y) != 0, site='ray_quad:none', decode=L.decode(), replay=rp)
        ck.prove('ray_quad: result is -1 or non-negative; x[0] <= x[1]', pc, z3.And(z3.Or(ret == -1, ret >= 0), out['x'][0] <= out['x'][1]), site='ray_quad:range', decode=L.decode(), replay=rp)
    return ck


def unit_sphere(tier):
    ck = Checker('ray_sphere', tier, timeout_s=200, semantics='real')
    L = Leaf(ck, mod(), so(), 'ray_sphere', [('arr', 'pos', 3), ('arr', 'mat', 9), ('f64', 'dist_sqr'), ('arr', 'pnt', 3), ('arr', 'vec', 3), ('ptr0', 'normal')], restype='f64',
             pre=lambda v: [v['dist_sqr'] >= 0])
    pos, pnt, vec, r2 = L.v['pos'], L.v['pnt'], L.v['vec'], L.v['dist_sqr']
    y = z3.Real('y')
    surf = lambda t: sum((pnt[k] + t * vec[k] - pos[k]) * (pnt[k] + t * vec[k] - pos[k]) for k in range(3)) - r2
    vv = sum(vec[k] * vec[k] for k in range(3))
    for pc, out, ret, rp in L.paths():
        ck.prove('ray_sphere: returned distance puts the ray point on the sphere', pc, z3.Implies(ret >= 0, surf(ret) == 0), site='ray_sphere:on-surface', decode=L.decode(), replay=rp)
        ck.prove('ray_sphere: no nearer intersection along the ray', pc + [ret >= 0, y >= 0, y < ret], surf(y) != 0, site='ray_sphere:nearest', decode=L.decode(), replay=rp)
        ck.prove('ray_sphere: -1 only if the ray (non-degenerate) misses the sphere', pc + [ret < 0, vv >= MINVAL, y >= 0], surf(y) != 0, site='ray_sphere:miss', decode=L.decode(), replay=rp)
    return ck


def unit_capsule(tier, part=0, nparts=1):
    """ray_capsule in the capsule's own frame (pos = 0, mat = identity; the frame change ray_map is exercised with a symbolic rotation in unit_plane): a hit lies on the capsule surface
    (cylinder side between the caps, or the outer half of a cap sphere), nothing on the surface is nearer along the ray, and -1 means the ray misses the surface"""
    ck = Checker('ray_capsule_p%d' % part, tier, timeout_s=150, semantics='real')
    ident = [1.0, 0.0, 0.0, 0.0, 1.0, 0.0, 0.0, 0.0, 1.0]
    L = Leaf(ck, mod(), so(), 'ray_capsule', [('arr', 'pos', 3, [0.0, 0.0, 0.0]), ('arr', 'mat', 9, ident), ('arr', 'size', 3), ('arr', 'pnt', 3), ('arr', 'vec', 3), ('ptr0', 'normal')], restype='f64',
             pre=lambda v: [v['size'][0] > 0, v['size'][1] > 0], unknown_is_feasible=True, feasibility_timeout_s=4)
    size, pnt, vec = L.v['size'], L.v['pnt'], L.v['vec']; r, h = size[0], size[1]
    y = z3.Real('y')
    def on_surface(t):
        p = [pnt[k] + t * vec[k] for k in range(3)]; rr = p[0] * p[0] + p[1] * p[1]
        return z3.Or(z3.And(p[2] <= h, p[2] >= -h, rr == r * r), z3.And(p[2] >= h, rr + (p[2] - h) * (p[2] - h) == r * r), z3.And(p[2] <= -h, rr + (p[2] + h) * (p[2] + h) == r * r))
    vv = sum(vec[k] * vec[k] for k in range(3))
    for k_, (pc, out, ret, rp) in enumerate(L.paths()):
        if k_ % nparts != part: continue
        ck.prove('ray_capsule: a returned distance puts the ray point on the capsule surface', pc, z3.Implies(ret >= 0, on_surface(ret)), site='ray_capsule:on-surface', decode=L.decode(), replay=rp)
        ck.prove('ray_capsule: no point of the surface is nearer along the ray', pc + [ret >= 0, y >= 0, y < ret], z3.Not(on_surface(y)), site='ray_capsule:nearest', decode=L.decode(), replay=rp)
        ck.prove('ray_capsule: -1 only if the (non-degenerate) ray misses the surface', pc + [ret < 0, vv >= MINVAL, y >= 0], z3.Not(on_surface(y)), site='ray_capsule:miss', decode=L.decode(), replay=rp)
    return ck


def unit_plane(tier):
    ck = Checker('ray_plane', tier, timeout_s=200, semantics='real')
    L = Leaf(ck, mod(), so(), 'ray_plane', [('arr', 'pos', 3), ('arr', 'mat', 9), ('arr', 'size', 3), ('arr', 'pnt', 3), ('arr', 'vec', 3), ('ptr0', 'normal')], restype='f64',
             pre=lambda v: [sum(v['mat'][3 * k + i] * v['mat'][3 * k + j] for k in range(3)) == (1 if i == j else 0) for i in range(3) for j in range(i, 3)])
    pos, R, size, pnt, vec = L.v['pos'], L.v['mat'], L.v['size'], L.v['pnt'], L.v['vec']
    # local coordinates: l = R^T (p - pos)
    loc = lambda p: [sum(R[3 * k + i] * (p[k] - pos[k]) for k in range(3)) for i in range(3)]
    lv = [sum(R[3 * k + i] * vec[k] for k in range(3)) for i in range(3)]
    for pc, out, ret, rp in L.paths():
        hit = [pnt[k] + ret * vec[k] for k in range(3)]; lh = loc(hit)
        ck.prove('ray_plane: a hit lies in the plane z=0 of the geom frame, inside the rendered rectangle, seen from the front', pc, z3.Implies(ret >= 0, z3.And(lh[2] == 0, lv[2] < 0,
                 z3.Or(size[0] <= 0, z3.And(lh[0] <= size[0], lh[0] >= -size[0])), z3.Or(size[1] <= 0, z3.And(lh[1] <= size[1], lh[1] >= -size[1])))), site='ray_plane:hit', decode=L.decode(), replay=rp)
        ck.prove('ray_plane: result is -1 or non-negative', pc, z3.Or(ret == -1, ret >= 0), site='ray_plane:range', decode=L.decode(), replay=rp)
    return ck


def unit_eliminate(tier):
    ck = Checker('ray_eliminate', tier, timeout_s=120, semantics='real')
    L_ = lay()
    ngroup = int(__import__('re').search(r'#define mjNGROUP\s+(\d+)', open(build.REPO + '/include/mujoco/mjvisualize.h').read()).group(1))
    for with_group in (0, 1):
        w = W.World('real')
        M = W.SB(w, L_, 'mjModel_', 'm', zero=True); D = W.SB(w, L_, 'mjData_', 'd', zero=True)
        M.set('ngeom', 1); M.set('nbody', 2); M.set('nmat', 1)
        body = M.arr('geom_bodyid', 'i32', 1)[1][0]; mat = M.arr('geom_matid', 'i32', 1)[1][0]; grp = M.arr('geom_group', 'i32', 1)[1][0]
        rgba = M.arr('geom_rgba', 'f32', 4)[1]; mrgba = M.arr('mat_rgba', 'f32', 4)[1]; weld = M.arr('body_weldid', 'i32', 2)[1]
        go, gg = w.arr('geomgroup', 'u8', ngroup)
        flg = z3.BitVec('flg_static', 8); be = z3.BitVec('bodyexclude', 32); w.syms += [('flg_static', 'u8', flg), ('bodyexclude', 'i32', be)]
        ex = llsym.Exec(mod(), fpmode='real', loop_bound=8)
        st = w.to_state(ex); pre = [body >= 0, body < 2, mat >= -1, mat < 1]; st.pc += pre
        gptr = w.P(go) if with_group else llsym.NULL
        res = ex.run('@ray_eliminate', [w.P(M.o), w.P(D.o), z3.BitVecVal(0, 32), gptr, flg, be], st)
        ck.note_results(ex, res)
        sel = lambda arr, i: z3.If(i == 0, arr[0], arr[1])
        gid = z3.If(grp < 0, 0, z3.If(grp > ngroup - 1, ngroup - 1, grp))
        ggv = gg[ngroup - 1]
        for k in range(ngroup - 2, -1, -1): ggv = z3.If(gid == k, gg[k], ggv)
        rule = z3.Or(body == be, z3.And(mat < 0, rgba[3] == 0), z3.And(mat >= 0, mrgba[3] == 0), z3.And(flg == 0, sel(weld, body) == 0))
        if with_group: rule = z3.Or(rule, ggv == 0)
        args = [('ptr', (M.o, 0)), ('ptr', (D.o, 0)), ('i32', 0), ('ptr', (go, 0) if with_group else None), ('u8', flg), ('i32', be)]
        for r in res:
            if r.kind != 'return': continue
            rp = W.make_replay(so(), 'ray_eliminate', w, args, restype='i32', ret_term=r.value, semantics='real')
            ck.prove('ray_eliminate %s geomgroup: eliminated iff excluded body, invisible geom/material, static body with flg_static off%s' % ('with' if with_group else 'without', ', or group (clamped to [0, mjNGROUP)) disabled' if with_group else ''),
                     r.state.pc, (r.value != 0) == rule, site='ray_eliminate:rule', replay=rp,
                     decode=lambda mdl: {'bodyid': W.evalnum(mdl, body), 'matid': W.evalnum(mdl, mat), 'group': W.evalnum(mdl, grp), 'flg_static': W.evalnum(mdl, flg), 'bodyexclude': W.evalnum(mdl, be)})
        ck.memory_obligations(res)
    return ck


def unit_mjray(tier, ngeom):
    """selection loop of mj_ray with per-geom intersection functions uninterpreted"""
    ck = Checker('mj_ray_n%d' % ngeom, tier, timeout_s=120, semantics='real')
    L_ = lay()
    w = W.World('real')
    M, _ = W.full_struct(w, L_, 'mjModel_', 'MJMODEL_POINTERS', {'ngeom': ngeom, 'nbody': 2, 'nmat': 1}, 'm', default_size=0, symbolic=('geom_bodyid', 'geom_group'),
                         values={'geom_matid': [-1] * ngeom, 'geom_rgba': [1.0] * (4 * ngeom), 'body_weldid': [0, 1], 'geom_type': [2] * ngeom})
    D, _ = W.full_struct(w, L_, 'mjData_', 'MJDATA_POINTERS', {'ngeom': ngeom, 'nbody': 2}, 'd', default_size=0)
    bodyid = M.arrays['geom_bodyid'][3]
    po, pnt = w.arr('pnt', 'f64', 3); vo, vec = w.arr('vec', 'f64', 3); go, gid0 = w.arr('geomid', 'i32', 1, [77])
    be = z3.BitVec('bodyexclude', 32); w.syms.append(('bodyexclude', 'i32', be))
    dists = []
    def raygeom(ex, st, args, ins):
        k = len([e for e in st.log if e[0] == 'call' and e[1] == 'mju_rayGeom'])
        st.log.append(('call', 'mju_rayGeom', k)); v = z3.Real('dist!%d!%d' % (k, len(dists))); dists.append(v)
        st.aux.setdefault('dists', {})[k] = v
        return v
    stubs = {'mju_rayGeom': raygeom, 'sqrt': lambda ex, st, a, i: ex.sqrt(st, a[0])}
    ex = llsym.Exec(mod(), fpmode='real', loop_bound=ngeom + 3, stubs=stubs)
    st = w.to_state(ex)
    pre = [z3.And(b >= 0, b < 2) for b in bodyid] + [sum(v * v for v in vec) >= 1]
    st.pc += pre
    res = ex.run('@mj_ray', [w.P(M.o), w.P(D.o), w.P(po), w.P(vo), llsym.NULL, z3.BoolVal(True), be, w.P(go), llsym.NULL], st)
    ck.note_results(ex, res)
    for r in res:
        if r.kind != 'return': continue
        pc = r.state.pc
        gid = ex.load(r.state, w.P(go), IntT(32))
        # geoms examined on this path, in order
        examined = [i for i in range(ngeom)]
        dmap = r.state.aux.get('dists', {})
        # which geoms were not eliminated: static exclusion off (flg_static=1), visible, so only bodyexclude matters
        kept = [bodyid[i] != be for i in range(ngeom)]
        # the k-th call corresponds to the k-th kept geom: reconstruct per-geom distance terms
        calls = [e for e in r.state.log if e[0] == 'call' and e[1] == 'mju_rayGeom']
        # on a path the set of kept geoms is concrete w.r.t. branching: map call index -> geom index by order
        order = []
        sol = z3.Solver(); sol.add(*pc)
        for i in range(ngeom):
            if sol.check(z3.Not(kept[i])) == z3.unsat: order.append(i)
        if len(order) != len(calls): ck.inconclusive.append('cannot align ray calls with geoms'); continue
        dist_of = {g: dmap[k] for k, g in enumerate(order)}
        cand = [(g, dist_of[g]) for g in order]
        anyhit = z3.Or(*[dv >= 0 for _, dv in cand]) if cand else z3.BoolVal(False)
        best = z3.And(*[z3.Or(dv < 0, r.value <= dv) for _, dv in cand]) if cand else z3.BoolVal(True)
        import ctypes
        def mk_replay(cand=cand, retv=r.value, gidv=gid):
            def rp(model, witness):
                vals = w.concretise(model)
                dv = [W.evalnum(model, d_) for _, d_ in cand]
                def pre_(lib, nw):
                    lib.vf_set_dist.argtypes = [ctypes.c_int, ctypes.c_double]
                    for i_, v_ in enumerate(dv): lib.vf_set_dist(i_, float(v_))
                nargs = [('ptr', (M.o, 0)), ('ptr', (D.o, 0)), ('ptr', (po, 0)), ('ptr', (vo, 0)), ('ptr', None), ('u8', 1), ('i32', be), ('ptr', (go, 0)), ('ptr', None)]
                st_ = W.native_call(so_sel(), 'mj_ray', w, vals, nargs, 'f64', [('geomid', go, 0, 'i32')], pre=pre_)
                if st_[0] != 'ok': return False, {'native': st_[0], 'detail': str(st_[1:])[:200]}
                ok = W.close(W.evalnum(model, retv), st_[1]['ret'], 'real') and W.close(W.evalnum(model, gidv), st_[1]['out']['geomid'], 'bv')
                return ok, {'per-geom distances (kept geoms, in order)': dv, 'native_ret': st_[1]['ret'], 'native_geomid': st_[1]['out']['geomid']}
            return rp
        rp_ = mk_replay()
        ck.prove('mj_ray n=%d: returns the minimum non-negative per-geom distance, -1 iff no kept geom is hit' % ngeom, pc,
                 z3.If(anyhit, z3.And(r.value >= 0, best, z3.Or(*[r.value == dv for _, dv in cand]) if cand else z3.BoolVal(False)), r.value == -1), site='mj_ray:nearest', replay=rp_)
        idclaim = z3.If(anyhit, z3.Or(*[z3.And(gid == g, dv == r.value, dv >= 0) for g, dv in cand]) if cand else z3.BoolVal(False), gid == -1)
        ck.prove('mj_ray n=%d: geomid is the geom attaining the returned distance, -1 iff nothing is hit' % ngeom, pc, idclaim, site='mj_ray:geomid', replay=rp_)
    ck.reach('mj_ray precondition', pre)
    ck.memory_obligations(res)
    return ck


def units(tier):
    u = [('ray_quad', 'unit_quad', {}), ('ray_sphere', 'unit_sphere', {}), ('ray_plane', 'unit_plane', {}), ('ray_eliminate', 'unit_eliminate', {})]
    for n in ([1, 2] if tier == 'quick' else [1, 2, 3]): u.append(('mj_ray_n%d' % n, 'unit_mjray', {'ngeom': n}))
    return u
