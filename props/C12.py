"""C12 The constraint cost has consistent derivatives: force = -grad cost, C1 across zone boundaries, cone Hessian = d(-force)/d jar."""
import z3, itertools
from vf import world as W
from vf.runner import Checker
from props import cu_common as cu
from props.cu_common import CU, diff

ID = 'C12'
LEVEL = 'other'
EXPLANATION = ('llsym runs the real mj_constraintUpdate_impl in real-algebraic mode (sqrt via mju_norm as an auxiliary variable) on every row type and, per explored zone combination, yields '
               'cost, force and cone Hessian as terms over the residual jar and the parameters. A symbolic differentiator over these terms gives d cost / d jar_k; z3 (NRA) proves for ALL '
               'residuals, stiffnesses, friction coefficients: force_k = -d cost/d jar_k inside every zone; cost and force agree on every zone boundary (C1); -force is non-decreasing in jar for '
               'scalar rows; the stored elliptic-cone Hessian equals d(-force)/d jar entry-wise and is symmetric; the zones of each row type cover all residuals (no uncovered case).')
BOUNDS = {'quick': {'rows': 'equality, friction-loss, limit, pyramidal/frictionless contact row, elliptic contact condim 1, 3, 4, 6 (gradient, C1, Hessian block)', 'compositions': 'each row type alone and eq+fric+limit+ell3 together'},
          'thorough': {'same': True}}
OUTSIDE = 'positive semi-definiteness of the cone Hessian beyond what C1 + per-zone gradients imply; floating-point rounding; the solvers that call this function.'
ASSUMPTIONS = ['D > 0, R > 0 with D*R = 1, floss >= 0, mu > 0, friction > 0', 'rows of one elliptic contact satisfy D_j mu^2 = D_0 friction_{j-1}^2 (established by mj_makeImpedance)', 'real-number semantics']
BUDGET = {'quick': 600, 'thorough': 2400}


def prepare(tier): cu.prepare()


def unit_gradient(tier, rows, tag):
    ck = Checker('gradient_' + tag, tier, timeout_s=120, semantics='real')
    S = CU(rows)
    ck.note_results(S.ex, S.res)
    np_ = 0
    for p in S.paths():
        np_ += 1
        for kidx in range(S.n):
            dc = diff(p['cost'], S.jar[kidx], p['sqrt'])
            ck.prove('zone %s: force[%d] = -d cost / d jar[%d]' % (p['state'], kidx, kidx), p['pc'], dc + p['force'][kidx] == 0, site='mj_constraintUpdate_impl:gradient', decode=S.decode(), replay=p['replay'])
        for kidx, (kind, j) in enumerate(S.kind):
            if kind != 'ell':
                dfk = diff(-p['force'][kidx], S.jar[kidx], p['sqrt'])
                ck.prove('zone %s: -force[%d] is non-decreasing in jar[%d] (convex along the row)' % (p['state'], kidx, kidx), p['pc'], dfk >= 0, site='mj_constraintUpdate_impl:monotone', decode=S.decode(), replay=p['replay'])
        ck.reach('zone %s reachable' % p['state'], p['pc'])
    ck.notes.append('%d zone combinations' % np_)
    ck.memory_obligations(S.res)
    return ck


def unit_c1(tier, kind, dim=0):
    """cost and force agree on the common boundary of adjacent zones"""
    ck = Checker('C1_%s%s' % (kind, dim or ''), tier, timeout_s=120, semantics='real')
    k = cu.K()
    S = CU([(kind, dim)])
    ck.note_results(S.ex, S.res)
    P = list(S.paths())
    Q, SAT, LN, LP, CONE = k['mjCNSTRSTATE_QUADRATIC'], k['mjCNSTRSTATE_SATISFIED'], k['mjCNSTRSTATE_LINEARNEG'], k['mjCNSTRSTATE_LINEARPOS'], k['mjCNSTRSTATE_CONE']
    by = {}
    for p in P: by.setdefault(p['state'][0], []).append(p)
    def sqrt_facts(p): return [z3.And(t >= 0, t * t == x) for (t, x) in p['sqrt'].values()]
    def c1_replay(pa, pb):
        """numeric confirmation on the real function: evaluate just below and just above the boundary point of the model; a jump in cost / force of the predicted size reproduces"""
        def rp(model, witness):
            vals = S.w.concretise(model)
            outs = [('cost', S.Co, 0, 'f64')] + [('force%d' % i, S.Fco, 8 * i, 'f64') for i in range(S.n)]
            got = []
            for dlt in (-1e-7, 1e-7):
                v2 = W.Values(vals); v2.model = None; v2['jar0'] = float(vals['jar0']) + dlt * max(1.0, abs(float(vals['jar0'])))
                st_ = W.native_call(cu.so(), 'mj_constraintUpdate_impl', S.w, v2, S.nargs, outputs=outs)
                if st_[0] != 'ok': return False, {'native': st_[0]}
                got.append(st_[1]['out'])
            pred = max([abs(W.evalnum(model, pa['cost']) - W.evalnum(model, pb['cost']))] + [abs(W.evalnum(model, x) - W.evalnum(model, y)) for x, y in zip(pa['force'], pb['force'])])
            jump = max(abs(got[0][k_] - got[1][k_]) for k_ in got[0])
            return (pred > 1e-4 and jump > 0.25 * pred), {'predicted_jump': pred, 'native_jump_across_boundary': jump, 'below': got[0], 'above': got[1]}
        return rp
    def join(a, b, boundary, name):
        for pa in by.get(a, []):
            for pb in by.get(b, []):
                rp_ = c1_replay(pa, pb)
                link = []
                ta = list(pa['sqrt'].values()); tb = list(pb['sqrt'].values())
                if ta and tb: link.append(ta[0][0] == tb[0][0])
                pc = S.pre + sqrt_facts(pa) + sqrt_facts(pb) + link + boundary(pa if pa['sqrt'] else pb)
                ck.prove('C1 %s: cost agrees on the boundary' % name, pc, pa['cost'] == pb['cost'], site='mj_constraintUpdate_impl:C1-cost', decode=S.decode(), replay=rp_)
                ck.prove('C1 %s: force agrees on the boundary' % name, pc, z3.And(*[x == y for x, y in zip(pa['force'], pb['force'])]), site='mj_constraintUpdate_impl:C1-force', decode=S.decode(), replay=rp_)
                ck.reach('boundary %s non-empty' % name, pc)
    # zone boundaries are taken from the code itself: two paths whose branch decisions agree up to one comparison and differ there are adjacent along
    # the surface where that comparison holds with equality
    def relax(c):
        """closure of a branch condition: strict inequalities become non-strict"""
        if z3.is_not(c):
            x = c.arg(0)
            if z3.is_le(x): return x.arg(0) >= x.arg(1)
            if z3.is_ge(x): return x.arg(0) <= x.arg(1)
            if z3.is_lt(x): return x.arg(0) >= x.arg(1)
            if z3.is_gt(x): return x.arg(0) <= x.arg(1)
            if z3.is_eq(x): return z3.BoolVal(True)
            return z3.BoolVal(True)
        if z3.is_lt(c): return c.arg(0) <= c.arg(1)
        if z3.is_gt(c): return c.arg(0) >= c.arg(1)
        return c
    def split(p):
        """branch conditions of a path (after the harness precondition), without the sqrt definitions"""
        sq = {t.get_id() for (t, x) in p['sqrt'].values()}
        out = []
        for c in p['pc'][len(S.pre):]:
            if z3.is_and(c) and c.num_args() == 2 and z3.is_ge(c.arg(0)) and z3.is_const(c.arg(0).arg(0)) and c.arg(0).arg(0).get_id() in sq: continue
            out.append(z3.simplify(c))
        return out
    npairs = 0
    for ia in range(len(P)):
        for ib in range(ia + 1, len(P)):
            pa, pb = P[ia], P[ib]
            ca, cb = split(pa), split(pb)
            # identify the two paths' sqrt auxiliaries (same argument => same value)
            link = []
            ta = list(pa['sqrt'].values()); tb = list(pb['sqrt'].values())
            subs = []
            if ta and tb: link.append(ta[0][0] == tb[0][0]); subs = [(tb[0][0], ta[0][0])]
            cb_ = [z3.simplify(z3.substitute(c, *subs)) if subs else c for c in cb]
            k = 0
            while k < min(len(ca), len(cb_)) and ca[k].eq(cb_[k]): k += 1
            if k >= min(len(ca), len(cb_)): continue
            x, y = ca[k], cb_[k]
            if not (z3.simplify(z3.Not(x)).eq(y) or z3.simplify(z3.Not(y)).eq(x)): continue
            core = x.arg(0) if z3.is_not(x) else x
            if not (z3.is_le(core) or z3.is_ge(core) or z3.is_lt(core) or z3.is_gt(core)): continue
            boundary = core.arg(0) == core.arg(1)
            pc = S.pre + sqrt_facts(pa) + sqrt_facts(pb) + link + ca[:k] + [boundary] + [relax(c) for c in ca[k + 1:]] + [relax(c) for c in cb[k + 1:]]
            name = 'zones %s | %s along %s' % (pa['state'][0], pb['state'][0], z3.simplify(boundary).sexpr().replace('\n', ' ')[:60])
            rp_ = c1_replay(pa, pb)
            ck.prove('C1 %s: cost agrees on the boundary' % name, pc, pa['cost'] == pb['cost'], site='mj_constraintUpdate_impl:C1-cost', decode=S.decode(), replay=rp_)
            ck.prove('C1 %s: force agrees on the boundary' % name, pc, z3.And(*[u == v for u, v in zip(pa['force'], pb['force'])]), site='mj_constraintUpdate_impl:C1-force', decode=S.decode(), replay=rp_)
            npairs += 1
    if len(P) > 1 and npairs == 0: ck.error('no adjacent zone pair identified')
    covers = z3.Or(*[z3.And(*split(p)) if split(p) else z3.BoolVal(True) for p in P])
    ck.prove('%s zones cover every residual' % kind, S.pre + [f for p in P for f in sqrt_facts(p)] + [list(pa_['sqrt'].values())[0][0] == list(P[0]['sqrt'].values())[0][0] for pa_ in P if pa_['sqrt'] and P[0]['sqrt']], covers,
             site='mj_constraintUpdate_impl:cover', decode=S.decode())
    ck.notes.append('zones: %s' % sorted(by))
    return ck


def unit_hessian(tier, dim):
    ck = Checker('hessian_dim%d' % dim, tier, timeout_s=200, semantics='real')
    k = cu.K()
    S = CU([('ell', dim)], flg_hess=1)
    ck.note_results(S.ex, S.res)
    nc = 0
    for p in S.paths():
        if p['state'][0] != k['mjCNSTRSTATE_CONE']: continue
        nc += 1
        H = p['H']
        for a in range(dim):
            for b in range(dim):
                dfa = diff(-p['force'][a], S.jar[b], p['sqrt'])
                ck.prove('cone Hessian H[%d][%d] = d(-force[%d]) / d jar[%d]' % (a, b, a, b), p['pc'], H[a * dim + b] == dfa, site='mj_constraintUpdate_impl:hessian', decode=S.decode(), replay=p['replay'], timeout_s=150)
        ck.prove('cone Hessian is symmetric', p['pc'], z3.And(*[H[a * dim + b] == H[b * dim + a] for a in range(dim) for b in range(a)]), site='mj_constraintUpdate_impl:hessian-symmetric', decode=S.decode(), replay=p['replay'])
    if nc == 0: ck.error('middle zone not explored')
    return ck


def units(tier):
    u = [('gradient_eq', 'unit_gradient', {'rows': [('eq', 0)], 'tag': 'eq'}), ('gradient_fric', 'unit_gradient', {'rows': [('fric', 0)], 'tag': 'fric'}),
         ('gradient_limit', 'unit_gradient', {'rows': [('limit', 0)], 'tag': 'limit'}), ('gradient_pyr', 'unit_gradient', {'rows': [('pyr', 0)], 'tag': 'pyr'}),
         ('gradient_ell1', 'unit_gradient', {'rows': [('ell', 1)], 'tag': 'ell1'}), ('gradient_ell3', 'unit_gradient', {'rows': [('ell', 3)], 'tag': 'ell3'}),
         ('gradient_mixed', 'unit_gradient', {'rows': [('eq', 0), ('fric', 0), ('limit', 0), ('ell', 3)], 'tag': 'mixed'}),
         ('C1_fric', 'unit_c1', {'kind': 'fric'}), ('C1_limit', 'unit_c1', {'kind': 'limit'}), ('C1_pyr', 'unit_c1', {'kind': 'pyr'}), ('C1_ell3', 'unit_c1', {'kind': 'ell', 'dim': 3}),
         ('hessian_dim3', 'unit_hessian', {'dim': 3})]
    if True:
        u += [('gradient_ell4', 'unit_gradient', {'rows': [('ell', 4)], 'tag': 'ell4'}), ('gradient_ell6', 'unit_gradient', {'rows': [('ell', 6)], 'tag': 'ell6'}), ('C1_ell4', 'unit_c1', {'kind': 'ell', 'dim': 4}),
              ('hessian_dim4', 'unit_hessian', {'dim': 4})]
    u += [('C1_ell6', 'unit_c1', {'kind': 'ell', 'dim': 6}), ('hessian_dim6', 'unit_hessian', {'dim': 6})]
    return u
