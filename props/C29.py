"""C29 Passive forces follow their physical laws (part): joint springs and dof dampers of mj_springdamper."""
import z3
from vf import ir, build, llsym, world as W
from vf.runner import Checker
from vf.irparse import IntT, FpT

ID = 'C29'
LEVEL = 'other'
TUS = ['src/engine/engine_passive.c', 'src/engine/engine_core_util.c', 'src/engine/engine_util_blas.c', 'src/engine/engine_util_misc.c']
EXPLANATION = ('llsym (real-algebraic) runs the real static mj_springdamper on models with slide/hinge joints: qfrc_spring[dof] = -x * (k + sum_i poly_i x^(i+1)) with x = qpos - qpos_spring (restoring, '
               'zero at the reference, equal to -dV/dx of the polynomial potential x^2 k/2 + ...), qfrc_damper[dof] = -v * (b + sum_i poly_i |v|^(i+1)) with non-positive power v*f for non-negative '
               'coefficients and zero at v = 0; dofs without spring/damper and all other cells are untouched; mjDSBL_SPRING / mjDSBL_DAMPER switch the respective term off.')
BOUNDS = {'quick': {'nv': '<= 2 slide/hinge joints', 'polynomial order': 'mjNPOLY as compiled'}, 'thorough': {'nv': '<= 3'}}
OUTSIDE = 'ball/free joint springs (quaternion difference), tendon springs, flex elasticity, gravity compensation, fluid forces, actuator-inherited damping (jnt_actuatorid = -1).'
ASSUMPTIONS = ['real-number semantics', 'sleep disabled, nflex = ntendon = 0', 'qfrc_spring / qfrc_damper zeroed by mj_passive before the call']
BUDGET = {'quick': 400, 'thorough': 1500}
_c = {}
SUP = ['src/engine/engine_core_util.c', 'src/engine/engine_util_blas.c', 'src/engine/engine_util_misc.c', 'src/engine/engine_util_errmem.c']


def mod():
    if 'm' not in _c: _c['m'] = ir.load(TUS)
    return _c['m']


def so():
    if 'so' not in _c: _c['so'] = build.native_lib(['src/engine/engine_passive.c'], SUP, name='passive')
    return _c['so']


def lay():
    if 'l' not in _c: _c['l'] = build.Layout()
    return _c['l']


def prepare(tier): mod(); so(); lay()


def unit_spring(tier, nv, flags):
    ck = Checker('springdamper_nv%d_f%d' % (nv, flags), tier, timeout_s=120, semantics='real')
    L = lay(); K = build.enum_values('mjJNT_'); KD = build.enum_values('mjDSBL_')
    npoly = build.enum_values('mjNPOLY').get('mjNPOLY')
    if npoly is None:
        import re
        npoly = int(re.search(r'#define mjNPOLY\s+(\d+)', open(build.REPO + '/include/mujoco/mjmodel.h').read() + open(build.REPO + '/include/mujoco/mjtype.h').read()).group(1))
    w = W.World('real')
    nb = nv + 1
    jt = [K['mjJNT_SLIDE'] if j % 2 == 0 else K['mjJNT_HINGE'] for j in range(nv)]
    M, _ = W.full_struct(w, L, 'mjModel_', 'MJMODEL_POINTERS', {'nq': nv, 'nv': nv, 'njnt': nv, 'nbody': nb, 'ntree': nv}, 'm', default_size=0,
                         symbolic=('jnt_stiffness', 'jnt_stiffnesspoly', 'dof_damping', 'dof_dampingpoly', 'qpos_spring'),
                         values={'jnt_type': jt, 'jnt_qposadr': list(range(nv)), 'jnt_dofadr': list(range(nv)), 'body_jntadr': [-1] + list(range(nv)), 'body_jntnum': [0] + [1] * nv,
                                 'jnt_actuatorid': [-1] * nv, 'dof_jntid': list(range(nv))})
    D, _ = W.full_struct(w, L, 'mjData_', 'MJDATA_POINTERS', {'nq': nv, 'nv': nv, 'nbody': nb}, 'd', default_size=0, symbolic=('qpos', 'qvel'))
    dis = 0
    if flags & 1: dis |= KD['mjDSBL_SPRING']
    if flags & 2: dis |= KD['mjDSBL_DAMPER']
    M.set('opt.disableflags', dis); M.set('opt.enableflags', 0)
    k = M.arrays['jnt_stiffness'][3]; kp = M.arrays['jnt_stiffnesspoly'][3]; b = M.arrays['dof_damping'][3]; bp = M.arrays['dof_dampingpoly'][3]; q0 = M.arrays['qpos_spring'][3]
    q = D.arrays['qpos'][3]; v = D.arrays['qvel'][3]
    ex = llsym.Exec(mod(), fpmode='real', loop_bound=max(nv, npoly) + 4)
    st = w.to_state(ex)
    res = ex.run('@mj_springdamper', [w.P(M.o), w.P(D.o)], st)
    ck.note_results(ex, res)
    args = [('ptr', (M.o, 0)), ('ptr', (D.o, 0))]
    g = lambda x: str(W.evalnum(mdl_, x))
    dec = lambda mdl: {'qpos': [str(W.evalnum(mdl, x)) for x in q], 'qpos_spring': [str(W.evalnum(mdl, x)) for x in q0], 'qvel': [str(W.evalnum(mdl, x)) for x in v], 'stiffness': [str(W.evalnum(mdl, x)) for x in k], 'damping': [str(W.evalnum(mdl, x)) for x in b]}
    for r in res:
        if r.kind != 'return': continue
        fs = [ex.load(r.state, w.P(D.arrays['qfrc_spring'][0], 8 * i), FpT('double')) for i in range(nv)]
        fd = [ex.load(r.state, w.P(D.arrays['qfrc_damper'][0], 8 * i), FpT('double')) for i in range(nv)]
        outs = [('qfrc_spring%d' % i, D.arrays['qfrc_spring'][0], 8 * i, 'f64', fs[i]) for i in range(nv)] + [('qfrc_damper%d' % i, D.arrays['qfrc_damper'][0], 8 * i, 'f64', fd[i]) for i in range(nv)]
        rp = W.make_replay(so(), 'mj_springdamper', w, args, outputs=outs, semantics='real')
        for i in range(nv):
            x = q[i] - q0[i]
            pf = k[i]; xp = z3.RealVal(1)
            for t in range(npoly): xp = xp * x; pf = pf + kp[npoly * i + t] * xp
            want_s = -x * pf if not (flags & 1) else z3.RealVal(0)
            ck.prove('spring force on dof %d: -x*(k + sum poly_i x^(i+1)), x = qpos - qpos_spring%s' % (i, ' (disabled: 0)' if flags & 1 else ''), r.state.pc, fs[i] == want_s, site='mj_springdamper:spring', decode=dec, replay=rp)
            av = z3.If(v[i] >= 0, v[i], -v[i]); pd = b[i]; vp = z3.RealVal(1)
            for t in range(npoly): vp = vp * av; pd = pd + bp[npoly * i + t] * vp
            want_d = -v[i] * pd if not (flags & 2) else z3.RealVal(0)
            ck.prove('damper force on dof %d: -v*(b + sum poly_i |v|^(i+1))%s' % (i, ' (disabled: 0)' if flags & 2 else ''), r.state.pc, fd[i] == want_d, site='mj_springdamper:damper', decode=dec, replay=rp)
            if not flags:
                ck.prove('damper dissipates: v*f <= 0 for non-negative coefficients; spring restoring: x*f <= 0 for non-negative coefficients and x >= 0', r.state.pc + [b[i] >= 0] + [c >= 0 for c in bp[npoly * i:npoly * (i + 1)]] +
                         [k[i] >= 0, x >= 0] + [c >= 0 for c in kp[npoly * i:npoly * (i + 1)]], z3.And(v[i] * fd[i] <= 0, x * fs[i] <= 0), site='mj_springdamper:dissipative', decode=dec, replay=rp)
                ck.prove('forces vanish at the reference configuration and zero velocity', r.state.pc + [x == 0, v[i] == 0], z3.And(fs[i] == 0, fd[i] == 0), site='mj_springdamper:zero', decode=dec, replay=rp)
    ck.memory_obligations(res, decode=dec)
    return ck


def units(tier):
    u = []
    for nv in ([1, 2] if tier == 'quick' else [1, 2, 3]):
        for f in (0, 1, 2, 3): u.append(('springdamper_nv%d_f%d' % (nv, f), 'unit_spring', {'nv': nv, 'flags': f}))
    return u
