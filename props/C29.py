"""C29 Passive forces follow their physical laws (part): joint springs and dof dampers of mj_springdamper."""
import z3
from vf import ir, build, llsym, world as W
from vf.runner import Checker
from vf.irparse import IntT, FpT

ID = 'C29'
LEVEL = 'other'
TUS = ['src/engine/engine_passive.c', 'src/engine/engine_core_util.c', 'src/engine/engine_util_blas.c', 'src/engine/engine_util_misc.c', 'src/engine/engine_support.c']
EXPLANATION = ('llsym (real-algebraic) runs the real static mj_springdamper on models with slide/hinge joints: qfrc_spring[dof] = -x * (k + sum_i poly_i x^(i+1)) with x = qpos - qpos_spring (restoring, '
               'zero at the reference, equal to -dV/dx of the polynomial potential x^2 k/2 + ...), qfrc_damper[dof] = -v * (b + sum_i poly_i |v|^(i+1)) with non-positive power v*f for non-negative '
               'coefficients and zero at v = 0; dofs without spring/damper and all other cells are untouched; mjDSBL_SPRING / mjDSBL_DAMPER switch the respective term off.')
BOUNDS = {'quick': {'nv': '<= 2 slide/hinge joints', 'polynomial order': 'mjNPOLY as compiled'}, 'thorough': {'nv': '<= 3'}}
OUTSIDE = 'ball/free joint springs (quaternion difference), flex elasticity, fluid forces, actuator-inherited damping (jnt_actuatorid / tendon_actuatorid = -1), sleeping bodies; gravity compensation is covered on 3-body models (chain and fork) with one dof per body.'
ASSUMPTIONS = ['real-number semantics', 'sleep disabled, nflex = ntendon = 0', 'qfrc_spring / qfrc_damper zeroed by mj_passive before the call']
BUDGET = {'quick': 400, 'thorough': 1500}
_c = {}
SUP = ['src/engine/engine_core_util.c', 'src/engine/engine_util_blas.c', 'src/engine/engine_util_misc.c', 'src/engine/engine_util_errmem.c']


def mod():
    if 'm' not in _c: _c['m'] = ir.load(TUS)
    return _c['m']


def so():
    if 'so' not in _c: _c['so'] = build.native_lib(['src/engine/engine_passive.c'], SUP, name='passive')
    return _c['so']


def lay():
    if 'l' not in _c: _c['l'] = build.Layout()
    return _c['l']


def prepare(tier): mod(); so(); lay(); so_gc()


def unit_spring(tier, nv, flags):
    ck = Checker('springdamper_nv%d_f%d' % (nv, flags), tier, timeout_s=120, semantics='real')
    L = lay(); K = build.enum_values('mjJNT_'); KD = build.enum_values('mjDSBL_')
    npoly = build.enum_values('mjNPOLY').get('mjNPOLY')
    if npoly is None:
        import re
        npoly = int(re.search(r'#define mjNPOLY\s+(\d+)', open(build.REPO + '/include/mujoco/mjmodel.h').read() + open(build.REPO + '/include/mujoco/mjtype.h').read()).group(1))
    w = W.World('real')
    nb = nv + 1
    jt = [K['mjJNT_SLIDE'] if j % 2 == 0 else K['mjJNT_HINGE'] for j in range(nv)]
    M, _ = W.full_struct(w, L, 'mjModel_', 'MJMODEL_POINTERS', {'nq': nv, 'nv': nv, 'njnt': nv, 'nbody': nb, 'ntree': nv}, 'm', default_size=0,
                         symbolic=('jnt_stiffness', 'jnt_stiffnesspoly', 'dof_damping', 'dof_dampingpoly', 'qpos_spring'),
                         values={'jnt_type': jt, 'jnt_qposadr': list(range(nv)), 'jnt_dofadr': list(range(nv)), 'body_jntadr': [-1] + list(range(nv)), 'body_jntnum': [0] + [1] * nv,
                                 'jnt_actuatorid': [-1] * nv, 'dof_jntid': list(range(nv))})
    D, _ = W.full_struct(w, L, 'mjData_', 'MJDATA_POINTERS', {'nq': nv, 'nv': nv, 'nbody': nb}, 'd', default_size=0, symbolic=('qpos', 'qvel'))
    dis = 0
    if flags & 1: dis |= KD['mjDSBL_SPRING']
    if flags & 2: dis |= KD['mjDSBL_DAMPER']
    M.set('opt.disableflags', dis); M.set('opt.enableflags', 0)
    k = M.arrays['jnt_stiffness'][3]; kp = M.arrays['jnt_stiffnesspoly'][3]; b = M.arrays['dof_damping'][3]; bp = M.arrays['dof_dampingpoly'][3]; q0 = M.arrays['qpos_spring'][3]
    q = D.arrays['qpos'][3]; v = D.arrays['qvel'][3]
    ex = llsym.Exec(mod(), fpmode='real', loop_bound=max(nv, npoly) + 4)
    st = w.to_state(ex)
    res = ex.run('@mj_springdamper', [w.P(M.o), w.P(D.o)], st)
    ck.note_results(ex, res)
    args = [('ptr', (M.o, 0)), ('ptr', (D.o, 0))]
    g = lambda x: str(W.evalnum(mdl_, x))
    dec = lambda mdl: {'qpos': [str(W.evalnum(mdl, x)) for x in q], 'qpos_spring': [str(W.evalnum(mdl, x)) for x in q0], 'qvel': [str(W.evalnum(mdl, x)) for x in v], 'stiffness': [str(W.evalnum(mdl, x)) for x in k], 'damping': [str(W.evalnum(mdl, x)) for x in b]}
    for r in res:
        if r.kind != 'return': continue
        fs = [ex.load(r.state, w.P(D.arrays['qfrc_spring'][0], 8 * i), FpT('double')) for i in range(nv)]
        fd = [ex.load(r.state, w.P(D.arrays['qfrc_damper'][0], 8 * i), FpT('double')) for i in range(nv)]
        outs = [('qfrc_spring%d' % i, D.arrays['qfrc_spring'][0], 8 * i, 'f64', fs[i]) for i in range(nv)] + [('qfrc_damper%d' % i, D.arrays['qfrc_damper'][0], 8 * i, 'f64', fd[i]) for i in range(nv)]
        rp = W.make_replay(so(), 'mj_springdamper', w, args, outputs=outs, semantics='real')
        for i in range(nv):
            x = q[i] - q0[i]
            pf = k[i]; xp = z3.RealVal(1)
            for t in range(npoly): xp = xp * x; pf = pf + kp[npoly * i + t] * xp
            want_s = -x * pf if not (flags & 1) else z3.RealVal(0)
            ck.prove('spring force on dof %d: -x*(k + sum poly_i x^(i+1)), x = qpos - qpos_spring%s' % (i, ' (disabled: 0)' if flags & 1 else ''), r.state.pc, fs[i] == want_s, site='mj_springdamper:spring', decode=dec, replay=rp)
            av = z3.If(v[i] >= 0, v[i], -v[i]); pd = b[i]; vp = z3.RealVal(1)
            for t in range(npoly): vp = vp * av; pd = pd + bp[npoly * i + t] * vp
            want_d = -v[i] * pd if not (flags & 2) else z3.RealVal(0)
            ck.prove('damper force on dof %d: -v*(b + sum poly_i |v|^(i+1))%s' % (i, ' (disabled: 0)' if flags & 2 else ''), r.state.pc, fd[i] == want_d, site='mj_springdamper:damper', decode=dec, replay=rp)
            if not flags:
                ck.prove('damper dissipates: v*f <= 0 for non-negative coefficients; spring restoring: x*f <= 0 for non-negative coefficients and x >= 0', r.state.pc + [b[i] >= 0] + [c >= 0 for c in bp[npoly * i:npoly * (i + 1)]] +
                         [k[i] >= 0, x >= 0] + [c >= 0 for c in kp[npoly * i:npoly * (i + 1)]], z3.And(v[i] * fd[i] <= 0, x * fs[i] <= 0), site='mj_springdamper:dissipative', decode=dec, replay=rp)
                ck.prove('forces vanish at the reference configuration and zero velocity', r.state.pc + [x == 0, v[i] == 0], z3.And(fs[i] == 0, fd[i] == 0), site='mj_springdamper:zero', decode=dec, replay=rp)
    ck.memory_obligations(res, decode=dec)
    return ck


def unit_tendon(tier, nt, flags):
    """tendon spring (with deadband lengthspring) and damper, mapped to joint space through the sparse tendon Jacobian"""
    ck = Checker('tendon_nt%d_f%d' % (nt, flags), tier, timeout_s=120, semantics='real')
    L = lay(); K = build.enum_values('mjJNT_'); KD = build.enum_values('mjDSBL_')
    import re
    npoly = int(re.search(r'#define mjNPOLY\s+(\d+)', open(build.REPO + '/include/mujoco/mjmodel.h').read() + open(build.REPO + '/include/mujoco/mjtype.h').read()).group(1))
    w = W.World('real')
    nv = 2; nb = nv + 1
    # tendon 0 touches dofs 0 and 1, tendon 1 (if present) touches dof 1 only
    rowadr = [0, 2][:nt]; rownnz = [2, 1][:nt]; colind = [0, 1, 1][:sum(rownnz)]; nJ = len(colind)
    M, _ = W.full_struct(w, L, 'mjModel_', 'MJMODEL_POINTERS', {'nq': nv, 'nv': nv, 'njnt': nv, 'nbody': nb, 'ntree': nv, 'ntendon': nt, 'nJten': nJ}, 'm', default_size=0,
                         symbolic=('tendon_stiffness', 'tendon_stiffnesspoly', 'tendon_damping', 'tendon_dampingpoly', 'tendon_lengthspring'),
                         values={'jnt_type': [K['mjJNT_SLIDE']] * nv, 'jnt_qposadr': list(range(nv)), 'jnt_dofadr': list(range(nv)), 'body_jntadr': [-1] + list(range(nv)), 'body_jntnum': [0] + [1] * nv,
                                 'jnt_actuatorid': [-1] * nv, 'dof_jntid': list(range(nv)), 'ten_J_rowadr': rowadr, 'ten_J_rownnz': rownnz, 'ten_J_colind': colind, 'tendon_actuatorid': [-1] * nt})
    D, _ = W.full_struct(w, L, 'mjData_', 'MJDATA_POINTERS', {'nq': nv, 'nv': nv, 'nbody': nb, 'ntendon': nt, 'nJten': nJ}, 'd', default_size=0, symbolic=('ten_length', 'ten_velocity', 'ten_J'))
    dis = (KD['mjDSBL_SPRING'] if flags & 1 else 0) | (KD['mjDSBL_DAMPER'] if flags & 2 else 0)
    M.set('opt.disableflags', dis); M.set('opt.enableflags', 0)
    k = M.arrays['tendon_stiffness'][3]; kp = M.arrays['tendon_stiffnesspoly'][3]; b = M.arrays['tendon_damping'][3]; bp = M.arrays['tendon_dampingpoly'][3]; ls = M.arrays['tendon_lengthspring'][3]
    ln = D.arrays['ten_length'][3]; tv = D.arrays['ten_velocity'][3]; J = D.arrays['ten_J'][3]
    ex = llsym.Exec(mod(), fpmode='real', loop_bound=max(nv, npoly, nJ) + 4)
    st = w.to_state(ex)
    pre = [ls[2 * i] <= ls[2 * i + 1] for i in range(nt)]
    st.pc += pre
    res = ex.run('@mj_springdamper', [w.P(M.o), w.P(D.o)], st)
    ck.note_results(ex, res)
    args = [('ptr', (M.o, 0)), ('ptr', (D.o, 0))]
    dec = lambda mdl: {n_: [str(W.evalnum(mdl, x)) for x in a_] for n_, a_ in (('length', ln), ('velocity', tv), ('J', J), ('stiffness', k), ('stiffnesspoly', kp), ('damping', b), ('dampingpoly', bp), ('lengthspring', ls))}
    fs_t = []; fd_t = []
    for i in range(nt):
        x = z3.If(ln[i] > ls[2 * i + 1], ln[i] - ls[2 * i + 1], z3.If(ln[i] < ls[2 * i], ln[i] - ls[2 * i], z3.RealVal(0)))
        pf = k[i]; xp = z3.RealVal(1)
        for t in range(npoly): xp = xp * x; pf = pf + kp[npoly * i + t] * xp
        fs_t.append(z3.RealVal(0) if flags & 1 else -x * pf)
        av = z3.If(tv[i] >= 0, tv[i], -tv[i]); pd = b[i]; vp = z3.RealVal(1)
        for t in range(npoly): vp = vp * av; pd = pd + bp[npoly * i + t] * vp
        fd_t.append(z3.RealVal(0) if flags & 2 else -tv[i] * pd)
    for r in res:
        if r.kind != 'return': continue
        fs = [ex.load(r.state, w.P(D.arrays['qfrc_spring'][0], 8 * i), FpT('double')) for i in range(nv)]
        fd = [ex.load(r.state, w.P(D.arrays['qfrc_damper'][0], 8 * i), FpT('double')) for i in range(nv)]
        outs = [('qfrc_spring%d' % i, D.arrays['qfrc_spring'][0], 8 * i, 'f64', fs[i]) for i in range(nv)] + [('qfrc_damper%d' % i, D.arrays['qfrc_damper'][0], 8 * i, 'f64', fd[i]) for i in range(nv)]
        rp = W.make_replay(so(), 'mj_springdamper', w, args, outputs=outs, semantics='real')
        for dof in range(nv):
            ws = z3.RealVal(0); wd = z3.RealVal(0)
            for i in range(nt):
                for j in range(rowadr[i], rowadr[i] + rownnz[i]):
                    if colind[j] == dof: ws = ws + J[j] * fs_t[i]; wd = wd + J[j] * fd_t[i]
            ck.prove('tendon spring torque on dof %d = sum_t J[t,dof] * (-x (k + sum poly_i x^(i+1))), x = excess over the lengthspring deadband' % dof, r.state.pc, fs[dof] == ws, site='mj_springdamper:tendon-spring', decode=dec, replay=rp)
            ck.prove('tendon damper torque on dof %d = sum_t J[t,dof] * (-v (b + sum poly_i |v|^(i+1)))' % dof, r.state.pc, fd[dof] == wd, site='mj_springdamper:tendon-damper', decode=dec, replay=rp)
    if not flags:
        for i in range(nt):
            ck.prove('tendon damper force opposes the tendon velocity for non-negative coefficients', pre + [b[i] >= 0] + [c >= 0 for c in bp[npoly * i:npoly * (i + 1)]], tv[i] * fd_t[i] <= 0, site='mj_springdamper:tendon-dissipative', decode=dec)
    ck.reach('length above the deadband', pre + [ln[0] > ls[1]])
    ck.memory_obligations(res, decode=dec)
    return ck


def so_gc():
    if 'so2' not in _c: _c['so2'] = build.native_lib(['src/engine/engine_passive.c'], SUP + ['src/engine/engine_support.c', 'src/engine/engine_memory.c'], name='passive_gc')
    return _c['so2']


def unit_gravcomp(tier, sparse, chain):
    """mj_gravcomp on a 3-body model: qfrc_gravcomp[dof] = sum over compensated bodies of -(m gc g) . dp_com/dq_dof, with the force applied at the body's CENTRE OF MASS (xipos)"""
    ck = Checker('gravcomp_%s_%s' % ('sparse' if sparse else 'dense', 'chain' if chain else 'fork'), tier, timeout_s=120, semantics='real')
    L = lay(); KD = build.enum_values('mjDSBL_'); KJ = build.enum_values('mjJAC_')
    w = W.World('real')
    nb = 3; nv = 2
    par = [0, 0, 1] if chain else [0, 0, 0]
    M, _ = W.full_struct(w, L, 'mjModel_', 'MJMODEL_POINTERS', {'nq': nv, 'nv': nv, 'njnt': nv, 'nbody': nb, 'ntree': 1 if chain else 2}, 'm', default_size=0, symbolic=('body_mass', 'body_gravcomp'),
                         values={'body_parentid': par, 'body_rootid': [0, 1, 1] if chain else [0, 1, 2], 'body_weldid': [0, 1, 2], 'body_dofnum': [0, 1, 1], 'body_dofadr': [-1, 0, 1],
                                 'dof_bodyid': [1, 2], 'dof_parentid': [-1, 0] if chain else [-1, -1], 'dof_treeid': [0, 0] if chain else [0, 1], 'body_treeid': [-1, 0, 0] if chain else [-1, 0, 1]})
    D, _ = W.full_struct(w, L, 'mjData_', 'MJDATA_POINTERS', {'nq': nv, 'nv': nv, 'nbody': nb}, 'd', default_size=0, symbolic=('cdof', 'subtree_com', 'xipos', 'xpos', 'qfrc_gravcomp'))
    ar = w.obj('arena', 8192).zeros(); D.o.put(D.off('arena'), 'ptr', (ar, 0)); D.set('narena', 8192)
    M.set('opt.disableflags', 0); M.set('opt.enableflags', 0); M.set('flg_gravcomp', 1); M.set('opt.jacobian', KJ['mjJAC_SPARSE'] if sparse else KJ['mjJAC_DENSE'])
    g = [M.sym('opt.gravity[%d]' % k, 'g%d' % k) for k in range(3)]
    mass = M.arrays['body_mass'][3]; gc = M.arrays['body_gravcomp'][3]
    cdof = D.arrays['cdof'][3]; com = D.arrays['subtree_com'][3]; xi = D.arrays['xipos'][3]; q0 = D.arrays['qfrc_gravcomp'][3]
    def alloc(ex, st, args, ins):
        size = ex.as_int(args[1]); return st.alloc(size, ('stack', len(st.objs)))
    noop = lambda ex, st, args, ins: None
    ex = llsym.Exec(mod(), fpmode='real', loop_bound=12, stubs={'mj_stackAllocInfo': alloc, 'mj_markStack': noop, 'mj_freeStack': noop})
    st = w.to_state(ex)
    pre = [g[0] * g[0] + g[1] * g[1] + g[2] * g[2] > 0]
    st.pc += pre
    res = ex.run('@mj_gravcomp', [w.P(M.o), w.P(D.o)], st)
    ck.note_results(ex, res)
    args = [('ptr', (M.o, 0)), ('ptr', (D.o, 0))]
    dec = lambda mdl: {'gravity': [str(W.evalnum(mdl, x)) for x in g], 'mass': [str(W.evalnum(mdl, x)) for x in mass], 'gravcomp': [str(W.evalnum(mdl, x)) for x in gc],
                       'xipos': [str(W.evalnum(mdl, x)) for x in xi], 'xpos': [str(W.evalnum(mdl, x)) for x in D.arrays['xpos'][3]]}
    def cr(a, b): return [a[1] * b[2] - a[2] * b[1], a[2] * b[0] - a[0] * b[2], a[0] * b[1] - a[1] * b[0]]
    want = list(q0)
    for b in (1, 2):
        root = ([0, 1, 1] if chain else [0, 1, 2])[b]
        off = [xi[3 * b + k] - com[3 * root + k] for k in range(3)]
        f = [-(mass[b] * gc[b]) * g[k] for k in range(3)]
        dofs = ([0] if b == 1 else ([0, 1] if chain else [1]))
        for dof in dofs:
            c = cdof[6 * dof:6 * dof + 6]; t = cr(c[0:3], off)
            jp = [c[3 + k] + t[k] for k in range(3)]
            want[dof] = want[dof] + z3.If(gc[b] != 0, jp[0] * f[0] + jp[1] * f[1] + jp[2] * f[2], z3.RealVal(0))
    for r in res:
        if r.kind != 'return': continue
        out = [ex.load(r.state, w.P(D.arrays['qfrc_gravcomp'][0], 8 * i), FpT('double')) for i in range(nv)]
        rp = W.make_replay(so_gc(), 'mj_gravcomp', w, args, restype='i32', outputs=[('qfrc_gravcomp%d' % i, D.arrays['qfrc_gravcomp'][0], 8 * i, 'f64', out[i]) for i in range(nv)], semantics='real')
        for i in range(nv):
            ck.prove('qfrc_gravcomp[%d] += sum_b J_com(b)^T (-m_b gc_b g), Jacobian taken at the centre of mass xipos of each compensated body' % i, r.state.pc, out[i] == want[i], site='mj_gravcomp:law', decode=dec, replay=rp)
        ck.prove('mj_gravcomp returns whether any body is compensated', r.state.pc, (r.value != 0) == z3.Or(gc[1] != 0, gc[2] != 0), site='mj_gravcomp:return', decode=dec, replay=rp)
    ck.reach('both bodies compensated', pre + [gc[1] != 0, gc[2] != 0])
    ck.memory_obligations(res, decode=dec)
    return ck


def units(tier):
    u = []
    for nv in ([1, 2] if tier == 'quick' else [1, 2, 3]):
        for f in (0, 1, 2, 3): u.append(('springdamper_nv%d_f%d' % (nv, f), 'unit_spring', {'nv': nv, 'flags': f}))
    for sp in (0, 1):
        for ch in (1, 0): u.append(('gravcomp_%s_%s' % ('sparse' if sp else 'dense', 'chain' if ch else 'fork'), 'unit_gravcomp', {'sparse': sp, 'chain': ch}))
    for nt in ([1] if tier == 'quick' else [1, 2]):
        for f in (0, 1, 2, 3): u.append(('tendon_nt%d_f%d' % (nt, f), 'unit_tendon', {'nt': nt, 'flags': f}))
    return u
