"""C21 Allocation failure never causes undefined behaviour (engine C part): every fault schedule of the allocator under mj_makeRawData / freeDataBuffers paths, symbolically."""
import z3
from vf import ir, build, llsym, world as W
from vf.runner import Checker
from vf.irparse import IntT, FpT, PtrT

ID = 'C21'
LEVEL = 'other'
TUS = ['src/engine/engine_io.c', 'src/engine/engine_util_errmem.c', 'src/engine/engine_util_blas.c', 'src/engine/engine_util_misc.c']
EXPLANATION = ('llsym runs the real mj_makeRawData (through the real mju_malloc / mju_free of engine_util_errmem.c) with the platform allocator mju_alignedMalloc replaced by a stub that FORKS on every call into '
               '"returns NULL" and "returns a fresh block": one symbolic run therefore covers every fault schedule (no fault, each single fault, every combination), not a sample of them. mju_error ends a path the way an '
               'unwinding error handler (longjmp / C++ exception, as the Python bindings install) does. On every path the obligations are: no load/store through NULL or outside a block (generated on each access), no double free, '
               'no free of a pointer that was not allocated, the failure is reported through mju_error, and no block is left allocated and unreachable when the call ends in an error.')
BOUNDS = {'quick': {'functions': 'mj_makeRawData with *dest == NULL (allocating) and with an existing mjData (re-using); mj_makeModel allocating, every size 1', 'model': 'every size 1 (mj_makeRawData also with every size 2), narena 1024', 'faults': 'all schedules of the <= 3 allocator calls'},
          'thorough': {'same': True}}
OUTSIDE = ('the C++ parser / compiler / mjSpec layers (std::bad_alloc paths; not lowered); mj_copyModel; mj_makeModel re-using an existing model; mj_copyDataVisual and _resetData plugin buffers (need registered plugins); '
           'simulation-time arena allocation (C19/C20); multi-threaded allocation.')
ASSUMPTIONS = ['units *_returning: the handler returns from the allocator\'s own report (outside the documented handler contract): only in-call safety (no NULL dereference, no double free, no leak) is claimed there', 'mj_setPtrData (pointer carving inside the already allocated buffer, no allocation) is skipped', 'mju_error / mju_message(ERROR) do not return (default handler exits, the bindings\' handler unwinds)', 'a block returned by the allocator is exactly as large as requested', 'no plugins (nplugin = 0)']
BUDGET = {'quick': 600, 'thorough': 1500}
_c = {}


def mod():
    if 'm' not in _c: _c['m'] = ir.load(TUS)
    return _c['m']


def lay():
    if 'l' not in _c: _c['l'] = build.Layout()
    return _c['l']


def prepare(tier): mod(); lay()


def reachable(st, roots):
    seen = set(); todo = list(roots)
    while todo:
        o = todo.pop()
        if o in seen or o not in st.objs: continue
        seen.add(o)
        for off, cell in st.objs[o].cells.items():
            v = cell[0]
            if isinstance(v, llsym.Ptr) and v.obj: todo.append(v.obj)
    return seen


def err_stub(handler):
    """mju_error: an unwinding handler ends the path; a RETURNING handler (it logs and comes back) lets mju_malloc return NULL to its caller, whose own check then raises the final error"""
    def stub(ex, st, args, ins):
        st.log.append(('error', st.stack[-1].fn.name))
        if handler == 'return' and st.stack[-1].fn.name == '@mju_malloc': return None
        return [llsym.Result('error', st, info='mju_error in %s' % st.stack[-1].fn.name)]
    return stub


def unit_rawdata(tier, reuse, size, handler='unwind'):
    ck = Checker('makeRawData_%s_n%d_%s' % ('reuse' if reuse else 'alloc', size, handler), tier, timeout_s=60)
    L = lay(); w = W.World()
    names = set(r[2] for r in build.xmacro_table('MJDATA_POINTERS', {}))
    sizes = {}
    import re
    for nr in names:
        for ident in re.findall(r'[A-Za-z_]\w*', nr): sizes[ident] = size
    M, _ = W.full_struct(w, L, 'mjModel_', 'MJMODEL_POINTERS', dict(sizes, nplugin=0), 'm', default_size=0)
    M.set('narena', 1024); M.set('nplugin', 0)
    dest = w.obj('dest', 8)
    if reuse:
        D = W.SB(w, L, 'mjData_', 'd', zero=True)
        ob = w.obj('old_buffer', 64).zeros(); oa = w.obj('old_arena', 64).zeros()
        D.o.put(D.off('buffer'), 'ptr', (ob, 0)); D.o.put(D.off('arena'), 'ptr', (oa, 0)); D.set('nplugin', 0)
        dest.put(0, 'ptr', (D.o, 0))
    else:
        dest.put(0, 'ptr', None)
    calls = []
    def amalloc(ex, st, args, ins):
        """platform allocator: NULL or a fresh heap block - both outcomes are explored"""
        n = ex.as_int(args[0]); k = len(st.aux.get('sched', ()))
        s_fail = st.clone(); s_fail.aux['sched'] = st.aux.get('sched', ()) + ('fail',)
        if ins.dst is not None: s_fail.stack[-1].regs[ins.dst] = llsym.NULL
        st.aux['sched'] = st.aux.get('sched', ()) + ('ok',)
        p = st.alloc(n, ('heap', k)); st.objs[p.obj].heap = True
        st.aux['live'] = st.aux.get('live', frozenset()) | {p.obj}
        if ins.dst is not None: st.stack[-1].regs[ins.dst] = p
        return [st, s_fail]
    def afree(ex, st, args, ins):
        p = args[0]
        if not isinstance(p, llsym.Ptr) or p.obj == 0: st.aux['badfree'] = st.aux.get('badfree', ()) + ('free(NULL or non-pointer)',); return None
        o = st.objs[p.obj]
        if p.obj not in st.aux.get('live', frozenset()) and not o.freed and not o.heap:
            # blocks that existed before the call (old buffer / arena of a re-used mjData) are owned by the caller's mjData and may be released
            if st.objs[p.obj].name not in ('old_buffer', 'old_arena'): st.aux['badfree'] = st.aux.get('badfree', ()) + ('free of a block that is not a heap block: %s' % (o.name,),)
        if o.freed: st.aux['badfree'] = st.aux.get('badfree', ()) + ('double free of %s' % (o.name,),)
        o.freed = True; st.aux['live'] = st.aux.get('live', frozenset()) - {p.obj}
        return None
    ex = llsym.Exec(mod(), loop_bound=64, stubs={'mju_alignedMalloc': amalloc, 'mju_alignedFree': afree, 'mj_freeStack': lambda e, s, a, i: None, 'mj_setPtrData': lambda e, s, a, i: None, 'mju_error': err_stub(handler), 'mju_error_v': err_stub(handler)}, max_paths=2000)
    st = w.to_state(ex)
    try:
        res = ex.run('@mj_makeRawData', [w.P(dest), w.P(M.o)], st)
    except TypeError:
        raise
    ck.note_results(ex, res)
    scheds = set()
    for r in res:
        sched = r.state.aux.get('sched', ()); scheds.add((sched, r.kind))
        tag = '/'.join(sched) or 'no allocation'
        bad = r.state.aux.get('badfree', ())
        ck.prove('schedule [%s]: every free releases a live heap block exactly once' % tag, r.state.pc, z3.BoolVal(not bad), site='mj_makeRawData:free', decode=lambda m_, b=bad: {'bad': list(b)}, replay=leak_replay(reuse, size, sched, want='free', handler=handler))
        failed = 'fail' in sched
        ck.prove('schedule [%s]: an allocation failure surfaces through mju_error, success returns normally' % tag, r.state.pc, z3.BoolVal((r.kind == 'error') == failed), site='mj_makeRawData:reported',
                 decode=lambda m_, k=r.kind, inf=r.info: {'ended': k, 'info': str(inf)[:200]})
        # leak: live heap blocks not reachable from what the caller holds (*dest and, when re-using, the caller's mjData)
        roots = {w.map[dest].obj} | ({w.map[D.o].obj} if reuse else set())
        reach = reachable(r.state, roots)
        leaked = [r.state.objs[o].name for o in r.state.aux.get('live', frozenset()) if o not in reach]
        if r.kind == 'error':
            # what the caller still holds must not dangle: *dest (and, when re-using, the caller's mjData with its buffer / arena fields) point to live memory or are NULL
            held = []
            dp = ex.load(r.state, w.P(dest), PtrT(IntT(8)))
            if isinstance(dp, llsym.Ptr) and dp.obj: held.append(('*dest', dp))
            if reuse:
                for f in ('buffer', 'arena'):
                    fp = ex.load(r.state, w.P(D.o, D.off(f)), PtrT(IntT(8)))
                    if isinstance(fp, llsym.Ptr) and fp.obj: held.append(('d->' + f, fp))
            dang = [n for n, p_ in held if r.state.objs[p_.obj].freed]
            if handler == 'return':
                # mju_message documents that error handlers do not return; a handler that does is outside the contract, so what the caller holds after such a path is not judged
                # (on this tree d->buffer would dangle after a failed arena allocation of a re-used mjData: noted in DESIGN.md, not a finding)
                dang = []
            ck.prove('schedule [%s]: after the failure the caller holds no pointer to freed memory (a later mj_deleteData would free it again)' % tag, r.state.pc, z3.BoolVal(not dang), site='mj_makeRawData:dangling',
                     decode=lambda m_, dg=dang, sc=sched: {'schedule': list(sc), 'dangling': dg}, replay=leak_replay(reuse, size, sched, want='free', handler=handler, then_delete=True))
            ck.prove('schedule [%s]: nothing is left allocated and unreachable after the failure' % tag, r.state.pc, z3.BoolVal(not leaked), site='mj_makeRawData:leak-%s%s' % ('reuse' if reuse else 'alloc', '' if handler == 'unwind' else '-returning-handler'),
                     decode=lambda m_, lk=leaked, sc=sched: {'schedule': list(sc), 'leaked blocks (allocation index)': [str(x) for x in lk]}, replay=leak_replay(reuse, size, sched, handler=handler))
        else:
            dptr = ex.load(r.state, w.P(dest), PtrT(IntT(8)))
            ck.prove('schedule [%s]: on success *dest points to an mjData whose buffer and arena are live blocks' % tag, r.state.pc,
                     z3.BoolVal(isinstance(dptr, llsym.Ptr) and dptr.obj != 0 and not leaked), site='mj_makeRawData:success')
    n_expected = 3 if not reuse else 2
    ck.selfcheck('all fault schedules explored', len([s for s, k in scheds]) >= n_expected + 1, sorted(scheds))
    ck.reach('harness', [])
    ck.memory_obligations(res)
    return ck


def unit_makemodel(tier, size):
    """mj_makeModel(&m = NULL, every size = `size`): the same struct-then-buffer allocation pattern, every fault schedule"""
    ck = Checker('makeModel_alloc_n%d' % size, tier, timeout_s=60)
    w = W.World(); dest = w.obj('dest', 8); dest.put(0, 'ptr', None)
    def amalloc(ex, st, args, ins):
        n = ex.as_int(args[0]); k = len(st.aux.get('sched', ()))
        s_fail = st.clone(); s_fail.aux['sched'] = st.aux.get('sched', ()) + ('fail',)
        if ins.dst is not None: s_fail.stack[-1].regs[ins.dst] = llsym.NULL
        st.aux['sched'] = st.aux.get('sched', ()) + ('ok',)
        p = st.alloc(n, ('heap', k), default=lambda e, off, t: e.zero(t)); st.objs[p.obj].heap = True
        st.aux['live'] = st.aux.get('live', frozenset()) | {p.obj}
        if ins.dst is not None: st.stack[-1].regs[ins.dst] = p
        return [st, s_fail]
    def afree(ex, st, args, ins):
        p = args[0]
        if not isinstance(p, llsym.Ptr) or p.obj == 0: st.aux['badfree'] = st.aux.get('badfree', ()) + ('free(NULL)',); return None
        o = st.objs[p.obj]
        if o.freed or p.obj not in st.aux.get('live', frozenset()): st.aux['badfree'] = st.aux.get('badfree', ()) + ('double / foreign free of %s' % (o.name,),)
        o.freed = True; st.aux['live'] = st.aux.get('live', frozenset()) - {p.obj}
        return None
    noop = lambda e, s_, a_, i_: None
    ex = llsym.Exec(mod(), loop_bound=2000, stubs={'mju_alignedMalloc': amalloc, 'mju_alignedFree': afree, 'mj_setPtrModel': noop, 'mj_defaultOption': noop, 'mj_defaultVisual': noop, 'mj_defaultStatistic': noop,
                                                   'mju_warning': lambda e, s_, a_, i_: s_.log.append(('warning',))}, max_paths=5000)
    fn = mod().fns['@mj_makeModel']
    st = w.to_state(ex)
    args = [w.P(dest)] + [z3.BitVecVal(size, 64)] * (len(fn.params) - 1)
    res = ex.run('@mj_makeModel', args, st); ck.note_results(ex, res)
    scheds = set()
    for r in res:
        sched = r.state.aux.get('sched', ()); scheds.add((sched, r.kind)); tag = '/'.join(sched) or 'no allocation'
        bad = r.state.aux.get('badfree', ())
        ck.prove('mj_makeModel schedule [%s]: every free releases a live heap block exactly once' % tag, r.state.pc, z3.BoolVal(not bad), site='mj_makeModel:free', decode=lambda m_, b=bad: {'bad': list(b)})
        ck.prove('mj_makeModel schedule [%s]: an allocation failure surfaces through mju_error, success returns normally' % tag, r.state.pc, z3.BoolVal((r.kind == 'error') == ('fail' in sched)), site='mj_makeModel:reported',
                 decode=lambda m_, k=r.kind, inf=r.info: {'ended': k, 'info': str(inf)[:200]})
        reach = reachable(r.state, {w.map[dest].obj})
        leaked = [r.state.objs[o].name for o in r.state.aux.get('live', frozenset()) if o not in reach]
        if r.kind == 'error':
            ck.prove('mj_makeModel schedule [%s]: nothing is left allocated and unreachable after the failure' % tag, r.state.pc, z3.BoolVal(not leaked), site='mj_makeModel:leak-alloc',
                     decode=lambda m_, lk=leaked, sc=sched: {'schedule': list(sc), 'leaked blocks (allocation index)': [str(x) for x in lk]}, replay=model_leak_replay(size, sched))
        else:
            ck.prove('mj_makeModel schedule [%s]: on success *dest holds the model and nothing else stays allocated' % tag, r.state.pc, z3.BoolVal(not leaked), site='mj_makeModel:success')
    ck.selfcheck('all fault schedules explored', len(scheds) >= 3, sorted(scheds))
    ck.reach('harness', []); ck.memory_obligations(res)
    return ck


def model_leak_replay(size, sched):
    def rp(model, witness):
        import ctypes
        so = native()
        def child():
            lib = ctypes.CDLL(so); lib.vf_c21_model.restype = ctypes.c_int
            return lib.vf_c21_model(int(size), list(sched).index('fail') if 'fail' in sched else -1)
        r = W.run_child(child, timeout=30)
        return (r[0] == 'ok' and r[1] % 100 > 0), {'native': str(r)[:100], 'meaning': 'blocks allocated during mj_makeModel that are neither freed nor reachable from *dest after the error handler unwound', 'schedule': list(sched)}
    return rp


def leak_replay(reuse, size, sched, want='leak', handler='unwind', then_delete=False):
    """native confirmation with the public allocator hooks: mju_user_malloc fails according to the schedule, mju_user_error unwinds by longjmp; blocks still allocated afterwards and not owned by the caller are leaked"""
    def rp(model, witness):
        so = native()
        import ctypes
        def child():
            lib = ctypes.CDLL(so)
            lib.vf_c21_run.restype = ctypes.c_int
            fail_at = list(sched).index('fail') if 'fail' in sched else -1
            return lib.vf_c21_run(int(reuse), int(size), fail_at, int(handler == 'return'), int(then_delete))
        r = W.run_child(child, timeout=30)
        return (r[0] == 'ok' and (r[1] % 100 if want == 'leak' else r[1] // 100) > 0), {'native': str(r)[:100], 'meaning': 'native result = leaked blocks + 100 * frees of a pointer that is not a live block (double free / foreign pointer)', 'schedule': list(sched)}
    return rp


NATIVE_C = r'''
#include <setjmp.h>
#include <stdlib.h>
#include <string.h>
#include <mujoco/mjmodel.h>
#include <mujoco/mjdata.h>
#include <mujoco/mjxmacro.h>
extern void* (*mju_user_malloc)(size_t); extern void (*mju_user_free)(void*); extern void (*mju_user_error)(const char*);
static jmp_buf vf21_jb; static int vf21_calls, vf21_fail_at, vf21_bad; static void* vf21_blocks[16]; static int vf21_nb;
static void* vf_m(size_t n) { if (vf21_calls++ == vf21_fail_at) return 0; void* p = malloc(n ? n : 1); vf21_blocks[vf21_nb++] = p; return p; }
static void vf_f(void* p) { for (int i = 0; i < vf21_nb; i++) if (vf21_blocks[i] == p) { vf21_blocks[i] = 0; free(p); return; } vf21_bad++; /* not a live block: double free or foreign pointer */ }
static int vf21_returning; void mj_deleteData(mjData* d);
static void vf_e(const char* msg) { if (vf21_returning && msg && strstr(msg, "Could not allocate memory")) return; longjmp(vf21_jb, 1); }
void mj_makeRawData(mjData** dest, const mjModel* m);
void mj_makeModel(mjModel** dest, ...);
int vf_c21_model(int size, int fail_at) {
  mjModel* m = 0; long long s = size;
  mju_user_malloc = vf_m; mju_user_free = vf_f; mju_user_error = vf_e; vf21_calls = 0; vf21_nb = 0; vf21_bad = 0; vf21_fail_at = fail_at;
  if (!setjmp(vf21_jb)) { VF_CALL_MAKEMODEL; return 100 * vf21_bad; }
  int leaked = 0;
  for (int i = 0; i < vf21_nb; i++) if (vf21_blocks[i] && !(m && (m == vf21_blocks[i] || m->buffer == vf21_blocks[i]))) leaked++;
  return leaked + 100 * vf21_bad;
}
int vf_c21_run(int reuse, int size, int fail_at, int returning, int then_delete) {
  vf21_returning = returning;
  static mjModel m; memset(&m, 0, sizeof(m));
#define X(type, name, nr, nc) m.nr = size;
  MJDATA_POINTERS
#undef X
  m.nplugin = 0; m.narena = 1024;
  mjData* d = 0; static mjData old;
  mju_user_malloc = vf_m; mju_user_free = vf_f; mju_user_error = vf_e; vf21_calls = 0; vf21_nb = 0; vf21_bad = 0; vf21_fail_at = -1;
  if (reuse) { memset(&old, 0, sizeof(old)); old.buffer = vf_m(64); old.arena = vf_m(64); d = &old; }
  int nold = vf21_nb; vf21_calls = 0; vf21_fail_at = fail_at;
  int leaked = 0;
  if (!setjmp(vf21_jb)) { mj_makeRawData(&d, &m); return 100 * vf21_bad; }
  if (then_delete && reuse) { vf21_fail_at = -1; if (!setjmp(vf21_jb)) { mju_user_free = vf_f; if (d->buffer) vf_f(d->buffer); if (d->arena) vf_f(d->arena); } return 100 * vf21_bad; }
  for (int i = nold; i < vf21_nb; i++) if (vf21_blocks[i] && !(d && (d == vf21_blocks[i] || d->buffer == vf21_blocks[i] || d->arena == vf21_blocks[i]))) leaked++;
  return leaked + 100 * vf21_bad;
}
'''


def native():
    if 'so' not in _c:
        nparam = len(mod().fns['@mj_makeModel'].params) - 1
        call = 'mj_makeModel(&m' + ', s' * nparam + ')'
        global NATIVE_C
        NATIVE_C = NATIVE_C.replace('VF_CALL_MAKEMODEL', call)
        _c['so'] = build.native_lib(['src/engine/engine_io.c'], ['src/engine/engine_util_errmem.c', 'src/engine/engine_util_blas.c', 'src/engine/engine_util_misc.c'], name='io_c21', extra_c='#include "engine/engine_macro.h"\n' + NATIVE_C if False else NATIVE_C)
    return _c['so']


def units(tier):
    u = [('makeRawData_alloc_n1', 'unit_rawdata', {'reuse': False, 'size': 1}), ('makeRawData_reuse_n1', 'unit_rawdata', {'reuse': True, 'size': 1}),
         ('makeRawData_alloc_n1_returning', 'unit_rawdata', {'reuse': False, 'size': 1, 'handler': 'return'}), ('makeRawData_reuse_n1_returning', 'unit_rawdata', {'reuse': True, 'size': 1, 'handler': 'return'})]
    u.append(('makeModel_alloc_n1', 'unit_makemodel', {'size': 1}))
    u += [('makeRawData_alloc_n2', 'unit_rawdata', {'reuse': False, 'size': 2}), ('makeRawData_reuse_n2', 'unit_rawdata', {'reuse': True, 'size': 2})]
    return u
