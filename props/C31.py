"""C31 Binary model files: corrupt reference fields are rejected (mj_validateReferences), truncated headers never read out of bounds."""
import z3, re, os
from vf import ir, build, llsym, world as W
from vf.runner import Checker
from vf.irparse import IntT

ID = 'C31'
LEVEL = 'other'
TUS = ['src/engine/engine_io.c']
EXPLANATION = ('llsym executes the real mj_validateReferences on a complete mjModel (every array of MJMODEL_POINTERS present, sizes small and concrete) whose '
               'integer arrays are ALL symbolic 32-bit values: whenever the function accepts the model (returns NULL), every row (array, count, target, num) of its own '
               'reference table - re-extracted from the source text on every run - must satisfy -1 <= adr and adr + num <= target in MATHEMATICAL integers (64-bit '
               'arithmetic in the assertion, so a wrapped int sum in the code is visible), 0 <= num, plus the special rules restated independently. Separately the prefix of '
               'mj_loadModelBuffer (header + size block) is executed on a buffer object of SYMBOLIC size with symbolic contents: no read at or beyond buffer_sz, NULL with a warning when '
               'the header mismatches or the buffer ends inside header/sizes.')
BOUNDS = {'quick': {'sizes': 'every n* = 1 (nuser_* = 0)', 'contents': 'any 32-bit value in every int array'}, 'thorough': {'sizes': 'n* = 1 and n* = 2'}}
OUTSIDE = 'reference rows of sensors and tuples (their validation loops have multi-way switches whose path count exceeds the budget: nsensor = ntuple = 0 in every unit); exact round-trip of array contents (memcpy of opaque bytes); the array-reading loop of mj_loadModelBuffer after mj_makeModel (mj_makeModel is stubbed to fail); mj_sizeModel vs saved length.'
ASSUMPTIONS = ['model arrays have their documented sizes (mj_makeModel)', 'buffer_sz >= 0', 'mj_makeModel stubbed: returns with *m = NULL', 'mju_warning logged']
BUDGET = {'quick': 900, 'thorough': 3000}
_c = {}


def mod():
    if 'm' not in _c: _c['m'] = ir.load(TUS + ['src/engine/engine_support.c'])
    return _c['m']


SUP = ['src/engine/engine_util_errmem.c', 'src/engine/engine_support.c', 'src/engine/engine_util_blas.c', 'src/engine/engine_util_misc.c', 'src/engine/engine_memory.c', 'src/engine/engine_init.c']


def so():
    if 'so' not in _c: _c['so'] = build.native_lib(TUS, SUP, name='io')
    return _c['so']


def lay():
    if 'l' not in _c: _c['l'] = build.Layout()
    return _c['l']


def table():
    if 't' not in _c:
        src = open(os.path.join(build.REPO, 'src/engine/engine_io.c')).read()
        body = src[src.index('#define MJMODEL_REFERENCES'):]
        body = body[:body.index('#define X(adrarray')]
        _c['t'] = [(a, n.replace(' ', ''), t, None if num.strip() == '0' else num.strip().replace('m->', '')) for a, n, t, num in
                   re.findall(r'X\(\s*(\w+)\s*,\s*([\w*]+)\s*,\s*(\w+)\s*,\s*([\w>\-]+)\s*\)', body)]
    return _c['t']


def prepare(tier): mod(); so(); lay(); table(); build.xmacro_table('MJMODEL_POINTERS')


def I(v): return z3.BitVecVal(v, 32)
def sx(v): return z3.SignExt(64 - v.size(), v) if v.size() < 64 else v


def unit_validate(tier, n, only=None, distinct=False):
    ck = Checker('validate_n%d_%s%s' % (n, only or 'base', '_distinct' if distinct else ''), tier, timeout_s=120)
    L = lay(); rows = table()
    ck.selfcheck('reference table extracted', len(rows) > 80, len(rows))
    w = W.World()
    # the loops over equalities / wraps / actuators / sensors / tuples contain multi-way switches whose cases all continue: their path
    # counts multiply, so each family is exercised in its own unit (count n) with the other families empty
    fam = ['neq', 'nwrap', 'nactuator', 'nsensor', 'ntuple', 'nexclude']
    sizes = {f: (n if f == only else 0) for f in fam}
    if distinct:
        # targets of different reference rows get different sizes, so that a check against the wrong size field is visible
        sizes.update({'nq': 9, 'nv': 7, 'nbody': 2, 'njnt': 1, 'ngeom': 1, 'nmat': 3, 'nM': 4, 'na': 2, 'nu': 3, 'nmocap': 1, 'nnames': 5, 'npaths': 2, 'ntree': 1, 'nbvh': 2, 'nplugin': 0})
    M, xrows = W.full_struct(w, L, 'mjModel_', 'MJMODEL_POINTERS', sizes, 'm', default_size=n, sym_ints=True)
    for (arr, nadrs, target, num) in rows:
        if target not in M.sizes: M.set(target, n); M.sizes[target] = n
    ex = llsym.Exec(mod(), loop_bound=4 * n + 8, max_paths=int(os.environ.get('VERIF_C31_PATHS', '120000')))
    st = w.to_state(ex)
    res = ex.run('@mj_validateReferences', [w.P(M.o)], st)
    ck.note_results(ex, res)
    args = [('ptr', (M.o, 0))]
    nacc = 0
    maxarr = int(re.search(r'#define MAX_ARRAY_SIZE\s+\(?([^\n]+)', open(os.path.join(build.REPO, 'src/engine/engine_io.c')).read()).group(1).strip(') ').replace('INT_MAX', str(2**31 - 1)).split('/')[0]) if False else None
    for r in res:
        if r.kind != 'return': continue
        p = r.value
        if not (isinstance(p, llsym.Ptr) and p.obj == 0): continue      # rejected with a message: nothing to claim
        nacc += 1
        pc = r.state.pc
        rp = W.make_replay(so(), 'mj_validateReferences', w, args, restype='u64', ret_term=z3.BitVecVal(0, 64))
        def dec_for(arrs):
            return lambda mdl: {a: [W.evalnum(mdl, x) - ((W.evalnum(mdl, x) >> 31) << 32) for x in M.arrays[a][3]] for a in arrs if a in M.arrays and M.arrays[a][3]}
        for (arr, nadrs, target, num) in rows:
            avals = M.arrays[arr][3]; cnt = int(eval(nadrs, {}, dict(M.sizes)))
            tgt = M.sizes[target]
            nvals = M.arrays[num][3] if num else None
            cl = []
            for i in range(cnt):
                a = sx(avals[i]); k = sx(nvals[i]) if nvals else z3.BitVecVal(1, 64)
                cl.append(z3.And(a >= -1, k >= 0, a + k <= tgt))
            if cl:
                ck.prove('accepted model: %s[i] >= -1 and %s[i] + %s <= %s (mathematical integers)' % (arr, arr, (num + '[i]') if num else '1', target), pc, z3.And(*cl),
                         site='mj_validateReferences:%s' % arr, decode=dec_for([arr, num]), replay=rp)
        # special rules restated independently
        sp = []
        g = lambda a: M.arrays[a][3]
        for i in range(M.sizes['nbody']):
            if i > 0: sp.append(('body_parentid < own index', g('body_parentid')[i] < i, ['body_parentid']))
            sp.append(('body_rootid <= own index', g('body_rootid')[i] <= i, ['body_rootid'])); sp.append(('body_weldid <= own index', g('body_weldid')[i] <= i, ['body_weldid']))
        npos = [7, 4, 1, 1]; nvel = [6, 3, 1, 1]
        for i in range(M.sizes['njnt']):
            t = g('jnt_type')[i]
            sp.append(('jnt_type in [0,4)', z3.And(t >= 0, t < 4), ['jnt_type']))
            for k in range(4):
                sp.append(('jnt_qposadr + nPOS <= nq', z3.Implies(t == k, z3.And(sx(g('jnt_qposadr')[i]) >= 0, sx(g('jnt_qposadr')[i]) + npos[k] <= M.sizes['nq'])), ['jnt_type', 'jnt_qposadr']))
                sp.append(('jnt_dofadr + nVEL <= nv', z3.Implies(t == k, z3.And(sx(g('jnt_dofadr')[i]) >= 0, sx(g('jnt_dofadr')[i]) + nvel[k] <= M.sizes['nv'])), ['jnt_type', 'jnt_dofadr']))
        for i in range(M.sizes['nv']): sp.append(('dof_parentid < own index', g('dof_parentid')[i] < i, ['dof_parentid']))
        for i in range(M.sizes['ngeom']): sp.append(('geom_condim in [0,6]', z3.And(g('geom_condim')[i] >= 0, g('geom_condim')[i] <= 6), ['geom_condim']))
        for i in range(M.sizes['npair']):
            sig = g('pair_signature')[i]
            sp.append(('pair bodies in range', z3.And(sx(sig & 0xFFFF) < M.sizes['nbody'], sx(sig >> 16) < M.sizes['nbody'], sx(sig >> 16) >= 0), ['pair_signature']))
        byname = {}
        for nm, c, arrs in sp: byname.setdefault(nm, []).append((c, arrs))
        for nm, lst in byname.items():
            ck.prove('accepted model: ' + nm, pc, z3.And(*[c for c, _ in lst]), site='mj_validateReferences:special:%s' % nm.split(' ')[0], decode=dec_for(lst[0][1]), replay=rp)
    if nacc == 0: ck.error('no accepting path explored')
    ck.notes.append('%d accepting paths' % nacc)
    ck.memory_obligations(res)
    return ck


def unit_header(tier):
    ck = Checker('header', tier, timeout_s=120)
    m = mod()
    w = W.World()
    bsz = z3.BitVec('buffer_sz', 32); w.syms.append(('buffer_sz', 'i32', bsz))
    CAP = 20 + 8 * 256
    buf = w.obj('buffer', z3.ZeroExt(32, bsz))
    hdr = [buf.sym(4 * i, 'i32', 'hdr%d' % i) for i in range(5)]
    sizes = [buf.sym(20 + 8 * i, 'i64', 'size%d' % i) for i in range(256)]
    made = []
    def mk(ex, st, args, ins):
        st.log.append(('call', 'mj_makeModel')); ex.store(st, args[0], llsym.PtrT(IntT(8)) if hasattr(llsym, 'PtrT') else None, llsym.NULL); return None
    from vf.irparse import PtrT
    def mk(ex, st, args, ins):
        st.log.append(('call', 'mj_makeModel')); ex.store(st, args[0], PtrT(IntT(8)), llsym.NULL); return None
    ex = llsym.Exec(m, loop_bound=300, stubs={'mj_makeModel': mk})
    st = w.to_state(ex); st.pc += [bsz >= 0]
    res = ex.run('@mj_loadModelBuffer', [w.P(buf), bsz], st)
    ck.note_results(ex, res)
    for r in res:
        if r.kind == 'error':
            ck.prove('loadModelBuffer prefix: no mju_error for any buffer (corrupt input is rejected with NULL, not a fatal error)', r.state.pc, z3.BoolVal(False), site='mj_loadModelBuffer:error',
                     decode=lambda mdl: {'buffer_sz': W.evalnum(mdl, bsz)}); continue
        if r.kind != 'return': continue
        isnull = isinstance(r.value, llsym.Ptr) and r.value.obj == 0
        warned = any(e[0] == 'warning' for e in r.state.log)
        ck.prove('loadModelBuffer prefix: returns NULL with a warning on this path', r.state.pc, z3.BoolVal(isnull and warned), site='mj_loadModelBuffer:null-warning')
        called = any(e[:2] == ('call', 'mj_makeModel') for e in r.state.log)
        nsz = None
        if called:
            ck.prove('loadModelBuffer: model construction only reached with a complete header+size block inside the buffer', r.state.pc, z3.UGE(z3.ZeroExt(32, bsz), 20 + 8 * 84), site='mj_loadModelBuffer:sizes-inside')
    ck.reach('short buffer', [bsz >= 0, bsz < 20]); ck.reach('long buffer', [bsz >= 4096])
    ck.memory_obligations(res, decode=lambda mdl: {'buffer_sz': W.evalnum(mdl, bsz)})
    return ck


def file_replay(bsz):
    """replay on the real code with a real file: make a minimal model (nbody = 1) with the real mj_makeModel, save it with the real mj_saveModel,
    and load the first buffer_sz bytes; reproduced iff the real loader ends in mju_error (exit through the error handler)"""
    import ctypes
    def rp(model, witness):
        n_req = W.evalnum(model, bsz)
        def child():
            lib = W.load_lib(so())
            mp = ctypes.c_void_p(0)
            args = [ctypes.c_int64(0)] * 84; args[6] = ctypes.c_int64(1)
            lib.mj_makeModel(ctypes.byref(mp), *args)
            if not mp.value: return {'no_model': True}
            lib.mj_sizeModel.restype = ctypes.c_int64
            n = lib.mj_sizeModel(mp)
            data = ctypes.create_string_buffer(n)
            lib.mj_saveModel(mp, None, data, ctypes.c_int64(n))
            exact = (ctypes.c_char * max(n_req, 1)).from_buffer_copy(bytes(data.raw[:n_req]).ljust(max(n_req, 1), b'\0'))
            lib.mj_loadModelBuffer.restype = ctypes.c_void_p
            r = lib.mj_loadModelBuffer(exact, ctypes.c_int(n_req))
            return {'file_size': n, 'loaded': r}
        st_ = W.run_child(child)
        return st_[0] == 'error', {'native': st_[0], 'buffer_sz': n_req, 'detail': str(st_[1:])[:300]}
    return rp


def unit_body(tier):
    """mj_loadModelBuffer past mj_makeModel: the stub hands back a model with every array present and empty (all sizes 0), so the
    struct block, the flag bytes and the (empty) array section are read from a buffer of SYMBOLIC size"""
    ck = Checker('loadbody', tier, timeout_s=120)
    m = mod(); L = lay()
    from vf.irparse import PtrT
    w = W.World()
    bsz = z3.BitVec('buffer_sz', 32); w.syms.append(('buffer_sz', 'i32', bsz))
    buf = w.obj('buffer', z3.ZeroExt(32, bsz))
    nsize = len(re.findall(r'X\s*\(\s*\w+\s*\)', open(os.path.join(build.REPO, 'include/mujoco/mjxmacro.h')).read().split('#define MJMODEL_SIZES')[1].split('\n\n')[0]))
    # valid header: take the expected values from a concrete native call of the accessor functions
    import ctypes
    lib = ctypes.CDLL(so())
    try: expect = [lib.vf_header_id() if hasattr(lib, 'vf_header_id') else None]
    except Exception: expect = [None]
    hdr = [buf.sym(4 * i, 'i32', 'hdr%d' % i) for i in range(5)]
    for i in range(nsize): buf.put(20 + 8 * i, 'i64', 0)
    tail0 = 20 + 8 * nsize
    structs = L.sizeof('mjOption_') + L.sizeof('mjVisual_') + L.sizeof('mjStatistic_') + 2
    for i in range(structs + 16): buf.put(tail0 + i, 'u8', 0)
    fam = {}
    M, xrows = W.full_struct(w, L, 'mjModel_', 'MJMODEL_POINTERS', fam, 'model', default_size=0)
    M.set('nbuffer', 0)
    def mk(ex, st, args, ins):
        st.log.append(('call', 'mj_makeModel')); ex.store(st, args[0], PtrT(IntT(8)), w.P(M.o)); return None
    def delm(ex, st, args, ins): st.log.append(('call', 'mj_deleteModel')); return None
    ex = llsym.Exec(m, loop_bound=600, stubs={'mj_makeModel': mk, 'mj_deleteModel': delm, 'mj_validateReferences': lambda ex, st, a, i: llsym.NULL}, max_paths=5000)
    st = w.to_state(ex); st.pc += [bsz >= 0]
    res = ex.run('@mj_loadModelBuffer', [w.P(buf), bsz], st)
    ck.note_results(ex, res)
    full = tail0 + structs
    dec = lambda mdl: {'buffer_sz': W.evalnum(mdl, bsz), 'complete_file_size': full}
    nok = 0
    for r in res:
        if r.kind == 'error':
            ck.prove('loadModelBuffer: a truncated or oversized buffer is rejected with NULL, never with a fatal mju_error', r.state.pc, z3.BoolVal(False), site='mj_loadModelBuffer:error', decode=dec,
                     replay=file_replay(bsz)); continue
        if r.kind != 'return': continue
        isnull = isinstance(r.value, llsym.Ptr) and r.value.obj == 0
        if isnull:
            ck.prove('loadModelBuffer: NULL is returned with a warning', r.state.pc, z3.BoolVal(any(e[0] == 'warning' for e in r.state.log)), site='mj_loadModelBuffer:null-warning', decode=dec)
        else:
            nok += 1
            ck.prove('loadModelBuffer: a model is returned only for a buffer of exactly the file size', r.state.pc, z3.ZeroExt(32, bsz) == full, site='mj_loadModelBuffer:exact-size', decode=dec)
    if nok == 0: ck.error('no accepting path (valid header not reachable?)')
    ck.reach('truncated inside the struct block', [bsz >= tail0, bsz < full])
    ck.memory_obligations(res, decode=dec)
    return ck


def units(tier):
    u = [('header', 'unit_header', {}), ('loadbody', 'unit_body', {})]
    for only in (None, 'neq', 'nwrap', 'nactuator', 'nexclude'):
        u.append(('validate_n1_%s' % (only or 'base'), 'unit_validate', {'n': 1, 'only': only}))
    u.append(('validate_distinct', 'unit_validate', {'n': 1, 'only': None, 'distinct': True}))
    if tier == 'thorough':
        for only in (None, 'neq', 'nactuator'): u.append(('validate_n2_%s' % (only or 'base'), 'unit_validate', {'n': 2, 'only': only}))
    return u
