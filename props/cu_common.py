"""Shared harness for C11/C12: the real mj_constraintUpdate_impl in real-algebraic mode, one row group at a time."""
import z3
from vf import ir, build, llsym, world as W
from vf.irparse import IntT, FpT

TUS = ['src/engine/engine_core_constraint.c', 'src/engine/engine_util_blas.c', 'src/engine/engine_util_misc.c']
_c = {}


def mod():
    if 'm' not in _c: _c['m'] = ir.load(TUS)
    return _c['m']


def so():
    if 'so' not in _c:
        _c['so'] = build.native_lib(['src/engine/engine_core_constraint.c'], ['src/engine/engine_util_blas.c', 'src/engine/engine_util_misc.c', 'src/engine/engine_util_errmem.c'], name='constraint')
    return _c['so']


def lay():
    if 'l' not in _c: _c['l'] = build.Layout()
    return _c['l']


def K():
    if 'k' not in _c:
        k = build.enum_values('mjCNSTR_'); k.update(build.enum_values('mjCNSTRSTATE_')); _c['k'] = k
    return _c['k']


def prepare(tier=None): mod(); so(); lay(); K()


class CU:
    """rows: list of ('eq'|'fric'|'limit'|'pyr'|'ell', condim) - at most one elliptic contact (its condim rows)"""
    def __init__(self, rows, flg_hess=0, with_cost=True):
        k = K(); L = lay()
        self.w = w = W.World('real')
        types = []; self.kind = []
        ne = nf = 0
        for kind, dim in rows:
            if kind == 'eq': types.append(k['mjCNSTR_EQUALITY']); ne += 1; self.kind.append(('eq', 0))
            elif kind == 'fric': types.append(k['mjCNSTR_FRICTION_DOF']); nf += 1; self.kind.append(('fric', 0))
            elif kind == 'limit': types.append(k['mjCNSTR_LIMIT_JOINT']); self.kind.append(('limit', 0))
            elif kind == 'pyr': types.append(k['mjCNSTR_CONTACT_PYRAMIDAL']); self.kind.append(('pyr', 0))
            elif kind == 'ell':
                for j in range(dim): types.append(k['mjCNSTR_CONTACT_ELLIPTIC']); self.kind.append(('ell', j))
                self.condim = dim
        self.ne, self.nf, self.n = ne, nf, len(types)
        n = self.n
        self.Do, self.D = w.arr('D', 'f64', n); self.Ro, self.R = w.arr('R', 'f64', n); self.Fo, self.fl = w.arr('floss', 'f64', n); self.Jo, self.jar = w.arr('jar', 'f64', n)
        self.To, _ = w.arr('type', 'i32', n, types); self.Io, _ = w.arr('id', 'i32', n, [0] * n); self.So, _ = w.arr('state', 'i32', n, [-7] * n)
        self.Fco, _ = w.arr('force', 'f64', n, [0.0] * n); self.Co, _ = w.arr('cost', 'f64', 1, [0.0])
        self.con = W.SB(w, L, 'mjContact_', 'contact', zero=True)
        self.mu = self.con.sym('mu', 'mu'); self.fr = [self.con.sym('friction[%d]' % i, 'fr%d' % i) for i in range(5)]
        self.condim = getattr(self, 'condim', 0)
        self.con.set('dim', self.condim if self.condim else 1)
        self.flg = flg_hess; self.with_cost = with_cost
        pre = [self.mu > 0] + [f > 0 for f in self.fr] + [d > 0 for d in self.D] + [r > 0 for r in self.R] + [f >= 0 for f in self.fl] + [self.D[i] * self.R[i] == 1 for i in range(n)]
        # relation established by mj_makeImpedance for the rows of one elliptic contact: D_j * mu^2 = D_0 * friction_{j-1}^2
        base = [i for i, kd in enumerate(self.kind) if kd == ('ell', 0)]
        self.base = base[0] if base else None
        if self.base is not None:
            for j in range(1, self.condim): pre.append(self.D[self.base + j] * self.mu * self.mu == self.D[self.base] * self.fr[j - 1] * self.fr[j - 1])
        self.pre = pre
        self.ex = ex = llsym.Exec(mod(), fpmode='real', loop_bound=64)
        st = w.to_state(ex); st.pc += pre
        I = lambda v: z3.BitVecVal(v, 32)
        P = w.P
        self.nargs = [('i32', ne), ('i32', nf), ('i32', n), ('ptr', (self.Do, 0)), ('ptr', (self.Ro, 0)), ('ptr', (self.Fo, 0)), ('ptr', (self.Jo, 0)), ('ptr', (self.To, 0)), ('ptr', (self.Io, 0)),
                      ('ptr', (self.con.o, 0)), ('ptr', (self.So, 0)), ('ptr', (self.Fco, 0)), ('ptr', (self.Co, 0) if with_cost else None), ('i32', flg_hess)]
        self.res = ex.run('@mj_constraintUpdate_impl', [I(ne), I(nf), I(n), P(self.Do), P(self.Ro), P(self.Fo), P(self.Jo), P(self.To), P(self.Io), P(self.con.o), P(self.So), P(self.Fco),
                                                       P(self.Co) if with_cost else llsym.NULL, I(flg_hess)], st)
    def paths(self):
        ex, w = self.ex, self.w
        for r in self.res:
            if r.kind != 'return': continue
            s2 = r.state
            force = [ex.load(s2, w.P(self.Fco, 8 * i), FpT('double')) for i in range(self.n)]
            state = [z3.simplify(ex.load(s2, w.P(self.So, 4 * i), IntT(32))) for i in range(self.n)]
            cost = ex.load(s2, w.P(self.Co, 0), FpT('double'))
            sq = {str(t): (t, x) for (tag, t, x) in [e for e in s2.log if e[0] == 'sqrt']}
            H = None
            if self.flg and self.condim:
                ho = self.con.off('H'); H = [ex.load(s2, w.P(self.con.o, ho + 8 * i), FpT('double')) for i in range(self.condim * self.condim)]
            outs = [('force%d' % i, self.Fco, 8 * i, 'f64', force[i]) for i in range(self.n)] + [('state%d' % i, self.So, 4 * i, 'i32', state[i]) for i in range(self.n)] + [('cost', self.Co, 0, 'f64', cost)]
            rp = W.make_replay(so(), 'mj_constraintUpdate_impl', w, self.nargs, outputs=outs, semantics='real')
            yield {'pc': s2.pc, 'force': force, 'state': [s.as_signed_long() if z3.is_bv_value(s) else None for s in state], 'cost': cost, 'sqrt': sq, 'H': H, 'replay': rp, 'st': s2}
    def decode(self):
        def f(m):
            g = lambda v: str(W.evalnum(m, v))
            return {'D': [g(x) for x in self.D], 'floss': [g(x) for x in self.fl], 'jar': [g(x) for x in self.jar], 'mu': g(self.mu), 'friction': [g(x) for x in self.fr[:max(self.condim - 1, 0)]]}
        return f


def diff(e, x, sq):
    """d e / d x for z3 real terms built from + - * / ite and sqrt-aux variables"""
    memo = {}
    def d(e):
        k = e.get_id()
        if k in memo: return memo[k]
        if z3.is_rational_value(e) or z3.is_int_value(e) or z3.is_algebraic_value(e): r = z3.RealVal(0)
        elif z3.is_const(e):
            if e.eq(x): r = z3.RealVal(1)
            elif str(e) in sq:
                t, arg = sq[str(e)]; r = d(arg) / (2 * t)
            else: r = z3.RealVal(0)
        elif z3.is_add(e): r = sum((d(c) for c in e.children()), z3.RealVal(0))
        elif z3.is_sub(e):
            cs = e.children(); r = d(cs[0])
            for c in cs[1:]: r = r - d(c)
        elif z3.is_mul(e):
            cs = e.children(); r = z3.RealVal(0)
            for i in range(len(cs)):
                term = d(cs[i])
                for j in range(len(cs)):
                    if j != i: term = term * cs[j]
                r = r + term
        elif z3.is_div(e):
            a, b = e.children(); r = (d(a) * b - a * d(b)) / (b * b)
        elif e.decl().kind() == z3.Z3_OP_UMINUS: r = -d(e.children()[0])
        elif z3.is_app_of(e, z3.Z3_OP_ITE):
            c, a, b = e.children(); r = z3.If(c, d(a), d(b))
        elif z3.is_app_of(e, z3.Z3_OP_POWER):
            a, b = e.children(); n = b.as_long() if z3.is_int_value(b) else int(str(b))
            r = n * a ** (n - 1) * d(a) if n != 1 else d(a)
        else: raise Exception('diff: %s' % e.decl())
        memo[k] = r; return r
    return d(e)
