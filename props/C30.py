"""C30 Numerical blow-ups are contained: mju_isBad exact FP predicate; mj_checkPos/Vel/Acc warning + reset logic."""
import z3
from vf import ir, build, llsym, world as W
from vf.runner import Checker
from vf.irparse import IntT, FpT

ID = 'C30'
LEVEL = 'other'
TUS = ['src/engine/engine_forward.c', 'src/engine/engine_core_util.c', 'src/engine/engine_util_misc.c', 'src/engine/engine_util_blas.c']
EXPLANATION = ('llsym in exact IEEE-754 binary64 mode executes the real mju_isBad and mj_checkPos/mj_checkVel/mj_checkAcc (with the real mj_warning); '
               'mj_resetData and mj_forward are uninterpreted logged calls. For every double x: isBad(x) <=> NaN or |x| > mjMAXVAL. For all state '
               'contents (nq, nv <= 3 quick, <= 5 thorough; every bit pattern incl. NaN/Inf), all option flag words and all sleep filters: a bad entry raises the matching warning, '
               'records the first bad index, resets iff autoreset is enabled (and re-runs mj_forward after a bad acceleration); no bad entry => no call and no counter change.')
BOUNDS = {'quick': {'nq,nv': '<=3', 'fp': 'binary64 exact'}, 'thorough': {'nq,nv': '<=5'}}
OUTSIDE = '"after mj_step every state component is finite" (needs the whole pipeline); what mj_resetData itself does.'
ASSUMPTIONS = ['mj_resetData / mj_forward are uninterpreted (logged) calls', 'warning counters below INT_MAX-2 (no wrap of the int counter)', 'dof_awake_ind entries in [0, nv) and nv_awake in [0, nv] (established by mj_updateSleep)']
BUDGET = {'quick': 300, 'thorough': 1500}
_c = {}


def mod():
    if 'm' not in _c: _c['m'] = ir.load(TUS)
    return _c['m']


STUB_C = '''
void vfstub_mj_resetData(const void* m, void* d) { vf_log_call("mj_resetData"); }
void vfstub_mj_forward(const void* m, void* d) { vf_log_call("mj_forward"); }
'''


def so():
    if 'so' not in _c:
        _c['so'] = build.native_lib(['src/engine/engine_forward.c'], ['src/engine/engine_core_util.c', 'src/engine/engine_util_misc.c', 'src/engine/engine_util_blas.c', 'src/engine/engine_util_errmem.c'],
                                    extra_c=STUB_C, redirect=['mj_resetData', 'mj_forward'], name='forward_check')
    return _c['so']


def consts():
    if 'k' not in _c:
        k = build.enum_values('mjDSBL_'); k.update(build.enum_values('mjENBL_')); k.update(build.enum_values('mjWARN_'))
        k.update(build.enum_values('mjNWARNING'))
        _c['k'] = k
    return _c['k']


def prepare(tier): mod(); so(); consts(); lay()


def lay():
    if 'l' not in _c: _c['l'] = build.Layout()
    return _c['l']


MAXVAL = 1e10


def bad(x):
    mv = z3.FPVal(MAXVAL, z3.Float64())
    return z3.Or(z3.fpIsNaN(x), z3.fpGT(x, mv), z3.fpLT(x, z3.fpNeg(mv)))


def unit_isbad(tier):
    ck = Checker('isBad', tier, timeout_s=120, semantics='fp64')
    m = mod()
    hdr = open(build.REPO + '/include/mujoco/mjmodel.h').read()
    import re
    mv = float(re.search(r'#define\s+mjMAXVAL\s+([0-9.eE+-]+)', hdr).group(1))
    ck.selfcheck('mjMAXVAL constant', mv == MAXVAL, mv)
    ex = llsym.Exec(m, fpmode='fp')
    x = z3.FP('x', z3.Float64())
    res = ex.run('@mju_isBad', [x], llsym.State())
    ck.note_results(ex, res)
    w = W.World('fp'); w.syms.append(('x', 'f64', x))
    for r in res:
        if r.kind != 'return': continue
        rp = W.make_replay(so(), 'mju_isBad', w, [('f64', x)], restype='i32', ret_term=r.value, semantics='fp')
        ck.prove('isBad(x) != 0 <=> isnan(x) or |x| > mjMAXVAL, for every double', r.state.pc, (r.value != 0) == bad(x), site='mju_isBad:predicate', replay=rp,
                 decode=lambda mdl: {'x': repr(W.evalnum(mdl, x))})
        ck.prove('isBad returns 0 or 1', r.state.pc, z3.Or(r.value == 0, r.value == 1), site='mju_isBad:range', replay=rp)
    for v in (float('nan'), float('inf'), -float('inf'), 1e10, 1.0000000001e10, -1e10, -1.1e10, 0.0, 5e-324):
        r = ex.run('@mju_isBad', [z3.FPVal(v, z3.Float64())], llsym.State())
        import math
        want = 1 if (v != v or abs(v) > MAXVAL) else 0
        ck.selfcheck('isBad(%r)' % v, len(r) == 1 and z3.simplify(r[0].value).as_long() == want)
    return ck


def unit_check(tier, which, n):
    fn = {'pos': 'mj_checkPos', 'vel': 'mj_checkVel', 'acc': 'mj_checkAcc'}[which]
    ck = Checker('%s_n%d' % (fn, n), tier, timeout_s=120, semantics='fp64')
    K = consts(); L = lay()
    wid = K[{'pos': 'mjWARN_BADQPOS', 'vel': 'mjWARN_BADQVEL', 'acc': 'mjWARN_BADQACC'}[which]]
    w = W.World('fp')
    M = W.SB(w, L, 'mjModel_', 'm'); D = W.SB(w, L, 'mjData_', 'd')
    M.set('nq', n); M.set('nv', n)
    dis = M.sym('opt.disableflags', 'disableflags'); en = M.sym('opt.enableflags', 'enableflags')
    arrname = {'pos': 'qpos', 'vel': 'qvel', 'acc': 'qacc'}[which]
    ao, xs = D.arr(arrname, 'f64', n)
    nva = D.sym('nv_awake', 'nv_awake')
    io, ind = D.arr('dof_awake_ind', 'i32', n)
    D.sym('time', 'time')
    num0 = D.sym('warning[%d].number' % wid, 'number0'); D.sym('warning[%d].lastinfo' % wid, 'lastinfo0')
    def call_stub(name):
        def f(ex, st, args, ins): st.log.append(('call', name)); return None
        return f
    stubs = {'mj_resetData': call_stub('mj_resetData'), 'mj_forward': call_stub('mj_forward'), 'mju_warningText': lambda ex, st, a, i: llsym.NULL}
    ex = llsym.Exec(mod(), fpmode='fp', loop_bound=n + 2, stubs=stubs)
    st = w.to_state(ex)
    pre = [num0 >= 0, num0 < 2**31 - 4, nva >= 0, nva <= n] + [z3.And(i >= 0, i < n) for i in ind]
    st.pc += pre
    res = ex.run('@' + fn, [w.P(M.o), w.P(D.o)], st)
    ck.note_results(ex, res)
    AUTORESET = K['mjDSBL_AUTORESET']; SLEEP = K['mjENBL_SLEEP']
    autoreset = (dis & AUTORESET) == 0
    filt = z3.And((en & SLEEP) != 0, nva < n) if which != 'pos' else z3.BoolVal(False)
    # inspected index sequence
    def sel(arr, idx):
        v = arr[n - 1]
        for k in range(n - 2, -1, -1): v = z3.If(idx == k, arr[k], v)
        return v
    if n:
        insp = [z3.If(filt, ind[j], z3.BitVecVal(j, 32)) for j in range(n)]
        count = z3.If(filt, nva, z3.BitVecVal(n, 32))
        isbad = [z3.And(z3.BitVecVal(j, 32) < count, bad(sel(xs, insp[j]))) for j in range(n)]
    else: insp, isbad = [], []
    anybad = z3.Or(*isbad) if isbad else z3.BoolVal(False)
    first = z3.BitVecVal(-1, 32)
    for j in reversed(range(n)): first = z3.If(isbad[j], insp[j], first)
    args = [('ptr', (M.o, 0)), ('ptr', (D.o, 0))]
    dec = lambda mdl: {'x': [repr(W.evalnum(mdl, x)) for x in xs], 'disableflags': W.evalnum(mdl, dis), 'enableflags': W.evalnum(mdl, en), 'nv_awake': W.evalnum(mdl, nva), 'ind': [W.evalnum(mdl, i) for i in ind]}
    for r in res:
        if r.kind != 'return': continue
        pc = r.state.pc
        calls = [e[1] for e in r.state.log if e[0] == 'call']
        num1 = D.load(ex, r.state, 'warning[%d].number' % wid); li1 = D.load(ex, r.state, 'warning[%d].lastinfo' % wid)
        outs = [D.out(ex, r.state, 'warning[%d].number' % wid, 'number'), D.out(ex, r.state, 'warning[%d].lastinfo' % wid, 'lastinfo')]
        rp = W.make_replay(so(), fn, w, args, outputs=outs, semantics='fp', calls=calls)
        want_calls = z3.If(z3.And(anybad, autoreset), 1, 0)
        nreset = calls.count('mj_resetData'); nfwd = calls.count('mj_forward')
        ck.prove('%s: mj_resetData called exactly when a bad entry exists and autoreset is enabled' % fn, pc, (nreset == 1) == z3.And(anybad, autoreset) if nreset <= 1 else z3.BoolVal(False),
                 site='%s:reset' % fn, decode=dec, replay=rp)
        if which == 'acc':
            ck.prove('mj_checkAcc: mj_forward re-run exactly when the data was reset, after the reset', pc, z3.BoolVal(nfwd == nreset and (nfwd == 0 or calls.index('mj_forward') > calls.index('mj_resetData'))), site='mj_checkAcc:forward', decode=dec, replay=rp)
        else:
            ck.prove('%s: never calls mj_forward' % fn, pc, z3.BoolVal(nfwd == 0), site='%s:forward' % fn, decode=dec, replay=rp)
        ck.prove('%s: warning counter increases iff a bad entry exists' % fn, pc, z3.If(anybad, num1 > num0, num1 == num0), site='%s:counter' % fn, decode=dec, replay=rp)
        ck.prove('%s: lastinfo = first bad index in inspection order' % fn, pc, z3.Implies(anybad, li1 == first), site='%s:lastinfo' % fn, decode=dec, replay=rp)
    ck.reach('precondition', pre)
    ck.reach('bad entry with autoreset', pre + [anybad, autoreset]) if n else None
    ck.memory_obligations(res, decode=dec)
    return ck


def units(tier):
    u = [('isBad', 'unit_isbad', {})]
    for which in ('pos', 'vel', 'acc'):
        for n in ([0, 1, 2, 3] if tier == 'quick' else [0, 1, 2, 3, 4, 5]):
            u.append(('check%s_n%d' % (which, n), 'unit_check', {'which': which, 'n': n}))
    return u
