"""C20 Exhausted arena memory is handled gracefully: every consumer of mj_arenaAllocByte on the failure path."""
import z3, re, os
from vf import ir, build, llsym, world as W
from vf.runner import Checker
from vf.irparse import IntT, PtrT

ID = 'C20'
LEVEL = 'other'
TUS = ['src/engine/engine_collision_driver.c', 'src/engine/engine_core_constraint.c', 'src/engine/engine_island.c', 'src/engine/engine_memory.c', 'src/engine/engine_core_util.c',
       'src/engine/engine_util_misc.c', 'src/engine/engine_util_blas.c']
EXPLANATION = ('llsym executes the real pushPairArena/pushGeomGeom, mj_addContact, arenaAllocEfc, arenaAllocIsland (+ mj_clearEfc/clearIsland) together with the real '
               'mj_arenaAllocByte, with the arena an object of SYMBOLIC size narena and pstack/narena free 64-bit variables, so the solver chooses where the arena '
               'runs out (every prefix of the allocation sequence can be the failing one). Obligations: a failed allocation (NULL) is never dereferenced, a warning '
               'or mju_error is raised, the post-state is consistent (ncon unchanged, efc/island pointers NULL, nefc=nisland=0, parena back at the contact array end), '
               'successful blocks lie inside [arena, arena+narena-pstack) and do not overlap; no write outside the arena.')
BOUNDS = {'quick': {'narena,pstack': 'any 64-bit with pstack<=narena<=2^40', 'ncon': '0..1', 'nefc,nv,nJ,ntree,nisland,nidof,ntendon': '0..3 symbolic'}, 'thorough': {'ncon': '0..2', 'sizes': '0..7 symbolic'}}
OUTSIDE = 'which step-level behaviour follows truncation (solver on the truncated set); mj_collision as a whole; flex/pair producers other than pushGeomGeom.'
ASSUMPTIONS = ['parena = ncon*sizeof(mjContact) at entry (what the callers establish)', 'mju_error / mju_message(ERROR) do not return', 'mj_warning real; mju_warningText stubbed']
BUDGET = {'quick': 600, 'thorough': 3000}
_c = {}
SUPPORT = ['src/engine/engine_memory.c', 'src/engine/engine_core_util.c', 'src/engine/engine_util_misc.c', 'src/engine/engine_util_blas.c', 'src/engine/engine_util_errmem.c']


def mod():
    if 'm' not in _c: _c['m'] = ir.load(TUS)
    return _c['m']


def so(tu):
    if ('so', tu) not in _c: _c[('so', tu)] = build.native_lib([tu], SUPPORT, name='c20_' + os.path.basename(tu).split('.')[0])
    return _c[('so', tu)]


def so_asan(tu):
    if ('asan', tu) not in _c: _c[('asan', tu)] = build.native_lib([tu], SUPPORT, name='c20a_' + os.path.basename(tu).split('.')[0], sanitize=True)
    return _c[('asan', tu)]


def lay():
    if 'l' not in _c: _c['l'] = build.Layout()
    return _c['l']


def prepare(tier):
    mod(); lay(); build.enum_values('mjWARN_')
    for tu in ('src/engine/engine_collision_driver.c', 'src/engine/engine_core_constraint.c', 'src/engine/engine_island.c'): so(tu)


def xmacro(name):
    txt = open(os.path.join(build.REPO, 'include/mujoco/mjxmacro.h')).read()
    body = txt[txt.index('#define ' + name):]
    body = body[:body.index('\n\n')]
    return re.findall(r'X\w*\s*\(\s*(\w+)\s*,\s*(\w+)\s*,\s*(MJ_[MD])\((\w+)\)\s*,\s*(\w+)\s*\)', body)


def B(v): return z3.BitVecVal(v, 64)
def I(v): return z3.BitVecVal(v, 32)
STUBS = {'mju_warningText': lambda ex, st, a, i: llsym.NULL, 'mju_isTopicEnabled': lambda ex, st, a, i: z3.BoolVal(False)}


class Sys:
    def __init__(self, ncon, dims=None):
        L = lay()
        self.w = w = W.World()
        self.M = M = W.SB(w, L, 'mjModel_', 'm', zero=True); self.D = D = W.SB(w, L, 'mjData_', 'd', zero=True)
        self.csz = L.sizeof('mjContact_')
        self.narena = D.sym('narena', 'narena'); self.pstack = D.sym('pstack', 'pstack')
        self.ncon = ncon
        D.set('ncon', ncon); D.set('parena', ncon * self.csz)
        self.arena = w.obj('arena', self.narena)
        D.o.put(D.off('arena'), 'ptr', (self.arena, 0))
        D.sym('time', 'time')
        self.pre = [z3.ULE(self.narena, 1 << 40), z3.ULE(self.pstack, self.narena), z3.ULE(ncon * self.csz, self.narena - self.pstack)]
        self.dims = {}
        for (holder, f) in (dims or []):
            sb = M if holder == 'm' else D
            v = sb.sym(f, f); self.dims[f] = v
            self.pre += [v >= 0, v <= 3]
    def state(self, ex):
        st = self.w.to_state(ex); st.pc += self.pre; return st
    def dec(self, extra=None):
        def f(m):
            out = {'narena': W.evalnum(m, self.narena), 'pstack': W.evalnum(m, self.pstack), 'ncon': self.ncon}
            out.update({k: W.evalnum(m, v) for k, v in self.dims.items()}); return out
        return f


def unit_pushpair(tier, ncon):
    ck = Checker('pushPair_ncon%d' % ncon, tier, timeout_s=120)
    TU = 'src/engine/engine_collision_driver.c'
    S = Sys(ncon)
    S.M.set('ngeom', 2); S.M.arr('geom_type', 'i32', 2, [S.w.fresh('i32', 'gt0'), S.w.fresh('i32', 'gt1')])
    ck.prefer = [z3.ULE(S.narena, 1 << 16)]
    ex = llsym.Exec(mod(), stubs=STUBS, loop_bound=8)
    st = S.state(ex)
    args = [('ptr', (S.M.o, 0)), ('ptr', (S.D.o, 0)), ('i32', 0), ('i32', 1), ('i32', -1)]
    res = ex.run('@pushGeomGeom', [S.w.P(S.M.o), S.w.P(S.D.o), I(0), I(1), I(-1)], st)
    ck.note_results(ex, res, allowed=('return', 'error', 'infeasible', 'memfault'))
    p0 = ncon * S.csz
    psz = ex.sizeof(mod().types['%struct.mjcPair'] if '%struct.mjcPair' in mod().types else mod().types['%struct.mjcPair_'])
    fits = z3.ULE(B(p0 + psz), S.narena - S.pstack)
    for r in res:
        pc = r.state.pc
        if r.kind == 'error':
            ck.prove('pushGeomGeom: error raised only when the pair does not fit', pc, z3.Not(fits), site='pushPairArena:spurious-error', decode=S.dec(), replay=W.make_replay(so(TU), 'pushGeomGeom', S.w, args, expect='error'))
        elif r.kind == 'return':
            pa = S.D.load(ex, r.state, 'parena')
            ck.prove('pushGeomGeom: returns normally only when the pair fitted; parena advanced inside the free span', pc, z3.And(fits, pa == p0 + psz, z3.ULE(pa, S.narena - S.pstack)),
                     site='pushPairArena:fit', decode=S.dec(), replay=W.make_replay(so(TU), 'pushGeomGeom', S.w, args, outputs=[S.D.out(ex, r.state, 'parena')]))
    ck.reach('pair does not fit', S.pre + [z3.Not(fits)]); ck.reach('pair fits', S.pre + [fits])
    ck.memory_obligations(res, decode=S.dec(), replay=W.make_asan_replay(lambda: so_asan(TU), [('pushGeomGeom', args, 'void')], S.w))
    return ck


def unit_addcontact(tier, ncon):
    ck = Checker('addContact_ncon%d' % ncon, tier, timeout_s=120)
    PREF = True
    TU = 'src/engine/engine_core_constraint.c'
    K = build.enum_values('mjWARN_')
    S = Sys(ncon)
    L = lay()
    co = S.w.obj('con', S.csz).zeros()
    num0 = S.D.sym('warning[%d].number' % K['mjWARN_CONTACTFULL'], 'wnum')
    S.pre += [num0 >= 0, num0 < 1000]
    # constraint arrays of an earlier mj_makeConstraint may still be live: they must be invalidated whether or not the contact fits
    nefc0 = S.D.sym('nefc', 'nefc0'); S.pre += [nefc0 >= 0, nefc0 <= 5]
    live = [name for (_, name, _, _, _) in xmacro('MJDATA_ARENA_POINTERS_SOLVER')]
    for name in live: S.D.o.put(S.D.off(name), 'ptr', (S.arena, 0))
    ck.prefer = [z3.ULE(S.narena, 1 << 16)]
    ex = llsym.Exec(mod(), stubs=STUBS, loop_bound=8)
    st = S.state(ex)
    args = [('ptr', (S.M.o, 0)), ('ptr', (S.D.o, 0)), ('ptr', (co, 0))]
    res = ex.run('@mj_addContact', [S.w.P(S.M.o), S.w.P(S.D.o), S.w.P(co)], st)
    ck.note_results(ex, res, allowed=('return', 'error', 'infeasible', 'memfault'))
    p0 = ncon * S.csz
    fits = z3.ULE(B(p0 + S.csz), S.narena - S.pstack)
    for r in res:
        if r.kind != 'return': continue
        pc = r.state.pc
        nc = S.D.load(ex, r.state, 'ncon'); pa = S.D.load(ex, r.state, 'parena'); wn = S.D.load(ex, r.state, 'warning[%d].number' % K['mjWARN_CONTACTFULL'])
        ne = S.D.load(ex, r.state, 'nefc')
        outs = [S.D.out(ex, r.state, 'ncon'), S.D.out(ex, r.state, 'parena'), S.D.out(ex, r.state, 'warning[%d].number' % K['mjWARN_CONTACTFULL'], 'wnum')]
        rp = W.make_replay(so(TU), 'mj_addContact', S.w, args, restype='i32', ret_term=r.value, outputs=outs)
        ck.prove('addContact: returns 1 with a CONTACTFULL warning and ncon unchanged iff the contact does not fit; else 0 and ncon+1', pc,
                 z3.If(fits, z3.And(r.value == 0, nc == ncon + 1, pa == p0 + S.csz, wn == num0), z3.And(r.value == 1, nc == ncon, pa == p0, wn == num0 + 1)),
                 site='mj_addContact:outcome', decode=S.dec(), replay=rp)
        ptrs = [S.D.load(ex, r.state, name) for name in live]
        allnull = all(isinstance(p_, llsym.Ptr) and p_.obj == 0 for p_ in ptrs)
        ck.prove('addContact: constraint arrays of an earlier step are invalidated (nefc = 0, efc pointers NULL) on success and on failure', pc, z3.And(ne == 0, z3.BoolVal(allnull)), site='mj_addContact:clearEfc', decode=S.dec(),
                 replay=W.make_replay(so(TU), 'mj_addContact', S.w, args, restype='i32', ret_term=r.value, outputs=outs + [S.D.out(ex, r.state, 'nefc')]))
        ck.prove('addContact: arena top stays below the stack', pc, z3.ULE(pa, S.narena - S.pstack), site='mj_addContact:bounds', decode=S.dec(), replay=rp)
    ck.reach('contact does not fit', S.pre + [z3.Not(fits)])
    ck.memory_obligations(res, decode=S.dec(), replay=W.make_asan_replay(lambda: so_asan(TU), [('mj_addContact', args, 'i32')], S.w))
    return ck


def unit_alloc(tier, which, ncon):
    """arenaAllocEfc / arenaAllocIsland: the solver decides which allocation of the sequence is the first to fail"""
    fn, macro, TU, warn = {'efc': ('arenaAllocEfc', 'MJDATA_ARENA_POINTERS_SOLVER', 'src/engine/engine_core_constraint.c', 'mjWARN_CNSTRFULL'),
                           'island': ('arenaAllocIsland', 'MJDATA_ARENA_POINTERS_ISLAND', 'src/engine/engine_island.c', 'mjWARN_CNSTRFULL')}[which]
    ck = Checker('%s_ncon%d' % (fn, ncon), tier, timeout_s=120)
    K = build.enum_values('mjWARN_')
    rows = xmacro(macro)
    dims = sorted({(('m' if h == 'MJ_M' else 'd'), f) for (_, _, h, f, _) in rows})
    S = Sys(ncon, dims)
    num0 = S.D.sym('warning[%d].number' % K[warn], 'wnum'); S.pre += [num0 >= 0, num0 < 1000]
    if which == 'island': S.D.set('parena', S.w.fresh('u64', 'parena0')); p_sym = S.D.o.cells[S.D.off('parena')][1]; S.pre += [p_sym == ncon * S.csz]
    ck.prefer = [z3.ULE(S.narena, 1 << 16)]
    ex = llsym.Exec(mod(), stubs=STUBS, loop_bound=8, max_paths=2000)
    st = S.state(ex)
    args = [('ptr', (S.M.o, 0)), ('ptr', (S.D.o, 0))]
    res = ex.run('@' + fn, [S.w.P(S.M.o), S.w.P(S.D.o)], st)
    ck.note_results(ex, res, allowed=('return', 'error', 'infeasible', 'memfault'))
    p0 = ncon * S.csz
    tysz = {'int': 4, 'mjtNum': 8, 'mjtByte': 1, 'size_t': 8}
    w64 = lambda v: z3.SignExt(64 - v.size(), v) if v.size() < 64 else v
    free = S.narena - S.pstack
    # mathematical total need (with alignment padding) as 128-bit terms
    def need_upto(k):
        cur = z3.ZeroExt(64, B(p0))
        for (ty, name, h, f, nc) in rows[:k]:
            sz = tysz[ty]
            cur = z3.If(z3.URem(cur, sz) == 0, cur, cur + (sz - z3.URem(cur, sz)))
            cur = cur + z3.ZeroExt(64, w64(S.dims[f])) * int(nc) * sz
        return cur
    total = need_upto(len(rows))
    nfail = nok = 0
    for r in res:
        if r.kind != 'return': continue
        pc = r.state.pc
        rv = z3.simplify(r.value)
        ptrs = [S.D.load(ex, r.state, name) for (_, name, _, _, _) in rows]
        pa = S.D.load(ex, r.state, 'parena'); wn = S.D.load(ex, r.state, 'warning[%d].number' % K[warn])
        outs = [S.D.out(ex, r.state, 'parena'), S.D.out(ex, r.state, 'warning[%d].number' % K[warn], 'wnum'), S.D.out(ex, r.state, 'nefc'), S.D.out(ex, r.state, 'nisland')]
        rp = W.make_replay(so(TU), fn, S.w, args, restype='i32', ret_term=r.value, outputs=outs)
        allnull = all(isinstance(p, llsym.Ptr) and p.obj == 0 for p in ptrs)
        if z3.is_bv_value(rv) and rv.as_long() == 0:
            nfail += 1
            ck.prove('%s failure: every array pointer is NULL, counts zeroed, arena top back at the end of the contacts, warning raised' % fn, pc,
                     z3.And(z3.BoolVal(allnull), pa == p0, wn == num0 + 1, S.D.load(ex, r.state, 'nefc' if which == 'efc' else 'nisland') == 0), site='%s:failure-state' % fn, decode=S.dec(), replay=rp)
            ck.prove('%s failure only when the arrays do not fit' % fn, pc, z3.UGT(total, z3.ZeroExt(64, free)), site='%s:spurious-failure' % fn, decode=S.dec(), replay=rp)
        else:
            nok += 1
            offs = []
            okp = True
            for p in ptrs:
                if not (isinstance(p, llsym.Ptr) and p.obj == S.w.map[S.arena].obj): okp = False; break
                offs.append(p.off if not isinstance(p.off, int) else B(p.off))
            ck.prove('%s success: returns 1 and every pointer points into the arena' % fn, pc, z3.And(r.value == 1, z3.BoolVal(okp)), site='%s:success-ptrs' % fn, decode=S.dec(), replay=rp)
            if okp:
                cl = [z3.UGE(offs[0], B(p0))]
                for i, (ty, name, h, f, nc) in enumerate(rows):
                    end = offs[i] + w64(S.dims[f]) * int(nc) * tysz[ty]
                    cl.append(z3.ULE(end, offs[i + 1] if i + 1 < len(rows) else pa))
                    cl.append(z3.URem(offs[i], tysz[ty]) == 0)
                cl.append(z3.ULE(pa, free))
                ck.prove('%s success: blocks are aligned, consecutive without overlap, above the contacts and below the stack' % fn, pc, z3.And(*cl), site='%s:layout' % fn, decode=S.dec(), replay=rp)
            ck.prove('%s success only when everything fits' % fn, pc, z3.ULE(total, z3.ZeroExt(64, free)), site='%s:fit' % fn, decode=S.dec(), replay=rp)
    if nfail < 2 or nok < 1: ck.error('expected failure paths at several allocation points and a success path; got %d / %d' % (nfail, nok))
    ck.notes.append('%d failing prefixes, %d success paths over %d arrays' % (nfail, nok, len(rows)))
    ck.memory_obligations(res, decode=S.dec(), replay=W.make_asan_replay(lambda: so_asan(TU), [(fn, args, 'i32')], S.w))
    return ck


def units(tier):
    u = []
    for ncon in ([0, 1] if tier == 'quick' else [0, 1, 2]):
        u.append(('pushPair_ncon%d' % ncon, 'unit_pushpair', {'ncon': ncon}))
        u.append(('addContact_ncon%d' % ncon, 'unit_addcontact', {'ncon': ncon}))
        u.append(('allocEfc_ncon%d' % ncon, 'unit_alloc', {'which': 'efc', 'ncon': ncon}))
        u.append(('allocIsland_ncon%d' % ncon, 'unit_alloc', {'which': 'island', 'ncon': ncon}))
    return u
