"""C24 Rotation and pose utilities implement the group operations: polynomial identities over the reals."""
import z3, itertools
from vf import ir, build, llsym, world as W
from vf.leaf import Leaf
from vf.runner import Checker

ID = 'C24'
LEVEL = 'other'
TUS = ['src/engine/engine_util_spatial.c', 'src/engine/engine_util_blas.c', 'src/engine/engine_util_misc.c']
EXPLANATION = ('llsym in real-algebraic mode (mjtNum as reals, sqrt as an auxiliary t>=0, t*t=x; sin/cos of one angle as a pair s,c with s*s+c*c=1) executes the real mju_mulQuat, mju_negQuat, '
               'mju_rotVecQuat, mju_quat2Mat, mju_mat2Quat (all four branches), mju_mulQuatAxis, mju_axisAngle2Quat, mju_mulPose, mju_negPose, mju_trnVecPose, mju_cross and mju_euler2Quat '
               'for every 3-letter sequence over xyzXYZ; z3 (NRA) proves the group identities for ALL inputs: Mat(q1 q2) = Mat(q1) Mat(q2), Mat(q) Mat(q)^T = |q|^4 I, rotVecQuat = Mat(q) v, '
               'q neg(q) = |q|^2, mat2Quat(Mat(q)) = +-q for unit q, pose composition/inverse, Euler sequence = ordered product of axis rotations (intrinsic lower-case / extrinsic upper-case).')
BOUNDS = {'quick': {'euler sequences': 'all 216', 'inputs': 'all reals (unit norm where the identity needs it)'}, 'thorough': {'same': True}}
OUTSIDE = 'mju_subQuat, mju_quatIntegrate, mju_quat2Vel, mju_quatZ2Vec, mju_mat2Rot (atan2/acos/iterative); floating-point rounding and conditioning near singular configurations.'
ASSUMPTIONS = ['real-number semantics (algebraic law, not rounding)', 'sin/cos of the same argument modelled as any pair on the unit circle']
BUDGET = {'quick': 600, 'thorough': 1800}
_c = {}


def mod():
    if 'm' not in _c: _c['m'] = ir.load(TUS)
    return _c['m']


def so():
    if 'so' not in _c: _c['so'] = build.native_lib(['src/engine/engine_util_spatial.c'], ['src/engine/engine_util_blas.c', 'src/engine/engine_util_misc.c', 'src/engine/engine_util_errmem.c'], name='spatial')
    return _c['so']


def prepare(tier): mod(); so()


def qmul(a, b):
    return [a[0]*b[0] - a[1]*b[1] - a[2]*b[2] - a[3]*b[3], a[0]*b[1] + a[1]*b[0] + a[2]*b[3] - a[3]*b[2],
            a[0]*b[2] - a[1]*b[3] + a[2]*b[0] + a[3]*b[1], a[0]*b[3] + a[1]*b[2] - a[2]*b[1] + a[3]*b[0]]


def qmat(q):
    w, x, y, z = q
    return [w*w + x*x - y*y - z*z, 2*(x*y - w*z), 2*(x*z + w*y), 2*(x*y + w*z), w*w - x*x + y*y - z*z, 2*(y*z - w*x), 2*(x*z - w*y), 2*(y*z + w*x), w*w - x*x - y*y + z*z]


def mmul(A, B): return [sum(A[3*i + k] * B[3*k + j] for k in range(3)) for i in range(3) for j in range(3)]
def mvec(A, v): return [sum(A[3*i + k] * v[k] for k in range(3)) for i in range(3)]
def norm2(q): return sum(x * x for x in q)
def eqv(a, b): return z3.And(*[x == y for x, y in zip(a, b)])


def prove_all(ck, L, name, claim_fn, site):
    for pc, out, ret, rp in L.paths():
        ck.prove(name, pc, claim_fn(out), site=site, decode=L.decode(), replay=rp)


def unit_quat(tier):
    ck = Checker('quat', tier, timeout_s=120, semantics='real')
    m = mod()
    L = Leaf(ck, m, so(), 'mju_mulQuat', [('arr', 'res', 4, 'out'), ('arr', 'qa', 4), ('arr', 'qb', 4)])
    prove_all(ck, L, 'mulQuat is the Hamilton product', lambda o: eqv(o['res'], qmul(L.v['qa'], L.v['qb'])), 'mju_mulQuat:product')
    prove_all(ck, L, 'mulQuat: Mat(qa qb) = Mat(qa) Mat(qb)', lambda o: eqv(qmat(o['res']), mmul(qmat(L.v['qa']), qmat(L.v['qb']))), 'mju_mulQuat:homomorphism')
    prove_all(ck, L, 'mulQuat: |qa qb|^2 = |qa|^2 |qb|^2', lambda o: norm2(o['res']) == norm2(L.v['qa']) * norm2(L.v['qb']), 'mju_mulQuat:norm')
    L = Leaf(ck, m, so(), 'mju_negQuat', [('arr', 'res', 4, 'out'), ('arr', 'quat', 4)])
    prove_all(ck, L, 'q * negQuat(q) = (|q|^2, 0, 0, 0)', lambda o: eqv(qmul(L.v['quat'], o['res']), [norm2(L.v['quat']), 0, 0, 0]), 'mju_negQuat:inverse')
    L = Leaf(ck, m, so(), 'mju_quat2Mat', [('arr', 'res', 9, 'out'), ('arr', 'quat', 4)])
    prove_all(ck, L, 'quat2Mat is the rotation matrix of q (identity shortcut included)', lambda o: eqv(o['res'], qmat(L.v['quat'])), 'mju_quat2Mat:formula')
    def orth(o):
        R = o['res']; RT = [R[3*j + i] for i in range(3) for j in range(3)]; n4 = norm2(L.v['quat']) * norm2(L.v['quat'])
        return eqv(mmul(R, RT), [n4, 0, 0, 0, n4, 0, 0, 0, n4])
    prove_all(ck, L, 'quat2Mat: R R^T = |q|^4 I', orth, 'mju_quat2Mat:orthogonal')
    def det(o):
        R = o['res']
        d = R[0]*(R[4]*R[8]-R[5]*R[7]) - R[1]*(R[3]*R[8]-R[5]*R[6]) + R[2]*(R[3]*R[7]-R[4]*R[6])
        n2 = norm2(L.v['quat']); return d == n2 * n2 * n2
    prove_all(ck, L, 'quat2Mat: det R = |q|^6 (proper rotation)', det, 'mju_quat2Mat:det')
    L = Leaf(ck, m, so(), 'mju_rotVecQuat', [('arr', 'res', 3, 'out'), ('arr', 'vec', 3), ('arr', 'quat', 4)], pre=lambda v: [norm2(v['quat']) == 1])
    prove_all(ck, L, 'rotVecQuat(v, q) = Mat(q) v for unit q', lambda o: eqv(o['res'], mvec(qmat(L.v['quat']), L.v['vec'])), 'mju_rotVecQuat:matrix')
    L = Leaf(ck, m, so(), 'mju_mulQuatAxis', [('arr', 'res', 4, 'out'), ('arr', 'quat', 4), ('arr', 'axis', 3)])
    prove_all(ck, L, 'mulQuatAxis(q, a) = q * (0, a)', lambda o: eqv(o['res'], qmul(L.v['quat'], [z3.RealVal(0)] + L.v['axis'])), 'mju_mulQuatAxis:product')
    L = Leaf(ck, m, so(), 'mju_cross', [('arr', 'res', 3, 'out'), ('arr', 'a', 3), ('arr', 'b', 3)])
    a, b = L.v['a'], L.v['b']
    prove_all(ck, L, 'cross product formula, orthogonal to both arguments', lambda o: z3.And(eqv(o['res'], [a[1]*b[2]-a[2]*b[1], a[2]*b[0]-a[0]*b[2], a[0]*b[1]-a[1]*b[0]]),
              sum(o['res'][k]*a[k] for k in range(3)) == 0, sum(o['res'][k]*b[k] for k in range(3)) == 0), 'mju_cross:formula')
    return ck


def unit_mat2quat(tier):
    ck = Checker('mat2Quat', tier, timeout_s=200, semantics='real')
    m = mod()
    q = [z3.Real('q%d' % i) for i in range(4)]
    R = qmat(q)
    spec = [('arr', 'quat', 4, 'out'), ('arr', 'mat', 9, R)]
    L = Leaf(ck, m, so(), 'mju_mat2Quat', spec, pre=lambda v: [norm2(q) == 1])
    L.w.syms += [('q%d' % i, 'f64', q[i]) for i in range(4)]
    n = 0
    for pc, out, ret, rp in L.paths():
        n += 1
        o = out['quat']
        ck.prove('mat2Quat(Mat(q)) = +q or -q for unit q (branch %d)' % n, pc, z3.Or(eqv(o, q), eqv(o, [-x for x in q])), site='mju_mat2Quat:roundtrip', decode=L.decode(), replay=rp, timeout_s=150)
        ck.prove('mat2Quat returns a unit quaternion (branch %d)' % n, pc, norm2(o) == 1, site='mju_mat2Quat:unit', decode=L.decode(), replay=rp, timeout_s=150)
        ck.reach('mat2Quat branch %d reachable' % n, pc)
    if n < 4: ck.error('expected 4 branches of mju_mat2Quat, explored %d' % n)
    return ck


def unit_pose(tier):
    ck = Checker('pose', tier, timeout_s=120, semantics='real')
    m = mod()
    L = Leaf(ck, m, so(), 'mju_mulPose', [('arr', 'posres', 3, 'out'), ('arr', 'quatres', 4, 'out'), ('arr', 'pos1', 3), ('arr', 'quat1', 4), ('arr', 'pos2', 3), ('arr', 'quat2', 4)], pre=lambda v: [norm2(v['quat1']) == 1, norm2(v['quat2']) == 1])
    v = L.v
    prove_all(ck, L, 'mulPose: quaternion = q1 q2, position = Mat(q1) p2 + p1', lambda o: z3.And(eqv(o['quatres'], qmul(v['quat1'], v['quat2'])),
              eqv(o['posres'], [a + b for a, b in zip(mvec(qmat(v['quat1']), v['pos2']), v['pos1'])])), 'mju_mulPose:composition')
    L2 = Leaf(ck, m, so(), 'mju_negPose', [('arr', 'posres', 3, 'out'), ('arr', 'quatres', 4, 'out'), ('arr', 'pos', 3), ('arr', 'quat', 4)], pre=lambda v: [norm2(v['quat']) == 1])
    v2 = L2.v
    def inv(o):
        # pose * inverse = identity: q * qinv = 1, Mat(q) pinv + p = 0
        return z3.And(eqv(qmul(v2['quat'], o['quatres']), [1, 0, 0, 0]), eqv([a + b for a, b in zip(mvec(qmat(v2['quat']), o['posres']), v2['pos'])], [0, 0, 0]))
    prove_all(ck, L2, 'negPose: pose composed with its inverse is the identity (unit quaternion)', inv, 'mju_negPose:inverse')
    L3 = Leaf(ck, m, so(), 'mju_trnVecPose', [('arr', 'res', 3, 'out'), ('arr', 'pos', 3), ('arr', 'quat', 4), ('arr', 'vec', 3)], pre=lambda v: [norm2(v['quat']) == 1])
    v3 = L3.v
    prove_all(ck, L3, 'trnVecPose: res = Mat(q) v + p', lambda o: eqv(o['res'], [a + b for a, b in zip(mvec(qmat(v3['quat']), v3['vec']), v3['pos'])]), 'mju_trnVecPose:transform')
    return ck


def trig_stubs(pairs):
    """sin/cos of the same argument term -> a shared pair (s, c) on the unit circle"""
    def get(ex, st, x):
        key = z3.simplify(x).sexpr()
        if key not in pairs:
            i = len(pairs); s, c = z3.Real('sin!%d' % i), z3.Real('cos!%d' % i); pairs[key] = (s, c, x)
            st.pc.append(s * s + c * c == 1)
        elif not any(p.eq(pairs[key][0] * pairs[key][0] + pairs[key][1] * pairs[key][1] == 1) for p in st.pc):
            st.pc.append(pairs[key][0] * pairs[key][0] + pairs[key][1] * pairs[key][1] == 1)
        return pairs[key]
    return {'sin': lambda ex, st, a, i: get(ex, st, a[0])[0], 'cos': lambda ex, st, a, i: get(ex, st, a[0])[1]}


def unit_axisangle(tier):
    ck = Checker('axisAngle', tier, timeout_s=120, semantics='real')
    m = mod(); pairs = {}
    L = Leaf(ck, m, so(), 'mju_axisAngle2Quat', [('arr', 'res', 4, 'out'), ('arr', 'axis', 3), ('f64', 'angle')], stubs=trig_stubs(pairs))
    for pc, out, ret, rp in L.paths():
        used = [p for p in pairs.values() if any(c_.eq(p[0] * p[0] + p[1] * p[1] == 1) for c_ in pc)]
        a = L.v['axis']
        if not used:
            ck.prove('axisAngle2Quat: the shortcut without trigonometry is taken only for angle 0 and returns the identity', pc, z3.And(L.v['angle'] == 0, eqv(out['res'], [1, 0, 0, 0])), site='mju_axisAngle2Quat:zero', decode=L.decode(), replay=rp)
            continue
        (s, c, arg) = used[0]
        ck.prove('axisAngle2Quat = (cos(angle/2), sin(angle/2) * axis)', pc, eqv(out['res'], [c, s*a[0], s*a[1], s*a[2]]), site='mju_axisAngle2Quat:formula', decode=L.decode())
        ck.prove('axisAngle2Quat: trigonometric argument is angle/2', pc, arg == L.v['angle'] * z3.RealVal('1/2'), site='mju_axisAngle2Quat:half-angle', decode=L.decode())
        ck.prove('axisAngle2Quat: unit quaternion for a unit axis', pc + [norm2(a) == 1], norm2(out['res']) == 1, site='mju_axisAngle2Quat:unit', decode=L.decode())
    return ck


def euler_replay(seq):
    """sin/cos pairs of a model are not tied to a concrete angle, so a counterexample is confirmed numerically: the real function is run
    on fixed generic angles and compared with the ordered product of axis rotations"""
    import math
    def rp(model, witness):
        w = W.World('real'); qo, _ = w.arr('quat', 'f64', 4, [0.0] * 4); e = [0.3, -1.1, 2.0]; eo, _ = w.arr('euler', 'f64', 3, e)
        data = seq.encode() + b'\0'; so_ = w.obj('seq', len(data))
        for i, b in enumerate(data): so_.put(i, 'u8', b)
        st = W.native_call(so(), 'mju_euler2Quat', w, {}, [('ptr', (qo, 0)), ('ptr', (eo, 0)), ('ptr', (so_, 0))], outputs=[('q%d' % i, qo, 8 * i, 'f64') for i in range(4)])
        if st[0] != 'ok': return False, {'native': st[0]}
        got = [st[1]['out']['q%d' % i] for i in range(4)]
        q = [1.0, 0.0, 0.0, 0.0]
        fm = lambda a, b: [a[0]*b[0]-a[1]*b[1]-a[2]*b[2]-a[3]*b[3], a[0]*b[1]+a[1]*b[0]+a[2]*b[3]-a[3]*b[2], a[0]*b[2]-a[1]*b[3]+a[2]*b[0]+a[3]*b[1], a[0]*b[3]+a[1]*b[2]-a[2]*b[1]+a[3]*b[0]]
        for i, ch in enumerate(seq):
            r = [math.cos(e[i] / 2), 0, 0, 0]; r[1 + 'xyz'.index(ch.lower())] = math.sin(e[i] / 2)
            q = fm(q, r) if ch.islower() else fm(r, q)
        bad = max(abs(a - b) for a, b in zip(got, q)) > 1e-9
        return bad, {'euler': e, 'seq': seq, 'native': got, 'reference': q}
    return rp


def unit_euler(tier, seqs):
    ck = Checker('euler_%s' % seqs[0], tier, timeout_s=60, semantics='real')
    m = mod()
    for seq in seqs:
        pairs = {}
        L = Leaf(ck, m, so(), 'mju_euler2Quat', [('arr', 'quat', 4, 'out'), ('arr', 'euler', 3), ('str', 'seq', seq)], stubs=trig_stubs(pairs), loop_bound=16)
        e = L.v['euler']
        for pc, out, ret, rp in L.paths():
            # reference: q = identity; for each letter: rotation about the axis by e[i]; lower case intrinsic (q = q * r), upper case extrinsic (q = r * q)
            byarg = {}
            for key, (s, c, arg) in pairs.items(): byarg[key] = (s, c, arg)
            q = [z3.RealVal(1), z3.RealVal(0), z3.RealVal(0), z3.RealVal(0)]
            ok = True
            for i, ch in enumerate(seq):
                half = z3.simplify(e[i] / 2)
                hit = [(s, c) for (s, c, arg) in byarg.values() if z3.simplify(arg - e[i] * z3.RealVal('1/2')).eq(z3.RealVal(0)) or z3.simplify(arg).eq(half)]
                if not hit: ok = False; break
                s, c = hit[0]
                ax = 'xyz'.index(ch.lower()); r = [c, 0, 0, 0]; r[1 + ax] = s
                q = qmul(q, r) if ch.islower() else qmul(r, q)
            if not ok:
                ck.prove('euler2Quat(%s): half-angle sin/cos of each Euler angle is used' % seq, pc, z3.BoolVal(False), site='mju_euler2Quat:half-angle', decode=L.decode(), replay=euler_replay(seq)); continue
            ck.prove('euler2Quat(%s) = ordered product of axis rotations (lower case intrinsic, upper case extrinsic)' % seq, pc, eqv(out['quat'], q), site='mju_euler2Quat:sequence', decode=L.decode(), replay=euler_replay(seq))
    return ck


def units(tier):
    u = [('quat', 'unit_quat', {}), ('mat2Quat', 'unit_mat2quat', {}), ('pose', 'unit_pose', {}), ('axisAngle', 'unit_axisangle', {})]
    allseq = [''.join(p) for p in itertools.product('xyzXYZ', repeat=3)]
    for i in range(0, len(allseq), 18): u.append(('euler_%s' % allseq[i], 'unit_euler', {'seqs': allseq[i:i + 18]}))
    return u
