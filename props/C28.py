"""C28 Sensors report the quantities they measure (part): direct-read sensors, exact store footprint, cutoff law."""
import z3
from vf import ir, build, llsym, world as W
from vf.runner import Checker
from vf.irparse import IntT, FpT

ID = 'C28'
LEVEL = 'other'
TUS = ['src/engine/engine_sensor.c', 'src/engine/engine_util_blas.c', 'src/engine/engine_util_misc.c']
EXPLANATION = ('llsym (real-algebraic) runs the real mj_sensorPos / mj_sensorVel (with the real per-sensor compute functions and apply_cutoff) on models with two sensors of the direct-read kinds '
               '(jointpos, tendonpos, clock, jointvel, tendonvel) whose address, object id, cutoff and datatype are symbolic: each sensor writes exactly sensordata[adr .. adr+dim) - every other cell '
               'of sensordata keeps its value - with the documented source quantity, clamped to [-cutoff, cutoff] for REAL data, to (-inf, cutoff] for POSITIVE data, unclamped when cutoff <= 0; '
               'sensors of another stage are not touched; mjDSBL_SENSOR disables everything.')
BOUNDS = {'quick': {'sensors': 2, 'sensordata cells': 4, 'objects': '2 joints / tendons'}, 'thorough': {'sensors': 2, 'pairs': 'all ordered pairs of the five kinds'}}
OUTSIDE = 'frame, inertial, force/torque, touch, subtree, rangefinder, contact sensors (need kinematics / contacts); history, delay and interval modes; plugin and user sensors.'
ASSUMPTIONS = ['real-number semantics', 'sensor_adr + dim within sensordata and sensors do not overlap (compiler invariant)', 'sleep disabled, no history']
BUDGET = {'quick': 400, 'thorough': 1500}
_c = {}
SUP = ['src/engine/engine_util_blas.c', 'src/engine/engine_util_misc.c', 'src/engine/engine_util_errmem.c']


def mod():
    if 'm' not in _c: _c['m'] = ir.load(TUS)
    return _c['m']


def so():
    if 'so' not in _c: _c['so'] = build.native_lib(['src/engine/engine_sensor.c'], SUP, name='sensor')
    return _c['so']


def lay():
    if 'l' not in _c: _c['l'] = build.Layout()
    return _c['l']


def prepare(tier): mod(); so(); lay()


KIND = {'jointpos': ('mjSENS_JOINTPOS', 'mjSTAGE_POS', 'qpos'), 'tendonpos': ('mjSENS_TENDONPOS', 'mjSTAGE_POS', 'ten_length'), 'clock': ('mjSENS_CLOCK', 'mjSTAGE_POS', None),
        'jointvel': ('mjSENS_JOINTVEL', 'mjSTAGE_VEL', 'qvel'), 'tendonvel': ('mjSENS_TENDONVEL', 'mjSTAGE_VEL', 'ten_velocity')}


def unit_sensors(tier, stage, kinds, disabled=0):
    ck = Checker('sensor%s_%s%s' % (stage, '_'.join(kinds), '_dis' if disabled else ''), tier, timeout_s=120, semantics='real')
    L = lay(); K = build.enum_values('mjSENS_'); K.update(build.enum_values('mjSTAGE_')); K.update(build.enum_values('mjDATATYPE_')); K.update(build.enum_values('mjDSBL_'))
    w = W.World('real')
    ns = len(kinds); nd = 4
    M, _ = W.full_struct(w, L, 'mjModel_', 'MJMODEL_POINTERS', {'nsensor': ns, 'nsensordata': nd, 'njnt': 2, 'nq': 2, 'nv': 2, 'ntendon': 2, 'nbody': 1}, 'm', default_size=0,
                         symbolic=('sensor_adr', 'sensor_objid', 'sensor_cutoff', 'sensor_datatype'),
                         values={'sensor_type': [K[KIND[k][0]] for k in kinds], 'sensor_needstage': [K[KIND[k][1]] for k in kinds], 'sensor_dim': [1] * ns, 'jnt_qposadr': [0, 1], 'jnt_dofadr': [0, 1]})
    D, _ = W.full_struct(w, L, 'mjData_', 'MJDATA_POINTERS', {'nsensordata': nd, 'nq': 2, 'nv': 2, 'ntendon': 2, 'nbody': 1}, 'd', default_size=0,
                         symbolic=('sensordata', 'qpos', 'qvel', 'ten_length', 'ten_velocity'))
    M.set('opt.disableflags', K['mjDSBL_SENSOR'] if disabled else 0); M.set('opt.enableflags', 0)
    t = D.sym('time', 'time')
    adr, objid, cut, dty = [M.arrays[a][3] for a in ('sensor_adr', 'sensor_objid', 'sensor_cutoff', 'sensor_datatype')]
    sd0 = D.arrays['sensordata'][3]
    ex = llsym.Exec(mod(), fpmode='real', loop_bound=ns + 4)
    st = w.to_state(ex)
    pre = [z3.And(a >= 0, a < nd) for a in adr] + [z3.And(o >= 0, o < 2) for o in objid] + [z3.Or(x == K['mjDATATYPE_REAL'], x == K['mjDATATYPE_POSITIVE'], x == K['mjDATATYPE_AXIS']) for x in dty]
    if ns == 2: pre.append(adr[0] != adr[1])
    st.pc += pre
    fn = 'mj_sensorPos' if stage == 'Pos' else 'mj_sensorVel'
    res = ex.run('@' + fn, [w.P(M.o), w.P(D.o)], st)
    ck.note_results(ex, res)
    args = [('ptr', (M.o, 0)), ('ptr', (D.o, 0))]
    dec = lambda mdl: {'adr': [W.evalnum(mdl, a) for a in adr], 'objid': [W.evalnum(mdl, o) for o in objid], 'cutoff': [str(W.evalnum(mdl, c)) for c in cut], 'datatype': [W.evalnum(mdl, x) for x in dty]}
    want_stage = K['mjSTAGE_POS'] if stage == 'Pos' else K['mjSTAGE_VEL']
    for r in res:
        if r.kind != 'return': continue
        out = [ex.load(r.state, w.P(D.arrays['sensordata'][0], 8 * c), FpT('double')) for c in range(nd)]
        rp = W.make_replay(so(), fn, w, args, outputs=[('sensordata%d' % c, D.arrays['sensordata'][0], 8 * c, 'f64', out[c]) for c in range(nd)], semantics='real')
        for c in range(nd):
            exp = sd0[c]
            for i, kd in enumerate(kinds):
                if disabled or K[KIND[kd][1]] != want_stage: continue
                src_name = KIND[kd][2]
                if src_name is None: raw = t
                else:
                    arr = D.arrays[src_name][3]; raw = z3.If(objid[i] == 0, arr[0], arr[1])
                clamped = z3.If(cut[i] <= 0, raw, z3.If(dty[i] == K['mjDATATYPE_REAL'], z3.If(raw < -cut[i], -cut[i], z3.If(raw > cut[i], cut[i], raw)),
                                                         z3.If(dty[i] == K['mjDATATYPE_POSITIVE'], z3.If(raw > cut[i], cut[i], raw), raw)))
                exp = z3.If(adr[i] == c, clamped, exp)
            ck.prove('%s: sensordata[%d] = value of the sensor stored there (source quantity with the cutoff law), untouched otherwise' % (fn, c), r.state.pc, out[c] == exp, site='%s:footprint-value' % fn, decode=dec, replay=rp)
    ck.reach('sensor precondition', pre)
    ck.memory_obligations(res, decode=dec)
    return ck


def units(tier):
    u = [('pos_jointpos_clock', 'unit_sensors', {'stage': 'Pos', 'kinds': ['jointpos', 'clock']}), ('pos_tendonpos_jointvel', 'unit_sensors', {'stage': 'Pos', 'kinds': ['tendonpos', 'jointvel']}),
         ('vel_jointvel_tendonvel', 'unit_sensors', {'stage': 'Vel', 'kinds': ['jointvel', 'tendonvel']}), ('vel_jointpos_jointvel', 'unit_sensors', {'stage': 'Vel', 'kinds': ['jointpos', 'jointvel']}),
         ('pos_disabled', 'unit_sensors', {'stage': 'Pos', 'kinds': ['jointpos', 'clock'], 'disabled': 1})]
    if tier == 'thorough':
        import itertools
        for a, b in itertools.permutations(['jointpos', 'tendonpos', 'clock'], 2): u.append(('pos_%s_%s' % (a, b), 'unit_sensors', {'stage': 'Pos', 'kinds': [a, b]}))
    return u
