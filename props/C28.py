"""C28 Sensors report the quantities they measure (part): direct-read sensors, exact store footprint, cutoff law."""
import z3
from vf import ir, build, llsym, world as W
from vf.runner import Checker
from vf.irparse import IntT, FpT

ID = 'C28'
LEVEL = 'other'
TUS = ['src/engine/engine_sensor.c', 'src/engine/engine_util_blas.c', 'src/engine/engine_util_misc.c', 'src/engine/engine_core_util.c', 'src/engine/engine_util_spatial.c']
EXPLANATION = ('llsym (real-algebraic) runs the real mj_sensorPos / mj_sensorVel (with the real per-sensor compute functions and apply_cutoff) on models with two sensors of the direct-read kinds '
               '(jointpos, tendonpos, clock, jointvel, tendonvel) whose address, object id, cutoff and datatype are symbolic: each sensor writes exactly sensordata[adr .. adr+dim) - every other cell '
               'of sensordata keeps its value - with the documented source quantity, clamped to [-cutoff, cutoff] for REAL data, to (-inf, cutoff] for POSITIVE data, unclamped when cutoff <= 0; '
               'sensors of another stage are not touched; mjDSBL_SENSOR disables everything.')
BOUNDS = {'quick': {'sensors': 2, 'sensordata cells': 4, 'objects': '2 joints / tendons', 'pairs': 'all ordered pairs of the position-stage kinds; 13 frame-velocity object / reference combinations; cutoff dim 1, 3, 6'}, 'thorough': {'same': True}}
OUTSIDE = 'frame, inertial, force/torque, touch, subtree, rangefinder, contact sensors (need kinematics / contacts); history, delay and interval modes; plugin and user sensors.'
ASSUMPTIONS = ['real-number semantics', 'sensor_adr + dim within sensordata and sensors do not overlap (compiler invariant)', 'sleep disabled, no history']
BUDGET = {'quick': 400, 'thorough': 1500}
_c = {}
SUP = ['src/engine/engine_util_blas.c', 'src/engine/engine_util_misc.c', 'src/engine/engine_util_errmem.c', 'src/engine/engine_core_util.c', 'src/engine/engine_util_spatial.c']


def mod():
    if 'm' not in _c: _c['m'] = ir.load(TUS)
    return _c['m']


def so():
    if 'so' not in _c: _c['so'] = build.native_lib(['src/engine/engine_sensor.c'], SUP, name='sensor')
    return _c['so']


def lay():
    if 'l' not in _c: _c['l'] = build.Layout()
    return _c['l']


def prepare(tier): mod(); so(); lay()


KIND = {'jointpos': ('mjSENS_JOINTPOS', 'mjSTAGE_POS', 'qpos'), 'tendonpos': ('mjSENS_TENDONPOS', 'mjSTAGE_POS', 'ten_length'), 'clock': ('mjSENS_CLOCK', 'mjSTAGE_POS', None),
        'jointvel': ('mjSENS_JOINTVEL', 'mjSTAGE_VEL', 'qvel'), 'tendonvel': ('mjSENS_TENDONVEL', 'mjSTAGE_VEL', 'ten_velocity')}


def unit_sensors(tier, stage, kinds, disabled=0):
    ck = Checker('sensor%s_%s%s' % (stage, '_'.join(kinds), '_dis' if disabled else ''), tier, timeout_s=120, semantics='real')
    L = lay(); K = build.enum_values('mjSENS_'); K.update(build.enum_values('mjSTAGE_')); K.update(build.enum_values('mjDATATYPE_')); K.update(build.enum_values('mjDSBL_'))
    w = W.World('real')
    ns = len(kinds); nd = 4
    M, _ = W.full_struct(w, L, 'mjModel_', 'MJMODEL_POINTERS', {'nsensor': ns, 'nsensordata': nd, 'njnt': 2, 'nq': 2, 'nv': 2, 'ntendon': 2, 'nbody': 1}, 'm', default_size=0,
                         symbolic=('sensor_adr', 'sensor_objid', 'sensor_cutoff', 'sensor_datatype'),
                         values={'sensor_type': [K[KIND[k][0]] for k in kinds], 'sensor_needstage': [K[KIND[k][1]] for k in kinds], 'sensor_dim': [1] * ns, 'jnt_qposadr': [0, 1], 'jnt_dofadr': [0, 1]})
    D, _ = W.full_struct(w, L, 'mjData_', 'MJDATA_POINTERS', {'nsensordata': nd, 'nq': 2, 'nv': 2, 'ntendon': 2, 'nbody': 1}, 'd', default_size=0,
                         symbolic=('sensordata', 'qpos', 'qvel', 'ten_length', 'ten_velocity'))
    M.set('opt.disableflags', K['mjDSBL_SENSOR'] if disabled else 0); M.set('opt.enableflags', 0)
    t = D.sym('time', 'time')
    adr, objid, cut, dty = [M.arrays[a][3] for a in ('sensor_adr', 'sensor_objid', 'sensor_cutoff', 'sensor_datatype')]
    sd0 = D.arrays['sensordata'][3]
    ex = llsym.Exec(mod(), fpmode='real', loop_bound=ns + 4)
    st = w.to_state(ex)
    pre = [z3.And(a >= 0, a < nd) for a in adr] + [z3.And(o >= 0, o < 2) for o in objid] + [z3.Or(x == K['mjDATATYPE_REAL'], x == K['mjDATATYPE_POSITIVE'], x == K['mjDATATYPE_AXIS']) for x in dty]
    if ns == 2: pre.append(adr[0] != adr[1])
    st.pc += pre
    fn = 'mj_sensorPos' if stage == 'Pos' else 'mj_sensorVel'
    res = ex.run('@' + fn, [w.P(M.o), w.P(D.o)], st)
    ck.note_results(ex, res)
    args = [('ptr', (M.o, 0)), ('ptr', (D.o, 0))]
    dec = lambda mdl: {'adr': [W.evalnum(mdl, a) for a in adr], 'objid': [W.evalnum(mdl, o) for o in objid], 'cutoff': [str(W.evalnum(mdl, c)) for c in cut], 'datatype': [W.evalnum(mdl, x) for x in dty]}
    want_stage = K['mjSTAGE_POS'] if stage == 'Pos' else K['mjSTAGE_VEL']
    for r in res:
        if r.kind != 'return': continue
        out = [ex.load(r.state, w.P(D.arrays['sensordata'][0], 8 * c), FpT('double')) for c in range(nd)]
        rp = W.make_replay(so(), fn, w, args, outputs=[('sensordata%d' % c, D.arrays['sensordata'][0], 8 * c, 'f64', out[c]) for c in range(nd)], semantics='real')
        for c in range(nd):
            exp = sd0[c]
            for i, kd in enumerate(kinds):
                if disabled or K[KIND[kd][1]] != want_stage: continue
                src_name = KIND[kd][2]
                if src_name is None: raw = t
                else:
                    arr = D.arrays[src_name][3]; raw = z3.If(objid[i] == 0, arr[0], arr[1])
                clamped = z3.If(cut[i] <= 0, raw, z3.If(dty[i] == K['mjDATATYPE_REAL'], z3.If(raw < -cut[i], -cut[i], z3.If(raw > cut[i], cut[i], raw)),
                                                         z3.If(dty[i] == K['mjDATATYPE_POSITIVE'], z3.If(raw > cut[i], cut[i], raw), raw)))
                exp = z3.If(adr[i] == c, clamped, exp)
            ck.prove('%s: sensordata[%d] = value of the sensor stored there (source quantity with the cutoff law), untouched otherwise' % (fn, c), r.state.pc, out[c] == exp, site='%s:footprint-value' % fn, decode=dec, replay=rp)
    ck.reach('sensor precondition', pre)
    ck.memory_obligations(res, decode=dec)
    return ck


def cross(a, b): return [a[1] * b[2] - a[2] * b[1], a[2] * b[0] - a[0] * b[2], a[0] * b[1] - a[1] * b[0]]


def unit_framevel(tier, objkind, refkind, oid, rid):
    """framelinvel / frameangvel (type symbolic) of a site or body frame relative to a symbolic reference frame id (-1: none) on two moving bodies"""
    ck = Checker('framevel_%s%d_%s%d' % (objkind, oid, refkind, rid), tier, timeout_s=120, semantics='real')
    L = lay(); K = build.enum_values('mjSENS_'); K.update(build.enum_values('mjSTAGE_')); K.update(build.enum_values('mjDATATYPE_')); KO = build.enum_values('mjOBJ_')
    w = W.World('real')
    nb = 3; nsite = 2; nd = 4
    M, _ = W.full_struct(w, L, 'mjModel_', 'MJMODEL_POINTERS', {'nsensor': 1, 'nsensordata': nd, 'nbody': nb, 'nsite': nsite, 'nv': 2}, 'm', default_size=0,
                         symbolic=('sensor_type',),
                         values={'sensor_refid': [rid], 'sensor_objid': [oid], 'sensor_needstage': [K['mjSTAGE_VEL']], 'sensor_dim': [3], 'sensor_adr': [0], 'sensor_datatype': [K['mjDATATYPE_REAL']], 'sensor_cutoff': [0.0],
                                 'sensor_objtype': [KO['mjOBJ_' + objkind]], 'sensor_reftype': [KO['mjOBJ_' + refkind]],
                                 'site_bodyid': [1, 2], 'body_weldid': [0, 1, 2], 'body_dofnum': [0, 1, 1], 'body_rootid': [0, 1, 1]})
    D, _ = W.full_struct(w, L, 'mjData_', 'MJDATA_POINTERS', {'nsensordata': nd, 'nbody': nb, 'nsite': nsite, 'nv': 2}, 'd', default_size=0,
                         symbolic=('sensordata', 'cvel', 'subtree_com', 'site_xpos', 'site_xmat', 'xpos', 'xmat', 'xipos', 'ximat'))
    M.set('opt.disableflags', 0); M.set('opt.enableflags', 0)
    ty = M.arrays['sensor_type'][3][0]; refid = z3.IntVal(rid); objid = z3.IntVal(oid)
    nobj = nsite if objkind == 'SITE' else nb; nref = nsite if refkind == 'SITE' else nb
    lo = 0 if objkind == 'SITE' else 1     # bodies 1, 2 move; the world body is covered as a reference only
    pre = [z3.Or(ty == K['mjSENS_FRAMELINVEL'], ty == K['mjSENS_FRAMEANGVEL'])]
    sd0 = D.arrays['sensordata'][3]
    ex = llsym.Exec(mod(), fpmode='real', loop_bound=8)
    st = w.to_state(ex); st.pc += pre
    res = ex.run('@mj_sensorVel', [w.P(M.o), w.P(D.o)], st)
    ck.note_results(ex, res)
    args = [('ptr', (M.o, 0)), ('ptr', (D.o, 0))]
    dec = lambda mdl: {'type': W.evalnum(mdl, ty), 'objid': oid, 'refid': rid}
    cvel = D.arrays['cvel'][3]; com = D.arrays['subtree_com'][3]
    def frame(kind, idx):
        """(position, rotation rows, 6D velocity [ang, lin] at the frame origin in world axes) of frame idx, from first principles"""
        if kind == 'SITE': p = D.arrays['site_xpos'][3][3 * idx:3 * idx + 3]; Rm = D.arrays['site_xmat'][3][9 * idx:9 * idx + 9]; b = [1, 2][idx]
        elif kind == 'XBODY': p = D.arrays['xpos'][3][3 * idx:3 * idx + 3]; Rm = D.arrays['xmat'][3][9 * idx:9 * idx + 9]; b = idx
        else: p = D.arrays['xipos'][3][3 * idx:3 * idx + 3]; Rm = D.arrays['ximat'][3][9 * idx:9 * idx + 9]; b = idx
        if b == 0: return p, Rm, [z3.RealVal(0)] * 3, [z3.RealVal(0)] * 3       # world body: no dofs
        wv = cvel[6 * b:6 * b + 3]; lv = cvel[6 * b + 3:6 * b + 6]; c = com[3:6]    # root of bodies 1, 2 is body 1
        arm = [p[k] - c[k] for k in range(3)]; cr = cross(wv, arm)
        return p, Rm, wv, [lv[k] + cr[k] for k in range(3)]
    def sel(idx, n, f):
        out = f(n - 1)
        for q in range(n - 2, -1, -1):
            fq = f(q); out = [z3.If(idx == q, a, b) for a, b in zip(fq, out)]
        return out
    def flat(fr): return list(fr[0]) + list(fr[1]) + list(fr[2]) + list(fr[3])
    O = flat(frame(objkind, oid)); po, Ro, wo, vo = O[0:3], O[3:12], O[12:15], O[15:18]
    Rf = flat(frame(refkind, max(rid, 0))); pr, Rr, wr, vr = Rf[0:3], Rf[3:12], Rf[12:15], Rf[15:18]
    dw = [wo[k] - wr[k] for k in range(3)]
    rv = [po[k] - pr[k] for k in range(3)]; cr = cross(wr, rv)
    dv = [vo[k] - vr[k] - cr[k] for k in range(3)]
    RT = lambda Rm, v: [Rm[0 + k] * v[0] + Rm[3 + k] * v[1] + Rm[6 + k] * v[2] for k in range(3)]
    ang = [wo[k] if rid < 0 else RT(Rr, dw)[k] for k in range(3)]
    lin = [vo[k] if rid < 0 else RT(Rr, dv)[k] for k in range(3)]
    for r in res:
        if r.kind != 'return': continue
        out = [ex.load(r.state, w.P(D.arrays['sensordata'][0], 8 * c), FpT('double')) for c in range(nd)]
        rp = W.make_replay(so(), 'mj_sensorVel', w, args, outputs=[('sensordata%d' % c, D.arrays['sensordata'][0], 8 * c, 'f64', out[c]) for c in range(nd)], semantics='real')
        for k in range(3):
            ck.prove('frame velocity sensor component %d = R_ref^T (v_obj - v_ref - w_ref x (p_obj - p_ref)) / R_ref^T (w_obj - w_ref); world-frame value without a reference' % k, r.state.pc,
                     out[k] == z3.If(ty == K['mjSENS_FRAMELINVEL'], lin[k], ang[k]), site='mj_sensorVel:framevel', decode=dec, replay=rp)
        ck.prove('cell past the sensor untouched', r.state.pc, out[3] == sd0[3], site='mj_sensorVel:framevel-footprint', decode=dec, replay=rp)
    ck.reach('both sensor types', pre)
    ck.memory_obligations(res, decode=dec)
    return ck


def unit_cutoff(tier, dim):
    """the real static apply_cutoff with the sensor TYPE, datatype, cutoff and data all symbolic"""
    ck = Checker('apply_cutoff_dim%d' % dim, tier, timeout_s=60, semantics='real')
    L = lay(); K = build.enum_values('mjSENS_'); K.update(build.enum_values('mjDATATYPE_')); K.update(build.enum_values('mjNSENS'))
    w = W.World('real')
    M, _ = W.full_struct(w, L, 'mjModel_', 'MJMODEL_POINTERS', {'nsensor': 2, 'nsensordata': dim}, 'm', default_size=0,
                         symbolic=('sensor_type', 'sensor_datatype', 'sensor_cutoff'), values={'sensor_dim': [1, dim]})
    ty = M.arrays['sensor_type'][3][1]; dty = M.arrays['sensor_datatype'][3][1]; cut = M.arrays['sensor_cutoff'][3][1]
    do, data = w.arr('data', 'f64', dim)
    ntypes = max(v for k, v in K.items() if k.startswith('mjSENS_')) + 1
    pre = [ty >= 0, ty < ntypes, dty >= 0, dty <= max(v for k, v in K.items() if k.startswith('mjDATATYPE_'))]
    ex = llsym.Exec(mod(), fpmode='real', loop_bound=dim + 2)
    st = w.to_state(ex); st.pc += pre
    res = ex.run('@apply_cutoff', [w.P(M.o), z3.BitVecVal(1, 32), w.P(do)], st)
    ck.note_results(ex, res)
    args = [('ptr', (M.o, 0)), ('i32', 1), ('ptr', (do, 0))]
    dec = lambda mdl: {'type': W.evalnum(mdl, ty), 'datatype': W.evalnum(mdl, dty), 'cutoff': str(W.evalnum(mdl, cut)), 'data': [str(W.evalnum(mdl, x)) for x in data]}
    skip = z3.Or(cut <= 0, ty == K['mjSENS_CONTACT'], ty == K['mjSENS_GEOMFROMTO'])
    for r in res:
        if r.kind != 'return': continue
        out = [ex.load(r.state, w.P(do, 8 * j), FpT('double')) for j in range(dim)]
        rp = W.make_replay(so(), 'apply_cutoff', w, args, outputs=[('data%d' % j, do, 8 * j, 'f64', out[j]) for j in range(dim)], semantics='real')
        for j in range(dim):
            x = data[j]
            want = z3.If(skip, x, z3.If(dty == K['mjDATATYPE_REAL'], z3.If(x < -cut, -cut, z3.If(x > cut, cut, x)), z3.If(dty == K['mjDATATYPE_POSITIVE'], z3.If(x > cut, cut, x), x)))
            ck.prove('apply_cutoff: data[%d] clamped to [-cutoff, cutoff] (REAL) / (-inf, cutoff] (POSITIVE); untouched for cutoff <= 0, axis/quaternion data, contact and fromto sensors' % j,
                     r.state.pc, out[j] == want, site='apply_cutoff:law', decode=dec, replay=rp)
    ck.reach('a fromto sensor with positive cutoff', pre + [ty == K['mjSENS_GEOMFROMTO'], cut > 0])
    ck.memory_obligations(res, decode=dec)
    return ck


def units(tier):
    u = [('pos_jointpos_clock', 'unit_sensors', {'stage': 'Pos', 'kinds': ['jointpos', 'clock']}), ('pos_tendonpos_jointvel', 'unit_sensors', {'stage': 'Pos', 'kinds': ['tendonpos', 'jointvel']}),
         ('vel_jointvel_tendonvel', 'unit_sensors', {'stage': 'Vel', 'kinds': ['jointvel', 'tendonvel']}), ('vel_jointpos_jointvel', 'unit_sensors', {'stage': 'Vel', 'kinds': ['jointpos', 'jointvel']}),
         ('pos_disabled', 'unit_sensors', {'stage': 'Pos', 'kinds': ['jointpos', 'clock'], 'disabled': 1})]
    fv = [('SITE', 'SITE', 1, 0), ('SITE', 'SITE', 0, 1), ('SITE', 'SITE', 1, -1), ('SITE', 'XBODY', 0, 2), ('SITE', 'XBODY', 1, 0), ('XBODY', 'SITE', 2, 0)]
    if True: fv += [('SITE', 'SITE', 0, 0), ('SITE', 'XBODY', 1, 1), ('XBODY', 'XBODY', 1, 2), ('XBODY', 'XBODY', 2, -1), ('BODY', 'BODY', 2, 1), ('BODY', 'SITE', 1, 1), ('SITE', 'BODY', 0, 2)]
    u += [('framevel_%s%d_%s%d' % (a, i, b, j), 'unit_framevel', {'objkind': a, 'refkind': b, 'oid': i, 'rid': j}) for a, b, i, j in fv]
    u += [('apply_cutoff_dim%d' % d, 'unit_cutoff', {'dim': d}) for d in (1, 3, 6)]
    if True:
        import itertools
        for a, b in itertools.permutations(['jointpos', 'tendonpos', 'clock'], 2): u.append(('pos_%s_%s' % (a, b), 'unit_sensors', {'stage': 'Pos', 'kinds': [a, b]}))
    return u
