"""C05 Time integration follows the documented schemes (part): semi-implicit Euler update of mj_advance, activation integration and clamping, RK4 tableau."""
import z3, fractions
from vf import ir, build, llsym, world as W
from vf.runner import Checker
from vf.irparse import IntT, FpT, Const

ID = 'C05'
LEVEL = 'other'
TUS = ['src/engine/engine_forward.c', 'src/engine/engine_support.c', 'src/engine/engine_util_blas.c', 'src/engine/engine_util_misc.c']
EXPLANATION = ('llsym (real-algebraic) runs the real static mj_advance (through its callers\' arguments) on a model with slide/hinge joints: qvel\' = qvel + h*qacc, qpos\' = qpos + h*qvel\' '
               '(velocity first: semi-implicit), time\' = time + h, qacc_warmstart = qacc, untouched dofs keep their values; and the real mj_nextActivation for every non-DC dynamics type: '
               'Euler act + h*act_dot, exact filter act + act_dot*tau*(1 - exp(-h/tau)) (exp uninterpreted), and the result clamped into actrange whenever actlimited (any inputs). '
               'The Butcher tableau constants RK4_A / RK4_B read from the lowered IR equal the classical RK4 tableau.')
BOUNDS = {'quick': {'nv = nq': '<= 2 slide/hinge joints', 'na': '<= 1'}, 'thorough': {'nv = nq': '<= 3'}}
OUTSIDE = 'ball/free joints (quaternion integration), implicit integrators (linear solves), RK4 stage composition, history buffers, sleeping, plugins, DC-motor / PID activation states.'
ASSUMPTIONS = ['real-number semantics', 'mj_sleep returns 0 (nothing put to sleep), sleep disabled', 'nhistory = 0, nplugin = 0', 'exp is an uninterpreted positive function']
BUDGET = {'quick': 400, 'thorough': 1500}
_c = {}
SUP = ['src/engine/engine_support.c', 'src/engine/engine_util_blas.c', 'src/engine/engine_util_misc.c', 'src/engine/engine_util_errmem.c', 'src/engine/engine_callback.c']


def mod():
    if 'm' not in _c: _c['m'] = ir.load(TUS)
    return _c['m']


STUB_C = 'int vfstub_mj_sleep(const void* m, void* d) { vf_log_call("mj_sleep"); return 0; }\n'


def so():
    if 'so' not in _c: _c['so'] = build.native_lib(['src/engine/engine_forward.c'], SUP, name='forward_adv', extra_c=STUB_C, redirect=['mj_sleep'])
    return _c['so']


def so_support():
    if 'so2' not in _c: _c['so2'] = build.native_lib(['src/engine/engine_support.c'], ['src/engine/engine_util_blas.c', 'src/engine/engine_util_misc.c', 'src/engine/engine_util_errmem.c'], name='support_act')
    return _c['so2']


def lay():
    if 'l' not in _c: _c['l'] = build.Layout()
    return _c['l']


def prepare(tier): mod(); so(); so_support(); lay()


def I(v): return z3.BitVecVal(v, 32)


def unit_advance(tier, nv):
    ck = Checker('advance_nv%d' % nv, tier, timeout_s=120, semantics='real')
    L = lay(); K = build.enum_values('mjJNT_')
    w = W.World('real')
    nb = nv + 1
    jt = [K['mjJNT_SLIDE'] if j % 2 == 0 else K['mjJNT_HINGE'] for j in range(nv)]
    M, _ = W.full_struct(w, L, 'mjModel_', 'MJMODEL_POINTERS', {'nq': nv, 'nv': nv, 'njnt': nv, 'nbody': nb, 'ntree': nv}, 'm', default_size=0,
                         values={'jnt_type': jt, 'jnt_qposadr': list(range(nv)), 'jnt_dofadr': list(range(nv)), 'body_jntadr': [-1] + list(range(nv)), 'body_jntnum': [0] + [1] * nv})
    D, _ = W.full_struct(w, L, 'mjData_', 'MJDATA_POINTERS', {'nq': nv, 'nv': nv, 'nbody': nb}, 'd', default_size=0, symbolic=('qpos', 'qvel', 'qacc', 'qacc_warmstart'))
    h = M.sym('opt.timestep', 'h'); t0 = D.sym('time', 'time')
    M.set('opt.disableflags', 0); M.set('opt.enableflags', 0)
    qpos, qvel, qacc = D.arrays['qpos'][3], D.arrays['qvel'][3], D.arrays['qacc'][3]
    ao, act_dot = w.arr('act_dot', 'f64', 1)
    stubs = {'mj_sleep': lambda ex, st, a, i: I(0)}
    ex = llsym.Exec(mod(), fpmode='real', stubs=stubs, loop_bound=nv + 4)
    st = w.to_state(ex); st.pc += [h > 0]
    res = ex.run('@mj_advance', [w.P(M.o), w.P(D.o), w.P(ao), w.P(D.arrays['qacc'][0]), llsym.NULL], st)
    ck.note_results(ex, res)
    args = [('ptr', (M.o, 0)), ('ptr', (D.o, 0)), ('ptr', (ao, 0)), ('ptr', (D.arrays['qacc'][0], 0)), ('ptr', None)]
    dec = lambda mdl: {'h': str(W.evalnum(mdl, h)), 'qpos': [str(W.evalnum(mdl, x)) for x in qpos], 'qvel': [str(W.evalnum(mdl, x)) for x in qvel], 'qacc': [str(W.evalnum(mdl, x)) for x in qacc]}
    for r in res:
        if r.kind != 'return': continue
        ld = lambda nm, i: ex.load(r.state, w.P(D.arrays[nm][0], 8 * i), FpT('double'))
        nq_ = [ld('qpos', i) for i in range(nv)]; nvl = [ld('qvel', i) for i in range(nv)]; ws = [ld('qacc_warmstart', i) for i in range(nv)]
        t1 = D.load(ex, r.state, 'time')
        outs = [('qpos%d' % i, D.arrays['qpos'][0], 8 * i, 'f64', nq_[i]) for i in range(nv)] + [('qvel%d' % i, D.arrays['qvel'][0], 8 * i, 'f64', nvl[i]) for i in range(nv)] + [D.out(ex, r.state, 'time')]
        rp = W.make_replay(so(), 'mj_advance', w, args, outputs=outs, semantics='real')
        for i in range(nv):
            ck.prove('advance: qvel[%d]\' = qvel + h*qacc' % i, r.state.pc, nvl[i] == qvel[i] + h * qacc[i], site='mj_advance:velocity', decode=dec, replay=rp)
            ck.prove('advance: qpos[%d]\' = qpos + h*qvel\' (updated velocity: semi-implicit Euler)' % i, r.state.pc, nq_[i] == qpos[i] + h * (qvel[i] + h * qacc[i]), site='mj_advance:position', decode=dec, replay=rp)
            ck.prove('advance: qacc_warmstart[%d] = qacc' % i, r.state.pc, ws[i] == qacc[i], site='mj_advance:warmstart', decode=dec, replay=rp)
        ck.prove('advance: time\' = time + h', r.state.pc, t1 == t0 + h, site='mj_advance:time', decode=dec, replay=rp)
    ck.memory_obligations(res, decode=dec)
    return ck


def unit_activation(tier, dyn):
    ck = Checker('nextActivation_%s' % dyn, tier, timeout_s=120, semantics='real')
    L = lay(); K = build.enum_values('mjDYN_'); ndyn = build.enum_values('mjNDYN')['mjNDYN'] if 'mjNDYN' in build.enum_values('mjNDYN') else 10
    w = W.World('real')
    M, _ = W.full_struct(w, L, 'mjModel_', 'MJMODEL_POINTERS', {'nu': 1, 'na': 1, 'nactuator': 1}, 'm', default_size=0, symbolic=('actuator_dynprm', 'actuator_actrange', 'actuator_actlimited'),
                         values={'actuator_dyntype': [K[dyn]], 'actuator_actadr': [0], 'actuator_actnum': [1]})
    D, _ = W.full_struct(w, L, 'mjData_', 'MJDATA_POINTERS', {'na': 1, 'nu': 1}, 'd', default_size=0, symbolic=('act',))
    h = M.sym('opt.timestep', 'h')
    act = D.arrays['act'][3][0]; rng = M.arrays['actuator_actrange'][3]; lim = M.arrays['actuator_actlimited'][3][0]; tau_p = M.arrays['actuator_dynprm'][3][0]
    adot = z3.Real('act_dot'); w.syms.append(('act_dot', 'f64', adot))
    exps = []
    def exp_stub(ex, st, a, i):
        e = z3.Real('exp!%d' % len(exps)); exps.append((e, a[0])); st.pc.append(e > 0); return e
    ex = llsym.Exec(mod(), fpmode='real', stubs={'exp': exp_stub}, loop_bound=8)
    st = w.to_state(ex); pre = [h > 0, rng[0] <= rng[1], z3.Or(lim == 0, lim == 1)]; st.pc += pre
    res = ex.run('@mj_nextActivation', [w.P(M.o), w.P(D.o), I(0), I(0), adot], st)
    ck.note_results(ex, res)
    args = [('ptr', (M.o, 0)), ('ptr', (D.o, 0)), ('i32', 0), ('i32', 0), ('f64', adot)]
    dec = lambda mdl: {'act': str(W.evalnum(mdl, act)), 'act_dot': str(W.evalnum(mdl, adot)), 'h': str(W.evalnum(mdl, h)), 'actrange': [str(W.evalnum(mdl, x)) for x in rng], 'actlimited': W.evalnum(mdl, lim)}
    clip = lambda v: z3.If(v < rng[0], rng[0], z3.If(v > rng[1], rng[1], v))
    for r in res:
        if r.kind != 'return': continue
        rp = W.make_replay(so_support(), 'mj_nextActivation', w, args, restype='f64', ret_term=r.value, semantics='real') if dyn != 'mjDYN_FILTEREXACT' else None
        used = [e for e in exps if any(c.eq(e[0] > 0) for c in r.state.pc)]
        if dyn == 'mjDYN_FILTEREXACT':
            if not used: ck.prove('exact filter uses exp(-h/tau)', r.state.pc, z3.BoolVal(False), site='mj_nextActivation:filterexact'); continue
            e, arg = used[0]
            minval = z3.RealVal(str(fractions.Fraction(1e-15)))
            tau = z3.If(tau_p > minval, tau_p, minval)
            raw = act + adot * tau * (1 - e)
            ck.prove('nextActivation FILTEREXACT: exponent is -h/tau with tau = max(mjMINVAL, dynprm[0])', r.state.pc, arg == -h / tau, site='mj_nextActivation:filterexact-arg', decode=dec)
        else:
            raw = act + adot * h
        ck.prove('nextActivation %s: integrated value, clamped to actrange iff actlimited' % dyn, r.state.pc, r.value == z3.If(lim != 0, clip(raw), raw), site='mj_nextActivation:formula', decode=dec, replay=rp)
        ck.prove('nextActivation %s: with actlimited the result lies in [actrange0, actrange1]' % dyn, r.state.pc + [lim != 0], z3.And(r.value >= rng[0], r.value <= rng[1]), site='mj_nextActivation:range', decode=dec, replay=rp)
    ck.reach('activation precondition', pre)
    ck.memory_obligations(res, decode=dec)
    return ck


def unit_tableau(tier):
    ck = Checker('rk4_tableau', tier, timeout_s=30)
    m = mod()
    want = {'@RK4_A': [0.5, 0, 0, 0, 0.5, 0, 0, 0, 1], '@RK4_B': [1 / 6, 1 / 3, 1 / 3, 1 / 6]}
    for g, vals in want.items():
        t, init, const = m.globals[g]
        got = [v.v if isinstance(v, Const) else None for (_, v) in init.v] if init is not None and init.kind == 'agg' else ([0.0] * len(vals) if init is not None and init.kind == 'zero' else None)
        got = [float(x) for x in got] if got else None
        ck.prove('%s equals the classical RK4 tableau %s' % (g[1:], vals), [], z3.BoolVal(got is not None and all(abs(a - b) < 1e-15 for a, b in zip(got, vals)) and len(got) == len(vals)), site='RK4:tableau', sample='%s = %s' % (g, got))
    ck.reach('tableau', [])
    return ck


def units(tier):
    u = [('rk4_tableau', 'unit_tableau', {})]
    for nv in ([1, 2] if tier == 'quick' else [1, 2, 3]): u.append(('advance_nv%d' % nv, 'unit_advance', {'nv': nv}))
    for dyn in ('mjDYN_NONE', 'mjDYN_INTEGRATOR', 'mjDYN_FILTER', 'mjDYN_FILTEREXACT'): u.append(('nextActivation_%s' % dyn, 'unit_activation', {'dyn': dyn}))
    return u
