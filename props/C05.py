"""C05 Time integration follows the documented schemes (part): semi-implicit Euler update of mj_advance, activation integration and clamping, RK4 tableau."""
import z3, fractions
from vf import ir, build, llsym, world as W
from vf.runner import Checker
from vf.irparse import IntT, FpT, Const

ID = 'C05'
LEVEL = 'other'
TUS = ['src/engine/engine_forward.c', 'src/engine/engine_support.c', 'src/engine/engine_util_blas.c', 'src/engine/engine_util_misc.c', 'src/engine/engine_core_smooth.c', 'src/engine/engine_core_util.c', 'src/engine/engine_util_sparse.c']
EXPLANATION = ('llsym (real-algebraic) runs the real static mj_advance (through its callers\' arguments) on a model with slide/hinge joints: qvel\' = qvel + h*qacc, qpos\' = qpos + h*qvel\' '
               '(velocity first: semi-implicit), time\' = time + h, qacc_warmstart = qacc, untouched dofs keep their values; and the real mj_nextActivation for every non-DC dynamics type: '
               'Euler act + h*act_dot, exact filter act + act_dot*tau*(1 - exp(-h/tau)) (exp uninterpreted), and the result clamped into actrange whenever actlimited (any inputs). '
               'The Butcher tableau constants RK4_A / RK4_B read from the lowered IR equal the classical RK4 tableau.')
BOUNDS = {'quick': {'nv = nq': '<= 3 slide/hinge joints', 'na': '<= 1; activation: every pairing of actuator id 0..1 with activation address 0..2'}, 'thorough': {'nv = nq': '<= 4'}}
OUTSIDE = 'ball/free joints (quaternion integration), implicit integrators (linear solves), RK4 stage composition, history buffers, sleeping, plugins, DC-motor / PID activation states.'
ASSUMPTIONS = ['mjcb_time not installed', 'real-number semantics', 'mj_sleep returns 0 (nothing put to sleep), sleep disabled', 'nhistory = 0, nplugin = 0', 'exp is an uninterpreted positive function']
BUDGET = {'quick': 400, 'thorough': 1500}
_c = {}
SUP = ['src/engine/engine_support.c', 'src/engine/engine_util_blas.c', 'src/engine/engine_util_misc.c', 'src/engine/engine_util_errmem.c', 'src/engine/engine_callback.c']


def mod():
    if 'm' not in _c: _c['m'] = ir.load(TUS)
    return _c['m']


STUB_C = 'int vfstub_mj_sleep(const void* m, void* d) { vf_log_call("mj_sleep"); return 0; }\n'


def so():
    if 'so' not in _c: _c['so'] = build.native_lib(['src/engine/engine_forward.c'], SUP, name='forward_adv', extra_c=STUB_C, redirect=['mj_sleep'])
    return _c['so']


def so_support():
    if 'so2' not in _c: _c['so2'] = build.native_lib(['src/engine/engine_support.c'], ['src/engine/engine_util_blas.c', 'src/engine/engine_util_misc.c', 'src/engine/engine_util_errmem.c'], name='support_act')
    return _c['so2']


def lay():
    if 'l' not in _c: _c['l'] = build.Layout()
    return _c['l']


def prepare(tier): mod(); so(); so_support(); lay(); so_euler()


def I(v): return z3.BitVecVal(v, 32)


def unit_advance(tier, nv):
    ck = Checker('advance_nv%d' % nv, tier, timeout_s=120, semantics='real')
    L = lay(); K = build.enum_values('mjJNT_')
    w = W.World('real')
    nb = nv + 1
    jt = [K['mjJNT_SLIDE'] if j % 2 == 0 else K['mjJNT_HINGE'] for j in range(nv)]
    M, _ = W.full_struct(w, L, 'mjModel_', 'MJMODEL_POINTERS', {'nq': nv, 'nv': nv, 'njnt': nv, 'nbody': nb, 'ntree': nv}, 'm', default_size=0,
                         values={'jnt_type': jt, 'jnt_qposadr': list(range(nv)), 'jnt_dofadr': list(range(nv)), 'body_jntadr': [-1] + list(range(nv)), 'body_jntnum': [0] + [1] * nv})
    D, _ = W.full_struct(w, L, 'mjData_', 'MJDATA_POINTERS', {'nq': nv, 'nv': nv, 'nbody': nb}, 'd', default_size=0, symbolic=('qpos', 'qvel', 'qacc', 'qacc_warmstart'))
    h = M.sym('opt.timestep', 'h'); t0 = D.sym('time', 'time')
    M.set('opt.disableflags', 0); M.set('opt.enableflags', 0)
    qpos, qvel, qacc = D.arrays['qpos'][3], D.arrays['qvel'][3], D.arrays['qacc'][3]
    ao, act_dot = w.arr('act_dot', 'f64', 1)
    stubs = {'mj_sleep': lambda ex, st, a, i: I(0)}
    ex = llsym.Exec(mod(), fpmode='real', stubs=stubs, loop_bound=nv + 4)
    st = w.to_state(ex); st.pc += [h > 0]
    res = ex.run('@mj_advance', [w.P(M.o), w.P(D.o), w.P(ao), w.P(D.arrays['qacc'][0]), llsym.NULL], st)
    ck.note_results(ex, res)
    args = [('ptr', (M.o, 0)), ('ptr', (D.o, 0)), ('ptr', (ao, 0)), ('ptr', (D.arrays['qacc'][0], 0)), ('ptr', None)]
    dec = lambda mdl: {'h': str(W.evalnum(mdl, h)), 'qpos': [str(W.evalnum(mdl, x)) for x in qpos], 'qvel': [str(W.evalnum(mdl, x)) for x in qvel], 'qacc': [str(W.evalnum(mdl, x)) for x in qacc]}
    for r in res:
        if r.kind != 'return': continue
        ld = lambda nm, i: ex.load(r.state, w.P(D.arrays[nm][0], 8 * i), FpT('double'))
        nq_ = [ld('qpos', i) for i in range(nv)]; nvl = [ld('qvel', i) for i in range(nv)]; ws = [ld('qacc_warmstart', i) for i in range(nv)]
        t1 = D.load(ex, r.state, 'time')
        outs = [('qpos%d' % i, D.arrays['qpos'][0], 8 * i, 'f64', nq_[i]) for i in range(nv)] + [('qvel%d' % i, D.arrays['qvel'][0], 8 * i, 'f64', nvl[i]) for i in range(nv)] + [D.out(ex, r.state, 'time')]
        rp = W.make_replay(so(), 'mj_advance', w, args, outputs=outs, semantics='real')
        for i in range(nv):
            ck.prove('advance: qvel[%d]\' = qvel + h*qacc' % i, r.state.pc, nvl[i] == qvel[i] + h * qacc[i], site='mj_advance:velocity', decode=dec, replay=rp)
            ck.prove('advance: qpos[%d]\' = qpos + h*qvel\' (updated velocity: semi-implicit Euler)' % i, r.state.pc, nq_[i] == qpos[i] + h * (qvel[i] + h * qacc[i]), site='mj_advance:position', decode=dec, replay=rp)
            ck.prove('advance: qacc_warmstart[%d] = qacc' % i, r.state.pc, ws[i] == qacc[i], site='mj_advance:warmstart', decode=dec, replay=rp)
        ck.prove('advance: time\' = time + h', r.state.pc, t1 == t0 + h, site='mj_advance:time', decode=dec, replay=rp)
    ck.memory_obligations(res, decode=dec)
    return ck


def unit_activation(tier, dyn, aid=0, adr=0):
    ck = Checker('nextActivation_%s_id%d_adr%d' % (dyn, aid, adr), tier, timeout_s=120, semantics='real')
    L = lay(); K = build.enum_values('mjDYN_'); ndyn = build.enum_values('mjNDYN')['mjNDYN'] if 'mjNDYN' in build.enum_values('mjNDYN') else 10
    w = W.World('real')
    # two actuators and three activation cells: the queried actuator `aid` keeps its state at `adr` (ids and addresses differ when a stateless actuator or one with actnum != 1 precedes it)
    other = 'mjDYN_INTEGRATOR' if dyn != 'mjDYN_INTEGRATOR' else 'mjDYN_FILTER'
    M, _ = W.full_struct(w, L, 'mjModel_', 'MJMODEL_POINTERS', {'nu': 2, 'na': 3, 'nactuator': 2}, 'm', default_size=0, symbolic=('actuator_dynprm', 'actuator_actrange', 'actuator_actlimited'),
                         values={'actuator_dyntype': [K[dyn] if i == aid else K[other] for i in range(2)], 'actuator_actadr': [adr if i == aid else (adr + 1) % 3 for i in range(2)], 'actuator_actnum': [1, 1]})
    D, _ = W.full_struct(w, L, 'mjData_', 'MJDATA_POINTERS', {'na': 3, 'nu': 2}, 'd', default_size=0, symbolic=('act',))
    h = M.sym('opt.timestep', 'h')
    ndp = len(M.arrays['actuator_dynprm'][3]) // 2
    act = D.arrays['act'][3][adr]; rng = M.arrays['actuator_actrange'][3][2 * aid:2 * aid + 2]; lim = M.arrays['actuator_actlimited'][3][aid]; tau_p = M.arrays['actuator_dynprm'][3][ndp * aid]
    adot = z3.Real('act_dot'); w.syms.append(('act_dot', 'f64', adot))
    exps = []
    def exp_stub(ex, st, a, i):
        e = z3.Real('exp!%d' % len(exps)); exps.append((e, a[0])); st.pc.append(e > 0); return e
    ex = llsym.Exec(mod(), fpmode='real', stubs={'exp': exp_stub}, loop_bound=8)
    allr = M.arrays['actuator_actrange'][3]; alll = M.arrays['actuator_actlimited'][3]
    st = w.to_state(ex); pre = [h > 0] + [allr[2 * i] <= allr[2 * i + 1] for i in range(2)] + [z3.Or(l == 0, l == 1) for l in alll]; st.pc += pre
    res = ex.run('@mj_nextActivation', [w.P(M.o), w.P(D.o), I(aid), I(adr), adot], st)
    ck.note_results(ex, res)
    args = [('ptr', (M.o, 0)), ('ptr', (D.o, 0)), ('i32', aid), ('i32', adr), ('f64', adot)]
    dec = lambda mdl: {'act': str(W.evalnum(mdl, act)), 'act_dot': str(W.evalnum(mdl, adot)), 'h': str(W.evalnum(mdl, h)), 'actrange': [str(W.evalnum(mdl, x)) for x in rng], 'actlimited': W.evalnum(mdl, lim)}
    clip = lambda v: z3.If(v < rng[0], rng[0], z3.If(v > rng[1], rng[1], v))
    for r in res:
        if r.kind != 'return': continue
        rp = W.make_replay(so_support(), 'mj_nextActivation', w, args, restype='f64', ret_term=r.value, semantics='real') if dyn != 'mjDYN_FILTEREXACT' else None
        used = [e for e in exps if any(c.eq(e[0] > 0) for c in r.state.pc)]
        if dyn == 'mjDYN_FILTEREXACT':
            if not used: ck.prove('exact filter uses exp(-h/tau)', r.state.pc, z3.BoolVal(False), site='mj_nextActivation:filterexact'); continue
            e, arg = used[0]
            minval = z3.RealVal(str(fractions.Fraction(1e-15)))
            tau = z3.If(tau_p > minval, tau_p, minval)
            raw = act + adot * tau * (1 - e)
            ck.prove('nextActivation FILTEREXACT: exponent is -h/tau with tau = max(mjMINVAL, dynprm[0])', r.state.pc, arg == -h / tau, site='mj_nextActivation:filterexact-arg', decode=dec)
        else:
            raw = act + adot * h
        ck.prove('nextActivation %s: integrated value, clamped to actrange iff actlimited' % dyn, r.state.pc, r.value == z3.If(lim != 0, clip(raw), raw), site='mj_nextActivation:formula', decode=dec, replay=rp)
        ck.prove('nextActivation %s: with actlimited the result lies in [actrange0, actrange1]' % dyn, r.state.pc + [lim != 0], z3.And(r.value >= rng[0], r.value <= rng[1]), site='mj_nextActivation:range', decode=dec, replay=rp)
    ck.reach('activation precondition', pre)
    ck.memory_obligations(res, decode=dec)
    return ck


def so_euler():
    if 'so3' not in _c:
        _c['so3'] = build.native_lib(['src/engine/engine_forward.c'], SUP + ['src/engine/engine_core_smooth.c', 'src/engine/engine_core_util.c', 'src/engine/engine_util_sparse.c', 'src/engine/engine_memory.c'],
                                     name='forward_euler', extra_c=STUB_C, redirect=['mj_sleep'])
    return _c['so3']


def unit_euler(tier, nv):
    """mj_EulerSkip with the disable flags symbolic: explicit update with d->qacc unless Euler damping is active (then the velocity solve uses M + h*dB/dv), then the semi-implicit position update"""
    ck = Checker('euler_nv%d' % nv, tier, timeout_s=120, semantics='real')
    L = lay(); K = build.enum_values('mjJNT_'); KD = build.enum_values('mjDSBL_')
    import re
    npoly = int(re.search(r'#define mjNPOLY\s+(\d+)', open(build.REPO + '/include/mujoco/mjmodel.h').read() + open(build.REPO + '/include/mujoco/mjtype.h').read()).group(1))
    w = W.World('real')
    nb = nv + 1
    M, _ = W.full_struct(w, L, 'mjModel_', 'MJMODEL_POINTERS', {'nq': nv, 'nv': nv, 'njnt': nv, 'nbody': nb, 'ntree': nv, 'nC': nv, 'nM': nv, 'nD': nv}, 'm', default_size=0,
                         symbolic=('dof_damping', 'dof_dampingpoly'),
                         values={'jnt_type': [K['mjJNT_SLIDE']] * nv, 'jnt_qposadr': list(range(nv)), 'jnt_dofadr': list(range(nv)), 'body_jntadr': [-1] + list(range(nv)), 'body_jntnum': [0] + [1] * nv,
                                 'jnt_actuatorid': [-1] * nv, 'dof_jntid': list(range(nv)), 'M_rownnz': [1] * nv, 'M_rowadr': list(range(nv)), 'M_colind': list(range(nv)), 'dof_Madr': list(range(nv))})
    D, _ = W.full_struct(w, L, 'mjData_', 'MJDATA_POINTERS', {'nq': nv, 'nv': nv, 'nbody': nb, 'nC': nv, 'nM': nv, 'nD': nv}, 'd', default_size=0,
                         symbolic=('qpos', 'qvel', 'qacc', 'qfrc_smooth', 'qfrc_constraint', 'M'))
    ar = w.obj('arena', 8192).zeros(); D.o.put(D.off('arena'), 'ptr', (ar, 0)); D.set('narena', 8192)
    h = M.sym('opt.timestep', 'h'); t0 = D.sym('time', 'time'); dis = M.sym('opt.disableflags', 'disableflags'); M.set('opt.enableflags', 0)
    qpos, qvel, qacc, fs, fc, Mm = [D.arrays[k][3] for k in ('qpos', 'qvel', 'qacc', 'qfrc_smooth', 'qfrc_constraint', 'M')]
    b = M.arrays['dof_damping'][3]; bp = M.arrays['dof_dampingpoly'][3]
    ED = KD['mjDSBL_EULERDAMP']; DD = KD['mjDSBL_DAMPER']
    pre = [h > 0, (dis & ~(ED | DD)) == 0] + [x > 0 for x in Mm] + [x >= 0 for x in b] + [x >= 0 for x in bp]
    def alloc(ex, st, args, ins):
        size = ex.as_int(args[1]); return st.alloc(size, ('stack', len(st.objs)))
    noop = lambda ex, st, args, ins: None
    stubs = {'mj_sleep': lambda ex, st, a, i: I(0), 'mj_stackAllocInfo': alloc, 'mj_markStack': noop, 'mj_freeStack': noop}
    ex = llsym.Exec(mod(), fpmode='real', stubs=stubs, loop_bound=max(nv, npoly) + 4)
    st = w.to_state(ex); st.pc += pre
    from vf.irparse import PtrT
    st.aux['extern_init'] = {'@mjcb_time': lambda e, s_, p: e.store(s_, p, PtrT(IntT(8)), llsym.NULL, check=False)}
    res = ex.run('@mj_EulerSkip', [w.P(M.o), w.P(D.o), I(0)], st)
    ck.note_results(ex, res)
    args = [('ptr', (M.o, 0)), ('ptr', (D.o, 0)), ('i32', 0)]
    dec = lambda mdl: {'h': str(W.evalnum(mdl, h)), 'disableflags': hex(W.evalnum(mdl, dis)), 'damping': [str(W.evalnum(mdl, x)) for x in b], 'dampingpoly': [str(W.evalnum(mdl, x)) for x in bp],
                       'M': [str(W.evalnum(mdl, x)) for x in Mm], 'qvel': [str(W.evalnum(mdl, x)) for x in qvel], 'qacc': [str(W.evalnum(mdl, x)) for x in qacc],
                       'qfrc_smooth': [str(W.evalnum(mdl, x)) for x in fs], 'qfrc_constraint': [str(W.evalnum(mdl, x)) for x in fc]}
    anydamp = z3.Or(*([x > 0 for x in b] + [x != 0 for x in bp]))
    implicit = z3.And((dis & ED) == 0, (dis & DD) == 0, anydamp)
    for r in res:
        if r.kind != 'return': continue
        ld = lambda nm, i: ex.load(r.state, w.P(D.arrays[nm][0], 8 * i), FpT('double'))
        nq_ = [ld('qpos', i) for i in range(nv)]; nvl = [ld('qvel', i) for i in range(nv)]
        outs = [('qpos%d' % i, D.arrays['qpos'][0], 8 * i, 'f64', nq_[i]) for i in range(nv)] + [('qvel%d' % i, D.arrays['qvel'][0], 8 * i, 'f64', nvl[i]) for i in range(nv)] + [D.out(ex, r.state, 'time')]
        rp = W.make_replay(so_euler(), 'mj_EulerSkip', w, args, outputs=outs, semantics='real')
        for i in range(nv):
            av = z3.If(qvel[i] >= 0, qvel[i], -qvel[i]); dd = b[i]; vp = z3.RealVal(1)
            for t in range(npoly): vp = vp * av; dd = dd + (t + 2) * bp[npoly * i + t] * vp
            acc = z3.If(implicit, (fs[i] + fc[i]) / (Mm[i] + h * dd), qacc[i])
            ck.prove('Euler: qvel[%d] <- qvel + h*qacc, with qacc replaced by (M + h dB/dv)^-1 (qfrc_smooth + qfrc_constraint) only when Euler damping is enabled, dampers are enabled and some dof is damped' % i,
                     r.state.pc, nvl[i] == qvel[i] + h * acc, site='mj_EulerSkip:velocity', decode=dec, replay=rp)
            ck.prove('Euler: qpos[%d] <- qpos + h*(new qvel)' % i, r.state.pc, nq_[i] == qpos[i] + h * nvl[i], site='mj_EulerSkip:position', decode=dec, replay=rp)
        ck.prove('Euler: time <- time + h', r.state.pc, D.load(ex, r.state, 'time') == t0 + h, site='mj_EulerSkip:time', decode=dec, replay=rp)
    ck.reach('dampers disabled with damped dofs', pre + [(dis & DD) != 0, (dis & ED) == 0, b[0] > 0])
    ck.reach('implicit damping active', pre + [implicit])
    ck.memory_obligations(res, decode=dec)
    return ck


def unit_tableau(tier):
    ck = Checker('rk4_tableau', tier, timeout_s=30)
    m = mod()
    want = {'@RK4_A': [0.5, 0, 0, 0, 0.5, 0, 0, 0, 1], '@RK4_B': [1 / 6, 1 / 3, 1 / 3, 1 / 6]}
    for g, vals in want.items():
        t, init, const = m.globals[g]
        got = [v.v if isinstance(v, Const) else None for (_, v) in init.v] if init is not None and init.kind == 'agg' else ([0.0] * len(vals) if init is not None and init.kind == 'zero' else None)
        got = [float(x) for x in got] if got else None
        ck.prove('%s equals the classical RK4 tableau %s' % (g[1:], vals), [], z3.BoolVal(got is not None and all(abs(a - b) < 1e-15 for a, b in zip(got, vals)) and len(got) == len(vals)), site='RK4:tableau', sample='%s = %s' % (g, got))
    ck.reach('tableau', [])
    return ck


def units(tier):
    u = [('rk4_tableau', 'unit_tableau', {})]
    for nv in ([1, 2, 3] if tier == 'quick' else [1, 2, 3, 4]): u.append(('advance_nv%d' % nv, 'unit_advance', {'nv': nv})); u.append(('euler_nv%d' % nv, 'unit_euler', {'nv': nv}))
    for dyn in ('mjDYN_NONE', 'mjDYN_INTEGRATOR', 'mjDYN_FILTER', 'mjDYN_FILTEREXACT'):
        for aid, adr in ((0, 0), (1, 0), (0, 2), (1, 1), (1, 2), (0, 1)):
            u.append(('nextActivation_%s_id%d_adr%d' % (dyn, aid, adr), 'unit_activation', {'dyn': dyn, 'aid': aid, 'adr': adr}))
    return u
