"""C27 Actuation follows the documented transmission and force laws (part): mj_fwdActuation on SISO actuators with symbolic parameters, controls and moment arms."""
import fractions
import z3
from vf import ir, build, llsym, world as W
from vf.runner import Checker
from vf.irparse import IntT, FpT, PtrT

ID = 'C27'
LEVEL = 'other'
TUS = ['src/engine/engine_forward.c', 'src/engine/engine_support.c', 'src/engine/engine_util_blas.c', 'src/engine/engine_util_misc.c', 'src/engine/engine_util_sparse.c', 'src/engine/engine_core_util.c']
SUP = ['src/engine/engine_support.c', 'src/engine/engine_util_blas.c', 'src/engine/engine_util_misc.c', 'src/engine/engine_util_sparse.c', 'src/engine/engine_core_util.c', 'src/engine/engine_util_errmem.c',
       'src/engine/engine_callback.c', 'src/engine/engine_memory.c']
EXPLANATION = ('llsym (real-algebraic) runs the real mj_fwdActuation on models with two scalar-input/scalar-output actuators. Actuator 0 ranges over gain type {fixed, affine} x bias type {none, affine} x dynamics '
               '{none, integrator, filter} (one unit per combination); actuator 1 is a fixed-gain motor. Controls, ctrlrange, ctrllimited, activations, gain/bias/dynamics parameters, lengths, velocities, forcerange, '
               'actuator groups, disableactuator, the sparse moment-arm values and the joint-level actuator force ranges are symbolic in every unit; the on/off switches are symbolic by family (ctrl: ctrllimited + clamp flag + bad controls; '
               'force: forcelimited, actearly, actlimited, groups; qfrc: jnt_actfrclimited; off: mjDSBL_ACTUATION) and zero in the other families. z3 must show for every '
               'value: ctrl is clamped to ctrlrange iff ctrllimited and clamping is not disabled (and all controls read as 0 when one is bad); act_dot = ctrl (integrator) / (ctrl - act)/max(mjMINVAL, tau) (filter); '
               'force = gain * input + bias with the documented affine formulas and input = ctrl, act or the next activation (actearly); a disabled group yields zero force; the force is clamped to forcerange iff forcelimited; '
               'qfrc_actuator = moment^T force, clamped per joint iff jnt_actfrclimited; with mjDSBL_ACTUATION everything is zero; nothing else in mjData changes.')
BOUNDS = {'quick': {'actuators': '2 under test behind a disabled SO(3) actuator (3 controls, 3 outputs) and a passive actuator without inputs, so that actuator id, control address and output address all differ (plus one plain 2-actuator layout)', 'dofs': 2, 'moment': 'sparse rows [dof0, dof1] and [dof1]'}, 'thorough': {'same': 'plus both actuators stateful, actuator order swapped'}}
OUTSIDE = ('muscle gain/bias curves (the activation dynamics mju_muscleDynamics IS covered), DC-motor, PID-servo, SO(3) and user/plugin actuators; delayed controls (history buffer); rotational setpoint wrapping (ball joints / refsite transmissions); tendon total-force limits; '
           'actuator-level gravity compensation; sleeping actuators; mj_transmission (lengths and moment arms are inputs here); NaN controls (real-number semantics: bad = magnitude above mjMAXVAL).')
ASSUMPTIONS = ['real-number semantics', 'ctrlrange, forcerange, actrange and jnt_actfrcrange have lo <= hi', 'limited flags are 0/1 bytes', 'mj_warning does not change the data used afterwards (it is stubbed as a no-op and logged)',
               'mj_stackAllocInfo returns a fresh block (its own contract is C19)', 'mjcb_time not installed']
BUDGET = {'quick': 900, 'thorough': 2400}
_c = {}
STUB_C = 'void vfstub_mj_warning(void* d, int w, int info) { vf_log_call("mj_warning"); }\n'


def mod():
    if 'm' not in _c: _c['m'] = ir.load(TUS)
    return _c['m']


def so():
    if 'so' not in _c: _c['so'] = build.native_lib(['src/engine/engine_forward.c'], SUP, name='forward_act', extra_c=STUB_C, redirect=['mj_warning'])
    return _c['so']


def so_asan():
    if 'soa' not in _c: _c['soa'] = build.native_lib(['src/engine/engine_forward.c'], SUP, name='forward_act_asan', extra_c=STUB_C + 'int mj__comparePcFuncName(void* a, void* b) { return 1; }\n', redirect=['mj_warning'], sanitize=True)
    return _c['soa']


def lay():
    if 'l' not in _c: _c['l'] = build.Layout()
    return _c['l']


def prepare(tier): mod(); so(); lay(); mod_misc(); so_misc(); so_asan()


def I(v): return z3.BitVecVal(v, 32)
def clip(x, lo, hi): return z3.If(x < lo, lo, z3.If(x > hi, hi, x))
def RV(x): return z3.RealVal(str(fractions.Fraction(x)))


FAMILY = {   # which switches stay symbolic in a unit; everything numeric (controls, parameters, ranges, moment arms) is symbolic in every family
    'ctrl': ('actuator_ctrllimited', 'clampflag'), 'force': ('actuator_forcelimited', 'actuator_actearly', 'actuator_actlimited', 'actuator_group'), 'qfrc': ('jnt_actfrclimited',), 'off': ('actuationflag',)}


def unit_act(tier, gain, bias, dyn, dyn1='mjDYN_NONE', family='force', shifted=True, ball=False):
    """actuators under test: A (gain/bias/dyn as given) and a fixed-gain motor. With `shifted`, a disabled SO(3) actuator (3 controls, 3 outputs) and a passive actuator with an
    empty input block precede them, so that actuator id, control address and output address of A and the motor are pairwise different."""
    ck = Checker('act', tier, timeout_s=120, semantics='real')
    free = FAMILY[family]
    L = lay(); KG = build.enum_values('mjGAIN_'); KB = build.enum_values('mjBIAS_'); KY = build.enum_values('mjDYN_'); KD = build.enum_values('mjDSBL_'); KT = build.enum_values('mjTRN_'); KJ = build.enum_values('mjJNT_')
    w = W.World('real')
    na_of = lambda dy: 0 if dy == 'mjDYN_NONE' else 1
    front = [('mjGAIN_SO3', 3, 3), ('mjGAIN_FIXED', 0, 1)] if shifted else []
    nf = len(front); ia, im = nf, nf + 1; nact = nf + 2
    cnum = [c for _, c, _ in front] + [1, 1]; onum = [o for _, _, o in front] + [1, 1]
    cadr = [sum(cnum[:i]) for i in range(nact)]; oadr = [sum(onum[:i]) for i in range(nact)]; nu = sum(cnum); nout = sum(onum)
    actnum = [0] * nf + [na_of(dyn), na_of(dyn1)]; actadr = []; a_ = 0
    for n_ in actnum: actadr.append(a_ if n_ else -1); a_ += n_
    na = a_; nv = 4 if ball else 2          # `ball`: a ball joint (3 dofs) precedes the hinge, so joint id 1 has dof address 3
    d1 = 3 if ball else 1
    rownnz = [0] * (nout - 2) + [2, 1]; rowadr = [0] * (nout - 2) + [0, 2]
    sizes = {'nu': nu, 'na': na, 'nactuator': nact, 'nout': nout, 'nv': nv, 'nq': nv + (1 if ball else 0), 'njnt': 2, 'nbody': 3, 'nJmom': 3}
    M, _ = W.full_struct(w, L, 'mjModel_', 'MJMODEL_POINTERS', sizes, 'm', default_size=0,
                         symbolic=('actuator_ctrlrange', 'actuator_ctrllimited', 'actuator_forcerange', 'actuator_forcelimited', 'actuator_gainprm', 'actuator_biasprm', 'actuator_dynprm', 'actuator_actearly',
                                   'actuator_actlimited', 'actuator_actrange', 'actuator_group', 'jnt_actfrclimited', 'jnt_actfrcrange'),
                         values={'actuator_ctrladr': cadr, 'actuator_ctrlnum': cnum, 'actuator_outadr': oadr, 'actuator_outnum': onum, 'actuator_actadr': actadr, 'actuator_actnum': actnum,
                                 'actuator_gaintype': [KG[g] for g, _, _ in front] + [KG[gain], KG['mjGAIN_FIXED']], 'actuator_biastype': [KB['mjBIAS_NONE']] * nf + [KB[bias], KB['mjBIAS_NONE']],
                                 'actuator_dyntype': [KY['mjDYN_NONE']] * nf + [KY[dyn], KY[dyn1]], 'actuator_trntype': [KT['mjTRN_JOINT']] * nact, 'actuator_trnid': [0, -1] * nact,
                                 'actuator_plugin': [-1] * nact, 'actuator_delay': [0.0] * nact, 'jnt_type': [KJ['mjJNT_BALL'] if ball else KJ['mjJNT_SLIDE'], KJ['mjJNT_HINGE']], 'jnt_dofadr': [0, d1], 'jnt_qposadr': [0, 4 if ball else 1], 'jnt_actgravcomp': [0, 0]})
    D, _ = W.full_struct(w, L, 'mjData_', 'MJDATA_POINTERS', sizes, 'd', default_size=0,
                         symbolic=('ctrl', 'act', 'act_dot', 'actuator_length', 'actuator_velocity', 'actuator_force', 'qfrc_actuator', 'actuator_moment'),
                         values={'moment_rownnz': rownnz, 'moment_rowadr': rowadr, 'moment_colind': [0, d1, d1]})
    ar = w.obj('arena', 8192).zeros(); D.o.put(D.off('arena'), 'ptr', (ar, 0)); D.set('narena', 8192)
    dis = M.sym('opt.disableflags', 'disableflags'); M.set('opt.enableflags', 0); grp = M.sym('opt.disableactuator', 'disableactuator'); h = M.sym('opt.timestep', 'h'); D.sym('time', 'time')
    M.set('flg_gravcomp', 0)
    A = {k: M.arrays[k][3] for k in ('actuator_ctrlrange', 'actuator_ctrllimited', 'actuator_forcerange', 'actuator_forcelimited', 'actuator_gainprm', 'actuator_biasprm', 'actuator_dynprm', 'actuator_actearly',
                                     'actuator_actlimited', 'actuator_actrange', 'actuator_group', 'jnt_actfrclimited', 'jnt_actfrcrange')}
    V = {k: D.arrays[k][3] for k in ('ctrl', 'act', 'act_dot', 'actuator_length', 'actuator_velocity', 'actuator_force', 'qfrc_actuator', 'actuator_moment')}
    ng = len(A['actuator_gainprm']) // nact; nbp = len(A['actuator_biasprm']) // nact; ndy = len(A['actuator_dynprm']) // nact
    CL = KD['mjDSBL_CLAMPCTRL']; AC = KD['mjDSBL_ACTUATION']
    b01 = lambda x: z3.Or(x == 0, x == 1)
    pre = [h > 0, (dis & ~(CL | AC)) == 0] + [b01(x) for k in ('actuator_ctrllimited', 'actuator_forcelimited', 'actuator_actearly', 'actuator_actlimited', 'jnt_actfrclimited') for x in A[k]]
    for k in ('actuator_ctrlrange', 'actuator_forcerange', 'actuator_actrange', 'jnt_actfrcrange'):
        pre += [A[k][2 * i] <= A[k][2 * i + 1] for i in range(len(A[k]) // 2)]
    pre += [z3.And(g >= -1, g <= 29) for g in A['actuator_group']]
    # which switch cell belongs to A: ctrl-indexed arrays by control address, the others by actuator id
    own = {'actuator_ctrllimited': (cadr[ia], cadr[im]), 'actuator_forcelimited': (ia,), 'actuator_actearly': (ia,), 'actuator_actlimited': (ia,)}
    for k in ('actuator_ctrllimited', 'actuator_forcelimited', 'actuator_actearly', 'actuator_actlimited', 'jnt_actfrclimited'):
        if k not in free: pre += [x == 0 for x in A[k]]
        elif k.startswith('actuator_'): pre += [x == 0 for j, x in enumerate(A[k]) if j not in own[k]]       # the switches of the other actuators stay off
    if 'actuator_group' not in free: pre += [g == -1 for j, g in enumerate(A['actuator_group']) if j >= nf]
    else: pre.append(A['actuator_group'][im] == -1)
    if shifted:
        # the SO(3) actuator in front is switched off through its group (30), the passive one has no input
        pre += [A['actuator_group'][0] == 30 if j == 0 else A['actuator_group'][j] == -1 for j in range(nf)] if False else []
    if 'clampflag' not in free: pre.append((dis & CL) == 0)
    if ball: pre.append(A['jnt_actfrclimited'][0] == 0)      # actuatorfrcrange applies to scalar joints
    pre.append((dis & AC) != 0 if family == 'off' else (dis & AC) == 0)
    if family != 'ctrl': pre += [z3.And(c <= RV(1e10), c >= -RV(1e10)) for c in V['ctrl']]       # bad controls are the subject of the ctrl family
    if shifted:
        pre = [c for c in pre]      # group of the front actuators: fixed
        pre = [c for c in pre if not any(c.eq(z3.And(A['actuator_group'][j] >= -1, A['actuator_group'][j] <= 29)) for j in range(nf))]
        pre += [A['actuator_group'][0] == 30, (grp & (1 << 30)) != 0, A['actuator_group'][1] == -1]
    def alloc(ex, st, args, ins):
        size = ex.as_int(args[1]); return st.alloc(size, ('stack', len(st.objs)))
    noop = lambda ex, st, args, ins: None
    def warn(ex, st, args, ins): st.log.append(('mj_warning',)); return None
    ex = llsym.Exec(mod(), fpmode='real', stubs={'mj_stackAllocInfo': alloc, 'mj_markStack': noop, 'mj_freeStack': noop, 'mj_warning': warn}, loop_bound=24, max_paths=20000)
    st = w.to_state(ex); st.pc += pre
    st.aux['extern_init'] = {'@mjcb_time': lambda e, s_, p: e.store(s_, p, PtrT(IntT(8)), llsym.NULL, check=False)}
    res = ex.run('@mj_fwdActuation', [w.P(M.o), w.P(D.o)], st)
    ck.note_results(ex, res)
    args = [('ptr', (M.o, 0)), ('ptr', (D.o, 0))]
    def dec(mdl):
        out = {'disableflags': hex(W.evalnum(mdl, dis)), 'disableactuator': hex(W.evalnum(mdl, grp)), 'h': str(W.evalnum(mdl, h)), 'ctrladr': cadr, 'outadr': oadr}
        for k, v in list(A.items()) + list(V.items()): out[k] = [str(W.evalnum(mdl, x)) for x in v]
        return out
    def on(k, j):
        """switch cell k[j] as a z3 condition; switches that this family keeps off are resolved here so that the reference stays small"""
        if k not in free or (k.startswith('actuator_') and j not in own[k]): return z3.BoolVal(False)
        return A[k][j] != 0
    def ite(c, a_, b_): return b_ if z3.is_false(c) else (a_ if z3.is_true(c) else z3.If(c, a_, b_))
    # ---------------- reference laws (documentation: "Actuation model" in computation.rst / XML reference)
    MAXV = RV(1e10); MINV = RV(1e-15)
    cl = [ite(z3.simplify(z3.And((dis & CL) == 0, on('actuator_ctrllimited', u))), clip(V['ctrl'][u], A['actuator_ctrlrange'][2 * u], A['actuator_ctrlrange'][2 * u + 1]), V['ctrl'][u]) for u in range(nu)]
    anybad = z3.Or(*[z3.Or(c > MAXV, c < -MAXV) for c in cl]) if family == 'ctrl' else z3.BoolVal(False)
    cc = [ite(anybad, z3.RealVal(0), c) for c in cl]
    dyns = {ia: dyn, im: dyn1}; gts = {ia: gain, im: 'mjGAIN_FIXED'}; bts = {ia: bias, im: 'mjBIAS_NONE'}
    adot = {}
    for i in (ia, im):
        if not actnum[i]: continue
        a = actadr[i]
        if dyns[i] == 'mjDYN_INTEGRATOR': adot[a] = cc[cadr[i]]
        else:
            tau = A['actuator_dynprm'][ndy * i]; tau = z3.If(tau > MINV, tau, MINV)
            adot[a] = (cc[cadr[i]] - V['act'][a]) / tau
    def nextact(i, a):
        x = V['act'][a] + adot[a] * h
        return ite(on('actuator_actlimited', i), clip(x, A['actuator_actrange'][2 * i], A['actuator_actrange'][2 * i + 1]), x)
    frc = [z3.RealVal(0)] * nout
    for i in (ia, im):
        o = oadr[i]; u = cadr[i]
        ln = V['actuator_length'][o]; vl = V['actuator_velocity'][o]
        gp = A['actuator_gainprm'][ng * i:ng * i + 3]; bp = A['actuator_biasprm'][nbp * i:nbp * i + 3]
        g = gp[0] if gts[i] == 'mjGAIN_FIXED' else gp[0] + gp[1] * ln + gp[2] * vl
        b = z3.RealVal(0) if bts[i] == 'mjBIAS_NONE' else bp[0] + bp[1] * ln + bp[2] * vl
        if actnum[i]: inp = ite(on('actuator_actearly', i), nextact(i, actadr[i]), V['act'][actadr[i]])
        else: inp = cc[u]
        gi = A['actuator_group'][i]
        disabled = z3.And(gi >= 0, gi <= 30, (grp & (z3.BitVecVal(1, 32) << gi)) != 0) if ('actuator_group' in free and i == ia) else z3.BoolVal(False)
        f = ite(disabled, z3.RealVal(0), g * inp + b)
        f = ite(on('actuator_forcelimited', i), clip(f, A['actuator_forcerange'][2 * i], A['actuator_forcerange'][2 * i + 1]), f)
        frc[o] = f
    mom = V['actuator_moment']
    q = [z3.RealVal(0)] * nv
    q[0] = mom[0] * frc[oadr[ia]]; q[d1] = mom[1] * frc[oadr[ia]] + mom[2] * frc[oadr[im]]
    for j, dj in ((0, 0), (1, d1)):      # joint j owns the range entry j and (for these scalar joints / the first dof of the ball) dof address dj
        q[dj] = ite(on('jnt_actfrclimited', j), clip(q[dj], A['jnt_actfrcrange'][2 * j], A['jnt_actfrcrange'][2 * j + 1]), q[dj])
    off = z3.BoolVal(family == 'off')
    nret = 0
    for r in res:
        if r.kind != 'return': continue
        nret += 1
        ld = lambda nm, i: ex.load(r.state, w.P(D.arrays[nm][0], 8 * i), FpT('double'))
        F = [ld('actuator_force', i) for i in range(nout)]; Q = [ld('qfrc_actuator', i) for i in range(nv)]; AD = [ld('act_dot', a) for a in range(na)]
        outs = [('force%d' % i, D.arrays['actuator_force'][0], 8 * i, 'f64', F[i]) for i in range(nout)] + [('qfrc%d' % i, D.arrays['qfrc_actuator'][0], 8 * i, 'f64', Q[i]) for i in range(nv)] + \
               [('act_dot%d' % a, D.arrays['act_dot'][0], 8 * a, 'f64', AD[a]) for a in range(na)]
        rp = W.make_replay(so(), 'mj_fwdActuation', w, args, outputs=outs, semantics='real')
        pc = r.state.pc
        ck.prove('actuator_force (every output slot) = clamp_forcerange(gain*input + bias) of the actuator owning the slot, 0 for a disabled group or with actuation disabled', pc, z3.And(*[F[o] == ite(off, z3.RealVal(0), frc[o]) for o in range(nout)]),
                 site='mj_fwdActuation:force', decode=dec, replay=rp)
        ck.prove('qfrc_actuator = clamp_jnt(moment^T force)', pc, z3.And(*[Q[i] == ite(off, z3.RealVal(0), q[i]) for i in range(nv)]), site='mj_fwdActuation:qfrc', decode=dec, replay=rp)
        rest = [z3.Implies(z3.And(A['actuator_forcelimited'][i] != 0, z3.Not(off)), z3.And(F[oadr[i]] >= A['actuator_forcerange'][2 * i], F[oadr[i]] <= A['actuator_forcerange'][2 * i + 1])) for i in (ia, im)]
        rest += [AD[a] == ite(off, V['act_dot'][a], adot[a]) for a in range(na)]
        rest += [z3.BoolVal(('mj_warning',) in r.state.log) == z3.And(z3.Not(off), anybad)]
        rest += [ex.load(r.state, w.P(D.arrays[k][0], 8 * j), FpT('double')) == v for k in ('ctrl', 'act', 'actuator_length', 'actuator_velocity', 'actuator_moment') for j, v in enumerate(V[k])]
        ck.prove('forcelimited forces lie within forcerange; act_dot follows the dynamics type; a warning is raised exactly for bad controls; ctrl, act, length, velocity and moment are not modified', pc, z3.And(*rest),
                 site='mj_fwdActuation:state', decode=dec, replay=rp)
    ck.selfcheck('returning paths', nret > 0, nret)
    if family == 'ctrl': ck.reach('clamped control', pre + [(dis & CL) == 0, A['actuator_ctrllimited'][cadr[ia]] == 1, V['ctrl'][cadr[ia]] > A['actuator_ctrlrange'][2 * cadr[ia] + 1]]); ck.reach('bad control', pre + [V['ctrl'][cadr[im]] > RV(1e10)])
    if family == 'force': ck.reach('disabled group', pre + [A['actuator_group'][ia] == 3, (grp & 8) != 0]); ck.reach('force limited', pre + [A['actuator_forcelimited'][ia] == 1])
    if family == 'qfrc': ck.reach('joint force limited', pre + [A['jnt_actfrclimited'][1] == 1])
    ck.reach('family preconditions', pre)
    ck.memory_obligations(res, decode=dec, replay=W.make_asan_replay(so_asan, [('mj_fwdActuation', args, 'void')], w))
    return ck


def so_misc():
    if 'som' not in _c: _c['som'] = build.native_lib(['src/engine/engine_util_misc.c'], ['src/engine/engine_util_blas.c', 'src/engine/engine_util_errmem.c'], name='misc_muscle')
    return _c['som']


def unit_muscle_dyn(tier, smooth):
    """mju_muscleDynamics against the documented first-order filter (doc/modeling.rst): d act/dt = (clip(ctrl,0,1) - act) / tau(ctrl, act)"""
    ck = Checker('muscleDynamics_%s' % ('smooth' if smooth else 'hard'), tier, timeout_s=120, semantics='real')
    w = W.World('real')
    po, prm = w.arr('prm', 'f64', 3)
    ctrl = z3.Real('ctrl'); act = z3.Real('act'); w.syms += [('ctrl', 'f64', ctrl), ('act', 'f64', act)]
    ta, td, sm = prm
    pre = [ta > 0, td > 0, sm > RV(1e-15) if smooth else sm == 0]
    ex = llsym.Exec(mod_misc(), fpmode='real', loop_bound=8); st = w.to_state(ex); st.pc += pre
    res = ex.run('@mju_muscleDynamics', [ctrl, act, w.P(po)], st); ck.note_results(ex, res)
    args = [('f64', ctrl), ('f64', act), ('ptr', (po, 0))]
    dec = lambda mdl: {'ctrl': str(W.evalnum(mdl, ctrl)), 'act': str(W.evalnum(mdl, act)), 'prm': [str(W.evalnum(mdl, x)) for x in prm]}
    u = clip(ctrl, z3.RealVal(0), z3.RealVal(1)); exc = u - act
    MINV = RV(1e-15)
    for r in res:
        if r.kind != 'return': continue
        rp = W.make_replay(so_misc(), 'mju_muscleDynamics', w, args, restype='f64', ret_term=r.value, semantics='real')
        pc = r.state.pc
        t_act = ta * (0.5 + 1.5 * act); t_de = td / (0.5 + 1.5 * act)
        if not smooth:
            tau = z3.If(exc > 0, t_act, t_de); tau = z3.If(tau > MINV, tau, MINV)
            ck.prove('muscle dynamics (hard switching), act in [0,1]: act_dot = (clip(ctrl) - act) / tau with tau = tau_act (0.5 + 1.5 act) when exciting, tau_deact / (0.5 + 1.5 act) otherwise', pc + [act >= 0, act <= 1],
                     r.value == exc / tau, site='mju_muscleDynamics:law', decode=dec, replay=rp)
        else:
            lo = z3.If(t_act < t_de, t_act, t_de); hi = z3.If(t_act < t_de, t_de, t_act)
            lo = z3.If(lo > MINV, lo, MINV); hi = z3.If(hi > MINV, hi, MINV)
            ck.prove('muscle dynamics (smooth switching), act in [0,1]: act_dot = (clip(ctrl) - act) / tau with tau between the activation and deactivation time constants', pc + [act >= 0, act <= 1, exc != 0],
                     z3.If(exc > 0, z3.And(r.value <= exc / lo, r.value >= exc / hi), z3.And(r.value >= exc / lo, r.value <= exc / hi)), site='mju_muscleDynamics:law-smooth', decode=dec, replay=rp)
        ck.prove('muscle dynamics: for ANY activation (also outside [0,1]) the activation moves towards the clamped control: sign(act_dot) = sign(clip(ctrl) - act)', pc,
                 z3.And(z3.Implies(exc > 0, r.value > 0), z3.Implies(exc < 0, r.value < 0), z3.Implies(exc == 0, r.value == 0)), site='mju_muscleDynamics:sign', decode=dec, replay=rp)
    ck.reach('activation above 1', pre + [act > 1]); ck.memory_obligations(res, decode=dec)
    return ck


def mod_misc():
    if 'mm' not in _c: _c['mm'] = ir.load(['src/engine/engine_util_misc.c', 'src/engine/engine_util_blas.c'])
    return _c['mm']


def units(tier):
    u = []
    def add(g, b, dy, d1, fam, shifted=True, ball=False):
        u.append(('act_%s_%s_%s_%s_%s%s%s' % (g[7:], b[7:], dy[6:], d1[6:], fam, '' if shifted else '_plain', '_ball' if ball else ''), 'unit_act', {'gain': g, 'bias': b, 'dyn': dy, 'dyn1': d1, 'family': fam, 'shifted': shifted, 'ball': ball}))
    for g in ('mjGAIN_FIXED', 'mjGAIN_AFFINE'):
        for b in ('mjBIAS_NONE', 'mjBIAS_AFFINE'):
            for dy in ('mjDYN_NONE', 'mjDYN_INTEGRATOR', 'mjDYN_FILTER'):
                add(g, b, dy, 'mjDYN_NONE', 'force')
    for dy in ('mjDYN_NONE', 'mjDYN_INTEGRATOR', 'mjDYN_FILTER'):
        add('mjGAIN_FIXED', 'mjBIAS_NONE', dy, 'mjDYN_NONE', 'ctrl'); add('mjGAIN_AFFINE', 'mjBIAS_AFFINE', dy, 'mjDYN_NONE', 'qfrc')
    add('mjGAIN_AFFINE', 'mjBIAS_AFFINE', 'mjDYN_FILTER', 'mjDYN_NONE', 'off')
    add('mjGAIN_FIXED', 'mjBIAS_NONE', 'mjDYN_NONE', 'mjDYN_NONE', 'qfrc', ball=True); add('mjGAIN_AFFINE', 'mjBIAS_AFFINE', 'mjDYN_INTEGRATOR', 'mjDYN_NONE', 'qfrc', ball=True)
    add('mjGAIN_AFFINE', 'mjBIAS_AFFINE', 'mjDYN_FILTER', 'mjDYN_NONE', 'force', shifted=False)
    u += [('muscleDynamics_hard', 'unit_muscle_dyn', {'smooth': False}), ('muscleDynamics_smooth', 'unit_muscle_dyn', {'smooth': True})]
    if tier != 'quick':
        for dy in ('mjDYN_NONE', 'mjDYN_INTEGRATOR', 'mjDYN_FILTER'):
            for d1 in ('mjDYN_INTEGRATOR', 'mjDYN_FILTER'):
                for fam in ('force', 'ctrl'): add('mjGAIN_AFFINE', 'mjBIAS_AFFINE', dy, d1, fam)
    return u
