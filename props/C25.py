"""C25 (passive-damping part): the analytic velocity derivative mjd_passive_vel equals the symbolic derivative of the damper forces mj_springdamper produces."""
import re
import z3
from vf import ir, build, llsym, world as W
from vf.runner import Checker
from vf.irparse import IntT, FpT, PtrT
from props import C06
from props.cu_common import diff

ID = 'C25'
LEVEL = 'other'
TUS = ['src/engine/engine_derivative.c', 'src/engine/engine_passive.c', 'src/engine/engine_support.c', 'src/engine/engine_core_util.c', 'src/engine/engine_util_blas.c', 'src/engine/engine_util_misc.c',
       'src/engine/engine_util_sparse.c', 'src/engine/engine_util_spatial.c']
SUP = ['src/engine/engine_support.c', 'src/engine/engine_core_util.c', 'src/engine/engine_util_blas.c', 'src/engine/engine_util_misc.c', 'src/engine/engine_util_sparse.c', 'src/engine/engine_util_spatial.c',
       'src/engine/engine_util_errmem.c', 'src/engine/engine_memory.c', 'src/engine/engine_core_smooth.c']
EXPLANATION = ('Instead of finite differences, the damper force is differentiated SYMBOLICALLY: llsym (real-algebraic) runs the real static mj_springdamper with joint velocities, tendon velocities, damping coefficients, damping '
               'polynomials and tendon moment arms symbolic, the resulting qfrc_damper terms are differentiated with respect to every joint velocity (tendon terms through d ten_velocity / d qvel = J), and z3 must show that this '
               'equals, entry by entry, what the real mjd_passive_vel adds to qDeriv (dense D sparsity over the dofs) - for every value away from the kink of |v| at zero - and that it adds nothing when dampers are disabled.')
BOUNDS = {'quick': {'model': '2 scalar joints with linear + polynomial damping, one tendon over both dofs'}, 'thorough': {'model': '3 joints, tendon over dofs 0 and 2'}}
OUTSIDE = ('finite-difference functions mjd_transitionFD / mjd_inverseFD (whole-pipeline stepping); actuator, fluid and Newton-Euler bias derivatives (mjd_actuator_vel, mjd_ellipsoidFluid, mjd_inertiaBoxFluid, mjd_rne_vel); '
           'flex edge damping; velocities exactly zero (|v| is not differentiable there).')
ASSUMPTIONS = ['real-number semantics', 'ten_velocity = ten_J * qvel (used for the chain rule)', 'viscosity = density = 0, no flex, sleep disabled, no actuator-inherited damping']
BUDGET = {'quick': 400, 'thorough': 1200}
_c = {}


def mod():
    if 'm' not in _c: _c['m'] = ir.load(TUS)
    return _c['m']


def so():
    if 'so' not in _c: _c['so'] = build.native_lib(['src/engine/engine_derivative.c'], SUP + ['src/engine/engine_passive.c'], name='deriv_passive')
    return _c['so']


def so_passive():
    if 'so2' not in _c: _c['so2'] = build.native_lib(['src/engine/engine_passive.c'], SUP, name='passive_c25')
    return _c['so2']


def prepare(tier): mod(); so(); so_passive(); C06.lay()


def unit_damping(tier, nv, cols, flags):
    ck = Checker('damping_nv%d_f%d' % (nv, flags), tier, timeout_s=200, semantics='real')
    L = C06.lay(); K = build.enum_values('mjJNT_'); KD = build.enum_values('mjDSBL_')
    npoly = int(re.search(r'#define mjNPOLY\s+(\d+)', open(build.REPO + '/include/mujoco/mjmodel.h').read() + open(build.REPO + '/include/mujoco/mjtype.h').read()).group(1))
    w = W.World('real'); nb = nv + 1; nt = 1; nJ = len(cols); nD = nv * nv
    sizes = {'nq': nv, 'nv': nv, 'njnt': nv, 'nbody': nb, 'ntree': nv, 'ntendon': nt, 'nJten': nJ, 'nD': nD}
    M, _ = W.full_struct(w, L, 'mjModel_', 'MJMODEL_POINTERS', sizes, 'm', default_size=0,
                         symbolic=('dof_damping', 'dof_dampingpoly', 'tendon_damping', 'tendon_dampingpoly'),
                         values={'jnt_type': [K['mjJNT_SLIDE'] if j % 2 == 0 else K['mjJNT_HINGE'] for j in range(nv)], 'jnt_qposadr': list(range(nv)), 'jnt_dofadr': list(range(nv)), 'body_jntadr': [-1] + list(range(nv)),
                                 'body_jntnum': [0] + [1] * nv, 'jnt_actuatorid': [-1] * nv, 'dof_jntid': list(range(nv)), 'ten_J_rowadr': [0], 'ten_J_rownnz': [nJ], 'ten_J_colind': list(cols), 'tendon_actuatorid': [-1],
                                 'D_rownnz': [nv] * nv, 'D_rowadr': [nv * i for i in range(nv)], 'D_colind': [j for i in range(nv) for j in range(nv)], 'D_diag': list(range(nv))})
    D, _ = W.full_struct(w, L, 'mjData_', 'MJDATA_POINTERS', sizes, 'd', default_size=0, symbolic=('qvel', 'ten_velocity', 'ten_J', 'qDeriv'))
    dis = KD['mjDSBL_DAMPER'] if flags & 1 else 0
    M.set('opt.disableflags', dis); M.set('opt.enableflags', 0)
    M.o.put(M.off('opt.viscosity'), 'f64', 0.0); M.o.put(M.off('opt.density'), 'f64', 0.0)
    qv = D.arrays['qvel'][3]; tv = D.arrays['ten_velocity'][3]; J = D.arrays['ten_J'][3]; q0 = D.arrays['qDeriv'][3]
    ex = llsym.Exec(mod(), fpmode='real', loop_bound=max(nv * nv, npoly) + 8)
    st = w.to_state(ex)
    res_f = ex.run('@mj_springdamper', [w.P(M.o), w.P(D.o)], st.clone()); ck.note_results(ex, res_f)
    res_d = ex.run('@mjd_passive_vel', [w.P(M.o), w.P(D.o)], st.clone()); ck.note_results(ex, res_d)
    dec = lambda mdl: {'qvel': [str(W.evalnum(mdl, x)) for x in qv], 'ten_velocity': [str(W.evalnum(mdl, x)) for x in tv], 'J': [str(W.evalnum(mdl, x)) for x in J], 'damper disabled': bool(flags & 1)}
    smooth = [v != 0 for v in qv] + [v != 0 for v in tv]
    # mj_springdamper skips a tendon whose force is exactly zero (`if (frc_spring || frc_damper)`): on that measure-zero surface the path-wise force term is not the function in a neighbourhood, so it cannot be differentiated path by path
    tb = M.arrays['tendon_damping'][3]; tp = M.arrays['tendon_dampingpoly'][3]
    av = z3.If(tv[0] >= 0, tv[0], -tv[0]); pf = tb[0]; vp = z3.RealVal(1)
    for t_ in range(npoly): vp = vp * av; pf = pf + tp[t_] * vp
    smooth.append(pf != 0)
    for rd in res_d:
        if rd.kind != 'return': continue
        QD = [ex.load(rd.state, w.P(D.arrays['qDeriv'][0], 8 * k), FpT('double')) for k in range(nD)]
        rp_d = W.make_replay(so(), 'mjd_passive_vel', w, [('ptr', (M.o, 0)), ('ptr', (D.o, 0))], outputs=[('qDeriv%d' % k, D.arrays['qDeriv'][0], 8 * k, 'f64', QD[k]) for k in range(nD)], semantics='real')
        for rf in res_f:
            if rf.kind != 'return': continue
            pc = rd.state.pc + [c for c in rf.state.pc if not any(c.eq(c2) for c2 in rd.state.pc)]
            fd = [ex.load(rf.state, w.P(D.arrays['qfrc_damper'][0], 8 * i), FpT('double')) for i in range(nv)]
            rp_f = W.make_replay(so_passive(), 'mj_springdamper', w, [('ptr', (M.o, 0)), ('ptr', (D.o, 0))], outputs=[('qfrc_damper%d' % i, D.arrays['qfrc_damper'][0], 8 * i, 'f64', fd[i]) for i in range(nv)], semantics='real')
            def rp(model, witness, rp_d=rp_d, rp_f=rp_f):
                a, da = rp_d(model, witness); b_, db = rp_f(model, witness)
                return (a and b_), {'mjd_passive_vel': da, 'mj_springdamper': db}
            for k in range(nv):
                for l in range(nv):
                    # total derivative of qfrc_damper[k] with respect to qvel[l]
                    tot = diff(fd[k], qv[l], {})
                    dt_ = diff(fd[k], tv[0], {})
                    for j, c in enumerate(cols):
                        if c == l: tot = tot + dt_ * J[j]
                    ck.prove('qDeriv(%d,%d) += d qfrc_damper[%d] / d qvel[%d] (dof damping on the diagonal, tendon damping through J^T B J)' % (k, l, k, l), pc + smooth, QD[k * nv + l] - q0[k * nv + l] == tot,
                             site='mjd_passive_vel:damper-derivative', decode=dec, replay=rp)
    ck.reach('non-zero velocities', smooth)
    ck.memory_obligations(res_d, decode=dec)
    return ck


def units(tier):
    u = [('damping_nv2_f0', 'unit_damping', {'nv': 2, 'cols': [0, 1], 'flags': 0}), ('damping_nv2_f1', 'unit_damping', {'nv': 2, 'cols': [0, 1], 'flags': 1})]
    if tier != 'quick': u.append(('damping_nv3_f0', 'unit_damping', {'nv': 3, 'cols': [0, 2], 'flags': 0}))
    return u
