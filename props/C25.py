"""C25 (passive-damping and viscous-torque part): the analytic velocity derivative mjd_passive_vel equals the symbolic derivative of the damper forces mj_springdamper produces."""
import re
import z3
from vf import ir, build, llsym, world as W
from vf.runner import Checker
from vf.irparse import IntT, FpT, PtrT
from props import C06
from props.cu_common import diff

ID = 'C25'
LEVEL = 'other'
TUS = ['src/engine/engine_derivative.c', 'src/engine/engine_passive.c', 'src/engine/engine_support.c', 'src/engine/engine_core_util.c', 'src/engine/engine_util_blas.c', 'src/engine/engine_util_misc.c',
       'src/engine/engine_util_sparse.c', 'src/engine/engine_util_spatial.c']
SUP = ['src/engine/engine_support.c', 'src/engine/engine_core_util.c', 'src/engine/engine_util_blas.c', 'src/engine/engine_util_misc.c', 'src/engine/engine_util_sparse.c', 'src/engine/engine_util_spatial.c',
       'src/engine/engine_util_errmem.c', 'src/engine/engine_memory.c', 'src/engine/engine_core_smooth.c']
EXPLANATION = ('Instead of finite differences, the damper force is differentiated SYMBOLICALLY: llsym (real-algebraic) runs the real static mj_springdamper with joint velocities, tendon velocities, damping coefficients, damping '
               'polynomials and tendon moment arms symbolic, the resulting qfrc_damper terms are differentiated with respect to every joint velocity (tendon terms through d ten_velocity / d qvel = J), and z3 must show that this '
               'equals, entry by entry, what the real mjd_passive_vel adds to qDeriv (dense D sparsity over the dofs) - for every value away from the kink of |v| at zero - and that it adds nothing when dampers are disabled. '
               'Fluid part: the torque the real mj_viscousForces produces is differentiated symbolically with respect to the angular velocity (through the sqrt of the moment norm) and must equal the 3x3 block of the real static mjd_viscous_torque.')
BOUNDS = {'quick': {'model': '2 scalar joints with linear + polynomial damping, one tendon over both dofs', 'viscous torque': 'nine concrete semi-axis triples (all six orderings of 0.05/0.12/0.31, two ties, a sphere); angular velocity, density, viscosity, slender and angular drag coefficients symbolic'}, 'thorough': {'model': '3 joints, tendon over dofs 0 and 2'}}
OUTSIDE = ('finite-difference functions mjd_transitionFD / mjd_inverseFD (whole-pipeline stepping); actuator and Newton-Euler bias derivatives (mjd_actuator_vel, mjd_rne_vel); of the fluid derivatives only the viscous-torque block of mjd_ellipsoidFluid is decided '
           '(viscous drag, Magnus / Kutta lift, added mass, the J^T B J assembly and mjd_inertiaBoxFluid are not), with concrete semi-axes, zero linear velocity and the moment norm above mjMINVAL; '
           'flex edge damping; velocities exactly zero (|v| is not differentiable there).')
ASSUMPTIONS = ['real-number semantics', 'ten_velocity = ten_J * qvel (used for the chain rule)', 'damping units: viscosity = density = 0, no flex, sleep disabled, no actuator-inherited damping', 'viscous-torque units: density, viscosity, drag coefficients >= 0; linear velocity 0 (the torque rows of both functions do not read it); lift coefficients 0']
BUDGET = {'quick': 400, 'thorough': 1200}
_c = {}


def mod():
    if 'm' not in _c: _c['m'] = ir.load(TUS)
    return _c['m']


def so():
    if 'so' not in _c: _c['so'] = build.native_lib(['src/engine/engine_derivative.c'], SUP + ['src/engine/engine_passive.c'], name='deriv_passive')
    return _c['so']


def so_passive():
    if 'so2' not in _c: _c['so2'] = build.native_lib(['src/engine/engine_passive.c'], SUP, name='passive_c25')
    return _c['so2']


def prepare(tier): mod(); so(); so_passive(); C06.lay()


def unit_damping(tier, nv, cols, flags):
    ck = Checker('damping_nv%d_f%d' % (nv, flags), tier, timeout_s=200, semantics='real')
    L = C06.lay(); K = build.enum_values('mjJNT_'); KD = build.enum_values('mjDSBL_')
    npoly = int(re.search(r'#define mjNPOLY\s+(\d+)', open(build.REPO + '/include/mujoco/mjmodel.h').read() + open(build.REPO + '/include/mujoco/mjtype.h').read()).group(1))
    w = W.World('real'); nb = nv + 1; nt = 1; nJ = len(cols); nD = nv * nv
    sizes = {'nq': nv, 'nv': nv, 'njnt': nv, 'nbody': nb, 'ntree': nv, 'ntendon': nt, 'nJten': nJ, 'nD': nD}
    M, _ = W.full_struct(w, L, 'mjModel_', 'MJMODEL_POINTERS', sizes, 'm', default_size=0,
                         symbolic=('dof_damping', 'dof_dampingpoly', 'tendon_damping', 'tendon_dampingpoly'),
                         values={'jnt_type': [K['mjJNT_SLIDE'] if j % 2 == 0 else K['mjJNT_HINGE'] for j in range(nv)], 'jnt_qposadr': list(range(nv)), 'jnt_dofadr': list(range(nv)), 'body_jntadr': [-1] + list(range(nv)),
                                 'body_jntnum': [0] + [1] * nv, 'jnt_actuatorid': [-1] * nv, 'dof_jntid': list(range(nv)), 'ten_J_rowadr': [0], 'ten_J_rownnz': [nJ], 'ten_J_colind': list(cols), 'tendon_actuatorid': [-1],
                                 'D_rownnz': [nv] * nv, 'D_rowadr': [nv * i for i in range(nv)], 'D_colind': [j for i in range(nv) for j in range(nv)], 'D_diag': list(range(nv))})
    D, _ = W.full_struct(w, L, 'mjData_', 'MJDATA_POINTERS', sizes, 'd', default_size=0, symbolic=('qvel', 'ten_velocity', 'ten_J', 'qDeriv'))
    dis = KD['mjDSBL_DAMPER'] if flags & 1 else 0
    M.set('opt.disableflags', dis); M.set('opt.enableflags', 0)
    M.o.put(M.off('opt.viscosity'), 'f64', 0.0); M.o.put(M.off('opt.density'), 'f64', 0.0)
    qv = D.arrays['qvel'][3]; tv = D.arrays['ten_velocity'][3]; J = D.arrays['ten_J'][3]; q0 = D.arrays['qDeriv'][3]
    ex = llsym.Exec(mod(), fpmode='real', loop_bound=max(nv * nv, npoly) + 8)
    st = w.to_state(ex)
    res_f = ex.run('@mj_springdamper', [w.P(M.o), w.P(D.o)], st.clone()); ck.note_results(ex, res_f)
    res_d = ex.run('@mjd_passive_vel', [w.P(M.o), w.P(D.o)], st.clone()); ck.note_results(ex, res_d)
    dec = lambda mdl: {'qvel': [str(W.evalnum(mdl, x)) for x in qv], 'ten_velocity': [str(W.evalnum(mdl, x)) for x in tv], 'J': [str(W.evalnum(mdl, x)) for x in J], 'damper disabled': bool(flags & 1)}
    smooth = [v != 0 for v in qv] + [v != 0 for v in tv]
    # mj_springdamper skips a tendon whose force is exactly zero (`if (frc_spring || frc_damper)`): on that measure-zero surface the path-wise force term is not the function in a neighbourhood, so it cannot be differentiated path by path
    tb = M.arrays['tendon_damping'][3]; tp = M.arrays['tendon_dampingpoly'][3]
    av = z3.If(tv[0] >= 0, tv[0], -tv[0]); pf = tb[0]; vp = z3.RealVal(1)
    for t_ in range(npoly): vp = vp * av; pf = pf + tp[t_] * vp
    smooth.append(pf != 0)
    for rd in res_d:
        if rd.kind != 'return': continue
        QD = [ex.load(rd.state, w.P(D.arrays['qDeriv'][0], 8 * k), FpT('double')) for k in range(nD)]
        rp_d = W.make_replay(so(), 'mjd_passive_vel', w, [('ptr', (M.o, 0)), ('ptr', (D.o, 0))], outputs=[('qDeriv%d' % k, D.arrays['qDeriv'][0], 8 * k, 'f64', QD[k]) for k in range(nD)], semantics='real')
        for rf in res_f:
            if rf.kind != 'return': continue
            pc = rd.state.pc + [c for c in rf.state.pc if not any(c.eq(c2) for c2 in rd.state.pc)]
            fd = [ex.load(rf.state, w.P(D.arrays['qfrc_damper'][0], 8 * i), FpT('double')) for i in range(nv)]
            rp_f = W.make_replay(so_passive(), 'mj_springdamper', w, [('ptr', (M.o, 0)), ('ptr', (D.o, 0))], outputs=[('qfrc_damper%d' % i, D.arrays['qfrc_damper'][0], 8 * i, 'f64', fd[i]) for i in range(nv)], semantics='real')
            def rp(model, witness, rp_d=rp_d, rp_f=rp_f):
                a, da = rp_d(model, witness); b_, db = rp_f(model, witness)
                return (a and b_), {'mjd_passive_vel': da, 'mj_springdamper': db}
            for k in range(nv):
                for l in range(nv):
                    # total derivative of qfrc_damper[k] with respect to qvel[l]
                    tot = diff(fd[k], qv[l], {})
                    dt_ = diff(fd[k], tv[0], {})
                    for j, c in enumerate(cols):
                        if c == l: tot = tot + dt_ * J[j]
                    ck.prove('qDeriv(%d,%d) += d qfrc_damper[%d] / d qvel[%d] (dof damping on the diagonal, tendon damping through J^T B J)' % (k, l, k, l), pc + smooth, QD[k * nv + l] - q0[k * nv + l] == tot,
                             site='mjd_passive_vel:damper-derivative', decode=dec, replay=rp)
    ck.reach('non-zero velocities', smooth)
    ck.memory_obligations(res_d, decode=dec)
    return ck


SIZE_CONFIGS = {'xyz': (0.05, 0.12, 0.31), 'xzy': (0.05, 0.31, 0.12), 'yxz': (0.12, 0.05, 0.31), 'yzx': (0.31, 0.05, 0.12), 'zxy': (0.12, 0.31, 0.05), 'zyx': (0.31, 0.12, 0.05),
                'tie_lo': (0.1, 0.1, 0.3), 'tie_hi': (0.3, 0.1, 0.3), 'sphere': (0.2, 0.2, 0.2)}


def unit_viscous_torque(tier, cfg):
    """d(torque of mj_viscousForces)/d(angular velocity), differentiated symbolically, = the 3x3 block the static mjd_viscous_torque returns"""
    from vf.leaf import Leaf
    import fractions
    ck = Checker('viscous_torque_' + cfg, tier, timeout_s=120, semantics='real')
    sz = [z3.RealVal(str(fractions.Fraction(x))) for x in SIZE_CONFIGS[cfg]]
    def pre_common(v):
        return [v['size'][i] == sz[i] for i in range(3)] + [v['lvel'][3 + i] == 0 for i in range(3)] + [v['rho'] >= 0, v['visc'] >= 0, v['slender'] >= 0, v['angc'] >= 0]
    F = Leaf(ck, mod(), so_passive(), 'mj_viscousForces', [('arr', 'lvel', 6), ('f64', 'rho'), ('f64', 'visc'), ('arr', 'size', 3), ('f64', 'magnus', 0.0), ('f64', 'kutta', 0.0), ('f64', 'blunt', 0.0),
                                                          ('f64', 'slender'), ('f64', 'angc'), ('arr', 'force', 6, 'out')], pre=pre_common)
    G = Leaf(ck, mod(), so(), 'mjd_viscous_torque', [('arr', 'D', 9, 'out'), ('arr', 'lvel', 6), ('f64', 'rho'), ('f64', 'visc'), ('arr', 'size', 3), ('f64', 'slender'), ('f64', 'angc')], pre=pre_common)
    wv = F.v['lvel']; minval = z3.RealVal(str(fractions.Fraction(1e-15)))            # mjMINVAL as the binary64 constant the code compares with (slightly above 10^-15)
    reach = None
    for pcf, outf, _, rpf in F.paths():
        sqf = {str(e[1]): (e[1], e[2]) for e in F.state.log if e[0] == 'sqrt'}
        for pcg, outg, _, rpg in G.paths():
            # each executor numbers its sqrt auxiliaries from 1: rename those of the derivative run so that the two runs do not share a name
            ren = [(e[1], z3.Real('d_' + str(e[1]))) for e in G.state.log if e[0] == 'sqrt']
            rn = lambda t: z3.substitute(t, *ren) if ren else t
            sqg = [(rn(e[1]), rn(e[2])) for e in G.state.log if e[0] == 'sqrt']
            pcg = [rn(c) for c in pcg]; outg = {k: [rn(x) for x in v_] for k, v_ in outg.items()}
            pc = list(pcg) + [c for c in pcf if not any(c.eq(c2) for c2 in pcg)]
            # the two runs take the norm of the same vector: equal arguments (proved) give equal roots (t >= 0, t*t = arg is unique)
            tf = [t for t, a in sqf.values() if 'lvel0' in str(a)]            # the norm of the viscous moment is the only root that reads the angular velocity
            if len(tf) != 1 or len(sqg) != 1: ck.error('unexpected sqrt terms: forward %d, derivative %d' % (len(tf), len(sqg))); return ck
            af = sqf[str(tf[0])][1]; tg, ag = sqg[0]
            def rp(model, witness, rpf=rpf, rpg=rpg):
                a, da = rpg(model, witness); b_, db = rpf(model, witness)
                return (a and b_), {'mjd_viscous_torque': da, 'mj_viscousForces': db}
            same = ck.prove('both functions take the norm of the same viscous-moment vector (size ordering %s)' % cfg, pc, af == ag, site='mjd_viscous_torque:moment-vector', decode=F.decode(), replay=rp)
            # the lemma 'equal roots' is only used once its premise is proved; otherwise the derivative claims are decided without it
            smooth = [tg > minval, tf[0] == tg] if same == z3.unsat else [tg > minval, tf[0] > minval]
            sv = z3.Solver(); sv.set('timeout', 20000); sv.add(*(pc + smooth))
            if str(sv.check()) == 'unsat': continue            # the clamped branch max(mjMINVAL, norm): outside the claim (not differentiable there); the vacuity twin below needs one smooth path
            for i in range(3):
                for j in range(3):
                    ck.prove('D[%d][%d] = d torque[%d] / d angvel[%d] (torque from the real mj_viscousForces, size ordering %s)' % (i, j, i, j, cfg), pc + smooth, outg['D'][3 * i + j] == diff(outf['force'][i], wv[j], sqf),
                             site='mjd_viscous_torque:torque-derivative', decode=F.decode(), replay=rp)
            reach = pc + smooth
    if reach is None: ck.error('no returning path'); return ck
    ck.reach('moment norm above mjMINVAL', reach)
    ck.functions |= {'mj_viscousForces', 'mjd_viscous_torque'}
    return ck


def units(tier):
    u = [('damping_nv2_f0', 'unit_damping', {'nv': 2, 'cols': [0, 1], 'flags': 0}), ('damping_nv2_f1', 'unit_damping', {'nv': 2, 'cols': [0, 1], 'flags': 1})]
    if tier != 'quick': u.append(('damping_nv3_f0', 'unit_damping', {'nv': 3, 'cols': [0, 2], 'flags': 0}))
    for cfg in SIZE_CONFIGS: u.append(('viscous_torque_' + cfg, 'unit_viscous_torque', {'cfg': cfg}))
    return u
