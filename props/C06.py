"""C06 Inertia, bias force and inverse dynamics are mutually consistent (part): CRB vs Newton-Euler, LTDL factorisation, solve/mul/full on symbolic trees."""
import z3
from vf import ir, build, llsym, world as W
from vf.runner import Checker
from vf.irparse import IntT, FpT, PtrT

ID = 'C06'
LEVEL = 'other'
TUS = ['src/engine/engine_core_smooth.c', 'src/engine/engine_support.c', 'src/engine/engine_core_util.c', 'src/engine/engine_util_blas.c', 'src/engine/engine_util_misc.c', 'src/engine/engine_util_spatial.c',
       'src/engine/engine_util_sparse.c']
SUP = ['src/engine/engine_support.c', 'src/engine/engine_core_util.c', 'src/engine/engine_util_blas.c', 'src/engine/engine_util_misc.c', 'src/engine/engine_util_spatial.c', 'src/engine/engine_util_sparse.c',
       'src/engine/engine_util_errmem.c', 'src/engine/engine_memory.c', 'src/engine/engine_callback.c']
EXPLANATION = ('llsym (real-algebraic) runs the real mj_crb, mj_rne, mj_mulM, mj_fullM, mj_factorM (mj_factorI) and mj_solveM (mj_solveLD) on kinematic trees whose topology is fixed per unit (chain, fork, two dofs on '
               'one body, two trees) and whose spatial inertias (cinert, 10 numbers per body), motion axes (cdof), axis derivatives, body velocities, joint velocities, accelerations, armatures and gravity are ALL symbolic. '
               'Claims, decided by z3 as polynomial / rational identities over every value: (1) Newton-Euler with acceleration a equals M a (M from the composite-rigid-body pass, applied with mj_mulM) plus Newton-Euler at a = 0, for '
               'every dof; (2) the stored L^T D L factorisation reconstructs M exactly on its sparsity pattern and vanishes off it; (3) mj_mulM(mj_solveM(y)) = y; (4) mj_fullM is symmetric, carries the stored entries and equals '
               'mj_mulM column by column; (4b) mj_comVel: body velocities accumulate cdof*qvel along the tree and cdof_dot is the motion cross product with the velocity of the frame each axis is attached to; (5) M is symmetric by construction, entries between dofs that are not ancestor-related are absent, and M(i,i) contains the armature.')
BOUNDS = {'quick': {'trees': 'chains of 3 and 4 one-dof bodies, forks (1 parent, 2 children; with a grandchild), body with 2 dofs + child, two independent trees; nv = 3..4', 'values': 'all reals'}, 'thorough': {'trees': 'same plus a 5-chain, a mixed tree with a dof-less body and a second tree (nv = 5), a 3-dof body with a child'}}
OUTSIDE = ('positive definiteness of M (needs physical cinert: a semi-algebraic precondition on 10 numbers per body that nlsat does not get through for nv = 3); tendon armature; simple dofs (dof_simplenum > 0 shortcut); sleeping '
           'bodies; ball and free joints in mj_comVel (scalar joints are covered); sparsity-structure construction in engine_io.c (the M_rownnz/rowadr/colind arrays are derived in the harness from dof_parentid).')
ASSUMPTIONS = ['real-number semantics', 'pivots of the factorisation non-zero (M symmetric positive definite in the callers)', 'no actuator armature (jnt_actuatorid = -1), ntendon = 0, sleep disabled',
               'mj_stackAllocInfo returns a fresh block (its own contract is C19)']
BUDGET = {'quick': 600, 'thorough': 2400}
_c = {}

# topology: parent body of each body (body 0 = world), dofs per body
TOPO = {'chain3': ([0, 0, 1, 2], [0, 1, 1, 1]), 'fork3': ([0, 0, 1, 1], [0, 1, 1, 1]), 'twodof': ([0, 0, 1], [0, 2, 1]), 'trees': ([0, 0, 0, 2], [0, 1, 1, 1]),
        'chain4': ([0, 0, 1, 2, 3], [0, 1, 1, 1, 1]), 'fork4': ([0, 0, 1, 1, 3], [0, 1, 1, 1, 1]), 'chain5': ([0, 0, 1, 2, 3, 4], [0, 1, 1, 1, 1, 1]),
        'mixed5': ([0, 0, 1, 1, 3, 0], [0, 2, 1, 1, 0, 1]), 'free3': ([0, 0, 1], [0, 3, 1]), 'free6h': ([0, 0, 1], [0, 6, 1])}


def mod():
    if 'm' not in _c: _c['m'] = ir.load(TUS)
    return _c['m']


def so():
    if 'so' not in _c: _c['so'] = build.native_lib(['src/engine/engine_core_smooth.c'], SUP, name='smooth')
    return _c['so']


def lay():
    if 'l' not in _c: _c['l'] = build.Layout()
    return _c['l']


def prepare(tier): mod(); so(); lay()


def I(v): return z3.BitVecVal(v, 32)


def structure(name):
    par, dnum = TOPO[name]
    nb = len(par); dofadr = []; a = 0
    for b in range(nb): dofadr.append(a if dnum[b] else -1); a += dnum[b]
    nv = a
    dof_body = [b for b in range(nb) for _ in range(dnum[b])]
    def last_dof(b):
        while b > 0:
            if dnum[b]: return dofadr[b] + dnum[b] - 1
            b = par[b]
        return -1
    dof_par = []
    for i in range(nv):
        b = dof_body[i]
        dof_par.append(i - 1 if i > dofadr[b] else last_dof(par[b]))
    anc = []
    for i in range(nv):
        ch = []; j = i
        while j >= 0: ch.append(j); j = dof_par[j]
        anc.append(sorted(ch))
    rownnz = [len(a_) for a_ in anc]; rowadr = [sum(rownnz[:i]) for i in range(nv)]; colind = [j for a_ in anc for j in a_]
    return dict(par=par, dnum=dnum, nb=nb, nv=nv, dofadr=dofadr, dof_body=dof_body, dof_par=dof_par, anc=anc, rownnz=rownnz, rowadr=rowadr, colind=colind, nC=len(colind))


def root_ids(S):
    out = [0] * S['nb']
    for b in range(1, S['nb']): out[b] = b if S['par'][b] == 0 else out[S['par'][b]]
    return out


def weld_ids(S):
    """a body without dofs is welded to its parent: weld id = first ancestor (or itself) that owns dofs, 0 for bodies fixed to the world"""
    out = []
    for b in range(S['nb']):
        c = b
        while c > 0 and S['dnum'][c] == 0: c = S['par'][c]
        out.append(c)
    return out


def world(name, data_sym, extra_vals=None):
    S = structure(name); L = lay()
    w = W.World('real'); nb, nv = S['nb'], S['nv']
    M, _ = W.full_struct(w, L, 'mjModel_', 'MJMODEL_POINTERS', {'nq': nv, 'nv': nv, 'njnt': nv, 'nbody': nb, 'ntree': 1, 'nC': S['nC'], 'nM': S['nC'], 'nD': nv * nv}, 'm', default_size=0, symbolic=('dof_armature',),
                         values={'body_parentid': S['par'], 'body_dofadr': S['dofadr'], 'body_dofnum': S['dnum'], 'dof_bodyid': S['dof_body'], 'dof_parentid': S['dof_par'], 'dof_simplenum': [0] * nv,
                                 'dof_jntid': list(range(nv)), 'jnt_actuatorid': [-1] * nv, 'jnt_type': [build.enum_values('mjJNT_')['mjJNT_HINGE'] if i % 2 == 0 else build.enum_values('mjJNT_')['mjJNT_SLIDE'] for i in range(nv)], 'M_rownnz': S['rownnz'], 'M_rowadr': S['rowadr'], 'M_colind': S['colind'], 'body_weldid': weld_ids(S),
                                 'body_rootid': root_ids(S)})
    D, _ = W.full_struct(w, L, 'mjData_', 'MJDATA_POINTERS', {'nq': nv, 'nv': nv, 'nbody': nb, 'nC': S['nC'], 'nM': S['nC'], 'nD': nv * nv}, 'd', default_size=0, symbolic=tuple(data_sym), values=extra_vals or {})
    ar = w.obj('arena', 16384).zeros(); D.o.put(D.off('arena'), 'ptr', (ar, 0)); D.set('narena', 16384)
    M.set('opt.disableflags', 0); M.set('opt.enableflags', 0)
    return S, w, M, D


def executor(nv, nb):
    def alloc(ex, st, args, ins):
        size = ex.as_int(args[1]); return st.alloc(size, ('stack', len(st.objs)))
    noop = lambda ex, st, args, ins: None
    return llsym.Exec(mod(), fpmode='real', stubs={'mj_stackAllocInfo': alloc, 'mj_markStack': noop, 'mj_freeStack': noop}, loop_bound=max(6 * nb, nv * nv) + 12)


def arr(ex, st, w, D, name, n): return [ex.load(st, w.P(D.arrays[name][0], 8 * i), FpT('double')) for i in range(n)]


def run_seq(ex, ck, st, calls, keep=None):
    """run the calls one after the other on every returning path; yields final states (and the state after call `keep`)"""
    work = [(st, 0, None)]; out = []
    while work:
        cur, k, kept = work.pop()
        if k == len(calls): out.append((cur, kept)); continue
        fn, a = calls[k]
        res = ex.run('@' + fn, a, cur.clone()); ck.note_results(ex, res)
        rets = [r for r in res if r.kind == 'return']
        if not rets: ck.error('%s: no returning path' % fn)
        for r in rets:
            s2 = r.state; s2.stack = []
            work.append((s2, k + 1, s2 if fn == keep else kept))
    return out


def single(res, ck, what):
    rets = [r for r in res if r.kind == 'return']
    if len(rets) != 1: ck.error('%s: expected one returning path, got %d (%s)' % (what, len(rets), [r.kind for r in res]))
    return rets[0] if rets else None


def unit_rne(tier, topo):
    """Newton-Euler(a) = M a + Newton-Euler(0), with M from mj_crb and the product by mj_mulM - three real algorithms on the same symbolic tree"""
    ck = Checker('rne_%s' % topo, tier, timeout_s=240, semantics='real')
    S, w, M, D = world(topo, ('cinert', 'cdof', 'cdof_dot', 'cvel', 'qvel', 'qacc'))
    nv, nb = S['nv'], S['nb']
    g = [M.sym('opt.gravity[%d]' % k, 'g%d' % k) for k in range(3)]
    r0o, _ = w.arr('rne0', 'f64', nv, [0.0] * nv); r1o, _ = w.arr('rne1', 'f64', nv, [0.0] * nv); mao, _ = w.arr('Ma', 'f64', nv, [0.0] * nv)
    ex = executor(nv, nb); st = w.to_state(ex)
    st.aux['extern_init'] = {'@mjcb_time': lambda e, s_, p: e.store(s_, p, PtrT(IntT(8)), llsym.NULL, check=False)}
    calls = [('mj_crb', [w.P(M.o), w.P(D.o)]), ('mj_rne', [w.P(M.o), w.P(D.o), I(0), w.P(r0o)]), ('mj_rne', [w.P(M.o), w.P(D.o), I(1), w.P(r1o)]), ('mj_mulM', [w.P(M.o), w.P(D.o), w.P(mao), w.P(D.arrays['qacc'][0])])]
    nargs = lambda a: [('ptr', (M.o, 0)), ('ptr', (D.o, 0))] + a
    seq = [('mj_crb', nargs([]), 'void'), ('mj_rne', nargs([('i32', 0), ('ptr', (r0o, 0))]), 'void'), ('mj_rne', nargs([('i32', 1), ('ptr', (r1o, 0))]), 'void'),
           ('mj_mulM', nargs([('ptr', (mao, 0)), ('ptr', (D.arrays['qacc'][0], 0))]), 'void')]
    dec = lambda mdl: {'topology': topo}
    arm = M.arrays['dof_armature'][3]; qacc = D.arrays['qacc'][3]
    finals = run_seq(ex, ck, st, calls)
    for cur, _k in finals:
        ld = lambda o, i, cur=cur: ex.load(cur, w.P(o, 8 * i), FpT('double'))
        outs = [('rne0_%d' % i, r0o, 8 * i, 'f64', ld(r0o, i)) for i in range(nv)] + [('rne1_%d' % i, r1o, 8 * i, 'f64', ld(r1o, i)) for i in range(nv)] + [('Ma_%d' % i, mao, 8 * i, 'f64', ld(mao, i)) for i in range(nv)]
        rp = seq_replay(w, seq, outs)
        for i in range(nv):
            # the rotor (armature) inertia is part of M but not of the rigid-body recursion: it enters as armature_i * qacc_i
            ck.prove('dof %d: Newton-Euler with acceleration + armature*qacc = (composite-rigid-body M) * qacc + Newton-Euler at zero acceleration' % i, cur.pc,
                     ld(r1o, i) + arm[i] * qacc[i] == ld(mao, i) + ld(r0o, i), site='mj_rne:M-consistency', decode=dec, replay=rp)
        Mv = arr(ex, cur, w, D, 'M', S['nC'])
        for i in range(nv):
            diag = Mv[S['rowadr'][i] + S['rownnz'][i] - 1]
            ck.prove('M(%d,%d) contains the armature of dof %d with coefficient one' % (i, i, i), cur.pc, z3.substitute(diag, (arm[i], arm[i] + 1)) == diag + 1, site='mj_crb:armature', decode=dec, replay=rp)
            for k_, j in enumerate(S['anc'][i]):
                if j != i: ck.prove('M(%d,%d) does not depend on any armature' % (i, j), cur.pc, z3.substitute(Mv[S['rowadr'][i] + k_], *[(x, x + 1) for x in arm]) == Mv[S['rowadr'][i] + k_], site='mj_crb:armature', decode=dec, replay=rp)
    cur = finals[0][0] if finals else st
    ck.reach('symbolic tree unconstrained', cur.pc)
    ck.memory_obligations([type('R', (), {'state': c_})() for c_, _ in finals], decode=dec)
    return ck


def cross3(a, b): return [a[1] * b[2] - a[2] * b[1], a[2] * b[0] - a[0] * b[2], a[0] * b[1] - a[1] * b[0]]


def unit_comvel(tier, topo):
    """mj_comVel on scalar joints: body velocity = parent velocity + sum cdof*qvel; cdof_dot_j = (velocity of the frame the axis is attached to, i.e. parent velocity plus the EARLIER joints of the same body) x_m cdof_j"""
    ck = Checker('comvel_%s' % topo, tier, timeout_s=120, semantics='real')
    S, w, M, D = world(topo, ('cdof', 'qvel', 'cvel', 'cdof_dot'))
    nv, nb = S['nv'], S['nb']
    ex = executor(nv, nb); st = w.to_state(ex)
    res = ex.run('@mj_comVel', [w.P(M.o), w.P(D.o)], st); ck.note_results(ex, res)
    cdof = D.arrays['cdof'][3]; qv = D.arrays['qvel'][3]
    dec = lambda mdl: {'topology': topo, 'qvel': [str(W.evalnum(mdl, x)) for x in qv]}
    def crossm(v, s_):      # spatial motion cross product, vectors are [angular; linear]
        return cross3(v[0:3], s_[0:3]) + [a + b for a, b in zip(cross3(v[0:3], s_[3:6]), cross3(v[3:6], s_[0:3]))]
    vel = {0: [z3.RealVal(0)] * 6}; cdd = {}
    for b in range(1, nb):
        v = list(vel[S['par'][b]])
        for j in range(S['dnum'][b]):
            d_ = S['dofadr'][b] + j; ax = cdof[6 * d_:6 * d_ + 6]
            cdd[d_] = crossm(v, ax)
            v = [v[k] + ax[k] * qv[d_] for k in range(6)]
        vel[b] = v
    for r in res:
        if r.kind != 'return': continue
        cv = arr(ex, r.state, w, D, 'cvel', 6 * nb); cd = arr(ex, r.state, w, D, 'cdof_dot', 6 * nv)
        outs = [('cvel%d' % i, D.arrays['cvel'][0], 8 * i, 'f64', cv[i]) for i in range(6 * nb)] + [('cdof_dot%d' % i, D.arrays['cdof_dot'][0], 8 * i, 'f64', cd[i]) for i in range(6 * nv)]
        rp = W.make_replay(so(), 'mj_comVel', w, [('ptr', (M.o, 0)), ('ptr', (D.o, 0))], outputs=outs, semantics='real')
        for b in range(nb):
            ck.prove('cvel of body %d = parent velocity + sum of cdof*qvel over its joints (world: 0)' % b, r.state.pc, z3.And(*[cv[6 * b + k] == vel[b][k] for k in range(6)]), site='mj_comVel:cvel', decode=dec, replay=rp)
        for d_ in range(nv):
            ck.prove('cdof_dot of dof %d = (parent velocity + earlier joints of the same body) x_m cdof' % d_, r.state.pc, z3.And(*[cd[6 * d_ + k] == cdd[d_][k] for k in range(6)]), site='mj_comVel:cdof_dot', decode=dec, replay=rp)
    ck.reach('free symbols', []); ck.memory_obligations(res, decode=dec)
    return ck


def seq_replay(w, seq, outs, so_fn=None):
    """native replay of a call sequence; reproduced iff the native outputs equal the values predicted by the encoding under the model"""
    def rp(model, witness):
        values = w.concretise(model)
        status = W.native_seq((so_fn or so)(), seq, w, values, [(l, o, off, ty) for (l, o, off, ty, _) in outs])
        if status[0] != 'ok': return False, {'native': str(status)[:300]}
        mism = []
        for (l, o, off, ty, term) in outs:
            pv = W.evalnum(model, term)
            if not W.close(pv, status[1]['out'][l], 'real'): mism.append((l, str(pv), str(status[1]['out'][l])))
        return (not mism), {'native': 'ok', 'encoding_mismatch': mism[:6], 'native_outputs': {k: v for k, v in list(status[1]['out'].items())[:12]}}
    return rp


def unit_factor(tier, topo):
    """L^T D L reconstructs M; solve inverts mul; fullM matches mulM - M's stored entries are free symbols"""
    ck = Checker('factor_%s' % topo, tier, timeout_s=240, semantics='real')
    S, w, M, D = world(topo, ('M',))
    nv, nb, nC = S['nv'], S['nb'], S['nC']
    yo, yv = w.arr('y', 'f64', nv); xo, _ = w.arr('x', 'f64', nv, [0.0] * nv); zo, _ = w.arr('z', 'f64', nv, [0.0] * nv); fo, _ = w.arr('full', 'f64', nv * nv, [0.0] * (nv * nv))
    eo = [w.arr('e%d' % j, 'f64', nv, [1.0 if k == j else 0.0 for k in range(nv)])[0] for j in range(nv)]; co = [w.arr('col%d' % j, 'f64', nv, [0.0] * nv)[0] for j in range(nv)]
    Mv = D.arrays['M'][3]
    ex = executor(nv, nb); st = w.to_state(ex)
    st.aux['extern_init'] = {'@mjcb_time': lambda e, s_, p: e.store(s_, p, PtrT(IntT(8)), llsym.NULL, check=False)}
    P = lambda o: w.P(o)
    calls = [('mj_factorM', [P(M.o), P(D.o)]), ('mj_solveM', [P(M.o), P(D.o), P(xo), P(yo), I(1)]), ('mj_mulM', [P(M.o), P(D.o), P(zo), P(xo)]), ('mj_fullM', [P(M.o), P(D.o), P(fo)])]
    calls += [('mj_mulM', [P(M.o), P(D.o), P(co[j]), P(eo[j])]) for j in range(nv)]
    finals = run_seq(ex, ck, st, calls, keep='mj_factorM')
    ck.notes.append('path combinations: %d' % len(finals))
    for cur, after_factor in finals: _factor_claims(ck, ex, w, M, D, S, cur, after_factor, Mv, yv, yo, xo, zo, fo, co)
    cur = finals[0][0] if finals else st
    dec = lambda mdl: {}
    ck.reach('symbolic M unconstrained', cur.pc)
    ck.memory_obligations([type('R', (), {'state': c_})() for c_, _ in finals], decode=dec)
    return ck


def _factor_claims(ck, ex, w, M, D, S, cur, after_factor, Mv, yv, yo, xo, zo, fo, co):
    nv, nb, nC = S['nv'], S['nb'], S['nC']
    ld = lambda s_, o, i: ex.load(s_, w.P(o, 8 * i), FpT('double'))
    qLD = arr(ex, after_factor, w, D, 'qLD', nC); dinv = arr(ex, after_factor, w, D, 'qLDiagInv', nv)
    # dense L (unit lower triangular in the dof order, row i holds its ancestors) and D
    Lm = [[z3.RealVal(0)] * nv for _ in range(nv)]; Dd = []
    for i in range(nv):
        for k, j in enumerate(S['anc'][i]):
            v = qLD[S['rowadr'][i] + k]
            if j == i: Dd.append(v); Lm[i][i] = z3.RealVal(1)
            else: Lm[i][j] = v
    pivots = [d != 0 for d in Dd]
    pc = cur.pc + pivots
    dec = lambda mdl: {'M': [str(W.evalnum(mdl, x)) for x in Mv], 'y': [str(W.evalnum(mdl, x)) for x in yv]}
    nargs = lambda a: [('ptr', (M.o, 0)), ('ptr', (D.o, 0))] + a
    seq = [('mj_factorM', nargs([]), 'void'), ('mj_solveM', nargs([('ptr', (xo, 0)), ('ptr', (yo, 0)), ('i32', 1)]), 'void'), ('mj_mulM', nargs([('ptr', (zo, 0)), ('ptr', (xo, 0))]), 'void'), ('mj_fullM', nargs([('ptr', (fo, 0))]), 'void')]
    outs = [('z%d' % i, zo, 8 * i, 'f64', ld(cur, zo, i)) for i in range(nv)] + [('full%d' % i, fo, 8 * i, 'f64', ld(cur, fo, i)) for i in range(nv * nv)] + \
           [('qLD%d' % i, D.arrays['qLD'][0], 8 * i, 'f64', qLD[i]) for i in range(nC)]
    rp = seq_replay(w, seq, outs)
    # (2) reconstruction: M = L^T D L
    def Mentry(i, j):
        if j in S['anc'][i]: return Mv[S['rowadr'][i] + S['anc'][i].index(j)]
        if i in S['anc'][j]: return Mv[S['rowadr'][j] + S['anc'][j].index(i)]
        return z3.RealVal(0)
    for i in range(nv):
        for j in range(i + 1):
            rec = sum(Lm[k][i] * Dd[k] * Lm[k][j] for k in range(nv))
            ck.prove('L^T D L reconstructs M(%d,%d)%s' % (i, j, '' if j in S['anc'][i] else ' = 0 (dofs not ancestor-related)'), pc, rec == Mentry(i, j), site='mj_factorI:reconstruct', decode=dec, replay=rp)
        ck.prove('qLDiagInv[%d] = 1 / D(%d)' % (i, i), pc, dinv[i] * Dd[i] == 1, site='mj_factorI:diaginv', decode=dec, replay=rp)
    # (3) solve inverts mul
    for i in range(nv):
        ck.prove('mj_mulM(mj_solveM(y))[%d] = y[%d]' % (i, i), pc, ld(cur, zo, i) == yv[i], site='mj_solveM:inverse', decode=dec, replay=rp)
    # (4) fullM
    full = [[ld(cur, fo, i * nv + j) for j in range(nv)] for i in range(nv)]
    for i in range(nv):
        for j in range(nv):
            ck.prove('mj_fullM(%d,%d) is the stored entry (symmetric, zero off the pattern)' % (i, j), cur.pc, full[i][j] == Mentry(i, j), site='mj_fullM:entries', decode=dec, replay=rp)
            ck.prove('mj_fullM(%d,%d) = (mj_mulM e_%d)[%d]' % (i, j, j, i), cur.pc, full[i][j] == ld(cur, co[j], i), site='mj_fullM:mulM', decode=dec, replay=rp)
    ck.reach('pivots non-zero', pc)


def units(tier):
    topos = ['chain3', 'fork3', 'twodof', 'trees', 'chain4', 'fork4'] if tier == 'quick' else ['chain3', 'fork3', 'twodof', 'trees', 'chain4', 'fork4', 'chain5', 'mixed5', 'free3']
    u = []
    for t in topos:
        u.append(('rne_%s' % t, 'unit_rne', {'topo': t})); u.append(('factor_%s' % t, 'unit_factor', {'topo': t}))
        if t in ('twodof', 'chain3', 'fork3', 'free3', 'mixed5'): u.append(('comvel_%s' % t, 'unit_comvel', {'topo': t}))
    return u
