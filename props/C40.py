"""C40 Extension registries stay consistent under concurrent use: all interleavings of GlobalTable<T> writers and readers at shared-cell accesses (llconc), plus sequential histories."""
import z3
from vf import ir, build, llsym, llconc, world as W
from vf.runner import Checker
from vf.irparse import IntT, FpT, PtrT, NamedT

ID = 'C40'
LEVEL = 'other'
ENGINE = 'llconc'
HARNESS = '/verif/harness/cc/table_harness.cc'
TECHNIQUE = ('llsym/llconc over the LLVM IR of src/engine/engine_global_table.h instantiated (unmodified) on a small object type: every load/store of the shared table is a scheduling point, all interleavings of one or two '
             'registering threads and a reader are explored with symbolic object payloads, std::mutex is modelled as a blocking lock with per-thread reentrancy counters; z3 decides the per-schedule claims; violating schedules are '
             'replayed with real threads and stall injection')
EXPLANATION = ('The repository header engine_global_table.h is instantiated on VfObj {key[8], a, b, c} (harness/cc/table_harness.cc; CopyObject stores the fields one by one, so a half-copied object is observable) and lowered by clang++. '
               'Threads are IR instances of vf_append (AppendIfUnique through the real lambda, lock, scan, copy, count_.store) and vf_lookup_slot / vf_lookup_key (count() then Get*Unsafe, the documented reader protocol). llconc '
               'interleaves them at every access to the table memory; payloads are symbolic. Claims for every schedule: a reader that is handed an object sees ALL its fields as registered (never a partially copied one) and the key it '
               'asked for; two concurrent registrations of different keys get the two distinct slots 0 and 1 and both objects are in the table afterwards; two concurrent registrations of the same key with equal payload get the same '
               'slot, and count stays 1; with different payloads exactly one wins and the other ends in mju_error; sequential histories: slots are dense (0,1,2,...), stable, case-insensitive duplicates map to the first slot, '
               'lookups by name and slot agree, unknown keys and slots >= count return nothing.')
BOUNDS = {'quick': {'threads': 'writer+reader(slot), writer+reader(key), writer+writer (distinct keys / same key)', 'table': 'empty or holding one object at the start', 'histories': 'up to 4 sequential registrations with duplicate keys; 17 / 31 registrations across one / two 15-object block boundaries'},
          'thorough': {'threads': 'plus two writers and a reader', 'histories': '46 registrations (three block boundaries)'}}
OUTSIDE = ('weak-memory reorderings (the exploration is sequentially consistent; the acquire/release annotations themselves are not checked); concurrent registrations across the block boundary at 15 objects (the boundary is crossed in the sequential histories of 17 / 31 registrations); allocation failure of a new block; the real plugin / resource-provider / decoder object types of engine_plugin.cc (string-owning C++ objects); ThreadSanitizer-level data-race detection.')
ASSUMPTIONS = ['error-message formatting (snprintf, the temporary std::string) has empty bodies', 'sequential consistency', 'std::mutex::lock / unlock = a blocking lock (pthread_mutex_lock / unlock are stubbed accordingly)', 'thread_local lock counter: one cell per thread', 'std::tolower on ASCII letters',
               'keys are NUL-terminated within 8 bytes']
BUDGET = {'quick': 900, 'thorough': 2400}
_c = {}
FLAGS = ['-fno-exceptions', '-I' + build.REPO + '/src']
LOCKCNT = '_ZN6mujoco18ReentrantWriteLock24LockCountOnCurrentThreadEv'


def mod():
    if 'm' not in _c: _c['m'] = ir.load([HARNESS], flags=FLAGS)
    return _c['m']


def prepare(tier): mod(); stress_so()


def I(v): return z3.BitVecVal(v, 32)
ZERO = lambda e, off, t: e.zero(t)


def layout(ex):
    T = lambda n: ex.resolve(NamedT(n))
    tab = T('%"class.mujoco::GlobalTable"'); offs, size, _ = ex.struct_layout(tab)
    blk = ex.resolve(tab.fields[0]); boffs, bsize, _ = ex.struct_layout(blk)
    obj = T('%struct.VfObj'); ooffs, osize, _ = ex.struct_layout(obj)
    return dict(size=size, count=offs[1], mutex=offs[2], objects=boffs[0], next=boffs[1], osize=osize, key=ooffs[0], a=ooffs[1], b=ooffs[2], c=ooffs[3])


class Sys:
    def __init__(self, nthreads, pre_objs=()):
        self.ex = ex = llsym.Exec(mod(), stubs=self.stubs(), loop_bound=64, max_paths=200000)
        self.L = L = layout(ex)
        self.st = st = llsym.State()
        self.tab = st.alloc(L['size'], 'table', default=ZERO)
        to = st.objs[self.tab.obj]
        to.cells[L['count']] = (I(len(pre_objs)), 4)
        for k, (key, vals) in enumerate(pre_objs): self.put_obj(st, self.tab, L['objects'] + k * L['osize'], key, vals)
        st.aux['mutex'] = None; st.aux['tls'] = {}; st.aux['tid'] = 0
        ex.is_shared = lambda s_, p: isinstance(p, llsym.Ptr) and p.obj == self.tab.obj
    def put_obj(self, st, base, off, key, vals):
        o = st.objs[base.obj]; L = self.L
        kb = key.encode() + b'\0' * (8 - len(key))
        for i, ch in enumerate(kb): o.cells[off + L['key'] + i] = (z3.BitVecVal(ch, 8), 1)
        for f, v in zip(('a', 'b', 'c'), vals): o.cells[off + L[f]] = (v, 4)
    def new_obj(self, name, key, vals):
        p = self.st.alloc(self.L['osize'], name, default=ZERO); self.put_obj(self.st, p, 0, key, vals); return p
    def out_obj(self, name):
        return self.st.alloc(self.L['osize'], name, default=ZERO)
    def read_obj(self, st, p):
        ex = self.ex; L = self.L
        key = [ex.load(st, llsym.Ptr(p.obj, p.off + L['key'] + i), IntT(8)) for i in range(8)]
        return key, [ex.load(st, llsym.Ptr(p.obj, p.off + L[f]), IntT(32)) for f in ('a', 'b', 'c')]
    def stubs(self):
        def lock(ex, st, args, ins):
            t = st.aux['tid']
            if st.aux['mutex'] is not None and st.aux['mutex'] != t:
                st.stack[-1].idx -= 1; st.aux['sleeping'] = frozenset(set(st.aux.get('sleeping', frozenset())) | {t}); return [llsym.Result('blocked', st)]
            st.aux['mutex'] = t; return I(0)
        def unlock(ex, st, args, ins):
            st.aux['mutex'] = None; st.aux['sleeping'] = frozenset(); return I(0)
        def lockcnt(ex, st, args, ins):
            t = st.aux['tid']; tls = dict(st.aux['tls'])
            if t not in tls:
                p = st.alloc(4, ('tls', t), default=ZERO); tls[t] = p.obj; st.aux['tls'] = tls
            return llsym.Ptr(tls[t], 0)
        def tolower(ex, st, args, ins):
            c = args[0]
            return z3.If(z3.And(c >= 65, c <= 90), c + 32, c)
        fmt = {}
        noop = lambda ex, st, args, ins: None
        for name in mod().fns:
            if 'NSt7__cxx1112basic_string' in name or 'NKSt7__cxx1112basic_string' in name:
                # std::string is only used to format the text of the "already registered" error; formatting gets empty bodies
                fmt[name[1:]] = (lambda ex, st, args, ins: llsym.NULL) if name.endswith('5c_strEv') else noop
        for nm in ('_ZNSaIcEC1Ev', '_ZNSaIcED1Ev', '_ZNSaIcEC2ERKS_', '_ZNSaIcED2Ev'): fmt[nm] = noop
        fmt['snprintf'] = lambda ex, st, args, ins: I(0)
        return {**fmt, 'pthread_mutex_lock': lock, 'pthread_mutex_unlock': unlock, LOCKCNT: lockcnt, 'tolower': tolower,
                '__gthrw_pthread_mutex_lock': lock, '__gthrw_pthread_mutex_unlock': unlock, '_ZL20__gthread_mutex_lockP15pthread_mutex_t': lock, '_ZL22__gthread_mutex_unlockP15pthread_mutex_t': unlock,
                '_ZL18__gthread_active_pv': lambda ex, st, a, i: I(1)}


def run_threads(S, calls, ck, max_states=300000):
    """explore all interleavings (with visited-state pruning on the schedule-independent part); returns list of (state, sched, rets, kinds)"""
    ex = S.ex; n = len(calls)
    stacks = []
    for t, (fn, args) in enumerate(calls):
        tmp = S.st.clone(); tmp.aux['tid'] = t; ex.start(tmp, fn, args); stacks.append(tmp.stack)
    init = S.st.clone(); init.stack = []
    work = [(init, stacks, [None] * n, ['run'] * n, [])]; outs = []; nst = 0
    while work:
        st, stks, rets, status, sched = work.pop()
        if all(s != 'run' for s in status): outs.append((st, sched, rets, status)); continue
        progressed = False
        for t in range(n):
            if status[t] != 'run' or t in st.aux.get('sleeping', frozenset()): continue
            s2 = st.clone(); s2.stack = [f.clone() for f in stks[t]]; s2.aux['tid'] = t
            for r in ex.resume(s2):
                nst += 1
                if nst > max_states: ck.inconclusive.append('state budget exceeded'); return outs
                if r.kind == 'infeasible': continue
                ns = list(stks); nr = list(rets); nd = list(status)
                if r.kind in ('yield', 'blocked'): ns[t] = r.state.stack
                elif r.kind == 'return': ns[t] = []; nr[t] = r.value; nd[t] = 'return'
                elif r.kind == 'error': ns[t] = []; nd[t] = 'error'
                    # an erroring writer has already released the lock (the lambda returned before mju_error)
                else:
                    ck.inconclusive.append('thread %d: %s %s' % (t, r.kind, r.info)); continue
                if r.kind != 'blocked': progressed = True
                work.append((r.state, ns, nr, nd, sched + [t]))
        if not progressed and not work and any(s == 'run' for s in status):
            outs.append((st, sched, rets, [s if s != 'run' else 'stuck' for s in status]))
    ck.paths['schedules'] = ck.paths.get('schedules', 0) + len(outs); ck.paths['steps'] = ck.paths.get('steps', 0) + nst
    ck.queries += ex.nq; ck.solver_s += ex.tq
    ck.functions |= {'GlobalTable::AppendIfUnique', 'GlobalTable::GetAtSlotUnsafe', 'GlobalTable::GetByKeyUnsafe', 'GlobalTable::count', 'ReentrantWriteLock', 'CaseInsensitiveEqual'}
    return outs


def sched_str(s): return ''.join(map(str, s[-40:]))


def unit_writer_reader(tier, by, pre):
    """one registration racing with one lookup (by slot or by key) of the object being registered"""
    ck = Checker('writer_reader_%s_pre%d' % (by, pre), tier, timeout_s=30)
    va = [z3.BitVec(n, 32) for n in ('a', 'b', 'c')]; pv = [z3.BitVec(n, 32) for n in ('pa', 'pb', 'pc')]
    S = Sys(2, pre_objs=[('old', pv)] if pre else [])
    obj = S.new_obj('newobj', 'Abc', va); out = S.out_obj('out'); slotp = S.st.alloc(4, 'slot', default=ZERO)
    keyp = S.st.alloc(8, 'qkey', default=ZERO)
    for i, ch in enumerate(b'aBC\0'): S.st.objs[keyp.obj].cells[i] = (z3.BitVecVal(ch, 8), 1)
    S.st.pc += [z3.Or(va[0] != 0, va[1] != 0, va[2] != 0)]       # so that an all-zero (never written) object is distinguishable
    reader = ('@vf_lookup_slot', [S.tab, I(pre), out]) if by == 'slot' else ('@vf_lookup_key', [S.tab, keyp, out, slotp])
    outs = run_threads(S, [('@vf_append', [S.tab, obj]), reader], ck)
    for st, sched, rets, status in outs:
        tag = sched_str(sched)
        if status[0] != 'return' or status[1] != 'return':
            ck.prove('no thread errors or gets stuck (schedule %s)' % tag, st.pc, z3.BoolVal(False), site='GlobalTable:progress', decode=lambda m_, s=status: {'status': s}); continue
        key, vals = S.read_obj(st, out)
        full = z3.And(*([vals[i] == va[i] for i in range(3)] + [key[i] == c for i, c in enumerate(b'Abc\0')]))
        ck.prove('writer gets slot %d; a reader that is handed an object sees every field of the registered object, never a partially copied one (schedule %s)' % (pre, tag), st.pc,
                 z3.And(rets[0] == pre, z3.Or(rets[1] == 0, z3.And(rets[1] == 1, full))), site='GlobalTable:no-partial-object', decode=lambda m_, s=sched: {'schedule': s}, replay=stress_replay('writer_reader' if by == 'slot' else 'writer_reader_key'))
        if by == 'key':
            sl = S.ex.load(st, slotp, IntT(32))
            ck.prove('lookup by key reports the slot the writer got, or -1 when nothing is found (schedule %s)' % tag, st.pc, z3.If(rets[1] == 1, sl == pre, sl == -1), site='GlobalTable:key-slot', decode=lambda m_, s=sched: {'schedule': s})
    ck.selfcheck('schedules explored', len(outs) > 1, len(outs))
    ck.reach('payload', S.st.pc)
    return ck


def unit_two_writers(tier, same_key, equal):
    ck = Checker('two_writers_%s_%s' % ('same' if same_key else 'distinct', 'eq' if equal else 'ne'), tier, timeout_s=30)
    va = [z3.BitVec(n, 32) for n in ('a', 'b', 'c')]; vb = [z3.BitVec(n, 32) for n in ('a2', 'b2', 'c2')]
    S = Sys(2)
    o1 = S.new_obj('obj1', 'Abc', va); o2 = S.new_obj('obj2', 'aBC' if same_key else 'xyz', va if (same_key and equal) else vb)
    if same_key and not equal: S.st.pc.append(z3.Or(*[x != y for x, y in zip(va, vb)]))
    outs = run_threads(S, [('@vf_append', [S.tab, o1]), ('@vf_append', [S.tab, o2])], ck)
    L = S.L
    for st, sched, rets, status in outs:
        tag = sched_str(sched)
        cnt = S.ex.load(st, llsym.Ptr(S.tab.obj, L['count']), IntT(32))
        slot0 = S.read_obj(st, llsym.Ptr(S.tab.obj, L['objects'])); slot1 = S.read_obj(st, llsym.Ptr(S.tab.obj, L['objects'] + L['osize']))
        if 'stuck' in status:
            ck.prove('no deadlock (schedule %s)' % tag, st.pc, z3.BoolVal(False), site='GlobalTable:deadlock', decode=lambda m_, s=status: {'status': s}); continue
        if not same_key:
            ok = z3.And(z3.BoolVal(status == ['return', 'return']), cnt == 2, z3.Or(z3.And(rets[0] == 0, rets[1] == 1), z3.And(rets[0] == 1, rets[1] == 0)) if status == ['return', 'return'] else z3.BoolVal(False))
            # each object sits complete in the slot its writer was told
            def at(slot, vals): return z3.If(slot == 0, z3.And(*[x == y for x, y in zip(slot0[1], vals)]), z3.And(*[x == y for x, y in zip(slot1[1], vals)]))
            if status == ['return', 'return']: ok = z3.And(ok, at(rets[0], va), at(rets[1], vb))
            ck.prove('two registrations of different keys get the distinct slots 0 and 1, both objects are stored completely, count = 2 (schedule %s)' % tag, st.pc, ok, site='GlobalTable:distinct-keys', decode=lambda m_, s=sched: {'schedule': s},
                     replay=stress_replay('two_writers'))
        elif equal:
            ck.prove('two registrations of an identical object (keys differing in case only) return the same slot 0 and count = 1 (schedule %s)' % tag, st.pc,
                     z3.And(z3.BoolVal(status == ['return', 'return']), cnt == 1, *([rets[0] == 0, rets[1] == 0] if status == ['return', 'return'] else [])), site='GlobalTable:identical', decode=lambda m_, s=sched: {'schedule': s},
                     replay=stress_replay('two_writers'))
        else:
            good = sorted(status) == ['error', 'return']
            win = 0 if status[0] == 'return' else 1
            ck.prove('conflicting registrations of one key: exactly one succeeds with slot 0, the other fails with an error, count = 1 and the stored object is the winner\'s (schedule %s)' % tag, st.pc,
                     z3.And(z3.BoolVal(good), cnt == 1, *([rets[win] == 0] + [x == y for x, y in zip(slot0[1], va if win == 0 else vb)] if good else [])), site='GlobalTable:conflict', decode=lambda m_, s=sched: {'schedule': s},
                     replay=stress_replay('two_writers'))
    ck.selfcheck('schedules explored', len(outs) > 1, len(outs))
    ck.reach('payload', S.st.pc)
    return ck


def unit_history(tier, n):
    """sequential registrations and lookups: dense, stable slots; case-insensitive keys; name and slot lookups agree"""
    ck = Checker('history_n%d' % n, tier, timeout_s=30)
    S = Sys(1)
    keys = ['Abc', 'xyz', 'aBC', 'Q'][:n]           # the third repeats the first up to case
    vals = [[z3.BitVec('v%d_%d' % (k, i), 32) for i in range(3)] for k in range(n)]
    if n >= 3: vals[2] = vals[0]
    objs = [S.new_obj('obj%d' % k, keys[k], vals[k]) for k in range(n)]
    expected = []; seen = {}
    for k in range(n):
        low = keys[k].lower()
        if low not in seen: seen[low] = len(seen)
        expected.append(seen[low])
    cur = S.st; ex = S.ex
    def call(st, fn, args):
        s2 = st.clone(); s2.aux['tid'] = 0; ex.is_shared = None
        res = ex.run(fn, args, s2)
        rr = [r for r in res if r.kind in ('return', 'error')]
        return rr
    for k in range(n):
        rr = call(cur, '@vf_append', [S.tab, objs[k]])
        if len(rr) != 1 or rr[0].kind != 'return': ck.error('registration %d: %s' % (k, [r.kind for r in rr])); return ck
        ck.prove('history: registration %d of %r returns slot %d (dense, first-come; case-insensitive duplicates reuse their slot)' % (k, keys[k], expected[k]), rr[0].state.pc, rr[0].value == expected[k], site='GlobalTable:history-slot', replay=history_replay(n, True))
        cur = rr[0].state; cur.stack = []
    total = len(seen)
    rr = call(cur, '@vf_count', [S.tab])
    ck.prove('history: count = number of distinct keys', rr[0].state.pc, rr[0].value == total, site='GlobalTable:history-count', replay=history_replay(n, True))
    out = cur.alloc(S.L['osize'], 'out', default=ZERO); slotp = cur.alloc(4, 'slotp', default=ZERO)
    for low, slot in seen.items():
        k0 = [k for k in range(n) if keys[k].lower() == low][0]
        rr = call(cur, '@vf_lookup_slot', [S.tab, I(slot), out])
        key, v = S.read_obj(rr[0].state, out)
        ck.prove('history: slot %d holds the first object registered under %r' % (slot, low), rr[0].state.pc, z3.And(rr[0].value == 1, *[x == y for x, y in zip(v, vals[k0])]), site='GlobalTable:history-lookup', replay=history_replay(n, True))
        qk = cur.alloc(8, 'q', default=ZERO)
        for i, ch in enumerate(low.upper().encode() + b'\0'): cur.objs[qk.obj].cells[i] = (z3.BitVecVal(ch, 8), 1)
        rr = call(cur, '@vf_lookup_key', [S.tab, qk, out, slotp])
        sl = ex.load(rr[0].state, slotp, IntT(32)); key, v = S.read_obj(rr[0].state, out)
        ck.prove('history: lookup by name %r (any case) finds slot %d and the same object' % (low.upper(), slot), rr[0].state.pc, z3.And(rr[0].value == 1, sl == slot, *[x == y for x, y in zip(v, vals[k0])]), site='GlobalTable:history-key', replay=history_replay(n, True))
    rr = call(cur, '@vf_lookup_slot', [S.tab, I(total), out])
    ck.prove('history: slot == count returns nothing', rr[0].state.pc, rr[0].value == 0, site='GlobalTable:history-miss', replay=history_replay(n, True))
    rr = call(cur, '@vf_lookup_slot', [S.tab, I(-1), out])
    ck.prove('history: negative slot returns nothing', rr[0].state.pc, rr[0].value == 0, site='GlobalTable:history-miss', replay=history_replay(n, True))
    qk = cur.alloc(8, 'q2', default=ZERO)
    for i, ch in enumerate(b'nope\0'): cur.objs[qk.obj].cells[i] = (z3.BitVecVal(ch, 8), 1)
    rr = call(cur, '@vf_lookup_key', [S.tab, qk, out, slotp])
    ck.prove('history: unknown key returns nothing and slot -1', rr[0].state.pc, z3.And(rr[0].value == 0, ex.load(rr[0].state, slotp, IntT(32)) == -1), site='GlobalTable:history-miss', replay=history_replay(n, True))
    ck.functions |= {'GlobalTable::AppendIfUnique', 'GlobalTable::GetAtSlotUnsafe', 'GlobalTable::GetByKeyUnsafe', 'GlobalTable::count'}
    ck.reach('history', cur.pc)
    return ck


def unit_history_long(tier, n):
    """sequential history across the first block boundary (15 objects per block): n registrations, then identical / case-changed re-registrations and lookups of entries on both sides of the boundary"""
    ck = Checker('history_long_n%d' % n, tier, timeout_s=30)
    S = Sys(1); ex = S.ex
    blk = ex.resolve(ex.resolve(NamedT('%"class.mujoco::GlobalTable"')).fields[0]); bsize = ex.struct_layout(blk)[1]
    def new_block(ex_, st, args, ins):
        p = st.alloc(bsize, ('block', len(st.objs)), default=ZERO); return p
    ex.stubs['_ZnwmSt11align_val_tRKSt9nothrow_t'] = new_block
    S.st.aux['extern_init'] = {'@_ZSt7nothrow': lambda e, s_, p_: None}
    keys = ['k%02d' % i for i in range(n)]
    vals = [[z3.BitVec('w%d_%d' % (k, i), 32) for i in range(3)] for k in range(n)]
    objs = [S.new_obj('obj%d' % k, keys[k], vals[k]) for k in range(n)]
    cur = S.st
    def call(st, fn, args):
        s2 = st.clone(); s2.aux['tid'] = 0; ex.is_shared = None
        return [r for r in ex.run(fn, args, s2) if r.kind in ('return', 'error')]
    for k in range(n):
        rr = call(cur, '@vf_append', [S.tab, objs[k]])
        if len(rr) != 1 or rr[0].kind != 'return': ck.error('registration %d: %s' % (k, [r.kind for r in rr])); return ck
        ck.prove('long history: registration %d gets slot %d' % (k, k), rr[0].state.pc, rr[0].value == k, site='GlobalTable:history-slot', replay=history_replay(n, False))
        cur = rr[0].state; cur.stack = []
    out = cur.alloc(S.L['osize'], 'out', default=ZERO); slotp = cur.alloc(4, 'slotp', default=ZERO)
    for k in sorted({0, 7, 14, 15, n - 1}):
        up = S.new_obj.__func__(S, 'dup%d' % k, keys[k].upper(), vals[k]) if False else None
        p = cur.alloc(S.L['osize'], 'dup%d' % k, default=ZERO); S.put_obj(cur, p, 0, keys[k].upper(), vals[k])
        rr = call(cur, '@vf_append', [S.tab, p])
        ck.prove('long history: re-registering an identical object (key in other case) of slot %d returns slot %d' % (k, k), rr[0].state.pc, z3.And(z3.BoolVal(rr[0].kind == 'return'), rr[0].value == k) if rr[0].kind == 'return' else z3.BoolVal(False),
                 site='GlobalTable:history-reregister', replay=history_replay(n, False))
        rr = call(cur, '@vf_lookup_slot', [S.tab, I(k), out]); key_, v = S.read_obj(rr[0].state, out)
        ck.prove('long history: slot %d holds object %d' % (k, k), rr[0].state.pc, z3.And(rr[0].value == 1, *[x == y for x, y in zip(v, vals[k])]), site='GlobalTable:history-lookup', replay=history_replay(n, False))
        qk = cur.alloc(8, 'q%d' % k, default=ZERO)
        for i, ch in enumerate(keys[k].upper().encode() + b'\0'): cur.objs[qk.obj].cells[i] = (z3.BitVecVal(ch, 8), 1)
        rr = call(cur, '@vf_lookup_key', [S.tab, qk, out, slotp]); sl = ex.load(rr[0].state, slotp, IntT(32))
        ck.prove('long history: lookup by name finds slot %d' % k, rr[0].state.pc, z3.And(rr[0].value == 1, sl == k), site='GlobalTable:history-key', replay=history_replay(n, False))
    rr = call(cur, '@vf_count', [S.tab])
    ck.prove('long history: count = %d after the re-registrations' % n, rr[0].state.pc, rr[0].value == n, site='GlobalTable:history-count', replay=history_replay(n, False))
    ck.functions |= {'GlobalTable::AppendIfUnique', 'GlobalTable::GetAtSlotUnsafe', 'GlobalTable::GetByKeyUnsafe', 'GlobalTable::count'}
    ck.reach('history', cur.pc)
    return ck


STRESS_CC = r'''
#include <thread>
#include <atomic>
#include <csignal>
#include <cstdio>
#include <cctype>
#include <unistd.h>
static void vf40_alarm(int) { _exit(99); }
extern "C" void mju_error(const char* msg, ...) { throw 1; }
// stall injection: the hook runs before every store / atomic access of this translation unit (inserted in the IR); thread `vf40_tid` sleeps before its k-th hook
static thread_local int vf40_me = -1, vf40_n = 0; static int vf40_tid = -1, vf40_k = 0, vf40_us = 0; static thread_local bool vf40_in = false;
extern "C" void vf_atomic_point() { if (vf40_in) return; vf40_in = true; if (vf40_me >= 0 && vf40_me == vf40_tid && ++vf40_n == vf40_k) usleep(vf40_us); vf40_in = false; }
// sequential histories on the real header: returns 0 if every slot / lookup is as documented, else a code
extern "C" int vf40_history(int n, int shortmode) {
  alignas(256) static unsigned char mem[sizeof(Table)]; memset(mem, 0, sizeof(mem)); Table* t = reinterpret_cast<Table*>(mem);
  static VfObj objs[64]; const char* shortkeys[4] = {"Abc", "xyz", "aBC", "Q"};
  int expect[64], distinct = 0;
  for (int k = 0; k < n; k++) {
    memset(&objs[k], 0, sizeof(VfObj));
    if (shortmode) strcpy(objs[k].key, shortkeys[k]); else snprintf(objs[k].key, 8, "k%02d", k);
    objs[k].a = 10 * k + 1; objs[k].b = 10 * k + 2; objs[k].c = 10 * k + 3;
    if (shortmode && k == 2) { objs[k].a = objs[0].a; objs[k].b = objs[0].b; objs[k].c = objs[0].c; }
    expect[k] = (shortmode && k == 2) ? 0 : distinct++;
    int s; try { s = vf_append(t, &objs[k]); } catch (int) { return 10; }
    if (s != expect[k]) return 11;
  }
  if (vf_count(t) != distinct) return 12;
  for (int k = 0; k < n; k++) {
    VfObj up = objs[k]; for (int i = 0; i < 8 && up.key[i]; i++) up.key[i] = (char)toupper(up.key[i]);
    int s; try { s = vf_append(t, &up); } catch (int) { return 13; }
    if (s != expect[k]) return 14;
    VfObj out; int sl = -7;
    if (!vf_lookup_slot(t, expect[k], &out) || out.a != objs[expect[k] == k || !shortmode ? k : 0].a) return 15;
    if (!vf_lookup_key(t, up.key, &out, &sl) || sl != expect[k]) return 16;
  }
  if (vf_count(t) != distinct) return 17;
  VfObj out; int sl;
  if (vf_lookup_slot(t, distinct, &out) || vf_lookup_slot(t, -1, &out) || vf_lookup_key(t, "nope", &out, &sl) || sl != -1) return 18;
  return 0;
}
// one run: mode 0 = writer + reader by slot, 1 = writer + reader by key, 2 = two writers. returns 0 ok, else a code
extern "C" int vf40_run(int mode, int stall_tid, int stall_k, int stall_us) {
  signal(SIGALRM, vf40_alarm); alarm(20);
  alignas(256) static unsigned char mem[sizeof(Table)]; memset(mem, 0, sizeof(mem)); Table* t = reinterpret_cast<Table*>(mem);
  static VfObj o1 = {"Abc", 11, 22, 33}, o2 = {"xyz", 7, 8, 9};
  vf40_tid = stall_tid; vf40_k = stall_k; vf40_us = stall_us;
  std::atomic<int> bad{0}, done{0}; int s1 = -2, s2 = -2;
  if (mode <= 1) {
    std::thread w([&] { vf40_me = 0; vf40_n = 0; s1 = vf_append(t, &o1); done = 1; });
    std::thread rd([&] { vf40_me = 1; vf40_n = 0; for (int k = 0; k < 4000000 && !bad; k++) { VfObj out; int sl = -5;
        int got = mode == 0 ? vf_lookup_slot(t, 0, &out) : vf_lookup_key(t, "aBC", &out, &sl);
        if (got && !(out.a == 11 && out.b == 22 && out.c == 33 && out.key[0] == 'A' && out.key[1] == 'b' && out.key[2] == 'c')) bad = 1;
        if (done.load() && got) break; } });
    w.join(); rd.join(); if (s1 != 0 && !bad) bad = 2;
  } else {
    std::thread w1([&] { vf40_me = 0; vf40_n = 0; try { s1 = vf_append(t, &o1); } catch (int) { s1 = -9; } }); std::thread w2([&] { vf40_me = 1; vf40_n = 0; try { s2 = vf_append(t, &o2); } catch (int) { s2 = -9; } });
    w1.join(); w2.join();
    if (!((s1 == 0 && s2 == 1) || (s1 == 1 && s2 == 0)) || vf_count(t) != 2) bad = 3;
  }
  alarm(0); return bad;
}
'''


def stress_so():
    if 'so' not in _c:
        import os
        wrapper = os.path.join(build.WORK, 'vf_table_wrap.cc'); os.makedirs(build.WORK, exist_ok=True)
        open(wrapper, 'w').write('#include "%s"\n' % HARNESS + STRESS_CC)
        _c['so'] = build.native_lib([wrapper], [], flags=['-I' + build.REPO + '/src'], name='table_stress', expose_static=False, hook_atomics='stores')
    return _c['so']


def stress_replay(kind):
    """a violating schedule preempts one thread between two of its memory accesses: natively, the real header runs on real threads while one thread is delayed
    before its k-th store / atomic access (hook inserted in the IR), sweeping thread and k"""
    def rp(model, witness):
        import ctypes
        so = stress_so(); mode = {'writer_reader': 0, 'writer_reader_key': 1, 'two_writers': 2}[kind]; tried = 0
        for tid in (0, 1):
            for k in range(1, 81):
                def child(tid=tid, k=k):
                    lib = ctypes.CDLL(so); return lib.vf40_run(mode, tid, k, 3000)
                r = W.run_child(child, timeout=30); tried += 1
                if (r[0] == 'ok' and r[1] != 0) or r[0] in ('crash', 'timeout'):
                    return True, {'stalled thread': tid, 'before its store/atomic access number': k, 'outcome': str(r)[:100] + ' (1: reader saw a partially registered object, 2/3: wrong slots or count, 99: hang)'}
        return False, {'stall sweep runs': tried}
    return rp


def history_replay(n, shortmode):
    """the same sequential history run natively on the real header with concrete payloads"""
    def rp(model, witness):
        import ctypes
        so = stress_so()
        def child():
            lib = ctypes.CDLL(so); return lib.vf40_history(n, int(shortmode))
        r = W.run_child(child, timeout=30)
        return (r[0] == 'ok' and r[1] != 0) or r[0] in ('crash', 'timeout'), {'native history result (0 = all slots and lookups as documented)': str(r)[:80]}
    return rp


def units(tier):
    u = [('writer_reader_slot_pre0', 'unit_writer_reader', {'by': 'slot', 'pre': 0}), ('writer_reader_key_pre0', 'unit_writer_reader', {'by': 'key', 'pre': 0}), ('writer_reader_slot_pre1', 'unit_writer_reader', {'by': 'slot', 'pre': 1}),
         ('two_writers_distinct', 'unit_two_writers', {'same_key': False, 'equal': False}), ('two_writers_same_eq', 'unit_two_writers', {'same_key': True, 'equal': True}), ('two_writers_same_ne', 'unit_two_writers', {'same_key': True, 'equal': False}),
         ('history_n3', 'unit_history', {'n': 3}), ('writer_reader_key_pre1', 'unit_writer_reader', {'by': 'key', 'pre': 1}), ('history_long_n17', 'unit_history_long', {'n': 17})]
    u += [('history_n4', 'unit_history', {'n': 4}), ('history_long_n31', 'unit_history_long', {'n': 31})]
    if tier != 'quick': u += [('history_long_n46', 'unit_history_long', {'n': 46})]
    return u
