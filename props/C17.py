"""C17 Constraint islands are connected components: union-find core (inductive step), island numbering, flood fill."""
import z3, itertools
from vf import ir, build, llsym, world as W
from vf.runner import Checker
from vf.irparse import IntT

ID = 'C17'
LEVEL = 'other'
TUS = ['src/engine/engine_island.c', 'src/engine/engine_util_misc.c', 'src/engine/engine_core_util.c']
EXPLANATION = ('Bounded symbolic execution (llsym, z3 bit-vectors) of the real LLVM IR of mj_dsuRoot/mj_dsuMerge/mj_dsuAssign/mj_floodFill. '
               'mj_dsuMerge is checked as ONE INDUCTIVE STEP from an arbitrary parent[] satisfying the representation invariant, so merge '
               'histories of any length over forests of the stated size are covered; mj_dsuAssign from any invariant state; mj_floodFill on '
               'every CSR graph within the bound. Counterexamples are replayed on the natively compiled engine_island.c.')
BOUNDS = {'quick': {'ntree': '<=4 (dsu), flood fill nr<=3 nnz<=4'}, 'thorough': {'ntree': '<=6 (dsu), flood fill nr<=4 nnz<=4'}}
OUTSIDE = 'mj_island map construction and unionConstraintTrees (the generic Jacobian scan of treeNext IS covered: dense and sparse rows over 4 trees of 1/2/1/2 dofs); the special-cased constraint types of treeIterInit; flex stiffness coupling; forests larger than the bound.'
ASSUMPTIONS = ['parent[] invariant: parent[t] = -1 or 0 <= parent[t] <= t with parent[parent[t]] != -1 (established by mj_island initialisation to -1 and preserved by mj_dsuMerge - the preservation is itself an obligation)',
               'mju_message(level ERROR) does not return (documented contract of error handlers)',
               'undef/poison values read as 0; x86-64 data layout']
BUDGET = {'quick': 400, 'thorough': 3000}

_cache = {}


def mod():
    if 'm' not in _cache: _cache['m'] = ir.load(TUS)
    return _cache['m']


def so():
    if 'so' not in _cache: _cache['so'] = build.native_lib(['src/engine/engine_island.c'], ['src/engine/engine_util_misc.c', 'src/engine/engine_util_errmem.c', 'src/engine/engine_core_util.c', 'src/engine/engine_util_blas.c', 'src/engine/engine_util_spatial.c'], name='island')
    return _cache['so']


def so_asan():
    if 'asan' not in _cache: _cache['asan'] = build.native_lib(['src/engine/engine_island.c'], ['src/engine/engine_util_misc.c', 'src/engine/engine_util_errmem.c'], name='island_asan', sanitize=True)
    return _cache['asan']


def prepare(tier):
    mod(); so()


def I(v): return z3.BitVecVal(v, 32)


def inv(parent, n):
    cs = []
    for t in range(n):
        p = parent[t]
        act_par = z3.Or(*[z3.And(p == k, parent[k] != -1) for k in range(t + 1)])
        cs.append(z3.Or(p == -1, z3.And(p >= 0, p <= t, act_par)))
    return z3.And(*cs)


def root_of(parent, t_idx, n):
    """root of tree t_idx (python int) under invariant: iterate n times; -1 if inactive"""
    def sel(arr, i):
        v = arr[n - 1]
        for k in range(n - 2, -1, -1): v = z3.If(i == k, arr[k], v)
        return v
    r = z3.If(parent[t_idx] == -1, I(-1), I(t_idx))
    for _ in range(n):
        nxt = sel(parent, r)
        r = z3.If(r == -1, r, nxt)
    return r


def unit_merge(tier, ntree):
    ck = Checker('merge_n%d' % ntree, tier, timeout_s=120)
    m = mod()
    def factory(pick=None):
        w = W.World()
        if pick: vals = None
        po, parent = w.arr('parent', 'i32', ntree)
        return w, po, parent
    w, po, parent = factory()
    t1, t2 = z3.BitVec('t1', 32), z3.BitVec('t2', 32)
    ex = llsym.Exec(m, loop_bound=2 * ntree + 2)
    st = w.to_state(ex)
    pre = [inv(parent, ntree), t1 >= -1, t1 < ntree, t2 >= -1, t2 < ntree]
    st.pc += pre
    res = ex.run('@mj_dsuMerge', [w.P(po), t1, t2], st)
    ck.note_results(ex, res)
    outs = lambda stt: [ex.load(stt, w.P(po, 4 * i), IntT(32)) for i in range(ntree)]
    args = [('ptr', (po, 0)), ('i32', t1), ('i32', t2)]
    w.syms += [('t1', 'i32', t1), ('t2', 'i32', t2)]
    dec = lambda mdl: {'parent': [W.evalnum(mdl, p) - (1 << 32) * (W.evalnum(mdl, p) >> 31) for p in parent],
                       't1': z3.simplify(z3.BV2Int(mdl.eval(t1, True), True)).as_long(), 't2': z3.simplify(z3.BV2Int(mdl.eval(t2, True), True)).as_long()}
    nret = 0
    for r in res:
        if r.kind == 'error':
            ck.prove('error only for (-1,-1)', r.state.pc, z3.And(t1 == -1, t2 == -1), site='mj_dsuMerge:error', decode=dec,
                     replay=W.make_replay(so(), 'mj_dsuMerge', w, args, expect='error'))
            continue
        if r.kind != 'return': continue
        nret += 1
        new = outs(r.state)
        rp = W.make_replay(so(), 'mj_dsuMerge', w, args, outputs=[('parent%d' % i, po, 4 * i, 'i32', new[i]) for i in range(ntree)])
        pc = r.state.pc
        a = z3.If(t1 == -1, t2, t1); b = z3.If(t2 == -1, t1, t2)
        ck.prove('never returns for (-1,-1)', pc, z3.Not(z3.And(t1 == -1, t2 == -1)), site='mj_dsuMerge:static-self', decode=dec, replay=rp)
        ck.prove('invariant preserved', pc, inv(new, ntree), site='mj_dsuMerge:invariant', decode=dec, replay=rp)
        # activated parent: old with a, b activated as singleton roots
        act = [z3.If(z3.And(parent[i] == -1, z3.Or(a == i, b == i)), I(i), parent[i]) for i in range(ntree)]
        oldr = [root_of(act, i, ntree) for i in range(ntree)]
        newr = [root_of(new, i, ntree) for i in range(ntree)]
        def sel(arr, idx):
            v = arr[ntree - 1]
            for k in range(ntree - 2, -1, -1): v = z3.If(idx == k, arr[k], v)
            return v
        ra, rb = sel(oldr, a), sel(oldr, b)
        mn = z3.If(ra < rb, ra, rb)
        for i in range(ntree):
            expect = z3.If(z3.Or(oldr[i] == ra, oldr[i] == rb), z3.If(oldr[i] == -1, I(-1), mn), oldr[i])
            ck.prove('classes: root(%d) after merge = union rule' % i, pc, newr[i] == expect, site='mj_dsuMerge:classes', decode=dec, replay=rp)
        ck.reach('merge path reachable', pc)
    ck.memory_obligations(res, replay=W.make_asan_replay(so_asan, [('mj_dsuMerge', args, 'void')], w), decode=dec)
    if nret == 0: ck.error('no returning path')
    # translator validation on concrete inputs
    def wf(pick):
        w2 = W.World()
        import random
        vals = []
        for t in range(ntree):
            c = [-1] + [k for k in range(t + 1) if k == t or vals[k] != -1]
            vals.append(c[int(pick('p', 'i32')) % len(c)])
        po2, _ = w2.arr('parent', 'i32', ntree, vals)
        a1 = int(pick('t', 'i32')) % (ntree + 1) - 1; a2 = int(pick('t', 'i32')) % ntree
        return w2, [('ptr', (po2, 0)), ('i32', a1), ('i32', a2)], [('parent%d' % i, po2, 4 * i, 'i32') for i in range(ntree)]
    W.selfcheck_concrete(ck, 'mj_dsuMerge', lambda: llsym.Exec(m, loop_bound=2 * ntree + 2), 'mj_dsuMerge', wf, so(), seeds=(1, 2, 3, 4))
    return ck


def unit_assign(tier, ntree):
    ck = Checker('assign_n%d' % ntree, tier, timeout_s=120)
    m = mod()
    w = W.World()
    po, parent = w.arr('parent', 'i32', ntree)
    io, island0 = w.arr('island', 'i32', ntree)
    do, dofnum = w.arr('dofnum', 'i32', ntree)
    no, _ = w.arr('nidof', 'i32', 1)
    ex = llsym.Exec(m, loop_bound=ntree + 2)
    st = w.to_state(ex)
    st.pc += [inv(parent, ntree)] + [z3.And(d >= 0, d <= 6) for d in dofnum]
    res = ex.run('@mj_dsuAssign', [w.P(io), w.P(po), w.P(do), I(ntree), w.P(no)], st)
    ck.note_results(ex, res)
    args = [('ptr', (io, 0)), ('ptr', (po, 0)), ('ptr', (do, 0)), ('i32', ntree), ('ptr', (no, 0))]
    for r in res:
        if r.kind != 'return': continue
        pc = r.state.pc
        isl = [ex.load(r.state, w.P(io, 4 * i), IntT(32)) for i in range(ntree)]
        nid = ex.load(r.state, w.P(no, 0), IntT(32))
        outputs = [('island%d' % i, io, 4 * i, 'i32', isl[i]) for i in range(ntree)] + [('nidof', no, 0, 'i32', nid)]
        rp = W.make_replay(so(), 'mj_dsuAssign', w, args, restype='i32', outputs=outputs, ret_term=r.value)
        dec = lambda mdl: {'parent': [W.evalnum(mdl, p) for p in parent], 'dofnum': [W.evalnum(mdl, p) for p in dofnum]}
        roots = [root_of(parent, i, ntree) for i in range(ntree)]
        # number of roots
        nroots = sum([z3.If(roots[i] == i, I(1), I(0)) for i in range(ntree)], I(0))
        ck.prove('returns number of islands', pc, r.value == nroots, site='mj_dsuAssign:count', decode=dec, replay=rp)
        for i in range(ntree):
            # island id of a root = number of roots with smaller index (ascending order of smallest tree)
            rank = sum([z3.If(roots[k] == k, I(1), I(0)) for k in range(i)], I(0))
            ck.prove('root %d numbered in ascending order' % i, pc, z3.Implies(roots[i] == i, isl[i] == rank), site='mj_dsuAssign:order', decode=dec, replay=rp)
            ck.prove('inactive tree %d has island -1' % i, pc, (parent[i] == -1) == (isl[i] == -1), site='mj_dsuAssign:inactive', decode=dec, replay=rp)
            for k in range(i):
                ck.prove('tree %d follows its root %d' % (i, k), pc, z3.Implies(roots[i] == k, isl[i] == isl[k]), site='mj_dsuAssign:follow', decode=dec, replay=rp)
        tot = sum([z3.If(parent[i] != -1, dofnum[i], I(0)) for i in range(ntree)], I(0))
        ck.prove('nidof = sum of dofnum over active trees', pc, nid == tot, site='mj_dsuAssign:nidof', decode=dec, replay=rp)
        ck.reach('assign path', pc)
    ck.memory_obligations(res, replay=W.make_asan_replay(so_asan, [('mj_dsuAssign', args, 'i32')], w))
    return ck


def unit_flood(tier, nr, nnz):
    """mj_floodFill on every CSR adjacency structure with nr vertices and nnz stored entries (symmetric)"""
    ck = Checker('flood_nr%d_nnz%d' % (nr, nnz), tier, timeout_s=120)
    m = mod()
    w = W.World()
    io, _ = w.arr('island', 'i32', nr, [7] * nr)
    rn, rownnz = w.arr('rownnz', 'i32', nr)
    ra, rowadr = w.arr('rowadr', 'i32', nr)
    co, colind = w.arr('colind', 'i32', nnz)
    so_, _ = w.arr('stack', 'i32', nnz, [0] * nnz)
    ex = llsym.Exec(m, loop_bound=nnz + nr + 3)
    st = w.to_state(ex)
    pre = [z3.And(c >= 0, c < nr) for c in colind] + [z3.And(x >= 0, x <= nnz) for x in rownnz]
    # compressed layout: rowadr = prefix sums, total = nnz
    acc = I(0)
    for i in range(nr):
        pre.append(rowadr[i] == acc); acc = acc + rownnz[i]
    pre.append(acc == nnz)
    # adjacency as boolean matrix
    def adj(i, j):
        return z3.Or(*[z3.And(rowadr[i] <= k, k < rowadr[i] + rownnz[i], colind[k] == j) for k in range(nnz)]) if nnz else z3.BoolVal(False)
    A = [[adj(i, j) for j in range(nr)] for i in range(nr)]
    for i in range(nr):
        for j in range(nr): pre.append(A[i][j] == A[j][i])     # documented: symmetric
    st.pc += pre
    res = ex.run('@mj_floodFill', [w.P(io), I(nr), w.P(rn), w.P(ra), w.P(co), w.P(so_)], st)
    ck.note_results(ex, res)
    # reachability closure (Warshall, nr steps)
    R = [[z3.Or(A[i][j], i == j) if i != j else z3.BoolVal(True) for j in range(nr)] for i in range(nr)]
    for k in range(nr):
        R = [[z3.Or(R[i][j], z3.And(R[i][k], R[k][j])) for j in range(nr)] for i in range(nr)]
    args = [('ptr', (io, 0)), ('i32', nr), ('ptr', (rn, 0)), ('ptr', (ra, 0)), ('ptr', (co, 0)), ('ptr', (so_, 0))]
    dec = lambda mdl: {'rownnz': [W.evalnum(mdl, p) for p in rownnz], 'colind': [W.evalnum(mdl, p) for p in colind]}
    for r in res:
        if r.kind != 'return': continue
        pc = r.state.pc
        isl = [ex.load(r.state, w.P(io, 4 * i), IntT(32)) for i in range(nr)]
        rp = W.make_replay(so(), 'mj_floodFill', w, args, restype='i32', outputs=[('island%d' % i, io, 4 * i, 'i32', isl[i]) for i in range(nr)], ret_term=r.value)
        for i in range(nr):
            ck.prove('vertex %d: island -1 iff no edges' % i, pc, (isl[i] == -1) == (rownnz[i] == 0), site='mj_floodFill:singleton', decode=dec, replay=rp)
            for j in range(i):
                ck.prove('vertices %d,%d same island iff connected' % (j, i), pc,
                         z3.Implies(z3.And(rownnz[i] != 0, rownnz[j] != 0), (isl[i] == isl[j]) == R[i][j]), site='mj_floodFill:components', decode=dec, replay=rp)
            first = z3.And(rownnz[i] != 0, *[z3.Or(rownnz[k] == 0, z3.Not(R[i][k])) for k in range(i)])
            rank = sum([z3.If(z3.And(rownnz[k] != 0, *[z3.Or(rownnz[q] == 0, z3.Not(R[k][q])) for q in range(k)]), I(1), I(0)) for k in range(i)], I(0))
            ck.prove('vertex %d: ids ascending by smallest vertex' % i, pc, z3.Implies(first, isl[i] == rank), site='mj_floodFill:order', decode=dec, replay=rp)
    ck.reach('precondition satisfiable', pre)
    ck.memory_obligations(res, replay=W.make_asan_replay(so_asan, [('mj_floodFill', args, 'i32')], w), decode=dec)
    return ck


def unit_treenext(tier, sparse):
    """generic Jacobian scan of treeNext: called repeatedly, it returns exactly the trees that own a non-zero entry of constraint row i, each once, in dof order, then -2"""
    ck = Checker('treeNext_%s' % ('sparse' if sparse else 'dense'), tier, timeout_s=120, semantics='real')
    from vf.irparse import NamedT, FpT
    L = build.Layout(); KJ = build.enum_values('mjJAC_')
    w = W.World('real')
    dofnum = [1, 2, 1, 2]; ntree = 4; nv = sum(dofnum); dofadr = [sum(dofnum[:t]) for t in range(ntree)]
    treeid = [t for t in range(ntree) for _ in range(dofnum[t])]
    M = W.SB(w, L, 'mjModel_', 'm', zero=True); D = W.SB(w, L, 'mjData_', 'd', zero=True)
    M.set('nv', nv); M.set('ntree', ntree); M.set('opt.jacobian', KJ['mjJAC_SPARSE'] if sparse else KJ['mjJAC_DENSE'])
    M.arr('dof_treeid', 'i32', nv, treeid); M.arr('tree_dofadr', 'i32', ntree, dofadr); M.arr('tree_dofnum', 'i32', ntree, dofnum)
    row = 1      # the constraint row under test is row 1 of a 2-row Jacobian
    pre = []
    if sparse:
        nnz = z3.BitVec('nnz', 32); w.syms.append(('nnz', 'i32', nnz))
        D.arr('efc_J_rownnz', 'i32', 2, [I(0), nnz]); D.arr('efc_J_rowadr', 'i32', 2, [0, 1])
        co, col = D.arr('efc_J_colind', 'i32', 1 + nv, name='colind')
        pre += [nnz >= 0, nnz <= nv] + [z3.And(col[1 + k] >= 0, col[1 + k] < nv) for k in range(nv)] + [col[1 + k] < col[2 + k] for k in range(nv - 1)]
        present = [z3.Or(*[z3.And(nnz > k, col[1 + k] == dof) for k in range(nv)]) for dof in range(nv)]
    else:
        jo, J = D.arr('efc_J', 'f64', 2 * nv, name='J')
        present = [J[nv * row + dof] != 0 for dof in range(nv)]
    ex = llsym.Exec(mod(), fpmode='real', loop_bound=4 * nv + 8)
    it_t = ex.resolve(NamedT('%struct.mjTreeIter')); offs, isz, _ = ex.struct_layout(it_t)
    io = w.obj('iter', isz)
    io.put(offs[0], 'i32', -2); io.put(offs[0] + 4, 'i32', -2); io.put(offs[1], 'i32', 0); io.put(offs[2], 'i32', -1)
    st = w.to_state(ex); st.pc += pre
    has = [z3.Or(*[present[d] for d in range(dofadr[t], dofadr[t] + dofnum[t])]) for t in range(ntree)]
    # expected k-th answer: the k-th tree (ascending) that owns an entry, else -2
    def kth(k):
        out = I(-2)
        for t in reversed(range(ntree)):
            before = sum([z3.If(has[u], 1, 0) for u in range(t)], z3.IntVal(0))
            out = z3.If(z3.And(has[t], before == k), I(t), out)
        return out
    states = [(st, [])]
    for k in range(ntree + 1):
        nxt = []
        for cur, seq in states:
            res = ex.run('@treeNext', [w.P(M.o), w.P(D.o), I(row), w.P(io)], cur.clone()); ck.note_results(ex, res)
            for r in res:
                if r.kind != 'return': continue
                r.state.stack = []; nxt.append((r.state, seq + [r.value]))
        states = nxt
    dec = (lambda mdl: {'nnz': W.evalnum(mdl, nnz), 'colind': [W.evalnum(mdl, c) for c in col[1:]]}) if sparse else (lambda mdl: {'J row': [str(W.evalnum(mdl, x)) for x in J[nv * row:nv * row + nv]]})
    def native(model, witness):
        import ctypes
        vals = w.concretise(model)
        def child():
            lib = W.load_lib(so()); nw = W.NativeWorld(w, vals); out = []
            lib.treeNext.restype = ctypes.c_int
            for _ in range(ntree + 1): out.append(lib.treeNext(ctypes.c_void_p(nw.addr(M.o)), ctypes.c_void_p(nw.addr(D.o)), ctypes.c_int(row), ctypes.c_void_p(nw.addr(io))))
            return out
        r = W.run_child(child, timeout=30)
        if r[0] != 'ok': return False, {'native': str(r)[:200]}
        if sparse:
            n_ = int(W.evalnum(model, nnz)); cols = [int(W.evalnum(model, c)) for c in col[1:1 + n_]]; owners = sorted(set(treeid[c] for c in cols))
        else:
            owners = sorted(set(treeid[dd] for dd in range(nv) if float(W.evalnum(model, J[nv * row + dd])) != 0.0))
        want = owners + [-2] * (ntree + 1 - len(owners))
        return (list(r[1]) != want), {'native sequence': list(r[1]), 'trees owning an entry': want}
    for cur, seq in states:
        ck.prove('treeNext called %d times returns the trees owning a non-zero entry of the row, ascending, each once, then -2' % (ntree + 1), cur.pc, z3.And(*[seq[k] == kth(k) for k in range(ntree + 1)]),
                 site='treeNext:scan-%s' % ('sparse' if sparse else 'dense'), decode=dec, replay=native)
    ck.selfcheck('paths', len(states) > 1, len(states))
    ck.reach('two adjacent trees coupled through their first dofs', pre + [has[0], has[1]])
    return ck


def units(tier):
    u = []
    ns = [2, 3, 4] if tier == 'quick' else [2, 3, 4, 5, 6]
    for n in ns:
        u.append(('merge_n%d' % n, 'unit_merge', {'ntree': n}))
        u.append(('assign_n%d' % n, 'unit_assign', {'ntree': n}))
    fl = [(2, 2), (3, 2), (3, 4)] if tier == 'quick' else [(2, 2), (3, 2), (3, 4), (4, 4)]      # (4, 6) does not finish within 3000 s
    for nr, nnz in fl:
        u.append(('flood_nr%d_nnz%d' % (nr, nnz), 'unit_flood', {'nr': nr, 'nnz': nnz}))
    u += [('treeNext_dense', 'unit_treenext', {'sparse': False}), ('treeNext_sparse', 'unit_treenext', {'sparse': True})]
    return u
