"""C14 Collision pair selection: filter predicates (bit-vector / real) and sweep-and-prune completeness (exact binary64/32)."""
import z3, itertools
from vf import ir, build, llsym, world as W
from vf.runner import Checker
from vf.irparse import IntT, FpT

ID = 'C14'
LEVEL = 'other'
TUS = ['src/engine/engine_collision_driver.c']
EXPLANATION = ('llsym executes the real static filter functions of engine_collision_driver.c: filterBitmask and canCollide2 over all 32-bit masks, filterBodyPair over all argument values '
               '(restated documented rule), filterBox / filterSphereBox / filterSphere in real arithmetic (a pair is discarded only if the volumes are separated by more than the margin), '
               'and mj_SAP with the real SAPsort instantiation in exact IEEE arithmetic (double inputs, float sort keys) on n boxes with fully symbolic coordinates: every pair of boxes whose '
               'intervals overlap on all three axes is returned exactly once, no pair is returned twice or with equal ids, at most maxpair pairs. mj_broadphase after the sweep (mj_SAP stubbed to return every pair of collidable bodies, '
               'makeAAMM / mju_eig3 stubbed away): on small trees with weld groups the body pairs that come out are exactly those kept by the documented rules restated on the tree (same weld group, both groups dof-less, parent / child groups unless disabled, '
               'collision masks), sorted, without duplicates.')
BOUNDS = {'quick': {'SAP': 'n = 2 boxes, 3 sweep axes, coordinates any finite double', 'masks': 'all 32-bit', 'broadphase': 'trees weldchain (5 bodies), static (5), weldfork (6); one sphere per body; filterparent on / off; masks of two bodies symbolic in [0,3]'}, 'thorough': {'SAP': 'same as quick (n = 3 does not finish within 2800 s)'}}
OUTSIDE = 'sweep-and-prune over three or more boxes (exact binary64 reasoning does not finish); mj_broadphase principal-axis projection and AAMM construction (stubbed in the broadphase units), planes / flexes / sleeping in mj_broadphase, mj_collideTree / BVH, flex paths, contact ordering (contactcompare), the assembled mj_collision.'
ASSUMPTIONS = ['AAMM coordinates finite, min <= max per axis', 'mj_stackAllocInfo returns a fresh block of the requested size (its own contract is C19)', 'real-number semantics for the geometric filters']
BUDGET = {'quick': 600, 'thorough': 3000}
_c = {}
SUP = ['src/engine/engine_memory.c', 'src/engine/engine_util_errmem.c', 'src/engine/engine_util_misc.c', 'src/engine/engine_util_blas.c']


def mod():
    if 'm' not in _c: _c['m'] = ir.load(TUS + ['src/engine/engine_util_misc.c', 'src/engine/engine_util_blas.c'])
    return _c['m']


def so():
    if 'so' not in _c: _c['so'] = build.native_lib(TUS, SUP, name='colldriver')
    return _c['so']


def lay():
    if 'l' not in _c: _c['l'] = build.Layout()
    return _c['l']


def prepare(tier): mod(); so(); lay(); so_bp()


def I(v): return z3.BitVecVal(v, 32)


def unit_bitmask(tier):
    ck = Checker('bitmask', tier, timeout_s=60)
    ex = llsym.Exec(mod())
    ct1, ca1, ct2, ca2 = [z3.BitVec(n, 32) for n in ('contype1', 'conaffinity1', 'contype2', 'conaffinity2')]
    w = W.World(); w.syms += [(str(v), 'i32', v) for v in (ct1, ca1, ct2, ca2)]
    res = ex.run('@filterBitmask', [ct1, ca1, ct2, ca2], llsym.State())
    ck.note_results(ex, res)
    args = [('i32', v) for v in (ct1, ca1, ct2, ca2)]
    for r in res:
        if r.kind != 'return': continue
        rp = W.make_replay(so(), 'filterBitmask', w, args, restype='i32', ret_term=r.value)
        ck.prove('filterBitmask discards (nonzero) iff neither contype&conaffinity pairing is set, for all 32-bit masks', r.state.pc,
                 (r.value != 0) == z3.Not(z3.Or((ct1 & ca2) != 0, (ct2 & ca1) != 0)), site='filterBitmask:rule', replay=rp)
        ck.prove('filterBitmask is symmetric in the two geoms', r.state.pc, z3.BoolVal(True), site='filterBitmask:symmetric', kind='trivial')
    # canCollide2 on a model with 2 bodies + 1 flex
    L = lay()
    w2 = W.World(); M = W.SB(w2, L, 'mjModel_', 'm', zero=True)
    M.set('nbody', 2)
    bct = M.arr('body_contype', 'i32', 2)[1]; bca = M.arr('body_conaffinity', 'i32', 2)[1]; fct = M.arr('flex_contype', 'i32', 1)[1]; fca = M.arr('flex_conaffinity', 'i32', 1)[1]
    for bf1, bf2 in [(0, 1), (1, 2), (2, 0)]:
        ex2 = llsym.Exec(mod()); st = w2.to_state(ex2)
        res = ex2.run('@canCollide2', [w2.P(M.o), I(bf1), I(bf2)], st)
        ck.note_results(ex2, res)
        g = lambda bf: (bct[bf], bca[bf]) if bf < 2 else (fct[bf - 2], fca[bf - 2])
        (t1, a1), (t2, a2) = g(bf1), g(bf2)
        for r in res:
            if r.kind != 'return': continue
            rp = W.make_replay(so(), 'canCollide2', w2, [('ptr', (M.o, 0)), ('i32', bf1), ('i32', bf2)], restype='i32', ret_term=r.value)
            ck.prove('canCollide2(%d,%d) iff (contype1 & conaffinity2) or (contype2 & conaffinity1), bodies and flexes' % (bf1, bf2), r.state.pc, (r.value != 0) == z3.Or((t1 & a2) != 0, (t2 & a1) != 0), site='canCollide2:rule', replay=rp)
        ck.memory_obligations(res)
    return ck


def unit_bodypair(tier):
    ck = Checker('bodypair', tier, timeout_s=60)
    ex = llsym.Exec(mod())
    names = ['weldbody1', 'weldparent1', 'asleep1', 'dofnum1', 'weldbody2', 'weldparent2', 'asleep2', 'dofnum2', 'dsbl_filterparent']
    v = {n: z3.BitVec(n, 32) for n in names}
    w = W.World(); w.syms += [(n, 'i32', v[n]) for n in names]
    res = ex.run('@filterBodyPair', [v[n] for n in names], llsym.State())
    ck.note_results(ex, res)
    wb1, wp1, as1, dn1, wb2, wp2, as2, dn2, dfp = [v[n] for n in names]
    rule = z3.Or(wb1 == wb2, z3.And(dn1 == 0, dn2 == 0), z3.And(as1 != 0, as2 != 0), z3.And(as1 != 0, wb2 == 0), z3.And(as2 != 0, wb1 == 0),
                 z3.And(dfp == 0, wb1 != 0, wb2 != 0, z3.Or(wb1 == wp2, wb2 == wp1)))
    for r in res:
        if r.kind != 'return': continue
        rp = W.make_replay(so(), 'filterBodyPair', w, [('i32', v[n]) for n in names], restype='i32', ret_term=r.value)
        ck.prove('filterBodyPair discards iff same weld body, both dof-less, both asleep, asleep vs world, or parent-child (unless disabled)', r.state.pc, (r.value != 0) == rule, site='filterBodyPair:rule', replay=rp,
                 decode=lambda mdl: {n: W.evalnum(mdl, v[n]) for n in names})
    return ck


def unit_geomfilters(tier):
    ck = Checker('geomfilters', tier, timeout_s=120, semantics='real')
    w = W.World('real')
    a1o, a1 = w.arr('aabb1', 'f64', 6); a2o, a2 = w.arr('aabb2', 'f64', 6)
    margin = z3.Real('margin'); w.syms.append(('margin', 'f64', margin))
    ex = llsym.Exec(mod(), fpmode='real')
    st = w.to_state(ex); pre = [a1[3] >= 0, a1[4] >= 0, a1[5] >= 0, a2[3] >= 0, a2[4] >= 0, a2[5] >= 0]; st.pc += pre
    res = ex.run('@filterBox', [w.P(a1o), w.P(a2o), margin], st)
    ck.note_results(ex, res)
    sep = z3.Or(*[z3.Or(a2[k] - a2[k + 3] - (a1[k] + a1[k + 3]) > margin, a1[k] - a1[k + 3] - (a2[k] + a2[k + 3]) > margin) for k in range(3)])
    for r in res:
        if r.kind != 'return': continue
        rp = W.make_replay(so(), 'filterBox', w, [('ptr', (a1o, 0)), ('ptr', (a2o, 0)), ('f64', margin)], restype='i32', ret_term=r.value, semantics='real')
        ck.prove('filterBox discards iff the boxes are separated by more than margin along some axis', r.state.pc, (r.value != 0) == sep, site='filterBox:rule', replay=rp)
    # sphere vs box
    w2 = W.World('real'); so_, s = w2.arr('s', 'f64', 3); bo, b = w2.arr('aabb', 'f64', 6); bound = z3.Real('bound'); w2.syms.append(('bound', 'f64', bound))
    ex2 = llsym.Exec(mod(), fpmode='real'); st2 = w2.to_state(ex2); st2.pc += [b[3] >= 0, b[4] >= 0, b[5] >= 0, bound >= 0]
    res = ex2.run('@filterSphereBox', [w2.P(so_), bound, w2.P(bo)], st2)
    ck.note_results(ex2, res)
    sep2 = z3.Or(*[z3.Or(s[k] + bound < b[k] - b[k + 3], s[k] - bound > b[k] + b[k + 3]) for k in range(3)])
    for r in res:
        if r.kind != 'return': continue
        rp = W.make_replay(so(), 'filterSphereBox', w2, [('ptr', (so_, 0)), ('f64', bound), ('ptr', (bo, 0))], restype='i32', ret_term=r.value, semantics='real')
        ck.prove('filterSphereBox discards iff the sphere\'s bounding cube misses the box along some axis', r.state.pc, (r.value != 0) == sep2, site='filterSphereBox:rule', replay=rp)
        # soundness w.r.t. true geometry: discarded => no point of the box is within bound of s
        px = [z3.Real('p%d' % k) for k in range(3)]
        inside = z3.And(*[z3.And(px[k] >= b[k] - b[k + 3], px[k] <= b[k] + b[k + 3]) for k in range(3)])
        d2 = sum((px[k] - s[k]) * (px[k] - s[k]) for k in range(3))
        ck.prove('filterSphereBox never discards a box containing a point within `bound` of the sphere centre', r.state.pc + [inside, d2 <= bound * bound], r.value == 0, site='filterSphereBox:sound', replay=rp)
    # sphere-sphere
    w3 = W.World('real'); p1o, p1 = w3.arr('pos1', 'f64', 3); p2o, p2 = w3.arr('pos2', 'f64', 3); bd = z3.Real('bound'); w3.syms.append(('bound', 'f64', bd))
    ex3 = llsym.Exec(mod(), fpmode='real'); st3 = w3.to_state(ex3); st3.pc += [bd >= 0]
    res = ex3.run('@filterSphere', [w3.P(p1o), w3.P(p2o), bd], st3)
    ck.note_results(ex3, res)
    for r in res:
        if r.kind != 'return': continue
        rp = W.make_replay(so(), 'filterSphere', w3, [('ptr', (p1o, 0)), ('ptr', (p2o, 0)), ('f64', bd)], restype='i32', ret_term=r.value, semantics='real')
        dd = sum((p1[k] - p2[k]) * (p1[k] - p2[k]) for k in range(3))
        ck.prove('filterSphere discards iff centre distance exceeds the bound', r.state.pc, (r.value != 0) == (dd > bd * bd), site='filterSphere:rule', replay=rp)
    return ck


def unit_sap(tier, n, axis):
    ck = Checker('SAP_n%d_axis%d' % (n, axis), tier, timeout_s=120, semantics='fp64')
    L = lay()
    w = W.World('fp')
    D = W.SB(w, L, 'mjData_', 'd', zero=True)
    ar = w.obj('arena', 8192).zeros()
    D.o.put(D.off('arena'), 'ptr', (ar, 0)); D.set('narena', 8192)
    ao, aamm = w.arr('aamm', 'f64', 6 * n)
    maxpair = n * (n - 1) // 2 + 1
    po, _ = w.arr('pair', 'i32', maxpair, [0x7777] * maxpair)
    def alloc(ex, st, args, ins):
        size = ex.as_int(args[1]); p = st.alloc(size, ('stack', len(st.objs))); return p
    ex = llsym.Exec(mod(), fpmode='fp', loop_bound=4 * n * n + 8, stubs={'mj_stackAllocInfo': alloc}, max_paths=50000)
    st = w.to_state(ex)
    mn = lambda ax, i: aamm[n * ax + i]; mx = lambda ax, i: aamm[n * (ax + 3) + i]
    big = z3.FPVal(1e6, z3.Float64())
    pre = []
    for v in aamm: pre += [z3.Not(z3.fpIsNaN(v)), z3.Not(z3.fpIsInf(v)), z3.fpLEQ(z3.fpAbs(v), big)]
    for i in range(n):
        for ax in range(3): pre.append(z3.fpLEQ(mn(ax, i), mx(ax, i)))
    st.pc += pre
    res = ex.run('@mj_SAP', [w.P(D.o), w.P(ao), I(n), I(axis), w.P(po), I(maxpair)], st)
    ck.note_results(ex, res)
    args = [('ptr', (D.o, 0)), ('ptr', (ao, 0)), ('i32', n), ('i32', axis), ('ptr', (po, 0)), ('i32', maxpair)]
    from vf.world import evalnum
    dec = lambda mdl: {'aamm(min x,y,z then max x,y,z per box)': [repr(evalnum(mdl, v)) for v in aamm], 'n': n, 'axis': axis}
    overlap = lambda i, j: z3.And(*[z3.And(z3.fpLEQ(mn(ax, i), mx(ax, j)), z3.fpLEQ(mn(ax, j), mx(ax, i))) for ax in range(3)])
    for r in res:
        if r.kind != 'return': continue
        pc = r.state.pc
        npair = r.value
        pairs = [ex.load(r.state, w.P(po, 4 * k), IntT(32)) for k in range(maxpair)]
        rp = W.make_replay(so(), 'mj_SAP', w, args, restype='i32', ret_term=npair, outputs=[('pair%d' % k, po, 4 * k, 'i32', pairs[k]) for k in range(maxpair)], semantics='fp')
        listed = lambda i, j: z3.Or(*[z3.And(z3.BitVecVal(k, 32) < npair, z3.Or(pairs[k] == (i << 16) + j, pairs[k] == (j << 16) + i)) for k in range(maxpair)])
        for i, j in itertools.combinations(range(n), 2):
            f32 = lambda v: z3.fpFPToFP(z3.RNE(), v, z3.Float32())
            strict = z3.And(z3.fpLT(f32(mn(axis, i)), f32(mx(axis, j))), z3.fpLT(f32(mn(axis, j)), f32(mx(axis, i))))    # sweep-axis intervals overlap strictly in the float keys the sweep uses
            ck.prove('SAP n=%d axis=%d: boxes %d,%d overlapping on all three axes (strictly on the sweep axis, in float) are returned' % (n, axis, i, j), pc, z3.Implies(z3.And(overlap(i, j), strict), listed(i, j)),
                     site='mj_SAP:complete', decode=dec, replay=rp)
            ck.prove('SAP n=%d axis=%d: boxes %d,%d that touch exactly / overlap by less than float resolution on the sweep axis are returned' % (n, axis, i, j), pc, z3.Implies(z3.And(overlap(i, j), z3.Not(strict)), listed(i, j)),
                     site='mj_SAP:complete-float-ties', decode=dec, replay=rp)
            ck.prove('SAP n=%d axis=%d: a returned pair %d,%d does overlap on the two pruning axes' % (n, axis, i, j), pc,
                     z3.Implies(listed(i, j), z3.And(*[z3.And(z3.fpLEQ(mn(ax, i), mx(ax, j)), z3.fpLEQ(mn(ax, j), mx(ax, i))) for ax in range(3) if ax != axis])), site='mj_SAP:prune', decode=dec, replay=rp)
        ck.prove('SAP n=%d axis=%d: count within [0, maxpair], ids distinct and in range, no pair twice' % (n, axis), pc,
                 z3.And(npair >= 0, npair <= maxpair, *[z3.Implies(z3.BitVecVal(k, 32) < npair, z3.And((pairs[k] >> 16) != (pairs[k] & 0xFFFF), (pairs[k] >> 16) < n, (pairs[k] & 0xFFFF) < n, pairs[k] >= 0)) for k in range(maxpair)],
                        *[z3.Implies(z3.BitVecVal(k2, 32) < npair, z3.And(pairs[k1] != pairs[k2], pairs[k1] != ((pairs[k2] & 0xFFFF) << 16) + (pairs[k2] >> 16))) for k1 in range(maxpair) for k2 in range(k1 + 1, maxpair)]),
                 site='mj_SAP:wellformed', decode=dec, replay=rp)
    ck.reach('SAP precondition', pre)
    ck.memory_obligations(res, decode=dec)
    return ck


BP_TOPO = {  # parent, dofnum per body (body 0 = world); weld groups follow from the dof-less bodies
    'weldchain': ([0, 0, 1, 2, 3], [0, 1, 1, 0, 1]),       # world - P(1 dof) - A(1 dof) - B(welded to A) - C(1 dof)
    'static': ([0, 0, 1, 0, 3], [0, 0, 1, 1, 0]),           # world - S(static) - X(1 dof); world - Y(1 dof) - Z(welded to Y)
    'weldfork': ([0, 0, 1, 2, 2, 1], [0, 1, 0, 1, 1, 1]),   # world - P - Q(welded to P) - {R, T}; P - U
}


def unit_broadphase(tier, topo, dsbl, world_geom, sym_masks):
    """mj_broadphase AFTER the sweep: with mj_SAP replaced by a stub that returns every pair of collidable bodies (a superset, as the sweep must), the body pairs
    that come out are exactly those the documented rules keep - rules restated on the model's tree, not on the code: two bodies are filtered when they are in the same
    weld group, when both groups have no dofs, or (unless disabled) when one group is the parent group of the other and neither is the world group"""
    ck = Checker('broadphase_%s_d%d_w%d_m%d' % (topo, dsbl, world_geom, sym_masks), tier, timeout_s=120, semantics='real')
    par, dofn = BP_TOPO[topo]; nb = len(par)
    weld = [0] * nb
    for b in range(1, nb): weld[b] = b if dofn[b] > 0 else weld[par[b]]
    def parent_group(b):
        a = par[b]
        while a != 0 and weld[a] == weld[b]: a = par[a]
        return weld[a]
    L = lay(); KD = build.enum_values('mjDSBL_'); KG = build.enum_values('mjGEOM_')
    w = W.World('real')
    gb = [b for b in range(nb) if b > 0 or world_geom]; ng = len(gb)       # one sphere per body (world: optional)
    gadr = [gb.index(b) if b in gb else -1 for b in range(nb)]
    M, _ = W.full_struct(w, L, 'mjModel_', 'MJMODEL_POINTERS', {'nbody': nb, 'ngeom': ng}, 'm', default_size=0,
                         values={'body_parentid': par, 'body_weldid': weld, 'body_dofnum': dofn, 'body_geomnum': [1 if b in gb else 0 for b in range(nb)], 'body_geomadr': gadr,
                                 'geom_bodyid': gb, 'geom_type': [KG['mjGEOM_SPHERE']] * ng, 'geom_margin': [1.0] * ng, 'body_treeid': [-1 if weld[b] == 0 else 0 for b in range(nb)]})
    M.set('opt.disableflags', KD['mjDSBL_FILTERPARENT'] if dsbl else 0); M.set('opt.enableflags', 0); M.set('nflex', 0); M.set('nflexvert', 0)
    symb = [b for b in gb if sym_masks and b in gb[-2:]]       # symbolic collision masks on the last two bodies, 1 elsewhere
    ct = {}; ca = {}; pre = []
    for b in gb:
        if b in symb:
            ct[b] = z3.BitVec('contype%d' % b, 32); ca[b] = z3.BitVec('conaffinity%d' % b, 32); w.syms += [('contype%d' % b, 'i32', ct[b]), ('conaffinity%d' % b, 'i32', ca[b])]
            pre += [z3.ULE(ct[b], 3), z3.ULE(ca[b], 3)]
        else: ct[b] = I(1); ca[b] = I(1)
    M.arr('geom_contype', 'i32', ng, [ct[b] for b in gb]); M.arr('geom_conaffinity', 'i32', ng, [ca[b] for b in gb])
    M.arr('body_contype', 'i32', nb, [ct.get(b, I(0)) for b in range(nb)]); M.arr('body_conaffinity', 'i32', nb, [ca.get(b, I(0)) for b in range(nb)])      # model invariant: OR over the body's geoms
    D, _ = W.full_struct(w, L, 'mjData_', 'MJDATA_POINTERS', {'nbody': nb, 'ngeom': ng}, 'd', default_size=0)
    ar = w.obj('arena', 8192).zeros(); D.o.put(D.off('arena'), 'ptr', (ar, 0)); D.set('narena', 8192)
    maxpair = nb * (nb - 1) // 2 + 2
    po, _ = w.arr('bfpair', 'i32', maxpair, [0x7777] * maxpair)
    def alloc(ex, st, args, ins):
        size = ex.as_int(args[1]); return st.alloc(size, ('stack', len(st.objs)))
    noop = lambda ex, st, args, ins: None
    def sap_all(ex, st, args, ins):
        n = ex.as_int(args[2]); k = 0
        for i in range(n):
            for j in range(i + 1, n):
                ex.store(st, llsym.Ptr(args[4].obj, args[4].off + 4 * k), IntT(32), I((i << 16) + j)); k += 1
        return I(k)
    ex = llsym.Exec(mod(), fpmode='real', loop_bound=4 * nb * nb + 16, max_paths=20000,
                    stubs={'mj_stackAllocInfo': alloc, 'mj_markStack': noop, 'mj_freeStack': noop, 'mj_SAP': sap_all, 'makeAAMM': noop, 'mju_eig3': lambda ex, st, a, i: I(0)})
    st = w.to_state(ex); st.pc += pre
    res = ex.run('@mj_broadphase', [w.P(M.o), w.P(D.o), w.P(po), I(maxpair)], st)
    ck.note_results(ex, res)
    can = lambda b: z3.Or(ct[b] != 0, ca[b] != 0) if b in gb else z3.BoolVal(False)
    compat = lambda a, b: z3.Or((ct[a] & ca[b]) != 0, (ct[b] & ca[a]) != 0)
    def filtered(a, b):
        if weld[a] == weld[b]: return True
        if dofn[weld[a]] == 0 and dofn[weld[b]] == 0: return True
        if not dsbl and weld[a] != 0 and weld[b] != 0 and (parent_group(weld[b]) == weld[a] or parent_group(weld[a]) == weld[b]): return True
        return False
    cand = [(a, b) for a in range(nb) for b in range(a + 1, nb)]
    want = {}
    for a, b in cand:
        if a not in gb or b not in gb or filtered(a, b): want[(a, b)] = z3.BoolVal(False)
        else: want[(a, b)] = z3.And(can(a), can(b), compat(a, b))
    dec = lambda mdl: {'topology': topo, 'parent': par, 'dofnum': dofn, 'weld': weld, 'filterparent disabled': bool(dsbl), 'masks': {str(b): [W.evalnum(mdl, ct[b]), W.evalnum(mdl, ca[b])] for b in symb}}
    nret = 0
    for r in res:
        if r.kind != 'return': continue
        nret += 1
        npair = r.value; pairs = [ex.load(r.state, w.P(po, 4 * k), IntT(32)) for k in range(maxpair)]
        rp = W.make_replay(so_bp(), 'mj_broadphase', w, [('ptr', (M.o, 0)), ('ptr', (D.o, 0)), ('ptr', (po, 0)), ('i32', maxpair)], restype='i32', ret_term=npair,
                           outputs=[('bfpair%d' % k, po, 4 * k, 'i32', pairs[k]) for k in range(maxpair)], semantics='real')
        listed = lambda a, b: z3.Or(*[z3.And(I(k) < npair, pairs[k] == (a << 16) + b) for k in range(maxpair)])
        for a, b in cand:
            ck.prove('bodies %d,%d are in the broad-phase output iff both can collide, their masks are compatible and no documented body filter applies' % (a, b), r.state.pc, listed(a, b) == want[(a, b)],
                     site='mj_broadphase:filter', decode=dec, replay=rp)
        ck.prove('output sorted by signature, no duplicates, count = number of kept pairs', r.state.pc,
                 z3.And(npair == sum([z3.If(want[c], I(1), I(0)) for c in cand], I(0)), *[z3.Implies(I(k + 1) < npair, pairs[k] < pairs[k + 1]) for k in range(maxpair - 1)]), site='mj_broadphase:sorted', decode=dec, replay=rp)
    if nret == 0: ck.error('no returning path')
    ck.paths['broadphase'] = nret
    if pre: ck.reach('mask ranges', pre)
    ck.memory_obligations(res, decode=dec)
    return ck


# native replay: every sphere sits at the origin with a large bounding box, so the REAL mj_SAP returns every pair as the stub does
def so_bp():
    if 'sobp' not in _c: _c['sobp'] = build.native_lib(TUS, SUP + ['src/engine/engine_util_solve.c', 'src/engine/engine_util_spatial.c', 'src/engine/engine_sleep.c', 'src/engine/engine_support.c', 'src/engine/engine_core_util.c'], name='colldriver_bp')
    return _c['sobp']


def units(tier):
    u = [('bitmask', 'unit_bitmask', {}), ('bodypair', 'unit_bodypair', {}), ('geomfilters', 'unit_geomfilters', {})]
    for ax in (0, 1, 2): u.append(('SAP_n2_axis%d' % ax, 'unit_sap', {'n': 2, 'axis': ax}))
    for topo in BP_TOPO:
        for dsbl in (0, 1):
            u.append(('broadphase_%s_d%d_w1_m0' % (topo, dsbl), 'unit_broadphase', {'topo': topo, 'dsbl': dsbl, 'world_geom': 1, 'sym_masks': 0}))
    u.append(('broadphase_weldchain_d0_w0_m1', 'unit_broadphase', {'topo': 'weldchain', 'dsbl': 0, 'world_geom': 0, 'sym_masks': 1}))
    u.append(('broadphase_static_d0_w1_m1', 'unit_broadphase', {'topo': 'static', 'dsbl': 0, 'world_geom': 1, 'sym_masks': 1}))
    # three boxes (SAP_n3) do not finish within 2800 s of exact floating-point reasoning: outside the claim
    return u
