"""C04 Staged and split pipeline calls equal the monolithic call: call-trace equivalence with uninterpreted stage functions."""
import z3, itertools
from vf import ir, build, llsym, world as W
from vf.runner import Checker
from vf.irparse import IntT, FpT

ID = 'C04'
LEVEL = 'other'
TUS = ['src/engine/engine_forward.c']
STAGES = ['mj_checkPos', 'mj_checkVel', 'mj_checkAcc', 'mj_fwdPosition', 'mj_sensorPos', 'mj_energyPos', 'mj_fwdVelocity', 'mj_sensorVel', 'mj_energyVel', 'mj_fwdActuation',
          'mj_fwdAcceleration', 'mj_fwdConstraint', 'mj_sensorAcc', 'mj_compareFwdInv', 'mj_Euler', 'mj_implicit', 'mj_RungeKutta']
STAGE_OF = {'mj_fwdPosition': 1, 'mj_sensorPos': 1, 'mj_energyPos': 1, 'energy=0': 1, 'mj_fwdVelocity': 2, 'mj_sensorVel': 2, 'mj_energyVel': 2}
EXPLANATION = ('llsym executes the real mj_step, mj_step1, mj_step2, mj_forward and mj_forwardSkip with every pipeline stage function (mj_fwdPosition ... mj_Euler/mj_implicit, the '
               'check functions, the control callback) an uninterpreted logged call, and the option words (integrator, enableflags, disableflags), the lazy-energy flags and the callback '
               'pointer symbolic/enumerated. For every valuation the sequence of stage calls and direct stores (energy reset, flg_rnepost) of step1;step2 equals that of mj_step for the '
               'Euler/implicit integrators; forwardSkip(stage, skipsensor) equals the full trace with exactly the skipped stages\' calls removed; mj_forward writes only energy / lazy flags / timers '
               'of mjData itself. Equal call sequences on equal (m, d) give equal results if every stage is a deterministic function of (m, d) - that premise is C01\'s and is assumed here.')
BOUNDS = {'quick': {'options': 'all 32-bit enable/disable flag words, integrator in {Euler, implicit, implicitfast}', 'callback': 'installed / not installed'}, 'thorough': {'same': True}}
OUTSIDE = 'what happens inside the stages; idempotence of mj_forward with warm-start off (numerical); mj_inverseSkip.'
ASSUMPTIONS = ['stage functions are deterministic functions of (m, d) (C01)', 'flex_has_passive_contact(m) = 0', 'mjcb_time not installed']
BUDGET = {'quick': 300, 'thorough': 900}
_c = {}


def mod():
    if 'm' not in _c: _c['m'] = ir.load(TUS)
    return _c['m']


def stubs_c():
    s = 'typedef struct mjModel_ mjModel; typedef struct mjData_ mjData;\n'
    for f in STAGES:
        if f == 'mj_RungeKutta': s += 'void vfstub_%s(const mjModel* m, mjData* d, int N) { vf_log_call("%s"); }\n' % (f, f)
        else: s += 'void vfstub_%s(const mjModel* m, mjData* d) { vf_log_call("%s"); }\n' % (f, f)
    s += 'void vf_cb_control(const mjModel* m, mjData* d) { vf_log_call("mjcb_control"); }\n'
    s += '_Bool vfstub_flex_has_passive_contact(const mjModel* m) { return 0; }\n'
    s += 'extern void (*mjcb_control)(const mjModel*, mjData*);\nvoid vf_install_cb(int on) { mjcb_control = on ? vf_cb_control : 0; }\n'
    s += 'void vf_log_reset(void);\n'
    return s


def so():
    if 'so' not in _c:
        _c['so'] = build.native_lib(TUS, ['src/engine/engine_callback.c', 'src/engine/engine_util_errmem.c'], extra_c=stubs_c(), redirect=STAGES + ['flex_has_passive_contact'], name='forward_trace')
    return _c['so']


def so_lazy():
    """native library in which the stage bodies mj_fwdPosition / mj_fwdVelocity are real and everything they call is a logging stub"""
    if 'solazy' not in _c:
        cal = build.callees_of(TUS[0], ['mj_fwdPosition', 'mj_fwdVelocity', 'mj_forwardSkip'])
        for k_ in ('mj_fwdPosition', 'mj_fwdVelocity', 'mj_forwardSkip', 'mju_message', 'snprintf', 'mj_flexCG', 'flex_has_passive_contact'): cal.pop(k_, None)
        extra = build.logging_stubs_c(cal) + '_Bool vfstub_flex_has_passive_contact(const void* m) { return 0; }\n'
        _c['solazy'] = build.native_lib(TUS, ['src/engine/engine_callback.c', 'src/engine/engine_util_errmem.c'], extra_c=extra, redirect=sorted(cal) + ['flex_has_passive_contact'], name='forward_lazy')
    return _c['solazy']


def lay():
    if 'l' not in _c: _c['l'] = build.Layout()
    return _c['l']


def K():
    if 'k' not in _c:
        k = build.enum_values('mjENBL_'); k.update(build.enum_values('mjDSBL_')); k.update(build.enum_values('mjINT_')); k.update(build.enum_values('mjSTAGE_')); _c['k'] = k
    return _c['k']


def prepare(tier): mod(); so(); so_lazy(); lay(); K()


class Sys:
    def __init__(self, cb):
        L = lay()
        self.w = w = W.World('real')
        self.M = M = W.SB(w, L, 'mjModel_', 'm', zero=True); self.D = D = W.SB(w, L, 'mjData_', 'd', zero=True)
        self.integ = M.sym('opt.integrator', 'integrator'); self.en = M.sym('opt.enableflags', 'enableflags'); self.dis = M.sym('opt.disableflags', 'disableflags')
        self.fep = D.sym('flg_energypos', 'flg_energypos'); self.fev = D.sym('flg_energyvel', 'flg_energyvel'); self.frp = D.sym('flg_rnepost', 'flg_rnepost')
        self.e0 = D.sym('energy[0]', 'energy0'); self.e1 = D.sym('energy[1]', 'energy1')
        self.cb = cb
    def exec(self):
        def logstub(name):
            def f(ex, st, args, ins): st.log.append(('call', name)); return None
            return f
        stubs = {f: logstub(f) for f in STAGES}
        stubs['vf_cb_control'] = logstub('mjcb_control')
        stubs['flex_has_passive_contact'] = lambda ex, st, a, i: z3.BoolVal(False)
        ex = llsym.Exec(mod(), fpmode='real', stubs=stubs, loop_bound=8)
        ex.mod.decls.setdefault('@vf_cb_control', 'declare void @vf_cb_control()')
        st = self.w.to_state(ex)
        from vf.irparse import PtrT
        cb = self.cb
        def init_cb(e, s_, p): e.store(s_, p, PtrT(IntT(8)), llsym.FnPtr('@vf_cb_control') if cb else llsym.NULL, check=False)
        def init_null(e, s_, p): e.store(s_, p, PtrT(IntT(8)), llsym.NULL, check=False)
        st.aux['extern_init'] = {'@mjcb_control': init_cb, '@mjcb_time': init_null}
        return ex, st
    def trace(self, ex, st0, calls):
        """run a sequence of top-level calls; returns list of (pc, events, final state)"""
        cur = [st0]
        for fn, args in calls:
            nxt = []
            for s in cur:
                s2 = s.clone(); s2.stack = []
                for r in ex.run('@' + fn, args(self), s2):
                    if r.kind == 'return': nxt.append(r.state)
                    elif r.kind == 'error': nxt.append(None)
                    elif r.kind != 'infeasible': raise llsym.Unsupported('%s: %s %s' % (fn, r.kind, r.info))
            cur = [s for s in nxt if s is not None]
        return cur
    def events(self, ex, st):
        ev = [e[1] for e in st.log if e[0] == 'call']
        return ev
    def finals(self, ex, st):
        return {'energy0': self.D.load(ex, st, 'energy[0]'), 'energy1': self.D.load(ex, st, 'energy[1]'), 'flg_rnepost': self.D.load(ex, st, 'flg_rnepost')}


def native_trace(S, model, calls, cb):
    values = S.w.concretise(model)
    def pre(lib, nw): lib.vf_install_cb(1 if cb else 0)
    st = W.native_seq(so(), calls, S.w, values, [('energy0', S.D.o, S.D.off('energy[0]'), 'f64'), ('energy1', S.D.o, S.D.off('energy[1]'), 'f64'), ('flg_rnepost', S.D.o, S.D.off('flg_rnepost'), 'u8')], pre=pre)
    return st


def unit_step(tier, cb):
    ck = Checker('step_split_cb%d' % cb, tier, timeout_s=60)
    k = K()
    S = Sys(cb)
    ex, st0 = S.exec()
    integ_ok = z3.Or(S.integ == k['mjINT_EULER'], S.integ == k['mjINT_IMPLICIT'], S.integ == k['mjINT_IMPLICITFAST'])
    st0.pc.append(integ_ok)
    A = lambda s: [s.w.P(s.M.o), s.w.P(s.D.o)]
    mono = S.trace(ex, st0, [('mj_step', A)])
    split = S.trace(ex, st0, [('mj_step1', A), ('mj_step2', A)])
    ck.functions |= {f.lstrip('@') for f in ex.called}; ck.queries += ex.nq; ck.solver_s += ex.tq
    ck.paths['mj_step'] = len(mono); ck.paths['step1;step2'] = len(split)
    dec = lambda mdl: {'integrator': W.evalnum(mdl, S.integ), 'enableflags': hex(W.evalnum(mdl, S.en)), 'disableflags': hex(W.evalnum(mdl, S.dis)), 'flg_energypos': W.evalnum(mdl, S.fep),
                       'flg_energyvel': W.evalnum(mdl, S.fev), 'control_callback_installed': bool(cb)}
    nargs = [('ptr', (S.M.o, 0)), ('ptr', (S.D.o, 0))]
    def replay(model, witness):
        a = native_trace(S, model, [('mj_step', nargs, 'void')], cb); b = native_trace(S, model, [('mj_step1', nargs, 'void'), ('mj_step2', nargs, 'void')], cb)
        if a[0] != 'ok' or b[0] != 'ok': return False, {'native': [a[0], b[0]], 'detail': str(a[1:])[:200] + str(b[1:])[:200]}
        differ = a[1]['calls'] != b[1]['calls'] or a[1]['out'] != b[1]['out']
        return differ, {'mj_step calls': a[1]['calls'], 'step1;step2 calls': b[1]['calls'], 'mj_step out': a[1]['out'], 'split out': b[1]['out']}
    npairs = 0
    for sa in mono:
        for sb in split:
            pc = sa.pc + sb.pc[len(st0.pc):]
            if not ex.feasible(list(pc)): continue
            npairs += 1
            ea, eb = S.events(ex, sa), S.events(ex, sb)
            ck.prove('step1;step2 makes the same stage calls in the same order as mj_step (%s)' % ' '.join(x.replace('mj_', '') for x in ea), pc, z3.BoolVal(ea == eb), site='mj_step1:trace', decode=dec, replay=replay,
                     sample='mj_step: %s | step1;step2: %s' % (ea, eb))
            fa, fb = S.finals(ex, sa), S.finals(ex, sb)
            ck.prove('step1;step2 leaves energy / lazy flags as mj_step does', pc, z3.And(*[fa[x] == fb[x] for x in fa]), site='mj_step1:direct-stores', decode=dec, replay=replay)
    if npairs == 0: ck.error('no feasible path pair')
    ck.reach('integrator precondition', [integ_ok])
    return ck


def unit_skip(tier, cb, skipsensor):
    ck = Checker('forwardSkip_cb%d_ss%d' % (cb, skipsensor), tier, timeout_s=60)
    k = K()
    S = Sys(cb)
    ex, st0 = S.exec()
    I = lambda v: z3.BitVecVal(v, 32)
    full = S.trace(ex, st0, [('mj_forwardSkip', lambda s: [s.w.P(s.M.o), s.w.P(s.D.o), I(k['mjSTAGE_NONE']), I(skipsensor)])])
    dec = lambda mdl: {'enableflags': hex(W.evalnum(mdl, S.en)), 'disableflags': hex(W.evalnum(mdl, S.dis)), 'flg_energypos': W.evalnum(mdl, S.fep), 'flg_energyvel': W.evalnum(mdl, S.fev)}
    for stage_name in ('mjSTAGE_POS', 'mjSTAGE_VEL'):
        stage = k[stage_name]
        nargs = lambda sk: [('ptr', (S.M.o, 0)), ('ptr', (S.D.o, 0)), ('i32', sk), ('i32', skipsensor)]
        def replay(model, witness, stage=stage):
            a = native_trace(S, model, [('mj_forwardSkip', nargs(0), 'void')], cb); b = native_trace(S, model, [('mj_forwardSkip', nargs(stage), 'void')], cb)
            if a[0] != 'ok' or b[0] != 'ok': return False, {'native': [a[0], b[0]]}
            want = [c for c in a[1]['calls'] if STAGE_OF.get(c, 3) > stage]
            return want != b[1]['calls'], {'full': a[1]['calls'], 'skip': b[1]['calls'], 'expected': want}
        skip = S.trace(ex, st0, [('mj_forwardSkip', lambda s: [s.w.P(s.M.o), s.w.P(s.D.o), I(stage), I(skipsensor)])])
        for sa in full:
            for sb in skip:
                pc = sa.pc + sb.pc[len(st0.pc):]
                if not ex.feasible(list(pc)): continue
                ea, eb = S.events(ex, sa), S.events(ex, sb)
                want = [c for c in ea if STAGE_OF.get(c, 3) > stage]
                ck.prove('forwardSkip(%s, skipsensor=%d) = full trace minus the skipped stages (%s)' % (stage_name, skipsensor, ' '.join(x.replace('mj_', '') for x in eb)), pc, z3.BoolVal(eb == want),
                         site='mj_forwardSkip:trace', decode=dec, replay=replay, sample='full: %s | skip: %s' % (ea, eb))
    # mj_forward writes only energy / lazy flags / timers of mjData itself
    st1 = st0.clone(); st1.stack = []
    d_id = S.w.map[S.D.o].obj
    allowed = {S.D.off('energy[0]'), S.D.off('energy[1]'), S.D.off('flg_rnepost')}
    L = lay()
    tsz = L.field('mjData_', 'timer[0]')[1]; t0 = L.field('mjData_', 'timer[0]')[0]
    ntimer = build.enum_values('mjNTIMER')['mjNTIMER']
    for r in ex.run('@mj_forward', [S.w.P(S.M.o), S.w.P(S.D.o)], st1):
        if r.kind != 'return': continue
        before = st0.objs[d_id].cells; after = r.state.objs[d_id].cells
        changed = [off for off in after if off not in before or before[off][0] is not after[off][0]]
        bad = [off for off in changed if off not in allowed and not (t0 <= off < t0 + ntimer * tsz)]
        ck.prove('mj_forward itself writes only energy, flg_rnepost and timers of mjData', r.state.pc, z3.BoolVal(not bad), site='mj_forward:direct-writes', decode=dec, sample='offsets written: %s' % sorted(changed))
    ck.functions |= {f.lstrip('@') for f in ex.called}; ck.queries += ex.nq; ck.solver_s += ex.tq
    return ck


def unit_lazyflags(tier):
    """lazily evaluated quantities are cached behind flags; every call that recomputes a stage must clear the flags of that stage,
    also when earlier stages are skipped (otherwise mj_forwardSkip returns stale sensor values)"""
    ck = Checker('lazyflags', tier, timeout_s=60)
    k = K()
    S = Sys(0)
    fsv = S.D.sym('flg_subtreevel', 'flg_subtreevel')
    S.M.set('nflex', 0); S.M.set('ntendon', 0); S.M.set('nout', 0); S.M.set('nflexedge', 0)
    ex, st0 = S.exec()
    ex.real_only = {'mj_forwardSkip', 'mj_forward', 'mj_fwdPosition', 'mj_fwdVelocity', 'mj_step1', 'mj_step2', 'mj_step'}
    ex.stubs = {n: f for n, f in ex.stubs.items() if n not in ('mj_fwdPosition', 'mj_fwdVelocity')}
    I = lambda v: z3.BitVecVal(v, 32)
    dec = lambda mdl: {'flg_subtreevel': W.evalnum(mdl, fsv), 'flg_energypos': W.evalnum(mdl, S.fep), 'flg_energyvel': W.evalnum(mdl, S.fev), 'enableflags': hex(W.evalnum(mdl, S.en))}
    energy_off = (S.en & k['mjENBL_ENERGY']) == 0
    for name, args, expect in [('mj_forwardSkip(skip POS, no sensors)', [I(k['mjSTAGE_POS']), I(1)], ['flg_subtreevel', 'flg_energyvel']),
                               ('mj_forwardSkip(full, no sensors)', [I(k['mjSTAGE_NONE']), I(1)], ['flg_subtreevel', 'flg_energyvel', 'flg_energypos'])]:
        s1 = st0.clone(); s1.stack = []
        for r in ex.run('@mj_forwardSkip', [S.w.P(S.M.o), S.w.P(S.D.o)] + args, s1):
            if r.kind != 'return':
                if r.kind not in ('infeasible', 'error'): ck.inconclusive.append('%s: %s %s' % (name, r.kind, r.info))
                continue
            nargs = [('ptr', (S.M.o, 0)), ('ptr', (S.D.o, 0)), ('i32', args[0]), ('i32', args[1])]
            for f in expect:
                rp = W.make_replay(so_lazy(), 'mj_forwardSkip', S.w, nargs, outputs=[S.D.out(ex, r.state, f)])
                ck.prove('%s: %s is cleared (energy flag off, so nothing recomputes it)' % (name, f), r.state.pc + [energy_off], S.D.load(ex, r.state, f) == 0, site='mj_forwardSkip:lazy-flag-%s' % f, decode=dec, replay=rp)
    ck.functions |= {f.lstrip('@') for f in ex.called}; ck.queries += ex.nq; ck.solver_s += ex.tq
    return ck


def units(tier):
    u = [('lazyflags', 'unit_lazyflags', {})]
    for cb in (0, 1):
        u.append(('step_split_cb%d' % cb, 'unit_step', {'cb': cb}))
        for ss in (0, 1): u.append(('forwardSkip_cb%d_ss%d' % (cb, ss), 'unit_skip', {'cb': cb, 'skipsensor': ss}))
    return u
