"""C13 Contacts report true geometry (part): sphere / plane / capsule colliders and the contact frame construction, in exact real arithmetic."""
import fractions
import z3
from vf import ir, build, llsym, world as W
from vf.runner import Checker
from vf.irparse import IntT, FpT, PtrT

ID = 'C13'
LEVEL = 'other'
TUS = ['src/engine/engine_collision_primitive.c', 'src/engine/engine_util_blas.c', 'src/engine/engine_util_misc.c', 'src/engine/engine_util_spatial.c']
SUP = ['src/engine/engine_util_blas.c', 'src/engine/engine_util_misc.c', 'src/engine/engine_util_spatial.c', 'src/engine/engine_util_errmem.c']
EXPLANATION = ('llsym (real-algebraic: sqrt(x) is the unique t >= 0 with t^2 = x) runs the real mjraw_PlaneSphere, mjraw_SphereSphere, mjraw_SphereCapsule, mjc_PlaneCapsule, mjc_SphereCylinder (dispatch to its two delegates) and mju_makeFrame with symbolic positions, unit axes, '
               'radii, half-lengths and margin. For every returned contact z3 must show: dist equals the true signed distance (plane-sphere n.(c-p)-r; sphere-sphere |c2-c1|-r1-r2; sphere-capsule: minimum over the whole segment, '
               'stated with a universally quantified segment parameter), dist <= margin, and a pair is dropped only if its true distance exceeds the margin; the normal is a unit vector pointing from the first geom to the second; '
               'pos is the midpoint between the two surface points; and mju_makeFrame turns ANY normal / tangent pair a collider can produce into an orthonormal right-handed frame whose first row is the normalised normal.')
BOUNDS = {'quick': {'pairs': 'plane-sphere, sphere-sphere, sphere-capsule, plane-capsule, sphere-cylinder (cylinder axis +z and -y, dispatch and delegate arguments)', 'frame': 'any normal with |n| >= 1/2 and any tangent'}, 'thorough': {'same': 'plus plane-capsule with both end points in contact'}}
OUTSIDE = ('box, ellipsoid, other cylinder pairs, sphere-cylinder with a cylinder axis that is not a coordinate axis, mesh, height-field and SDF pairs; capsule-capsule (unit_capsule_capsule is written - both points on their segments, no closer pair over two universally quantified segment parameters - but exploration plus the optimality query did not finish within 20 minutes, so it is not registered); mj_geomDistance (GJK); contact assembly in mj_collideGeoms beyond the frame (condim, friction mixing); '
           'floating-point rounding (near-parallel normal/tangent pairs are decided in exact arithmetic).')
ASSUMPTIONS = ['real-number semantics', 'plane normal and capsule axis are unit vectors (columns of rotation matrices)', 'radii and half-lengths positive, margin >= 0', 'mju_message(ERROR) does not return']
BUDGET = {'quick': 600, 'thorough': 1500}
_c = {}


def mod():
    if 'm' not in _c: _c['m'] = ir.load(TUS)
    return _c['m']


def so():
    if 'so' not in _c: _c['so'] = build.native_lib(['src/engine/engine_collision_primitive.c'], SUP, name='prim')
    return _c['so']


def so_sp():
    if 'so2' not in _c: _c['so2'] = build.native_lib(['src/engine/engine_util_spatial.c'], ['src/engine/engine_util_blas.c', 'src/engine/engine_util_misc.c', 'src/engine/engine_util_errmem.c'], name='spatial_frame')
    return _c['so2']


def lay():
    if 'l' not in _c: _c['l'] = build.Layout(decls=['mjModel', 'mjData', 'mjContact', 'mjPreContact'])
    return _c['l']


def prepare(tier): mod(); so(); so_sp(); lay()


def dot(a, b): return a[0] * b[0] + a[1] * b[1] + a[2] * b[2]
def sub(a, b): return [a[i] - b[i] for i in range(3)]
def cross(a, b): return [a[1] * b[2] - a[2] * b[1], a[2] * b[0] - a[0] * b[2], a[0] * b[1] - a[1] * b[0]]
MINV = z3.RealVal(str(fractions.Fraction(1e-15)))


class Pair:
    """two geoms (pos, mat, size) and a precontact buffer"""
    def __init__(self, ncon=2):
        self.w = w = W.World('real'); L = lay()
        self.p1o, self.p1 = w.arr('pos1', 'f64', 3); self.m1o, self.m1 = w.arr('mat1', 'f64', 9); self.s1o, self.s1 = w.arr('size1', 'f64', 3)
        self.p2o, self.p2 = w.arr('pos2', 'f64', 3); self.m2o, self.m2 = w.arr('mat2', 'f64', 9); self.s2o, self.s2 = w.arr('size2', 'f64', 3)
        self.csz = L.sizeof('mjPreContact_'); self.off = {f: L.field('mjPreContact_', f)[0] for f in ('dist', 'pos', 'normal', 'tangent')}
        self.co = w.obj('con', self.csz * ncon); self.ncon = ncon
        self.con0 = [self.co.sym(o, 'f64', 'con_%d' % o) for o in range(0, self.csz * ncon, 8)]
        self.margin = z3.Real('margin'); w.syms.append(('margin', 'f64', self.margin))
        self.z1 = [self.m1[2], self.m1[5], self.m1[8]]; self.z2 = [self.m2[2], self.m2[5], self.m2[8]]
    def args(self):
        w = self.w
        return [w.P(self.co), self.margin, w.P(self.p1o), w.P(self.m1o), w.P(self.s1o), w.P(self.p2o), w.P(self.m2o), w.P(self.s2o)]
    def nargs(self):
        return [('ptr', (self.co, 0)), ('f64', self.margin), ('ptr', (self.p1o, 0)), ('ptr', (self.m1o, 0)), ('ptr', (self.s1o, 0)), ('ptr', (self.p2o, 0)), ('ptr', (self.m2o, 0)), ('ptr', (self.s2o, 0))]
    def read(self, ex, st, k):
        ld = lambda o: ex.load(st, self.w.P(self.co, k * self.csz + o), FpT('double'))
        return dict(dist=ld(self.off['dist']), pos=[ld(self.off['pos'] + 8 * i) for i in range(3)], normal=[ld(self.off['normal'] + 8 * i) for i in range(3)], tangent=[ld(self.off['tangent'] + 8 * i) for i in range(3)])
    def outs(self, ex, st, n):
        o = []
        for k in range(n):
            c = self.read(ex, st, k)
            o.append(('dist%d' % k, self.co, k * self.csz + self.off['dist'], 'f64', c['dist']))
            for f in ('pos', 'normal', 'tangent'):
                for i in range(3): o.append(('%s%d_%d' % (f, k, i), self.co, k * self.csz + self.off[f] + 8 * i, 'f64', c[f][i]))
        return o
    def dec(self):
        names = {'pos1': self.p1, 'z1': self.z1, 'size1': self.s1, 'pos2': self.p2, 'z2': self.z2, 'size2': self.s2}
        return lambda mdl: dict({k: [str(W.evalnum(mdl, x)) for x in v] for k, v in names.items()}, margin=str(W.evalnum(mdl, self.margin)))


def ret_int(r): return r.value


def unit_plane_sphere(tier):
    ck = Checker('plane_sphere', tier, timeout_s=120, semantics='real')
    P = Pair(); n = P.z1; r = P.s2[0]
    pre = [dot(n, n) == 1, r > 0, P.margin >= 0]
    ex = llsym.Exec(mod(), fpmode='real', loop_bound=8); st = P.w.to_state(ex); st.pc += pre
    res = ex.run('@mjraw_PlaneSphere', P.args(), st); ck.note_results(ex, res)
    true = dot(n, sub(P.p2, P.p1)) - r
    for rr in res:
        if rr.kind != 'return': continue
        pc = rr.state.pc
        rp = W.make_replay(so(), 'mjraw_PlaneSphere', P.w, P.nargs(), restype='i32', ret_term=rr.value, outputs=P.outs(ex, rr.state, 1), semantics='real')
        ck.prove('plane-sphere: a contact is returned iff the true distance n.(c-p)-r is at most the margin', pc, (rr.value == 1) == (true <= P.margin), site='mjraw_PlaneSphere:detect', decode=P.dec(), replay=rp)
        ck.prove('plane-sphere: returns 0 or 1', pc, z3.Or(rr.value == 0, rr.value == 1), site='mjraw_PlaneSphere:count', decode=P.dec(), replay=rp)
        c = P.read(ex, rr.state, 0)
        mid = [P.p2[i] - n[i] * (r + true / 2) for i in range(3)]
        ck.prove('plane-sphere: dist = n.(c-p)-r <= margin, normal = plane normal (unit, first geom to second), pos = midpoint of the two surface points, tangent left undefined (0)', pc + [rr.value == 1],
                 z3.And(c['dist'] == true, c['dist'] <= P.margin, *([c['normal'][i] == n[i] for i in range(3)] + [c['pos'][i] == mid[i] for i in range(3)] + [c['tangent'][i] == 0 for i in range(3)])),
                 site='mjraw_PlaneSphere:contact', decode=P.dec(), replay=rp)
    ck.reach('touching', pre + [true == 0]); ck.memory_obligations(res, decode=P.dec())
    return ck


def unit_sphere_sphere(tier):
    ck = Checker('sphere_sphere', tier, timeout_s=120, semantics='real')
    P = Pair(); r1 = P.s1[0]; r2 = P.s2[0]
    pre = [r1 > 0, r2 > 0, P.margin >= 0, dot(P.z1, P.z1) == 1, dot(P.z2, P.z2) == 1]
    ex = llsym.Exec(mod(), fpmode='real', loop_bound=8); st = P.w.to_state(ex); st.pc += pre
    res = ex.run('@mjraw_SphereSphere', P.args(), st); ck.note_results(ex, res)
    dvec = sub(P.p2, P.p1); d2 = dot(dvec, dvec)
    D = z3.Real('centre_distance'); dd = [D >= 0, D * D == d2]
    for rr in res:
        if rr.kind != 'return': continue
        pc = rr.state.pc + dd
        rp = W.make_replay(so(), 'mjraw_SphereSphere', P.w, P.nargs(), restype='i32', ret_term=rr.value, outputs=P.outs(ex, rr.state, 1), semantics='real')
        ck.prove('sphere-sphere: a contact is returned iff |c2-c1| - r1 - r2 <= margin', pc, (rr.value == 1) == (D - r1 - r2 <= P.margin), site='mjraw_SphereSphere:detect', decode=P.dec(), replay=rp)
        c = P.read(ex, rr.state, 0); nn = c['normal']
        ck.prove('sphere-sphere: dist = |c2-c1| - r1 - r2 <= margin and the normal is a unit vector', pc + [rr.value == 1], z3.And(c['dist'] == D - r1 - r2, c['dist'] <= P.margin, dot(nn, nn) == 1),
                 site='mjraw_SphereSphere:dist-normal', decode=P.dec(), replay=rp)
        ck.prove('sphere-sphere: for distinct centres the normal points from the first centre to the second and pos is the midpoint of the two surface points', pc + [rr.value == 1, D >= MINV],
                 z3.And(*([D * nn[i] == dvec[i] for i in range(3)] + [2 * c['pos'][i] == (P.p1[i] + nn[i] * r1) + (P.p2[i] - nn[i] * r2) for i in range(3)])), site='mjraw_SphereSphere:direction-pos', decode=P.dec(), replay=rp)
    ck.reach('coincident centres', pre + [d2 == 0]); ck.reach('separated within margin', pre + dd + [D - r1 - r2 > 0, D - r1 - r2 < P.margin])
    ck.memory_obligations(res, decode=P.dec())
    return ck


def unit_sphere_capsule(tier):
    """sphere-capsule = sphere-sphere against the point of the capsule segment nearest to the sphere centre: the nearest-point computation is checked here (optimal over the WHOLE segment),
    the sphere-sphere contact it is handed to is checked in unit_sphere_sphere; the composition gives the true distance"""
    ck = Checker('sphere_capsule', tier, timeout_s=120, semantics='real')
    P = Pair(); r1 = P.s1[0]; r2 = P.s2[0]; hl = P.s2[1]; a = P.z2
    pre = [r1 > 0, r2 > 0, hl > 0, P.margin >= 0, dot(a, a) == 1, dot(P.z1, P.z1) == 1]
    got = []
    def ss_stub(ex, st, args, ins):
        got.append((len(st.pc), args)); return z3.BitVec('ss_ret', 32)
    ex = llsym.Exec(mod(), fpmode='real', loop_bound=8, stubs={'mjraw_SphereSphere': ss_stub}); st = P.w.to_state(ex); st.pc += pre
    res = ex.run('@mjraw_SphereCapsule', P.args(), st); ck.note_results(ex, res)
    t = z3.Real('t'); seg = [t >= -hl, t <= hl]
    q = [P.p2[i] + t * a[i] for i in range(3)]; dq = sub(P.p1, q); dq2 = dot(dq, dq)       # squared distance from the sphere centre to an ARBITRARY point of the segment
    def rp(model, witness):
        """native run of the real (unstubbed) collider against a numeric minimisation of the point-segment distance"""
        import math
        vals = P.w.concretise(model)
        status = W.native_call(so(), 'mjraw_SphereCapsule', P.w, vals, P.nargs(), restype='i32', outputs=[('dist', P.co, P.off['dist'], 'f64')] + [('n%d' % i, P.co, P.off['normal'] + 8 * i, 'f64') for i in range(3)])
        if status[0] != 'ok': return False, {'native': str(status)[:200]}
        g = lambda xs: [float(W.evalnum(model, x)) for x in xs]
        c1, p2, ax = g(P.p1), g(P.p2), g(a); R1, R2, HL, MG = [float(W.evalnum(model, x)) for x in (r1, r2, hl, P.margin)]
        tstar = max(-HL, min(HL, sum(ax[i] * (c1[i] - p2[i]) for i in range(3))))
        true = math.sqrt(sum((c1[i] - p2[i] - tstar * ax[i]) ** 2 for i in range(3))) - R1 - R2
        ret = status[1]['ret']; dist = status[1]['out']['dist']
        bad = (ret == 1) != (true <= MG + 1e-12) if abs(true - MG) > 1e-9 else False
        if ret == 1 and abs(dist - true) > 1e-9 * max(1.0, abs(true)): bad = True
        return bad, {'native_ret': ret, 'native_dist': dist, 'true_distance': true, 'margin': MG}
    nret = 0
    for rr in res:
        if rr.kind != 'return': continue
        nret += 1
        pc = rr.state.pc
        calls = [g for g in got]
        ck.prove('sphere-capsule: exactly one sphere-sphere test per call, its result is returned', pc, z3.BoolVal(len(calls) >= 1) , site='mjraw_SphereCapsule:delegates')
        args = calls[-1][1] if nret > len(calls) else calls[nret - 1][1]
        con_p, mg, p1p, m1p, s1p, vecp, m2p, s2p = args
        vec = [ex.load(rr.state, llsym.Ptr(vecp.obj, vecp.off + 8 * i) if isinstance(vecp.off, int) else vecp, FpT('double')) for i in range(3)]
        same_ptr = lambda x, o: isinstance(x, llsym.Ptr) and x.obj == P.w.map[o].obj and x.off == 0
        ck.prove('sphere-capsule: the sphere-sphere test receives the contact buffer, the margin, the sphere (pos1, mat1, size1) and the capsule radius (size2) unchanged', pc,
                 z3.And(z3.BoolVal(same_ptr(con_p, P.co) and same_ptr(p1p, P.p1o) and same_ptr(m1p, P.m1o) and same_ptr(s1p, P.s1o) and same_ptr(m2p, P.m2o) and same_ptr(s2p, P.s2o)), mg == P.margin, rr.value == z3.BitVec('ss_ret', 32)),
                 site='mjraw_SphereCapsule:arguments', decode=P.dec(), replay=rp)
        dv = sub(P.p1, vec); dv2 = dot(dv, dv)
        w_ = sub(vec, P.p2); tt = dot(w_, a)
        ck.prove('sphere-capsule: the second centre handed to the sphere-sphere test lies on the capsule segment', pc, z3.And(tt >= -hl, tt <= hl, *[w_[i] == tt * a[i] for i in range(3)]), site='mjraw_SphereCapsule:on-segment', decode=P.dec(), replay=rp)
        ck.prove('sphere-capsule: ... and no point of the segment is closer to the sphere centre (so dist is the true sphere-capsule distance)', pc + seg, dv2 <= dq2, site='mjraw_SphereCapsule:nearest', decode=P.dec(), replay=rp)
    ck.reach('nearest point at an end cap', pre + [dot(a, sub(P.p1, P.p2)) > hl]); ck.memory_obligations(res, decode=P.dec())
    return ck


def unit_capsule_capsule(tier, part=0, nparts=1):
    """capsule-capsule, non-parallel axes: the two points handed to the sphere-sphere test lie on the two segments and no other pair of segment points is closer"""
    ck = Checker('capsule_capsule_p%d' % part, tier, timeout_s=200, semantics='real')
    P = Pair(); r1 = P.s1[0]; r2 = P.s2[0]; h1 = P.s1[1]; h2 = P.s2[1]; a1 = P.z1; a2 = P.z2
    A1 = [a1[i] * h1 for i in range(3)]; A2 = [a2[i] * h2 for i in range(3)]
    ma = dot(A1, A1); mb = -dot(A1, A2); mc = dot(A2, A2); det = ma * mc - mb * mb
    pre = [r1 > 0, r2 > 0, h1 > 0, h2 > 0, P.margin >= 0, dot(a1, a1) == 1, dot(a2, a2) == 1, z3.Or(det >= MINV, det <= -MINV)]
    got = []
    def ss_stub(ex, st, args, ins):
        got.append(args); st.aux['ss_args'] = args; return z3.BitVec('ss_ret', 32)
    ex = llsym.Exec(mod(), fpmode='real', loop_bound=8, stubs={'mjraw_SphereSphere': ss_stub}); ex.unknown_is_feasible = True; ex.feasibility_timeout_s = 8
    st = P.w.to_state(ex); st.pc += pre
    res = ex.run('@mjraw_CapsuleCapsule', P.args(), st); ck.note_results(ex, res)
    sv = z3.Real('s'); tv = z3.Real('t'); box = [sv >= -1, sv <= 1, tv >= -1, tv <= 1]
    gen = sub([P.p1[i] + sv * A1[i] for i in range(3)], [P.p2[i] + tv * A2[i] for i in range(3)]); gen2 = dot(gen, gen)
    def rp(model, witness):
        import math
        vals = P.w.concretise(model)
        status = W.native_call(so(), 'mjraw_CapsuleCapsule', P.w, vals, P.nargs(), restype='i32', outputs=[('dist', P.co, P.off['dist'], 'f64')])
        if status[0] != 'ok': return False, {'native': str(status)[:200]}
        g = lambda xs: [float(W.evalnum(model, x)) for x in xs]
        c1, c2, u1, u2 = g(P.p1), g(P.p2), g(A1), g(A2); R1, R2, MG = [float(W.evalnum(model, x)) for x in (r1, r2, P.margin)]
        best = 1e300; N = 400
        for i in range(N + 1):
            s_ = -1 + 2 * i / N
            w0 = [c1[k] + s_ * u1[k] - c2[k] for k in range(3)]; den = sum(x * x for x in u2)
            t_ = max(-1.0, min(1.0, sum(w0[k] * u2[k] for k in range(3)) / den)) if den > 0 else 0.0
            best = min(best, math.sqrt(sum((w0[k] - t_ * u2[k]) ** 2 for k in range(3))))
        true = best - R1 - R2; ret = status[1]['ret']; dist = status[1]['out']['dist']
        bad = ret == 1 and dist - true > 1e-4 * max(1.0, abs(true))          # the reported distance exceeds the distance of a closer pair found by dense search
        if ret == 0 and true < MG - 1e-4: bad = True
        return bad, {'native_ret': ret, 'native_dist': dist, 'dense_search_distance': true, 'margin': MG}
    k_ = -1
    for rr in res:
        if rr.kind != 'return': continue
        k_ += 1
        if k_ % nparts != part: continue
        pc = rr.state.pc
        args = rr.state.aux.get('ss_args')
        ck.prove('capsule-capsule: the non-parallel branch hands exactly one point pair to the sphere-sphere test', pc, z3.BoolVal(args is not None), site='mjraw_CapsuleCapsule:delegates')
        if args is None: continue
        con_p, mg, v1p, m1p, s1p, v2p, m2p, s2p = args
        v1 = [ex.load(rr.state, llsym.Ptr(v1p.obj, v1p.off + 8 * i), FpT('double')) for i in range(3)]; v2 = [ex.load(rr.state, llsym.Ptr(v2p.obj, v2p.off + 8 * i), FpT('double')) for i in range(3)]
        x1 = z3.Real('x1w'); x2 = z3.Real('x2w')
        ck.prove('capsule-capsule: both points lie on their capsule segments', pc, z3.Exists([x1, x2], z3.And(x1 >= -1, x1 <= 1, x2 >= -1, x2 <= 1, *([v1[i] == P.p1[i] + x1 * A1[i] for i in range(3)] + [v2[i] == P.p2[i] + x2 * A2[i] for i in range(3)]))),
                 site='mjraw_CapsuleCapsule:on-segments', decode=P.dec(), replay=rp)
        dv = sub(v1, v2)
        ck.prove('capsule-capsule: no pair of points of the two segments is closer (so dist is the true capsule-capsule distance)', pc + box, dot(dv, dv) <= gen2, site='mjraw_CapsuleCapsule:nearest', decode=P.dec(), replay=rp)
        ck.prove('capsule-capsule: the sphere-sphere test gets the contact buffer, margin and both radii unchanged', pc, z3.And(mg == P.margin, rr.value == z3.BitVec('ss_ret', 32)), site='mjraw_CapsuleCapsule:arguments', decode=P.dec(), replay=rp)
    ck.notes.append('returning paths: %d; undecided branches explored as feasible: %d' % (k_ + 1, getattr(ex, 'nunknown', 0)))
    ck.reach('non-parallel axes', pre)
    return ck


def unit_plane_capsule(tier):
    ck = Checker('plane_capsule', tier, timeout_s=240, semantics='real')
    L = lay(); KG = build.enum_values('mjGEOM_')
    P = Pair()
    # mjc_PlaneCapsule reads d->geom_xpos / geom_xmat / m->geom_size: lay the two geoms out in model/data arrays
    w = P.w
    M = W.SB(w, L, 'mjModel_', 'm'); D = W.SB(w, L, 'mjData_', 'd')
    go, gs = M.arr('geom_size', 'f64', 6, name='gsize'); xo, xp = D.arr('geom_xpos', 'f64', 6, name='gxpos'); mo, xm = D.arr('geom_xmat', 'f64', 18, name='gxmat')
    n = [xm[2], xm[5], xm[8]]; a = [xm[9 + 2], xm[9 + 5], xm[9 + 8]]; p = xp[0:3]; c = xp[3:6]; r = gs[3]; hl = gs[4]
    pre = [dot(n, n) == 1, dot(a, a) == 1, r > 0, hl > 0, P.margin >= 0]
    ex = llsym.Exec(mod(), fpmode='real', loop_bound=8); st = w.to_state(ex); st.pc += pre
    I = lambda v: z3.BitVecVal(v, 32)
    res = ex.run('@mjc_PlaneCapsule', [w.P(M.o), w.P(D.o), w.P(P.co), I(0), I(1), P.margin], st); ck.note_results(ex, res)
    nargs = [('ptr', (M.o, 0)), ('ptr', (D.o, 0)), ('ptr', (P.co, 0)), ('i32', 0), ('i32', 1), ('f64', P.margin)]
    names = {'plane_pos': p, 'plane_normal': n, 'capsule_pos': c, 'capsule_axis': a, 'radius': [r], 'halflength': [hl]}
    dec = lambda mdl: dict({k: [str(W.evalnum(mdl, x)) for x in v] for k, v in names.items()}, margin=str(W.evalnum(mdl, P.margin)))
    e1 = [c[i] + hl * a[i] for i in range(3)]; e2 = [c[i] - hl * a[i] for i in range(3)]
    d1 = dot(n, sub(e1, p)) - r; d2 = dot(n, sub(e2, p)) - r
    for rr in res:
        if rr.kind != 'return': continue
        pc = rr.state.pc
        rp = W.make_replay(so(), 'mjc_PlaneCapsule', w, nargs, restype='i32', ret_term=rr.value, outputs=P.outs(ex, rr.state, 2), semantics='real')
        cnt = z3.If(d1 <= P.margin, 1, 0) + z3.If(d2 <= P.margin, 1, 0)
        ck.prove('plane-capsule: one contact per end cap whose true distance is at most the margin', pc, z3.BV2Int(rr.value) == cnt, site='mjc_PlaneCapsule:count', decode=dec, replay=rp)
        c0 = P.read(ex, rr.state, 0); c1 = P.read(ex, rr.state, 1)
        def good(cc, e, dtrue):
            return z3.And(cc['dist'] == dtrue, cc['dist'] <= P.margin, *([cc['normal'][i] == n[i] for i in range(3)] + [cc['tangent'][i] == a[i] for i in range(3)] + [cc['pos'][i] == e[i] - n[i] * (r + dtrue / 2) for i in range(3)]))
        ck.prove('plane-capsule: first contact = the +axis end cap if it touches, else the -axis one: true distance, plane normal, midpoint position, tangent along the capsule axis', pc + [rr.value >= 1],
                 z3.If(d1 <= P.margin, good(c0, e1, d1), good(c0, e2, d2)), site='mjc_PlaneCapsule:contact0', decode=dec, replay=rp)
        ck.prove('plane-capsule: second contact = the -axis end cap', pc + [rr.value == 2], good(c1, e2, d2), site='mjc_PlaneCapsule:contact1', decode=dec, replay=rp)
    ck.reach('both caps touch', pre + [d1 <= P.margin, d2 <= P.margin]); ck.reach('capsule axis parallel to the plane normal', pre + [a[0] == n[0], a[1] == n[1], a[2] == n[2], d2 <= P.margin])
    ck.memory_obligations(res, decode=dec)
    return ck


def unit_frame(tier, source, part=0, nparts=1):
    """mju_makeFrame on every (normal, tangent) pair the colliders above produce: `free` = arbitrary tangent, `zero` = tangent (0,0,0), `capsule` = unit tangent (a capsule axis, possibly parallel to the normal)"""
    ck = Checker('frame_%s_p%d' % (source, part), tier, timeout_s=240, semantics='real')
    w = W.World('real')
    fo, f = w.arr('frame', 'f64', 9)
    nrm = f[0:3]; tan = f[3:6]
    pre = [dot(nrm, nrm) == 1]        # the colliders hand over unit normals (proved in the other units)
    if source == 'zero': pre += [t == 0 for t in tan]
    elif source == 'capsule': pre += [dot(tan, tan) == 1]
    ex = llsym.Exec(mod(), fpmode='real', loop_bound=8); ex.unknown_is_feasible = True; ex.feasibility_timeout_s = 8; st = w.to_state(ex); st.pc += pre
    res = ex.run('@mju_makeFrame', [w.P(fo)], st); ck.note_results(ex, res)
    ck.notes.append('branches whose feasibility the solver could not decide (explored as feasible): %d' % getattr(ex, 'nunknown', 0))
    dec = lambda mdl: {'normal': [str(W.evalnum(mdl, x)) for x in nrm], 'tangent': [str(W.evalnum(mdl, x)) for x in tan]}
    for k_, rr in enumerate(res):
        if k_ % nparts != part: continue       # the paths of this function are shared out over `nparts` units (each explores, proves its share)
        if rr.kind == 'error':
            ck.prove('makeFrame raises an error only for a normal shorter than 1/2', rr.state.pc, z3.BoolVal(False), site='mju_makeFrame:error', decode=dec, replay=W.make_replay(so_sp(), 'mju_makeFrame', w, [('ptr', (fo, 0))], expect='error'))
            continue
        if rr.kind != 'return': continue
        F = [ex.load(rr.state, w.P(fo, 8 * i), FpT('double')) for i in range(9)]
        x, y, z = F[0:3], F[3:6], F[6:9]
        rp = W.make_replay(so_sp(), 'mju_makeFrame', w, [('ptr', (fo, 0))], outputs=[('frame%d' % i, fo, 8 * i, 'f64', F[i]) for i in range(9)], semantics='real')
        ck.prove('contact frame: first row is the (unit) normal', rr.state.pc, z3.And(*[x[i] == nrm[i] for i in range(3)]), site='mju_makeFrame:normal', decode=dec, replay=rp)
        ck.prove('contact frame: second row is a unit vector (y.y = 1)', rr.state.pc, dot(y, y) == 1, site='mju_makeFrame:orthonormal', decode=dec, replay=rp)
        ck.prove('contact frame: second row is orthogonal to the normal (x.y = 0)', rr.state.pc, dot(x, y) == 0, site='mju_makeFrame:orthonormal', decode=dec, replay=rp)
        ck.prove('contact frame: third row completes a right-handed frame (z = x cross y)', rr.state.pc, z3.And(*[z[i] == cross(x, y)[i] for i in range(3)]), site='mju_makeFrame:orthonormal', decode=dec, replay=rp)
    ck.reach('tangent parallel to the normal', pre + ([tan[i] == nrm[i] for i in range(3)] if source != 'zero' else []))
    ck.memory_obligations(res, decode=dec)
    return ck


def unit_sphere_cylinder(tier, axis=(0, 0, 1)):
    """sphere-cylinder dispatches to sphere-sphere (side, corner) or plane-sphere (caps): which feature it picks and what it hands over is checked here against the geometry of a solid
    cylinder restated independently (nearest feature of the cylinder to the sphere centre); the two delegates are checked in their own units"""
    ck = Checker('sphere_cylinder_%s' % '_'.join(str(t) for t in axis), tier, timeout_s=200, semantics='real')
    L = lay(); P = Pair(); w = P.w
    M = W.SB(w, L, 'mjModel_', 'm'); D = W.SB(w, L, 'mjData_', 'd')
    go, gs = M.arr('geom_size', 'f64', 6, name='gsize'); xo, xp = D.arr('geom_xpos', 'f64', 6, name='gxpos'); mo, xm = D.arr('geom_xmat', 'f64', 18, name='gxmat')
    # the cylinder axis is a concrete signed coordinate axis (exactly representable unit vectors; a symbolic unit axis does not finish within 600 s), everything else is symbolic
    ax_o, a = [9 + 2, 9 + 5, 9 + 8], [z3.RealVal(str(fractions.Fraction(t))) for t in axis]
    for o_, v_ in zip(ax_o, axis): mo.put(8 * o_, 'f64', float(fractions.Fraction(v_)))
    c = xp[0:3]; p2 = xp[3:6]; r1 = gs[0]; R = gs[3]; h = gs[4]
    pre = [r1 > 0, R > 0, h > 0, P.margin >= 0]
    calls = []
    ld3 = lambda ex, st, ptr, n=3: [ex.load(st, llsym.Ptr(ptr.obj, ptr.off + 8 * i), FpT('double')) for i in range(n)]
    def ss_stub(ex, st, args, ins):
        k = len(calls); ret = z3.BitVec('ss_ret%d' % k, 32)
        calls.append(dict(kind='ss', con=args[0], margin=args[1], pos1=args[2], mat1=args[3], size1=args[4], c2=ld3(ex, st, args[5]), mat2=args[6], r2=ld3(ex, st, args[7], 1)[0], ret=ret)); st.aux['delegate'] = k
        return ret
    def ps_stub(ex, st, args, ins):
        k = len(calls); ret = z3.BitVec('ps_ret%d' % k, 32)
        nn = [z3.Real('ps_normal%d_%d' % (k, i)) for i in range(3)]
        for i in range(3): ex.store(st, llsym.Ptr(args[0].obj, args[0].off + P.off['normal'] + 8 * i), FpT('double'), nn[i])
        calls.append(dict(kind='ps', con=args[0], margin=args[1], ppos=ld3(ex, st, args[2]), pmat=ld3(ex, st, args[3], 9), spos=args[5], smat=args[6], ssize=args[7], ret=ret, nn=nn)); st.aux['delegate'] = k
        return ret
    ex = llsym.Exec(mod(), fpmode='real', loop_bound=8, stubs={'mjraw_SphereSphere': ss_stub, 'mjraw_PlaneSphere': ps_stub}); ex.unknown_is_feasible = True; ex.feasibility_timeout_s = 2
    st = w.to_state(ex); st.pc += pre
    I = lambda v: z3.BitVecVal(v, 32)
    res = ex.run('@mjc_SphereCylinder', [w.P(M.o), w.P(D.o), w.P(P.co), I(0), I(1), P.margin], st); ck.note_results(ex, res)
    nargs = [('ptr', (M.o, 0)), ('ptr', (D.o, 0)), ('ptr', (P.co, 0)), ('i32', 0), ('i32', 1), ('f64', P.margin)]
    names = {'sphere_pos': c, 'sphere_radius': [r1], 'cylinder_pos': p2, 'cylinder_axis': a, 'cylinder_radius': [R], 'cylinder_halfheight': [h]}
    dec = lambda mdl: dict({k: [str(W.evalnum(mdl, x)) for x in v] for k, v in names.items()}, margin=str(W.evalnum(mdl, P.margin)))
    v = sub(c, p2); x = dot(a, v); pp = [v[i] - x * a[i] for i in range(3)]; rho2 = dot(pp, pp)
    ax_ = z3.If(x >= 0, x, -x); sg = z3.If(x > 0, z3.RealVal(1), z3.RealVal(-1))
    inside_h = ax_ < h; inside_r = rho2 < R * R
    gap = R - (h - ax_)           # cap nearer than side  <=>  rho < R - (h - |x|)
    cap_nearer = z3.And(gap > 0, rho2 < gap * gap); side_strict = z3.Or(gap < 0, rho2 > gap * gap)
    def rp(model, witness):
        """native run of the real collider (real delegates) against the signed distance of a point to a solid cylinder"""
        import math
        vals = w.concretise(model)
        status = W.native_call(so(), 'mjc_SphereCylinder', w, vals, nargs, restype='i32', outputs=[('dist', P.co, P.off['dist'], 'f64')] + [('n%d' % i, P.co, P.off['normal'] + 8 * i, 'f64') for i in range(3)])
        if status[0] != 'ok': return False, {'native': str(status)[:200]}
        g = lambda xs: [float(W.evalnum(model, t)) for t in xs]
        C, P2, A = g(c), g(p2), g(a); R1, RR, HH, MG = [float(W.evalnum(model, t)) for t in (r1, R, h, P.margin)]
        V = [C[i] - P2[i] for i in range(3)]; X = sum(A[i] * V[i] for i in range(3)); RHO = math.sqrt(max(0.0, sum((V[i] - X * A[i]) ** 2 for i in range(3))))
        dx = abs(X) - HH; dr = RHO - RR
        sd = math.hypot(max(dx, 0.0), max(dr, 0.0)) if (dx > 0 or dr > 0) else max(dx, dr)
        true = sd - R1; ret = status[1]['ret']; dist = status[1]['out']['dist']
        bad = False
        if abs(true - MG) > 1e-9 and (ret == 1) != (true <= MG): bad = True
        if ret == 1 and abs(dist - true) > 1e-9 * max(1.0, abs(true)): bad = True
        return bad, {'native_ret': ret, 'native_dist': dist, 'true_distance': true, 'margin': MG, 'x': X, 'rho': RHO}
    nret = 0
    for rr in res:
        if rr.kind != 'return': continue
        nret += 1; pc = rr.state.pc
        k = rr.state.aux.get('delegate')
        if k is None: ck.error('a path returns without a delegate call'); continue
        cl = calls[k]
        same = lambda ptr, o, off=0: isinstance(ptr, llsym.Ptr) and ptr.obj == w.map[o].obj and ptr.off == off
        if cl['kind'] == 'ps':
            ok_ptrs = same(cl['con'], P.co) and same(cl['spos'], xo) and same(cl['smat'], mo)
            sgn = z3.If(x > 0, z3.RealVal(1), z3.RealVal(-1))
            nrm = [cl['pmat'][2], cl['pmat'][5], cl['pmat'][8]]
            ck.prove('cap contact: only chosen when the sphere centre is over a cap (inside the radius) and, when it is inside the cylinder, the cap is not farther than the side', pc,
                     z3.And(inside_r, z3.Implies(inside_h, z3.Not(side_strict))),
                     site='mjc_SphereCylinder:cap-choice', decode=dec, replay=rp)
            ck.prove('cap contact: the plane handed to plane-sphere is the cap on the sphere\'s side of the cylinder (centre pos + sign(x) * height * axis, outward normal sign(x) * axis), with the sphere, margin and buffer unchanged', pc + [x != 0],
                     z3.And(z3.BoolVal(ok_ptrs), cl['margin'] == P.margin, *([cl['ppos'][i] == p2[i] + sgn * h * a[i] for i in range(3)] + [nrm[i] == sgn * a[i] for i in range(3)])), site='mjc_SphereCylinder:cap-args', decode=dec, replay=rp)
            nout = [ex.load(rr.state, w.P(P.co, P.off['normal'] + 8 * i), FpT('double')) for i in range(3)]
            ck.prove('cap contact: the count of plane-sphere is returned and its normal is reversed (sphere is the first geom)', pc, z3.And(rr.value == cl['ret'], z3.Implies(cl['ret'] != 0, z3.And(*[nout[i] == -cl['nn'][i] for i in range(3)]))),
                     site='mjc_SphereCylinder:cap-flip', decode=dec, replay=rp)
        else:
            ok_ptrs = same(cl['con'], P.co) and same(cl['pos1'], xo) and same(cl['mat1'], mo) and same(cl['size1'], go)
            q = cl['c2']; wv = [q[i] - p2[i] - sg * h * a[i] for i in range(3)]; cr = cross(wv, pp)
            side = z3.And(cl['r2'] == R, *[q[i] == p2[i] + x * a[i] for i in range(3)])
            corner = z3.And(cl['r2'] == 0, dot(wv, wv) == R * R, dot(wv, pp) >= 0, *[cr[i] == 0 for i in range(3)])
            ck.prove('sphere-sphere delegate: next to the side (|x| < height) the second sphere is the axis point at the same height with the cylinder radius; beyond a cap and outside the radius it is the '
                     'point of the rim nearest to the sphere centre with zero radius', pc, z3.And(z3.BoolVal(ok_ptrs), cl['margin'] == P.margin, rr.value == cl['ret'], z3.If(inside_h, side, z3.And(z3.Not(inside_r), corner))),
                     site='mjc_SphereCylinder:side-corner-args', decode=dec, replay=rp)
            ck.prove('side contact with the sphere centre inside the cylinder: only when the side is not farther than the nearer cap', pc + [inside_h, inside_r], z3.Not(z3.And(cap_nearer)), site='mjc_SphereCylinder:side-choice', decode=dec, replay=rp)
    if nret < 4: ck.error('expected at least 4 returning paths (side, cap top/bottom, corner), got %d' % nret)
    ck.paths['sphere_cylinder'] = nret
    ck.reach('sphere centre inside the cylinder, nearer to the bottom cap', pre + [inside_h, inside_r, cap_nearer, x < 0]); ck.memory_obligations(res, decode=dec)
    return ck


def units(tier):
    u = [('plane_sphere', 'unit_plane_sphere', {}), ('sphere_sphere', 'unit_sphere_sphere', {}), ('sphere_capsule', 'unit_sphere_capsule', {}), ('plane_capsule', 'unit_plane_capsule', {}), ('sphere_cylinder_0_0_1', 'unit_sphere_cylinder', {'axis': (0, 0, 1)}), ('sphere_cylinder_0_-1_0', 'unit_sphere_cylinder', {'axis': (0, -1, 0)})]
    u += [('frame_zero', 'unit_frame', {'source': 'zero'})] + [('frame_free_p%d' % k, 'unit_frame', {'source': 'free', 'part': k, 'nparts': 7}) for k in range(7)]
    if tier != 'quick': u += [('frame_capsule_p%d' % k, 'unit_frame', {'source': 'capsule', 'part': k, 'nparts': 4}) for k in range(4)]
    return u
