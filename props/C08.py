"""C08 (energy bookkeeping part): reported kinetic energy = 1/2 qvel' M qvel; spring forces = minus the gradient of the reported potential; gravity potential = -sum m g.x."""
import re
import z3
from vf import ir, build, llsym, world as W
from vf.runner import Checker
from vf.irparse import IntT, FpT, PtrT
from props import C06
from props.cu_common import diff

ID = 'C08'
LEVEL = 'other'
TUS = ['src/engine/engine_sensor.c', 'src/engine/engine_core_smooth.c', 'src/engine/engine_passive.c', 'src/engine/engine_support.c', 'src/engine/engine_core_util.c', 'src/engine/engine_util_blas.c', 'src/engine/engine_util_misc.c',
       'src/engine/engine_util_sparse.c', 'src/engine/engine_util_spatial.c']
SUP = ['src/engine/engine_support.c', 'src/engine/engine_core_util.c', 'src/engine/engine_util_blas.c', 'src/engine/engine_util_misc.c', 'src/engine/engine_util_sparse.c', 'src/engine/engine_util_spatial.c',
       'src/engine/engine_util_errmem.c', 'src/engine/engine_memory.c', 'src/engine/engine_core_smooth.c']
EXPLANATION = ('llsym (real-algebraic) runs the real mj_energyVel, mj_energyPos and the real static mj_springdamper on symbolic models. (1) energy[1] equals 1/2 * qvel^T M qvel with M written out from its stored sparse entries (symmetric '
               'completion), for the tree topologies of C06 with every stored entry of M and every velocity free. (2) On slide / hinge joints with linear and polynomial stiffness, and on tendons with a length dead-band, the potential '
               'energy that mj_energyPos reports is differentiated SYMBOLICALLY with respect to each joint position / tendon length, and z3 must show that the spring force mj_springdamper produces is exactly minus that gradient '
               '(for tendons: minus dE/dlength times the moment arm). (2b) mj_subtreeVel: the linear velocity of every subtree times its mass is the sum of the bodies\' momenta, and the angular momentum of a one-body subtree is R I R^T w about its centre of mass (inertial frame ximat). (3) The gravity term is -sum_i m_i g . xipos_i and vanishes with mjDSBL_GRAVITY; the spring term vanishes with mjDSBL_SPRING.')
BOUNDS = {'quick': {'kinetic': 'chain3, fork3, twodof (nv = 3)', 'springs': '2 scalar joints, 1 tendon over both dofs'}, 'thorough': {'kinetic': 'plus chain4, fork4, mixed5', 'springs': 'same as quick', 'momentum': 'twodof, chain3, fork3'}}
OUTSIDE = ('conservation of the total energy along RK4 trajectories and its fourth-order drift, conservation of momentum (multi-step floating-point trajectories: not a bounded query); ball / free joint springs (quaternion difference); '
           'angular momentum of subtrees with more than one body (the recursive accumulation about moving centres of mass is a rational identity nlsat does not finish; leaf subtrees are covered); flex edge springs; the gravitational force itself (it comes out of mj_rne, see C06).')
ASSUMPTIONS = ['real-number semantics', 'sleep disabled', 'tendon_lengthspring[0] <= [1]', 'mj_stackAllocInfo returns a fresh block']
BUDGET = {'quick': 400, 'thorough': 1200}
_c = {}


def mod():
    if 'm' not in _c: _c['m'] = ir.load(TUS)
    return _c['m']


def so():
    if 'so' not in _c: _c['so'] = build.native_lib(['src/engine/engine_sensor.c'], SUP, name='sensor_energy')
    return _c['so']


def so_passive():
    if 'so2' not in _c: _c['so2'] = build.native_lib(['src/engine/engine_passive.c'], SUP, name='passive_energy')
    return _c['so2']


def prepare(tier): mod(); so(); so_passive(); so_smooth(); C06.lay()


def I(v): return z3.BitVecVal(v, 32)


def executor(lb=32):
    def alloc(ex, st, args, ins):
        size = ex.as_int(args[1]); return st.alloc(size, ('stack', len(st.objs)))
    noop = lambda ex, st, args, ins: None
    return llsym.Exec(mod(), fpmode='real', stubs={'mj_stackAllocInfo': alloc, 'mj_markStack': noop, 'mj_freeStack': noop}, loop_bound=lb)


def unit_kinetic(tier, topo):
    ck = Checker('kinetic_%s' % topo, tier, timeout_s=120, semantics='real')
    S, w, M, D = C06.world(topo, ('M', 'qvel'))
    nv = S['nv']
    eo, e0 = D.arr('energy', 'f64', 2, name='energy') if False else (None, None)
    Mv = D.arrays['M'][3]; qv = D.arrays['qvel'][3]
    ex = executor(nv * nv + 16); st = w.to_state(ex)
    # energy is an in-struct array of two doubles
    L = C06.lay(); eoff = L.field('mjData_', 'energy')[0]
    res = ex.run('@mj_energyVel', [w.P(M.o), w.P(D.o)], st); ck.note_results(ex, res)
    def Mentry(i, j):
        if j in S['anc'][i]: return Mv[S['rowadr'][i] + S['anc'][i].index(j)]
        if i in S['anc'][j]: return Mv[S['rowadr'][j] + S['anc'][j].index(i)]
        return z3.RealVal(0)
    want = sum(qv[i] * Mentry(i, j) * qv[j] for i in range(nv) for j in range(nv)) / 2
    dec = lambda mdl: {'topology': topo, 'qvel': [str(W.evalnum(mdl, x)) for x in qv], 'M': [str(W.evalnum(mdl, x)) for x in Mv]}
    for r in res:
        if r.kind != 'return': continue
        ke = ex.load(r.state, w.P(D.o, eoff + 8), FpT('double'))
        rp = W.make_replay(so(), 'mj_energyVel', w, [('ptr', (M.o, 0)), ('ptr', (D.o, 0))], outputs=[('kinetic', D.o, eoff + 8, 'f64', ke)], semantics='real')
        ck.prove('reported kinetic energy = 1/2 qvel^T M qvel (M symmetric from its stored lower triangle)', r.state.pc, ke == want, site='mj_energyVel:kinetic', decode=dec, replay=rp)
        flag = ex.load(r.state, w.P(D.o, L.field('mjData_', 'flg_energyvel')[0]), IntT(8 * L.field('mjData_', 'flg_energyvel')[1]))
        ck.prove('flg_energyvel is set', r.state.pc, flag != 0, site='mj_energyVel:flag', decode=dec, replay=rp)
    ck.reach('free symbols', [])
    ck.memory_obligations(res, decode=dec)
    return ck


def unit_springs(tier, nv, nt, flags):
    """dE/dq = -qfrc_spring on scalar joints; tendons contribute through their moment arms"""
    ck = Checker('springs_nv%d_nt%d_f%d' % (nv, nt, flags), tier, timeout_s=200, semantics='real')
    L = C06.lay(); K = build.enum_values('mjJNT_'); KD = build.enum_values('mjDSBL_')
    npoly = int(re.search(r'#define mjNPOLY\s+(\d+)', open(build.REPO + '/include/mujoco/mjmodel.h').read() + open(build.REPO + '/include/mujoco/mjtype.h').read()).group(1))
    w = W.World('real'); nb = nv + 1
    rowadr = [0, nv][:nt]; rownnz = [nv, 1][:nt]; colind = (list(range(nv)) + [nv - 1])[:sum(rownnz)]; nJ = len(colind)
    sizes = {'nq': nv, 'nv': nv, 'njnt': nv, 'nbody': nb, 'ntree': nv, 'ntendon': nt, 'nJten': nJ}
    M, _ = W.full_struct(w, L, 'mjModel_', 'MJMODEL_POINTERS', sizes, 'm', default_size=0,
                         symbolic=('jnt_stiffness', 'jnt_stiffnesspoly', 'qpos_spring', 'tendon_stiffness', 'tendon_stiffnesspoly', 'tendon_lengthspring', 'body_mass'),
                         values={'jnt_type': [K['mjJNT_SLIDE'] if j % 2 == 0 else K['mjJNT_HINGE'] for j in range(nv)], 'jnt_qposadr': list(range(nv)), 'jnt_dofadr': list(range(nv)), 'body_jntadr': [-1] + list(range(nv)),
                                 'body_jntnum': [0] + [1] * nv, 'jnt_actuatorid': [-1] * nv, 'dof_jntid': list(range(nv)), 'ten_J_rowadr': rowadr, 'ten_J_rownnz': rownnz, 'ten_J_colind': colind, 'tendon_actuatorid': [-1] * nt})
    D, _ = W.full_struct(w, L, 'mjData_', 'MJDATA_POINTERS', sizes, 'd', default_size=0, symbolic=('qpos', 'ten_length', 'ten_J', 'xipos'))
    ar = w.obj('arena', 8192).zeros(); D.o.put(D.off('arena'), 'ptr', (ar, 0)); D.set('narena', 8192)
    dis = (KD['mjDSBL_SPRING'] if flags & 1 else 0) | (KD['mjDSBL_GRAVITY'] if flags & 2 else 0)
    M.set('opt.disableflags', dis); M.set('opt.enableflags', 0)
    g = [M.sym('opt.gravity[%d]' % k, 'g%d' % k) for k in range(3)]
    q = D.arrays['qpos'][3]; ln = D.arrays['ten_length'][3]; J = D.arrays['ten_J'][3]; ls = M.arrays['tendon_lengthspring'][3]; mass = M.arrays['body_mass'][3]; xi = D.arrays['xipos'][3]
    pre = [ls[2 * i] <= ls[2 * i + 1] for i in range(nt)]
    eoff = L.field('mjData_', 'energy')[0]
    ex = executor(max(nv, npoly, nJ) + 8); st = w.to_state(ex); st.pc += pre
    res_e = ex.run('@mj_energyPos', [w.P(M.o), w.P(D.o)], st.clone()); ck.note_results(ex, res_e)
    res_f = ex.run('@mj_springdamper', [w.P(M.o), w.P(D.o)], st.clone()); ck.note_results(ex, res_f)
    dec = lambda mdl: {'qpos': [str(W.evalnum(mdl, x)) for x in q], 'ten_length': [str(W.evalnum(mdl, x)) for x in ln], 'flags': flags}
    for re_ in res_e:
        if re_.kind != 'return': continue
        E = ex.load(re_.state, w.P(D.o, eoff), FpT('double'))
        rp_e = W.make_replay(so(), 'mj_energyPos', w, [('ptr', (M.o, 0)), ('ptr', (D.o, 0))], outputs=[('potential', D.o, eoff, 'f64', E)], semantics='real')
        grav = z3.RealVal(0) if flags & 2 else -sum(mass[b] * sum(g[k] * xi[3 * b + k] for k in range(3)) for b in range(1, nb))
        # E - gravity part depends only on the springs
        if flags & 1:
            ck.prove('springs disabled: the reported potential is the gravity term alone (-sum m g.x, zero with gravity disabled)', re_.state.pc, E == grav, site='mj_energyPos:gravity', decode=dec, replay=rp_e)
        else:
            ck.prove('the potential is the gravity term at the spring rest state (all joints at qpos_spring, tendon lengths inside the dead band)', re_.state.pc +
                     [q[i] == M.arrays['qpos_spring'][3][i] for i in range(nv)] + [z3.And(ln[t] >= ls[2 * t], ln[t] <= ls[2 * t + 1]) for t in range(nt)], E == grav, site='mj_energyPos:rest', decode=dec, replay=rp_e)
        for rf in res_f:
            if rf.kind != 'return': continue
            pc = re_.state.pc + [c for c in rf.state.pc if not any(c.eq(c2) for c2 in re_.state.pc)]
            fs = [ex.load(rf.state, w.P(D.arrays['qfrc_spring'][0], 8 * i), FpT('double')) for i in range(nv)]
            rp_f = W.make_replay(so_passive(), 'mj_springdamper', w, [('ptr', (M.o, 0)), ('ptr', (D.o, 0))], outputs=[('qfrc_spring%d' % i, D.arrays['qfrc_spring'][0], 8 * i, 'f64', fs[i]) for i in range(nv)], semantics='real')
            def rp(model, witness, rp_e=rp_e, rp_f=rp_f):
                a, da = rp_e(model, witness); b_, db = rp_f(model, witness)
                return (a and b_), {'mj_energyPos': da, 'mj_springdamper': db}
            for i in range(nv):
                # total derivative of E along dof i: joint term plus tendon terms through dlength/dq_i = J
                dE = diff(E, q[i], {})
                for t in range(nt):
                    dEl = diff(E, ln[t], {})
                    for j in range(rowadr[t], rowadr[t] + rownnz[t]):
                        if colind[j] == i: dE = dE + dEl * J[j]
                # away from the kinks of the dead band the potential is differentiable
                smooth = [z3.And(ln[t] != ls[2 * t], ln[t] != ls[2 * t + 1]) for t in range(nt)]
                ck.prove('spring force on dof %d = - d(reported potential)/dq (joint spring plus tendon springs through their moment arms)' % i, pc + smooth, fs[i] == -dE, site='mj_springdamper:gradient', decode=dec, replay=rp)
    ck.reach('stretched tendon', pre + ([ln[0] > ls[1]] if nt else []))
    return ck


def unit_momentum(tier, topo):
    """mj_subtreeVel: subtree linear velocity = total momentum / subtree mass; subtree angular momentum (about the subtree COM) = sum of R I R^T w + m (x - COM) x (v - V) over the subtree"""
    ck = Checker('momentum_%s' % topo, tier, timeout_s=200, semantics='real')
    KO = build.enum_values('mjOBJ_')
    S, w, M, D = C06.world(topo, ('cvel', 'xipos', 'ximat'))
    nv, nb = S['nv'], S['nb']
    sub = {b: [c for c in range(nb) if c == b or desc(S, c, b)] for b in range(nb)}
    mo, mass = M.arr('body_mass', 'f64', nb, name='mass'); io, inert = M.arr('body_inertia', 'f64', 3 * nb, name='inertia')
    xi0 = D.arrays['xipos'][3]
    # subtree mass and subtree centre of mass are DEFINED from the body masses and COM positions (what mj_setConst / mj_comPos compute), as terms - not as side constraints
    sm = [sum(mass[c] for c in sub[b]) for b in range(nb)]
    M.arr('body_subtreemass', 'f64', nb, sm, name='smass')
    comv = [sum(mass[c] * xi0[3 * c + k] for c in sub[b]) / sm[b] for b in range(nb) for k in range(3)]
    D.arr('subtree_com', 'f64', 3 * nb, comv, name='subtree_com')
    vo, _ = w.arr('vel', 'f64', 6, [0.0] * 6)
    ex = executor(8 * nb + 16); st = w.to_state(ex)
    xi = D.arrays['xipos'][3]; com = D.arrays['subtree_com'][3]; R = D.arrays['ximat'][3]
    sub = {b: [c for c in range(nb) if c == b or desc(S, c, b)] for b in range(nb)}
    import fractions
    MINV = z3.RealVal(str(fractions.Fraction(1e-15)))      # mjMINVAL as the double it is
    pre = [sm[b] >= MINV for b in range(nb)] + [m_ >= 0 for m_ in mass]
    st.pc += pre
    # body velocities from the real mj_objectVelocity
    vel = {}
    for b in range(nb):
        rr = [r for r in ex.run('@mj_objectVelocity', [w.P(M.o), w.P(D.o), z3.BitVecVal(KO['mjOBJ_BODY'], 32), z3.BitVecVal(b, 32), w.P(vo), z3.BitVecVal(0, 32)], st.clone()) if r.kind == 'return']
        if len(rr) != 1: ck.error('mj_objectVelocity paths %d' % len(rr)); return ck
        vel[b] = [ex.load(rr[0].state, w.P(vo, 8 * k), FpT('double')) for k in range(6)]
    res = ex.run('@mj_subtreeVel', [w.P(M.o), w.P(D.o)], st.clone()); ck.note_results(ex, res)
    dec = lambda mdl: {'topology': topo, 'mass': [str(W.evalnum(mdl, x)) for x in mass]}
    def cr(a, b): return [a[1] * b[2] - a[2] * b[1], a[2] * b[0] - a[0] * b[2], a[0] * b[1] - a[1] * b[0]]
    for r in res:
        if r.kind != 'return': continue
        lv = [ex.load(r.state, w.P(D.arrays['subtree_linvel'][0], 8 * k), FpT('double')) for k in range(3 * nb)]
        am = [ex.load(r.state, w.P(D.arrays['subtree_angmom'][0], 8 * k), FpT('double')) for k in range(3 * nb)]
        outs = [('linvel%d' % k, D.arrays['subtree_linvel'][0], 8 * k, 'f64', lv[k]) for k in range(3 * nb)] + [('angmom%d' % k, D.arrays['subtree_angmom'][0], 8 * k, 'f64', am[k]) for k in range(3 * nb)]
        rp = W.make_replay(so_smooth(), 'mj_subtreeVel', w, [('ptr', (M.o, 0)), ('ptr', (D.o, 0))], outputs=outs, semantics='real')
        for b in range(nb):
            ck.prove('subtree %d: linear velocity * subtree mass = sum of m v over the subtree' % b, r.state.pc, z3.And(*[lv[3 * b + k] * sm[b] == sum(mass[c] * vel[c][3 + k] for c in sub[b]) for k in range(3)]),
                     site='mj_subtreeVel:linear', decode=dec, replay=rp)
            if b == 0 or len(sub[b]) > 1: continue       # subtrees with children: the rational identity does not finish in nlsat (outside the claim)
            tot = [z3.RealVal(0)] * 3
            for c in sub[b]:
                Rc = R[9 * c:9 * c + 9]; wv = vel[c][0:3]
                loc = [sum(Rc[3 * k + i] * wv[k] for k in range(3)) * inert[3 * c + i] for i in range(3)]        # I * (R^T w) in the inertial frame
                spin = [sum(Rc[3 * k + i] * loc[i] for i in range(3)) for k in range(3)]
                dx = [xi[3 * c + k] - com[3 * b + k] for k in range(3)]; dv = [vel[c][3 + k] - lv[3 * b + k] for k in range(3)]
                orb = cr(dx, [mass[c] * x for x in dv])
                tot = [tot[k] + spin[k] + orb[k] for k in range(3)]
            ck.prove('subtree %d: angular momentum about the subtree COM = sum of R I R^T w + m (x - COM) x (v - V)' % b, r.state.pc, z3.And(*[am[3 * b + k] == tot[k] for k in range(3)]), site='mj_subtreeVel:angular', decode=dec, replay=rp)
    ck.reach('consistent centres of mass', pre)
    return ck


def desc(S, c, b):
    while c > 0:
        c = S['par'][c]
        if c == b: return True
    return False


def so_smooth():
    if 'so3' not in _c: _c['so3'] = build.native_lib(['src/engine/engine_core_smooth.c'], [t for t in SUP if t != 'src/engine/engine_core_smooth.c'], name='smooth_c08')
    return _c['so3']


def units(tier):
    u = [('kinetic_%s' % t, 'unit_kinetic', {'topo': t}) for t in (['chain3', 'fork3', 'twodof'] if tier == 'quick' else ['chain3', 'fork3', 'twodof', 'chain4', 'fork4', 'mixed5'])]
    u += [('momentum_%s' % t, 'unit_momentum', {'topo': t}) for t in (['twodof'] if tier == 'quick' else ['twodof', 'chain3', 'fork3'])]
    for nv, nt in [(2, 1)]:      # three joints do not finish within the unit budget (every energy path x force path pair is differentiated)
        for f in (0, 1, 2): u.append(('springs_nv%d_nt%d_f%d' % (nv, nt, f), 'unit_springs', {'nv': nv, 'nt': nt, 'flags': f}))
    return u
