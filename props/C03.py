"""C03 Thread-pool dispatch runs each task exactly once: all interleavings of the real Dispatch / Worker IR at their atomic accesses."""
import z3, itertools, time, ctypes, os
from vf import ir, build, llsym, world as W
from vf.runner import Checker
from vf.irparse import IntT, PtrT

ID = 'C03'
LEVEL = 'model_checking'
ENGINE = 'llconc'
TECHNIQUE = 'symbolic execution of the real ThreadPoolContext::Dispatch and ::Worker LLVM IR as threads sharing one memory; every atomic/shared access is a scheduling point, all interleavings are explored (visited-state pruning) with the task count a free solver variable; z3 decides branch feasibility and the per-state obligations'
EXPLANATION = ('engine_thread.cc is lowered with clang++ (-O0, mem2reg): the std::atomic operations of Dispatch and Worker are plain atomic load/store/atomicrmw instructions in the IR. The main thread '
               'runs Dispatch twice (two consecutive batches, which exercises the sign flip of signal_), W workers run Worker(1..W), then the pool is shut down as the destructor does (signal_ = 0). '
               'Every access to next_, ndone_, signal_ and ntask_ is a scheduling point; all schedules are explored under sequential consistency, with the number of tasks of each batch a symbolic '
               'integer in [0, N] decided by z3 at each comparison. Checked in every reachable state: at the return of each Dispatch every task id of the batch has run exactly once with a thread id in '
               '[0, W] and all W workers have signalled completion; no task of a batch runs after Dispatch returned; no stuck state (main not finished while every thread is blocked or spinning '
               'without effect); after shutdown every worker returns.')
BOUNDS = {'quick': {'configurations (workers, max tasks per batch, batches)': [(1, 2, 2), (2, 2, 1)]}, 'thorough': {'configurations': [(1, 3, 2), (2, 3, 1)]}}
OUTSIDE = ('weak-memory reorderings (the relaxed orderings on next_/ntask_ are NOT justified by this check: sequential consistency is assumed), OS thread creation/joining (constructor and destructor bodies), '
           'mju_dispatch\'s stack bookkeeping (C19), three or more workers (state budget exceeded even for one task); two consecutive batches with two or more workers (state space exceeds the budget: > 400 000 states), covered with one worker.')
ASSUMPTIONS = ['sequential consistency', 'std::atomic<int>::wait(old): if the value equals old the thread sleeps until a notify on that atomic, then re-checks (futex semantics: check and sleep are one atomic step); notify_all wakes every sleeper', 'std::vector<std::thread>::size() = W',
               'the task function is atomic w.r.t. the protocol (it only records (thread id, task id))']
BUDGET = {'quick': 900, 'thorough': 3000}
_c = {}
TU = 'src/engine/engine_thread.cc'
DISPATCH = '@_ZN17ThreadPoolContext8DispatchEPK8mjModel_P7mjData_PFvS2_S4_PviiES5_i'
WORKER = '@_ZN17ThreadPoolContext6WorkerEi'


def mod():
    if 'm' not in _c: _c['m'] = ir.load([TU])
    return _c['m']


def prepare(tier): mod(); stress_so()


def I(v): return z3.BitVecVal(v, 32)


STRESS_CC = r'''
#include <atomic>
#include <csignal>
#include <cstring>
#include <unistd.h>
static std::atomic<int> vf_cnt[64]; static std::atomic<int> vf_bad{0};
static void vf_task(const mjModel* m, mjData* d, void* arg, int tid, int task) { vf_cnt[task].fetch_add(1); if (tid < 0 || tid > *(int*)arg) vf_bad.store(1); }
static void vf_alarm(int s) { _exit(99); }
// stall injection: thread `vf_stall_tid` (0 = dispatching thread, workers numbered by first atomic access) sleeps before its vf_stall_k-th atomic access
static int vf_stall_tid = -1, vf_stall_k = 0, vf_stall_us = 0, vf_stall2_tid = -1, vf_stall2_k = 0, vf_stall2_us = 0; static std::atomic<int> vf_nthreads{0};
static thread_local int vf_tid = -1; static thread_local int vf_count = 0; static thread_local bool vf_in_hook = false;
extern "C" void vf_atomic_point() {
  if (vf_in_hook) return; vf_in_hook = true;
  if (vf_tid < 0) vf_tid = vf_nthreads.fetch_add(1);
  if (vf_tid == vf_stall_tid || vf_tid == vf_stall2_tid) { ++vf_count; if (vf_tid == vf_stall_tid && vf_count == vf_stall_k) usleep(vf_stall_us); if (vf_tid == vf_stall2_tid && vf_count == vf_stall2_k) usleep(vf_stall2_us); }
  vf_in_hook = false;
}
// one history on a fresh pool: dispatch(n0) [dispatch(n1)]; the dispatching thread is thread 0
extern "C" int vf_history(int W, int n0, int n1, int stall_tid, int stall_k, int stall_us, int stall_round, int stall2_tid, int stall2_k, int stall2_us) {
  vf_stall2_tid = stall2_tid; vf_stall2_k = stall2_k; vf_stall2_us = stall2_us;
  static mjData d; memset(&d, 0, sizeof(d));
  vf_stall_tid = stall_tid; vf_stall_k = stall_k; vf_stall_us = stall_us; vf_nthreads.store(0); vf_tid = -1; vf_count = 0; vf_bad.store(0);
  signal(SIGALRM, vf_alarm); alarm(10);
  vf_atomic_point();                       // register the dispatcher as thread 0
  vf_count = 1 << 30;                      // its accesses are counted only inside the selected Dispatch call
  mju_threadpool(&d, W);
  int rc = 0; int ns[2] = {n0, n1};
  for (int r = 0; r < 2 && !rc; r++) {
    if (ns[r] < 0) break;
    for (int i = 0; i < 64; i++) vf_cnt[i].store(0);
    if (r == stall_round) vf_count = 0;     // the dispatching thread's accesses are counted from the start of this Dispatch
    reinterpret_cast<ThreadPoolContext*>(d.threadpool)->Dispatch(nullptr, &d, vf_task, &W, ns[r]);
    vf_count = 1 << 30;
    for (int i = 0; i < 64; i++) if (vf_cnt[i].load() != (i < ns[r] ? 1 : 0)) rc = 1;
    if (vf_bad.load()) rc = 2;
  }
  vf_stall_tid = -1; vf_stall2_tid = -1;
  mju_threadpool(&d, 0);
  alarm(0);
  return rc;
}
// returns 0 ok, 1 task count wrong, 2 bad thread id; exits 99 on hang
extern "C" int vf_stress(int W, int ntask, int rounds) {
  static mjData d; memset(&d, 0, sizeof(d));
  signal(SIGALRM, vf_alarm); alarm(20);
  mju_threadpool(&d, W);
  int rc = 0;
  for (int r = 0; r < rounds && !rc; r++) {
    for (int i = 0; i < 64; i++) vf_cnt[i].store(0);
    reinterpret_cast<ThreadPoolContext*>(d.threadpool)->Dispatch(nullptr, &d, vf_task, &W, ntask);
    for (int i = 0; i < ntask; i++) if (vf_cnt[i].load() != 1) rc = 1;
    if (vf_bad.load()) rc = 2;
  }
  mju_threadpool(&d, 0);
  alarm(0);
  return rc;
}
'''


def stress_so():
    """native library for replay by stress: the real engine_thread.cc with real threads (schedules are not controllable natively)"""
    if 'so' not in _c:
        wrapper = os.path.join(build.WORK, 'vf_thread_wrap.cc')
        os.makedirs(build.WORK, exist_ok=True)
        open(wrapper, 'w').write('#include "%s"\n' % os.path.join(build.REPO, TU) + STRESS_CC)
        _c['so'] = build.native_lib([wrapper], [], name='thread_stress', expose_static=False, hook_atomics='points')
    return _c['so']


class Pool:
    """one ThreadPoolContext object laid out from the IR struct type"""
    def __init__(self, ex, st, W_):
        m = ex.mod
        t = ex.resolve(m.types['%class.ThreadPoolContext'])
        offs, size, _ = ex.struct_layout(t)
        self.off = dict(model=offs[0], data=offs[1], func=offs[2], arg=offs[3], ntask=offs[4], next=offs[5], ndone=offs[7], signal=offs[8], threads=offs[9])
        self.p = st.alloc(size, 'ctx')
        o = st.objs[self.p.obj]
        for k in ('model', 'data', 'arg'): o.cells[self.off[k]] = (llsym.NULL, 8)
        o.cells[self.off['func']] = (llsym.NULL, 8)
        o.cells[self.off['ntask']] = (I(0), 4); o.cells[self.off['next']] = (I(0), 4); o.cells[self.off['ndone']] = (I(0), 4); o.cells[self.off['signal']] = (I(1), 4)
        self.shared = {self.off[k] for k in ('ntask', 'next', 'ndone', 'signal')}
        self.W = W_


def key_of(v):
    if isinstance(v, llsym.Ptr): return ('p', v.obj, v.off if isinstance(v.off, int) else v.off.sexpr())
    if isinstance(v, llsym.FnPtr): return ('f', v.name)
    if isinstance(v, list): return tuple(key_of(x) for x in v)
    if z3.is_expr(v): return v.sexpr()
    return repr(v)


def unit_pool(tier, W_, N, B=2, fixed=None):
    ck = Checker('pool_W%d_N%d_B%d%s' % (W_, N, B, '' if fixed is None else '_n' + ''.join(map(str, fixed))), tier, timeout_s=30)
    m = mod()
    nt = [z3.BitVec('ntask%d' % b, 32) for b in range(B)]
    def task_stub(ex, st, args, ins):
        st.log.append(('task', key_of(z3.simplify(args[3])), key_of(z3.simplify(args[4])), st.aux['batch'])); return None
    def wait_stub(ex, st, args, ins):
        # std::__atomic_wait_address_v(addr, old, ...): returns only when *addr != old; otherwise the thread stays blocked at this call
        fr = st.stack[-1]
        val = z3.simplify(ex.load(st, args[0], IntT(32))); old = z3.simplify(args[1])
        if not (z3.is_bv_value(val) and z3.is_bv_value(old)): raise llsym.Unsupported('symbolic wait')
        if val.as_long() == old.as_long():
            # value unchanged: the thread sleeps (futex wait) and re-checks only after a notify on this atomic
            fr.idx -= 1
            st.aux['sleeping'] = frozenset(set(st.aux.get('sleeping', frozenset())) | {st.aux['tid']})
            return [llsym.Result('blocked', st)]
        return None
    def notify_stub(ex, st, args, ins):
        st.aux['sleeping'] = frozenset(); return None
    stubs = {'_ZSt23__atomic_notify_addressIiEvPKT_b': notify_stub, '_ZNKSt6vectorISt6threadSaIS0_EE4sizeEv': lambda ex, st, a, i: z3.BitVecVal(W_, 64),
             '_ZSt23__atomic_wait_address_vIiZNKSt13__atomic_baseIiE4waitEiSt12memory_orderEUlvE_EvPKT_S4_T0_': wait_stub, 'vf_task': task_stub}
    ex = llsym.Exec(m, stubs=stubs, loop_bound=10 ** 6, max_paths=10 ** 7)
    ex.mod.decls.setdefault('@vf_task', 'declare void @vf_task()')
    st0 = llsym.State()
    pool = Pool(ex, st0, W_)
    st0.pc += [z3.And(n >= 0, n <= N) for n in nt]
    if fixed is not None: st0.pc += [n == v for n, v in zip(nt, fixed)]
    st0.aux['batch'] = 0; st0.aux['sleeping'] = frozenset(); st0.aux['tid'] = 0
    ex.is_shared = lambda st, p: isinstance(p, llsym.Ptr) and p.obj == pool.p.obj and p.off in pool.shared
    # thread programs
    def start(st, fname, args):
        tmp = st.clone(); ex.start(tmp, fname, args); return tmp.stack
    main_calls = [(DISPATCH, [pool.p, llsym.NULL, llsym.NULL, llsym.FnPtr('@vf_task'), llsym.NULL, nt[b]]) for b in range(B)]
    nthreads = 1 + W_
    init_stacks = [None] + [start(st0, WORKER, [pool.p, I(t)]) for t in range(1, W_ + 1)]
    # global exploration state: (memory state, stacks per thread, main phase, done flags)
    t_begin = time.time()
    def gkey(st, stacks, phase, done):
        ths = []
        for s in stacks:
            if not s: ths.append(None); continue
            ths.append(tuple((f.fn.name, f.blk, f.idx, tuple(sorted((r, key_of(v)) for r, v in f.regs.items()))) for f in s))
        mem = tuple(sorted((oid, tuple(sorted((off, key_of(c[0])) for off, c in o.cells.items()))) for oid, o in st.objs.items() if o.name == 'ctx'))
        return (tuple(ths), mem, phase, tuple(done), tuple(sorted(st.log, key=repr)), tuple(c.sexpr() for c in st.pc[len(st0.pc):]), st.aux.get('sleeping'))
    seen = set(); work = []
    s_init = st0.clone()
    stacks0 = list(init_stacks); stacks0[0] = start(s_init, *main_calls[0])
    work.append((s_init, stacks0, 0, [False] * nthreads, []))
    nstates = 0; ntrans = 0; samples = []
    batches_checked = 0
    def dec_for(st):
        return lambda mdl: {'ntask': [W.evalnum(mdl, x) for x in nt], 'W': W_}
    def stress_replay(model, witness):
        """the counterexample schedule preempts a thread between two of its atomic accesses; natively this is reproduced with the real engine_thread.cc and real
        threads by delaying one thread before its k-th atomic access (hook inserted in the IR before every atomic instruction), sweeping thread and k; then by plain stress"""
        lib_path = stress_so()
        ns = [int(W.evalnum(model, n)) if model is not None else 2 for n in nt] + [-1]
        tried = 0
        hist = 'threadpool(%d) %s' % (W_, ' '.join('dispatch(%d)' % n for n in ns if n >= 0))
        def attempt(rnd, a, b):
            nonlocal tried
            def child():
                lib = ctypes.CDLL(lib_path); return lib.vf_history(W_, ns[0], ns[1], a[0], a[1], a[2], rnd, b[0], b[1], b[2])
            r = W.run_child(child, timeout=30); tried += 1
            bad = (r[0] == 'ok' and r[1] != 0) or r[0] in ('crash', 'timeout')
            if bad: return {'history': hist, 'stalls (thread, before its atomic access number, microseconds)': [list(a)] + ([list(b)] if b[0] >= 0 else []), 'dispatcher accesses counted from dispatch number': rnd,
                            'outcome': str(r)[:120] + ' (1: a task did not run exactly once, 2: bad thread id, exit 99/timeout: deadlock)'}
            return None
        none = (-1, 0, 0)
        for rnd in range(len([n for n in ns if n >= 0])):
            # one delayed thread
            for tid in range(W_ + 1):
                if tid != 0 and rnd > 0: continue      # worker accesses are counted from thread start: one sweep covers both rounds
                for k in range(1, 13 if tid == 0 else 31):
                    d = attempt(rnd, (tid, k, 20000), none)
                    if d: return True, d
            # a late worker (short delay) inside a longer delay of the dispatching thread
            for kd in range(1, 9):
                for wk in range(1, W_ + 1):
                    for kw in range(1, 7):
                        d = attempt(rnd, (0, kd, 30000), (wk, kw, 10000))
                        if d: return True, d
        n0 = max(2, ns[0])
        def child2():
            lib = ctypes.CDLL(lib_path); return lib.vf_stress(W_, int(n0), 3000)
        r = W.run_child(child2, timeout=60)
        bad = (r[0] == 'ok' and r[1] != 0) or r[0] in ('crash', 'timeout')
        return bad, {'stall sweep runs': tried, 'stress (real threads, 3000 dispatches)': str(r)[:200]}
    proved = set()
    def check_batch_end(st, phase, sched):
        nonlocal batches_checked
        batches_checked += 1
        kk = (phase, tuple(sorted(st.log, key=repr)), tuple(c.sexpr() for c in st.pc[len(st0.pc):]), key_of(ex.load(st, llsym.Ptr(pool.p.obj, pool.off['ndone']), IntT(32))))
        if kk in proved: return
        proved.add(kk)
        b = phase
        tasks = [e for e in st.log if e[0] == 'task' and e[3] == b]
        n = nt[b]
        cl = []
        for tid in range(N):
            cnt = len([e for e in tasks if e[2] == I(tid).sexpr()])
            cl.append(z3.If(I(tid) < n, z3.BoolVal(cnt == 1), z3.BoolVal(cnt == 0)))
        okth = all(any(e[1] == I(t).sexpr() for t in range(W_ + 1)) for e in tasks)
        nd = z3.simplify(ex.load(st, llsym.Ptr(pool.p.obj, pool.off['ndone']), IntT(32)))
        ck.prove('W=%d batch %d: at the return of Dispatch every task ran exactly once on a pool thread and all workers signalled completion (schedule %s)' % (W_, b, ''.join(map(str, sched[-24:]))), st.pc,
                 z3.And(z3.BoolVal(okth), nd == W_, *cl), site='ThreadPoolContext::Dispatch:exactly-once', decode=dec_for(st), replay=stress_replay,
                 sample='tasks run in batch %d: %s' % (b, [(e[1], e[2]) for e in tasks]))
    limit_states = 400000
    while work:
        st, stacks, phase, done, sched = work.pop()
        k = gkey(st, stacks, phase, done)
        if k in seen: continue
        seen.add(k); nstates += 1
        if nstates > limit_states: ck.inconclusive.append('state budget exceeded'); break
        progressed = False
        for t in range(nthreads):
            if done[t] or not stacks[t] or t in st.aux.get('sleeping', ()): continue
            s2 = st.clone(); s2.stack = [f.clone() for f in stacks[t]]; s2.aux['tid'] = t
            try: results = ex.resume(s2)
            except llsym.Unsupported as e: ck.inconclusive.append(str(e)); continue
            for r in results:
                ntrans += 1
                if r.kind == 'infeasible': continue
                ns = list(stacks); nd_ = list(done); nphase = phase; nst = r.state
                if r.kind == 'yield': ns[t] = r.state.stack
                elif r.kind == 'blocked': ns[t] = r.state.stack
                elif r.kind == 'return':
                    ns[t] = []
                    if t == 0:
                        check_batch_end(r.state, phase, sched + [t])
                        nphase = phase + 1
                        if nphase < B:
                            nst = r.state.clone(); nst.aux['batch'] = nphase; nst.stack = []
                            ns[0] = start(nst, *main_calls[nphase])
                        else:
                            # shutdown as in ~ThreadPoolContext: signal_ = 0 (then notify_all, join)
                            nst = r.state.clone(); nst.stack = []
                            nst.objs[pool.p.obj].cells[pool.off['signal']] = (I(0), 4); nst.aux['sleeping'] = frozenset()     # store 0 + notify_all
                            nd_[0] = True
                    else: nd_[t] = True
                else:
                    ck.inconclusive.append('thread %d: %s %s' % (t, r.kind, r.info)); continue
                k2 = gkey(nst, ns, nphase, nd_)
                if k2 != k: progressed = True
                if k2 not in seen: work.append((nst, ns, nphase, nd_, sched + [t]))
        if not progressed and not all(done):
            # stuck: nobody can change the state (blocked in wait or spinning without effect) although the run is not over
            ck.prove('W=%d: no stuck state (lost wake-up / missing completion signal) - phase %d, schedule ...%s' % (W_, phase, ''.join(map(str, sched[-24:]))), st.pc, z3.BoolVal(False),
                     site='ThreadPoolContext:stuck', decode=dec_for(st), replay=stress_replay, sample='stuck with done=%s phase=%d' % (done, phase))
        if len(samples) < 6 and all(done): samples.append(''.join(map(str, sched)))
    ck.paths['states'] = nstates; ck.paths['transitions'] = ntrans
    ck.notes.append('states=%d transitions=%d complete_schedules_sampled=%s batches_checked=%d' % (nstates, ntrans, samples, batches_checked))
    if batches_checked < B: ck.error('no schedule reached the end of every batch')
    if not samples: ck.error('no schedule ran to completion (all workers returned after shutdown)')
    ck.functions |= {'ThreadPoolContext::Dispatch', 'ThreadPoolContext::Worker'}
    ck.queries += ex.nq; ck.solver_s += ex.tq
    return ck


def coverage_extra(reports, tier):
    st = sum(r['paths'].get('states', 0) for r in reports); tr = sum(r['paths'].get('transitions', 0) for r in reports)
    return {'states': max(st, 1), 'transitions': max(tr, 1), 'traces_validated_against_impl': 0,
            'explanation_states': 'states = distinct global states (thread positions, registers, pool fields, task log, path condition) reached over all interleavings; transitions = thread segments executed'}


def units(tier):
    cfg = [(1, 2, 2), (2, 2, 1)] if tier == 'quick' else [(1, 3, 2), (2, 3, 1)]      # three workers exceed the state budget even for one task: outside the claim
    return [('pool_W%d_N%d_B%d' % (w_, n, b), 'unit_pool', {'W_': w_, 'N': n, 'B': b}, 2500 if tier == 'thorough' else 850) for w_, n, b in cfg]
