"""C19 Stack and arena allocation is memory-safe: one allocator call from an arbitrary invariant-satisfying state."""
import z3, os
from vf import ir, build, llsym, world as W
from vf.runner import Checker
from vf.irparse import IntT

ID = 'C19'
LEVEL = 'other'
TUS = ['src/engine/engine_memory.c']
EXPLANATION = ('Symbolic execution (llsym, 64-bit bit-vectors with wrap-around) of the real engine_memory.c IR: ONE allocator operation '
               '(mj_stackAllocByte/Info/Num/Int, mj_arenaAllocByte, mj_markStack, mj_freeStack, mark;alloc;free) from an ARBITRARY mjData state '
               'satisfying the representation invariant, with a fully symbolic 64-bit size and a symbolic power-of-two alignment; the arena is a flat '
               'byte region [A, A+narena) with symbolic base, every access through an arena pointer carries an in-region obligation. One inductive step '
               'covers operation sequences of any length. Concurrent reservations under threadlock: the only shared operation is one atomic fetch-add, '
               'so interleavings reduce to the order of the fetch-adds; two reservations are executed in solver-chosen order and must be disjoint.')
BOUNDS = {'quick': {'size': 'any 64-bit', 'alignment': 'any power of two <= 4096', 'narena': '<= 2^40', 'arena base': '[4096, 2^47 - narena], 64-byte aligned', 'threads': '2, alignment pairs (8,8) (1,64) (4096,16), all interleavings of the accesses to d->pstack'},
          'thorough': {'size': 'any 64-bit', 'alignment': 'any power of two <= 2^20', 'narena': '<= 2^44', 'threads': '2 with 9 concrete alignment pairs, 3 with alignments (8,64,8); two threads with symbolic alignments time out and are not claimed'}}
OUTSIDE = ('ASAN red-zone build (mjUSEASAN) of the allocator; weak-memory reorderings (sequential consistency assumed for the single atomic); '
           '"every public engine call returns with the stack pointer it started with" is asserted only in the harnesses that execute such calls (C17, C20).')
ASSUMPTIONS = ['representation invariant: parena + pstack <= narena, arena base + narena does not wrap and lies in user address space, arena base 64-byte aligned (mju_malloc contract), pbase is 0 or the address of a frame inside the live stack whose saved top lies above it',
               'mju_error / mju_message(ERROR) do not return', 'non-power-of-two alignments are outside the property (statement: power-of-two alignment)']
BUDGET = {'quick': 600, 'thorough': 3000}
_c = {}


def mod():
    if 'm' not in _c: _c['m'] = ir.load(TUS)
    return _c['m']


def so():
    if 'so' not in _c: _c['so'] = build.native_lib(['src/engine/engine_memory.c'], ['src/engine/engine_util_errmem.c'], name='memory')
    return _c['so']


def lay():
    if 'l' not in _c: _c['l'] = build.Layout()
    return _c['l']


def prepare(tier): mod(); so(); lay()


def B(v): return z3.BitVecVal(v, 64)


class Setup:
    def __init__(self, tier, threadlock=0, max_narena=40):
        L = lay()
        self.w = w = W.World()
        self.d = d = w.obj('mjData', L.sizeof('mjData_'))
        self.off = {f: L.field('mjData_', f)[0] for f in ('narena', 'parena', 'pstack', 'pbase', 'maxuse_stack', 'maxuse_arena', 'threadlock', 'ncon', 'nefc', 'arena')}
        self.A = d.sym(self.off['arena'], 'u64', 'A')
        self.narena = d.sym(self.off['narena'], 'u64', 'narena')
        self.parena = d.sym(self.off['parena'], 'u64', 'parena')
        self.pstack = d.sym(self.off['pstack'], 'u64', 'pstack')
        self.pbase = d.sym(self.off['pbase'], 'u64', 'pbase')
        self.mus = d.sym(self.off['maxuse_stack'], 'u64', 'maxuse_stack')
        self.mua = d.sym(self.off['maxuse_arena'], 'u64', 'maxuse_arena')
        d.put(self.off['threadlock'], 'u8', threadlock)
        d.put(self.off['ncon'], 'i32', 0); d.put(self.off['nefc'], 'i32', 0)
        A, na, pa, ps = self.A, self.narena, self.parena, self.pstack
        self.inv = [z3.ULE(na, 1 << max_narena), z3.UGE(A, 4096), z3.ULE(A, (1 << 47) - (1 << max_narena)), A & 63 == 0,
                    z3.ULE(pa, na), z3.ULE(ps, na - pa)]
        self.bottom = A + na; self.top = A + na - ps; self.limit = A + pa
    def state(self, ex):
        st = self.w.to_state(ex)
        st.flat = {'lo': self.A, 'hi': self.A + self.narena, 'mem': z3.Array('arena_mem', z3.BitVecSort(64), z3.BitVecSort(8))}
        st.pc += self.inv
        return st
    def fld(self, ex, st, f, w=64):
        return ex.load(st, self.w.P(self.d, self.off[f]), IntT(w))
    def outputs(self, ex, st):
        return [(f, self.d, self.off[f], 'u64', self.fld(ex, st, f)) for f in ('pstack', 'parena', 'pbase')]


def pow2(al, maxlog):
    return [al != 0, al & (al - 1) == 0, z3.ULE(al, 1 << maxlog)]


def dec(S, extra):
    def f(m):
        out = {k: hex(W.evalnum(m, v)) for k, v in dict(A=S.A, narena=S.narena, parena=S.parena, pstack=S.pstack, pbase=S.pbase).items()}
        out.update({k: hex(W.evalnum(m, v)) for k, v in extra.items()})
        return out
    return f


def unit_stack(tier, fn='mj_stackAllocByte', maxlog=12, al_fixed=None):
    ck = Checker('stack_%s%s' % (fn, '' if al_fixed is None else '_al%d' % al_fixed), tier, timeout_s=150)
    S = Setup(tier, max_narena=40 if tier == 'quick' else 44)
    ex = llsym.Exec(mod(), merge=True)
    st = S.state(ex)
    size = z3.BitVec('size', 64); al = z3.BitVec('al', 64) if al_fixed is None else B(al_fixed)
    S.w.syms += [('size', 'u64', size)] + ([('al', 'u64', al)] if al_fixed is None else [])
    if al_fixed is None: st.pc += pow2(al, maxlog)
    nbytes = size; esz = 1
    if fn == 'mj_stackAllocByte': sargs = [S.w.P(S.d), size, al]; nargs = [('ptr', (S.d, 0)), ('u64', size), ('u64', al)]
    elif fn == 'mj_stackAllocInfo': sargs = [S.w.P(S.d), size, al, llsym.NULL, z3.BitVecVal(0, 32)]; nargs = [('ptr', (S.d, 0)), ('u64', size), ('u64', al), ('ptr', None), ('i32', 0)]
    else:
        esz = 8 if fn == 'mj_stackAllocNum' else 4
        al = B(esz); sargs = [S.w.P(S.d), size]; nargs = [('ptr', (S.d, 0)), ('u64', size)]
    res = ex.run('@' + fn, sargs, st)
    ck.note_results(ex, res)
    X = {'size': size, 'al': al}
    avail = S.top - S.limit     # no wrap under invariant
    for r in res:
        pc = r.state.pc
        if r.kind == 'error':
            # exhaustion must be genuine: error only if size*esz (+ worst-case alignment loss) does not fit (mathematical integers via 128-bit)
            need = z3.ZeroExt(64, size) * z3.ZeroExt(64, B(esz)) + z3.ZeroExt(64, al - 1)
            ck.prove('%s: error only when the request (plus alignment slack) exceeds the free stack' % fn, pc, z3.UGT(need, z3.ZeroExt(64, avail)),
                     site='%s:spurious-error' % fn, decode=dec(S, X), replay=W.make_replay(so(), fn, S.w, nargs, restype='u64', expect='error'))
            continue
        if r.kind != 'return': continue
        outs = S.outputs(ex, r.state)
        ps2 = S.fld(ex, r.state, 'pstack'); pa2 = S.fld(ex, r.state, 'parena'); pb2 = S.fld(ex, r.state, 'pbase')
        p = r.value
        if isinstance(p, llsym.Ptr):   # NULL
            rp = W.make_replay(so(), fn, S.w, nargs, restype='u64', outputs=outs, ret_term=B(0))
            ck.prove('%s: NULL only for size 0' % fn, pc, size == 0, site='%s:null' % fn, decode=dec(S, X), replay=rp)
            ck.prove('%s: size 0 leaves the state unchanged' % fn, pc, z3.And(ps2 == S.pstack, pa2 == S.parena, pb2 == S.pbase), site='%s:null-state' % fn, decode=dec(S, X), replay=rp)
            continue
        a = p.addr
        rp = W.make_replay(so(), fn, S.w, nargs, restype='u64', outputs=outs, ret_term=a)
        nb = size * esz
        claims = [
            ('aligned', a & (al - 1) == 0),
            ('block starts at or above the arena top (no overlap with arena allocations)', z3.UGE(a, S.limit)),
            ('block ends at or below the old stack top (no overlap with live stack blocks), no wrap', z3.And(z3.ULE(a, S.top), z3.ULE(nb, S.top - a))),
            ('requested byte count did not overflow', z3.ULE(z3.ZeroExt(64, size) * z3.ZeroExt(64, B(esz)), z3.ZeroExt(64, B(2**64 - 1)))),
            ('new stack top is at or below the block', z3.ULE(S.bottom - ps2, a)),
            ('invariant: pstack + parena <= narena', z3.And(z3.ULE(ps2, S.narena), z3.ULE(pa2, S.narena - ps2))),
            ('pstack grows, parena/pbase unchanged', z3.And(z3.UGE(ps2, S.pstack), pa2 == S.parena, pb2 == S.pbase)),
        ]
        for nm, c in claims:
            ck.prove('%s: %s' % (fn, nm), pc, c, site='%s:%s' % (fn, nm.split(' (')[0].split(',')[0]), decode=dec(S, X), replay=rp)
        ck.reach('%s returns a block' % fn, pc)
    ck.memory_obligations(res, decode=dec(S, X))
    return ck


def unit_arena(tier, maxlog=12):
    ck = Checker('arena', tier, timeout_s=150)
    S = Setup(tier)
    ex = llsym.Exec(mod(), merge=True); st = S.state(ex)
    size, al = z3.BitVec('size', 64), z3.BitVec('al', 64)
    S.w.syms += [('size', 'u64', size), ('al', 'u64', al)]
    st.pc += pow2(al, maxlog)
    nargs = [('ptr', (S.d, 0)), ('u64', size), ('u64', al)]
    res = ex.run('@mj_arenaAllocByte', [S.w.P(S.d), size, al], st)
    ck.note_results(ex, res)
    X = {'size': size, 'al': al}
    avail = S.narena - S.pstack
    for r in res:
        if r.kind != 'return': continue
        pc = r.state.pc
        outs = S.outputs(ex, r.state)
        ps2 = S.fld(ex, r.state, 'pstack'); pa2 = S.fld(ex, r.state, 'parena')
        p = r.value
        pad = z3.If(S.parena & (al - 1) == 0, B(0), al - (S.parena & (al - 1)))
        need = z3.ZeroExt(64, S.parena) + z3.ZeroExt(64, pad) + z3.ZeroExt(64, size)
        if isinstance(p, llsym.Ptr):
            rp = W.make_replay(so(), 'mj_arenaAllocByte', S.w, nargs, restype='u64', outputs=outs, ret_term=B(0))
            ck.prove('arena: NULL leaves parena/pstack unchanged', pc, z3.And(pa2 == S.parena, ps2 == S.pstack), site='mj_arenaAllocByte:null-state', decode=dec(S, X), replay=rp)
            ck.prove('arena: NULL only when the request does not fit', pc, z3.UGT(need, z3.ZeroExt(64, avail)), site='mj_arenaAllocByte:spurious-null', decode=dec(S, X), replay=rp)
            continue
        a = p.addr
        rp = W.make_replay(so(), 'mj_arenaAllocByte', S.w, nargs, restype='u64', outputs=outs, ret_term=a)
        claims = [
            ('aligned (alignment <= 64, base 64-aligned)', z3.Implies(z3.ULE(al, 64), a & (al - 1) == 0)),
            ('block starts at or above the old arena top', z3.And(z3.UGE(a, S.A + S.parena), z3.UGE(a, S.A))),
            ('block ends at the new arena top, no wrap', z3.And(z3.ULE(a, S.A + pa2), z3.ULE(size, S.A + pa2 - a), z3.ULE(pa2, S.narena))),
            ('block stays below the stack', z3.ULE(pa2, S.narena - S.pstack)),
            ('parena grows, pstack unchanged', z3.And(z3.UGE(pa2, S.parena), ps2 == S.pstack)),
            ('success only when the request fits', z3.ULE(need, z3.ZeroExt(64, avail))),
        ]
        for nm, c in claims:
            ck.prove('arena: %s' % nm, pc, c, site='mj_arenaAllocByte:%s' % nm.split(' (')[0].split(',')[0], decode=dec(S, X), replay=rp)
        ck.reach('arena returns a block', pc)
    ck.memory_obligations(res, decode=dec(S, X))
    return ck


FRAME = 24   # sizeof(mjStackFrame) is checked against the IR below


def unit_markfree(tier):
    ck = Checker('markfree', tier, timeout_s=150)
    S = Setup(tier)
    m = mod()
    ex = llsym.Exec(m, merge=True)
    fsz = ex.sizeof(m.types['%struct.mjStackFrame'])
    st = S.state(ex)
    # pbase: 0 or a frame inside the live stack
    st.pc.append(z3.Or(S.pbase == 0, z3.And(z3.UGE(S.pbase, S.top), z3.ULE(S.pbase, S.bottom - fsz), S.pbase & 7 == 0, z3.UGE(S.bottom - S.top, fsz))))
    X = {}
    # --- mark
    res = ex.run('@mj_markStack', [S.w.P(S.d)], st.clone())
    ck.note_results(ex, res)
    for r in res:
        pc = r.state.pc
        if r.kind == 'error':
            ck.prove('mark: error only when a frame does not fit', pc, z3.ULT(S.top - S.limit, fsz + 7), site='mj_markStack:spurious-error', decode=dec(S, X)); continue
        if r.kind != 'return': continue
        ps2 = S.fld(ex, r.state, 'pstack'); pa2 = S.fld(ex, r.state, 'parena'); pb2 = S.fld(ex, r.state, 'pbase')
        top2 = S.bottom - ps2
        for nm, c in [('invariant', z3.And(z3.ULE(ps2, S.narena), z3.ULE(pa2, S.narena - ps2), pa2 == S.parena)),
                      ('frame lies inside the new stack and below the old top', z3.And(z3.UGE(pb2, top2), z3.ULE(pb2, S.top - fsz), z3.UGE(pb2, S.limit), pb2 & 7 == 0)),
                      ('frame saves old pbase and old top', z3.And(*[z3.Select(r.state.flat['mem'], pb2 + i) == z3.Extract(8 * i + 7, 8 * i, S.pbase) for i in range(8)] +
                                                                    [z3.Select(r.state.flat['mem'], pb2 + 8 + i) == z3.Extract(8 * i + 7, 8 * i, S.top) for i in range(8)]))]:
            ck.prove('mark: %s' % nm, pc, c, site='mj_markStack:%s' % nm.split(' ')[0], decode=dec(S, X))
        # --- mark ; alloc ; free  == identity on (pstack, pbase, parena)
        size = z3.BitVec('size', 64); al = z3.BitVec('al', 64) if tier == 'thorough' else B(8)
        st2 = r.state.clone()
        if tier == 'thorough': st2.pc += pow2(al, 12)
        st2.stack = []
        for r2 in ex.run('@mj_stackAllocByte', [S.w.P(S.d), size, al], st2):
            if r2.kind != 'return': continue
            st3 = r2.state.clone(); st3.stack = []
            for r3 in ex.run('@mj_freeStack', [S.w.P(S.d)], st3):
                if r3.kind != 'return': ck.inconclusive.append('free after mark: %s' % r3.kind); continue
                ps3 = S.fld(ex, r3.state, 'pstack'); pa3 = S.fld(ex, r3.state, 'parena'); pb3 = S.fld(ex, r3.state, 'pbase')
                ck.prove('free(alloc(mark(s))) restores pstack, pbase, parena', r3.state.pc, z3.And(ps3 == S.pstack, pb3 == S.pbase, pa3 == S.parena),
                         site='mj_freeStack:restore', decode=dec(S, {'size': size, 'al': al}))
                ck.memory_obligations([r3], decode=dec(S, X))
            ck.memory_obligations([r2], decode=dec(S, X))
        ck.reach('mark returns', pc)
    ck.memory_obligations(res, decode=dec(S, X))
    # --- free from an arbitrary valid frame: saved top above the frame, saved pbase 0 or above
    st4 = st.clone()
    mem = st4.flat['mem']
    ld = lambda a: z3.Concat(*[z3.Select(mem, a + i) for i in reversed(range(8))])
    spb, stop = ld(S.pbase), ld(S.pbase + 8)
    st4.pc.append(z3.Implies(S.pbase != 0, z3.And(z3.UGE(stop, S.pbase + fsz), z3.ULE(stop, S.bottom), z3.Or(spb == 0, z3.And(z3.UGE(spb, stop), z3.ULE(spb, S.bottom - fsz))))))
    res = ex.run('@mj_freeStack', [S.w.P(S.d)], st4)
    ck.note_results(ex, res)
    for r in res:
        if r.kind != 'return': continue
        ps2 = S.fld(ex, r.state, 'pstack'); pa2 = S.fld(ex, r.state, 'parena'); pb2 = S.fld(ex, r.state, 'pbase')
        ck.prove('free: stack shrinks to the saved top, invariant kept', r.state.pc,
                 z3.And(z3.ULE(ps2, S.pstack), z3.ULE(ps2, S.narena - pa2), pa2 == S.parena, z3.Implies(S.pbase != 0, z3.And(S.bottom - ps2 == stop, pb2 == spb)),
                        z3.Implies(S.pbase == 0, z3.And(ps2 == S.pstack, pb2 == 0))), site='mj_freeStack:frame', decode=dec(S, X))
    ck.memory_obligations(res, decode=dec(S, X))
    return ck


SCHED_C = r"""
#include <pthread.h>
#include <sched.h>
/* controlled-scheduler replay: real threads run the real mj_stackAllocByte; vf_atomic_point() is called (IR instrumentation) before every atomic access
   and every store of engine_memory.c and lets a thread proceed only when the solver's schedule says it is that thread's turn */
static int vf19_sched[64], vf19_n = 0, vf19_on = 0; static int vf19_pos = 0;
static __thread int vf19_id = -1; static __thread int vf19_pending = 0;
static void vf19_done_access(void) { if (vf19_pending) { vf19_pending = 0; __atomic_fetch_add(&vf19_pos, 1, __ATOMIC_SEQ_CST); } }
void vf_atomic_point(void) {
  if (!vf19_on || vf19_id < 0) return;
  vf19_done_access();
  long spins = 0;
  while (1) { int p = __atomic_load_n(&vf19_pos, __ATOMIC_SEQ_CST); if (p >= vf19_n || vf19_sched[p] == vf19_id) break; sched_yield(); if (++spins > 400000000L) break; }
  vf19_pending = 1;
}
struct vf19_arg { void* d; unsigned long size, al; void* ret; int id; };
extern void* mj_stackAllocByte(void*, unsigned long, unsigned long);
static void* vf19_thread(void* a_) { struct vf19_arg* a = a_; vf19_id = a->id; vf19_pending = 0; a->ret = mj_stackAllocByte(a->d, a->size, a->al); vf19_done_access(); vf19_id = -1; return 0; }
int vf19_run(void* d, int nth, unsigned long* sizes, unsigned long* als, int* sched, int n, unsigned long* rets) {
  pthread_t th[8]; struct vf19_arg a[8];
  if (nth > 8 || n > 64) return -1;
  for (int i = 0; i < n; i++) vf19_sched[i] = sched[i];
  vf19_n = n; vf19_pos = 0; vf19_on = 1;
  for (int t = 0; t < nth; t++) { a[t].d = d; a[t].size = sizes[t]; a[t].al = als[t]; a[t].id = t; a[t].ret = 0; pthread_create(&th[t], 0, vf19_thread, &a[t]); }
  for (int t = 0; t < nth; t++) { pthread_join(th[t], 0); rets[t] = (unsigned long)a[t].ret; }
  vf19_on = 0;
  return vf19_pos;
}
"""


def so_hook():
    if 'soh' not in _c: _c['soh'] = build.native_lib(['src/engine/engine_memory.c'], ['src/engine/engine_util_errmem.c'], name='memory_sched', hook_atomics='points', extra_c=SCHED_C)
    return _c['soh']


def unit_threadlock(tier, nthreads=2, al_fixed=None):
    """reservations under threadlock: every access to d->pstack is a scheduling point; all interleavings of the threads'
    segments are explored with symbolic sizes; blocks must be pairwise disjoint, aligned and inside the free span"""
    import itertools, ctypes
    from vf import llconc
    ck = Checker('threadlock_%d' % nthreads, tier, timeout_s=200)
    S = Setup(tier, threadlock=1)
    ex = llsym.Exec(mod(), merge=False)
    st = S.state(ex)
    sizes = [z3.BitVec('size%d' % i, 64) for i in range(nthreads)]
    if al_fixed is None:
        als = [z3.BitVec('al%d' % i, 64) for i in range(nthreads)]
        for a_ in als: st.pc += pow2(a_, 12)
        S.w.syms += [('al%d' % i, 'u64', s_) for i, s_ in enumerate(als)]
    else: als = [B(a_) for a_ in al_fixed]
    S.w.syms += [('size%d' % i, 'u64', s_) for i, s_ in enumerate(sizes)]
    X = {('size%d' % i): s_ for i, s_ in enumerate(sizes)}; X.update({('al%d' % i): s_ for i, s_ in enumerate(als)})
    dobj = S.w.map[S.d].obj; poff = S.off['pstack']
    ex.is_shared = lambda stt, p: isinstance(p, llsym.Ptr) and p.obj == dobj and p.off == poff
    calls = [('@mj_stackAllocByte', [S.w.P(S.d), sizes[t], als[t]]) for t in range(nthreads)]
    outs = llconc.interleavings(ex, st, calls, max_schedules=int(os.environ.get('VERIF_C19_SCHED', '20000')), dedupe=True)
    sched_var = z3.BitVec('schedule', 16)
    def seq_replay(sched, blocks, ps2):
        def replay(model, witness):
            values = S.w.concretise(model)
            # a thread's first segment runs up to (not including) its first access of d->pstack; every later segment starts with one such access:
            # the order of the accesses is the schedule without each thread's first entry
            seen_t = set(); acc = []
            for t in sched:
                if t in seen_t: acc.append(t)
                else: seen_t.add(t)
            detail = {'schedule': sched, 'order of accesses to d->pstack': acc}
            def child():
                lib = W.load_lib(so_hook()); nw = W.NativeWorld(S.w, values)
                U = ctypes.c_ulong * nthreads
                sz = U(*[int(W.evalnum(model, x)) for x in sizes]); al = U(*[int(W.evalnum(model, x)) for x in als]); out = U()
                sc = (ctypes.c_int * max(1, len(acc)))(*acc)
                dp = W._cargs(nw, [('ptr', (S.d, 0))])[0]
                lib.vf19_run.restype = ctypes.c_int
                npos = lib.vf19_run(dp, nthreads, sz, al, sc, len(acc), out)
                return {'rets': {str(t): int(out[t]) for t in range(nthreads)}, 'pstack': nw.read(S.d, S.off['pstack'], 'u64'), 'accesses scheduled': npos}
            status = W.run_child(child)
            detail['native'] = status[0]
            if status[0] != 'ok' or 'rets' not in status[1]: detail['native_detail'] = str(status[1:])[:300]; return False, detail
            pred = {str(t): (0 if a_ is None else W.evalnum(model, a_)) for t, a_ in blocks}
            detail['native_blocks'] = {k: hex(v or 0) for k, v in status[1]['rets'].items()}; detail['predicted_blocks'] = {k: hex(v) for k, v in pred.items()}
            ok = {k: int(v or 0) for k, v in status[1]['rets'].items()} == pred and status[1]['pstack'] == W.evalnum(model, ps2)
            return ok, detail
        return replay
    nsched = 0
    for si, (sN, sched, rets, outcome) in enumerate(outs):
        if outcome == 'pruned':
            ck.memory_obligations([llsym.Result('return', sN)], decode=dec(S, X)); continue      # same global state reached by an earlier schedule
        if outcome != 'return':
            if outcome.startswith('error'): continue      # stack overflow error: allowed outcome (fatal handler)
            ck.inconclusive.append('threadlock schedule %s: %s' % (sched, outcome)); continue
        nsched += 1
        pc = sN.pc + [sched_var == si]
        ps2 = S.fld(ex, sN, 'pstack')
        blocks = [(t, (rets[t].addr if isinstance(rets[t], llsym.IntPtr) else None)) for t in range(nthreads)]
        rp = seq_replay(sched, blocks, ps2)
        live = [(t, a_) for t, a_ in blocks if a_ is not None]
        tag = 'schedule %s' % ''.join(map(str, sched))
        for t, a_ in live:
            ck.prove('threadlock %s: block of thread %d aligned, inside [arena top, old stack top)' % (tag, t), pc,
                     z3.And(a_ & (als[t] - 1) == 0, z3.UGE(a_, S.limit), z3.ULE(a_, S.top), z3.ULE(sizes[t], S.top - a_)), site='stackalloc:threadlock-inside', decode=dec(S, X), replay=rp)
            ck.prove('threadlock %s: block of thread %d lies inside the span that is reserved once every thread has returned (no later reservation can be handed the same bytes)' % (tag, t), pc,
                     z3.And(z3.ULE(ps2, S.narena), z3.UGE(a_, S.bottom - ps2)), site='stackalloc:threadlock-reserved', decode=dec(S, X), replay=rp)
        for (t1, a1), (t2, a2) in itertools.combinations(live, 2):
            ck.prove('threadlock %s: blocks of threads %d and %d are disjoint' % (tag, t1, t2), pc,
                     z3.Or(z3.And(z3.ULE(a1, a2), z3.ULE(sizes[t1], a2 - a1)), z3.And(z3.ULE(a2, a1), z3.ULE(sizes[t2], a1 - a2))), site='stackalloc:threadlock-disjoint', decode=dec(S, X), replay=rp)
        ck.prove('threadlock %s: reserved span stays inside the free region' % tag, pc, z3.And(z3.ULE(ps2, S.narena), z3.ULE(S.parena, S.narena - ps2)), site='stackalloc:threadlock-invariant', decode=dec(S, X), replay=rp)
        ck.reach('threadlock %s reachable' % tag, pc)
        ck.memory_obligations([llsym.Result('return', sN)], decode=dec(S, X))
    if nsched < 2: ck.error('fewer than 2 complete schedules explored (%d)' % nsched)
    ck.notes.append('%d complete schedules' % nsched)
    ck.paths['schedules'] = nsched
    ck.functions |= {f.lstrip('@') for f in ex.called}
    ck.queries += ex.nq; ck.solver_s += ex.tq
    return ck


POW2 = [1 << k for k in range(13)]


def units(tier):
    u = []
    for al in POW2:
        u.append(('stack_byte_al%d' % al, 'unit_stack', {'fn': 'mj_stackAllocByte', 'al_fixed': al}))
    u += [('stack_info_al8', 'unit_stack', {'fn': 'mj_stackAllocInfo', 'al_fixed': 8}), ('stack_info_al64', 'unit_stack', {'fn': 'mj_stackAllocInfo', 'al_fixed': 64}),
          ('stack_num', 'unit_stack', {'fn': 'mj_stackAllocNum'}), ('stack_int', 'unit_stack', {'fn': 'mj_stackAllocInt'}),
          ('arena', 'unit_arena', {}), ('markfree', 'unit_markfree', {})]
    for a, b in [(8, 8), (1, 64), (4096, 16)]:
        u.append(('threadlock_2_al%d_%d' % (a, b), 'unit_threadlock', {'nthreads': 2, 'al_fixed': (a, b)}))
    if tier == 'thorough':
        u += [('stack_byte_symbolic_al', 'unit_stack', {'fn': 'mj_stackAllocByte', 'maxlog': 20}), ('arena_al20', 'unit_arena', {'maxlog': 20}),
              ('threadlock_3', 'unit_threadlock', {'nthreads': 3, 'al_fixed': (8, 64, 8)})]
        # two threads with SYMBOLIC power-of-two alignments: the 64-bit queries time out (200 s each), so the thorough tier sweeps concrete alignment pairs instead
        for a, b in [(1, 1), (8, 64), (64, 8), (16, 4096), (4096, 4096), (2, 1024)]:
            u.append(('threadlock_2_al%d_%d' % (a, b), 'unit_threadlock', {'nthreads': 2, 'al_fixed': (a, b)}))
    return u
