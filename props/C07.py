"""C07 (velocity / Jacobian part): mj_comPos builds subtree COM and motion axes from anchors and axes, spatial velocities equal J*qvel, sparse and dense Jacobians agree, the subtree-COM Jacobian is the mass-weighted mean, differentiatePos inverts integratePos on scalar joints."""
import z3
from vf import ir, build, llsym, world as W
from vf.runner import Checker
from vf.irparse import IntT, FpT, PtrT
from props import C06

ID = 'C07'
LEVEL = 'other'
EXPLANATION = ('llsym (real-algebraic) runs the real mj_comVel, mj_objectVelocity, mj_jac, mj_jacSparse (with the real mj_bodyChain), mj_jacSubtreeCom, mj_integratePos and mj_differentiatePos on the symbolic trees of C06 '
               '(chain, fork, two dofs on one body, mixed tree): motion axes cdof, joint velocities, body / site positions, subtree centres of mass and masses are free symbols. z3 decides as polynomial identities: the 6D velocity '
               'mj_objectVelocity reports for a body or a site equals [Jr; Jp] qvel with the Jacobians of mj_jac at the same point; mj_jacSparse equals mj_jac on the body\'s dof chain and the chain holds exactly the ancestor dofs; '
               'mj_jacSubtreeCom equals the mass-weighted mean of the bodies\' COM Jacobians; and for slide / hinge joints mj_differentiatePos(qpos1 -> integratePos(qpos1, v, dt)) returns v. mj_jacDot / mj_jacDotSparse on a floating body with a hinged child: dense = sparse on the chain, rotational columns use cdof_dot or omega x axis (free-joint rotational dofs). mj_comPos (symbolic frames, anchors, axes, masses): subtree_com is the mass-weighted mean over the subtree, '
               'cinert carries mass and first moment about the tree COM, and the motion axis of a hinge is [axis; axis x (COM - anchor of that joint)] (two hinges with different anchors on one body included), of a slide [0; axis].')
BOUNDS = {'quick': {'trees': 'chain3, fork3, twodof, mixed5 (see C06)', 'points': 'every body frame (XBODY), body COM (BODY) and one site per tree', 'mj_comPos': 'twodof (hinge+slide and hinge+hinge on one body), chain3', 'mj_jacDot': 'free joint (6 dofs) with a hinged child, any point'}, 'thorough': {'trees': 'plus chain4, fork4, free3-style multi-dof body', 'mj_comPos': 'plus fork3, mixed5, chain4'}}
OUTSIDE = ('forward kinematics (mj_kinematics: trigonometric quaternion chains), Jacobians as derivatives of positions (needs that kinematics), mj_jacDot as the time derivative of mj_jac (only its column structure is claimed), ball and free joints in integratePos / differentiatePos (quaternion exponential), '
           'frames are proper rotations, constraint-row Jacobians.')
ASSUMPTIONS = ['real-number semantics', 'cvel is the one mj_comVel computes from the same cdof and qvel (it is computed by the real function inside the unit)', 'dt != 0', 'subtree mass non-zero', 'sleep disabled']
BUDGET = {'quick': 600, 'thorough': 1500}
_c = {}
TUS = C06.TUS
SUP = C06.SUP


def mod(): return C06.mod()
def so(): return C06.so()
def prepare(tier): C06.prepare(tier); so_sup()


def so_sup():
    if 'so' not in _c: _c['so'] = build.native_lib(['src/engine/engine_support.c'], [t for t in C06.SUP if t != 'src/engine/engine_support.c'] + ['src/engine/engine_core_smooth.c'], name='support_c07')
    return _c['so']


def I(v): return z3.BitVecVal(v, 32)


def unit_velocity(tier, topo):
    ck = Checker('velocity_%s' % topo, tier, timeout_s=120, semantics='real')
    KO = build.enum_values('mjOBJ_')
    S, w, M, D = C06.world(topo, ('cdof', 'qvel', 'subtree_com', 'xpos', 'xipos', 'cvel'))
    nv, nb = S['nv'], S['nb']
    # one site on the last body
    L = C06.lay()
    so_, sp = D.arr('site_xpos', 'f64', 3, name='site_xpos'); M.arr('site_bodyid', 'i32', 1, [nb - 1]); M.set('nsite', 1)
    jp, _ = w.arr('jacp', 'f64', 3 * nv, [0.0] * (3 * nv)); jr, _ = w.arr('jacr', 'f64', 3 * nv, [0.0] * (3 * nv)); vo, _ = w.arr('vel', 'f64', 6, [0.0] * 6)
    sjp, _ = w.arr('sjacp', 'f64', 3 * nv, [7.0] * (3 * nv)); sjr, _ = w.arr('sjacr', 'f64', 3 * nv, [7.0] * (3 * nv)); cho, _ = w.arr('chain', 'i32', nv, [-5] * nv)
    ex = C06.executor(nv, nb); st = w.to_state(ex)
    qv = D.arrays['qvel'][3]
    res = ex.run('@mj_comVel', [w.P(M.o), w.P(D.o)], st); ck.note_results(ex, res)
    base = [r for r in res if r.kind == 'return']
    if len(base) != 1: ck.error('mj_comVel paths: %d' % len(base)); return ck
    cur0 = base[0].state; cur0.stack = []
    dec = lambda mdl: {'topology': topo, 'qvel': [str(W.evalnum(mdl, x)) for x in qv]}
    pts = [('XBODY', b, D.arrays['xpos'][0], 3 * 8 * b, b) for b in range(1, nb)] + [('BODY', b, D.arrays['xipos'][0], 3 * 8 * b, b) for b in range(1, nb)] + [('SITE', 0, so_, 0, nb - 1)]
    for kind, oid, pobj, poff, body in pts:
        seqs = C06.run_seq(ex, ck, cur0.clone(), [('mj_objectVelocity', [w.P(M.o), w.P(D.o), I(KO['mjOBJ_' + kind]), I(oid), w.P(vo), I(0)]),
                                                   ('mj_jac', [w.P(M.o), w.P(D.o), w.P(jp), w.P(jr), w.P(pobj, poff), I(body)]),
                                                   ('mj_bodyChain', [w.P(M.o), I(body), w.P(cho)]),
                                                   ])
        for cur, _k in seqs:
            ld = lambda o, i, cur=cur: ex.load(cur, w.P(o, 8 * i), FpT('double'))
            vel = [ld(vo, k) for k in range(6)]; Jp = [[ld(jp, r * nv + c) for c in range(nv)] for r in range(3)]; Jr = [[ld(jr, r * nv + c) for c in range(nv)] for r in range(3)]
            want = [sum(Jr[r][c] * qv[c] for c in range(nv)) for r in range(3)] + [sum(Jp[r][c] * qv[c] for c in range(nv)) for r in range(3)]
            nargs = lambda a: [('ptr', (M.o, 0)), ('ptr', (D.o, 0))] + a
            seq = [('mj_comVel', nargs([]), 'void'), ('mj_objectVelocity', nargs([('i32', KO['mjOBJ_' + kind]), ('i32', oid), ('ptr', (vo, 0)), ('i32', 0)]), 'void'),
                   ('mj_jac', nargs([('ptr', (jp, 0)), ('ptr', (jr, 0)), ('ptr', (pobj, poff)), ('i32', body)]), 'void')]
            outs = [('vel%d' % k, vo, 8 * k, 'f64', vel[k]) for k in range(6)] + [('jacp%d' % k, jp, 8 * k, 'f64', ld(jp, k)) for k in range(3 * nv)] + [('jacr%d' % k, jr, 8 * k, 'f64', ld(jr, k)) for k in range(3 * nv)]
            rp = C06.seq_replay(w, seq, outs)
            ck.prove('%s %d: mj_objectVelocity = [Jr; Jp] * qvel with the Jacobians of mj_jac at the same point' % (kind, oid), cur.pc, z3.And(*[vel[k] == want[k] for k in range(6)]), site='mj_objectVelocity:J-qvel', decode=dec, replay=rp)
            # chain = ancestor dofs of the body, ascending
            anc = sorted(set(d_ for d_ in range(nv) if any(True for _ in [0]) and d_ in ancestors(S, body)))
            ch = [ex.load(cur, w.P(cho, 4 * k), IntT(32)) for k in range(nv)]
            ck.prove('%s %d: mj_bodyChain lists exactly the dofs of the body and its ancestors, ascending' % (kind, oid), cur.pc, z3.And(*[ch[k] == anc[k] for k in range(len(anc))]), site='mj_bodyChain:ancestors', decode=dec, replay=rp)
            # sparse Jacobian on that chain
            res2 = ex.run('@mj_jacSparse', [w.P(M.o), w.P(D.o), w.P(sjp), w.P(sjr), w.P(pobj, poff), I(body), I(len(anc)), w.P(cho), I(0)], cur.clone()); ck.note_results(ex, res2)
            for r2 in res2:
                if r2.kind != 'return': continue
                NV = len(anc)
                sp_ = [[ex.load(r2.state, w.P(sjp, 8 * (r * NV + c)), FpT('double')) for c in range(NV)] for r in range(3)]; sr_ = [[ex.load(r2.state, w.P(sjr, 8 * (r * NV + c)), FpT('double')) for c in range(NV)] for r in range(3)]
                ck.prove('%s %d: mj_jacSparse equals mj_jac on the chain columns (and mj_jac is zero off the chain)' % (kind, oid), r2.state.pc,
                         z3.And(*([sp_[r][c] == Jp[r][anc[c]] for r in range(3) for c in range(NV)] + [sr_[r][c] == Jr[r][anc[c]] for r in range(3) for c in range(NV)] +
                                  [Jp[r][c] == 0 for r in range(3) for c in range(nv) if c not in anc] + [Jr[r][c] == 0 for r in range(3) for c in range(nv) if c not in anc])),
                         site='mj_jacSparse:dense-agreement', decode=dec, replay=rp)
    ck.reach('free symbols', cur0.pc)
    return ck


def ancestors(S, body):
    out = set(); b = body
    while b > 0:
        for j in range(S['dnum'][b]): out.add(S['dofadr'][b] + j)
        b = S['par'][b]
    return out


def unit_subtreecom(tier, topo):
    ck = Checker('subtreecom_%s' % topo, tier, timeout_s=120, semantics='real')
    S, w, M, D = C06.world(topo, ('cdof', 'subtree_com', 'xipos'))
    nv, nb = S['nv'], S['nb']
    mo, mass = M.arr('body_mass', 'f64', nb, name='mass'); smo, sm = M.arr('body_subtreemass', 'f64', nb, name='smass')
    jp, _ = w.arr('jacp', 'f64', 3 * nv, [0.0] * (3 * nv)); jb, _ = w.arr('jacb', 'f64', 3 * nv, [0.0] * (3 * nv))
    ex = C06.executor(nv, nb); st = w.to_state(ex)
    sub = {b: [c for c in range(nb) if c == b or is_desc(S, c, b)] for b in range(1, nb)}
    pre = [sm[b] == sum(mass[c] for c in sub[b]) for b in range(1, nb)] + [sm[b] != 0 for b in range(1, nb)]
    st.pc += pre
    dec = lambda mdl: {'topology': topo, 'mass': [str(W.evalnum(mdl, x)) for x in mass]}
    for b in range(1, nb):
        res = ex.run('@mj_jacSubtreeCom', [w.P(M.o), w.P(D.o), w.P(jp), I(b)], st.clone()); ck.note_results(ex, res)
        for r in res:
            if r.kind != 'return': continue
            got = [ex.load(r.state, w.P(jp, 8 * k), FpT('double')) for k in range(3 * nv)]
            acc = [z3.RealVal(0)] * (3 * nv); cur = r.state; cur.stack = []
            ok = True
            for c in sub[b]:
                res2 = ex.run('@mj_jac', [w.P(M.o), w.P(D.o), w.P(jb), llsym.NULL, w.P(D.arrays['xipos'][0], 24 * c), I(c)], cur.clone())
                rr = [x for x in res2 if x.kind == 'return']
                if len(rr) != 1: ok = False; break
                jc = [ex.load(rr[0].state, w.P(jb, 8 * k), FpT('double')) for k in range(3 * nv)]
                acc = [acc[k] + mass[c] * jc[k] for k in range(3 * nv)]
            if not ok: ck.error('mj_jac paths'); continue
            ck.prove('mj_jacSubtreeCom(body %d) * subtree mass = sum over the subtree of mass_b * (COM Jacobian of b)' % b, r.state.pc, z3.And(*[got[k] * sm[b] == acc[k] for k in range(3 * nv)]), site='mj_jacSubtreeCom:mean', decode=dec,
                     replay=W.make_replay(so(), 'mj_jacSubtreeCom', w, [('ptr', (M.o, 0)), ('ptr', (D.o, 0)), ('ptr', (jp, 0)), ('i32', b)], outputs=[('jacp%d' % k, jp, 8 * k, 'f64', got[k]) for k in range(3 * nv)], semantics='real'))
    ck.reach('masses', pre)
    return ck


def unit_jacdot(tier):
    """Jacobian time derivative on a floating body (free joint, 6 dofs) with a hinged child: the dense and the sparse routine agree on the chain, and every rotational column uses the right
    motion-axis derivative - the stored cdof_dot for translational / hinge dofs, the spatial cross product cvel x cdof for the three rotational dofs of the free joint"""
    ck = Checker('jacdot_free6h', tier, timeout_s=120, semantics='real')
    K = build.enum_values('mjJNT_')
    S, w, M, D = C06.world('free6h', ('cdof', 'cdof_dot', 'cvel', 'subtree_com', 'xpos'))
    nv, nb = S['nv'], S['nb']
    M.arr('jnt_type', 'i32', 2, [K['mjJNT_FREE'], K['mjJNT_HINGE']]); M.arr('dof_jntid', 'i32', nv, [0] * 6 + [1]); M.arr('jnt_dofadr', 'i32', 2, [0, 6]); M.set('njnt', 2)
    jp, _ = w.arr('jacp', 'f64', 3 * nv, [0.0] * (3 * nv)); jr, _ = w.arr('jacr', 'f64', 3 * nv, [0.0] * (3 * nv))
    sjp, _ = w.arr('sjacp', 'f64', 3 * nv, [7.0] * (3 * nv)); sjr, _ = w.arr('sjacr', 'f64', 3 * nv, [7.0] * (3 * nv))
    pto, pt = w.arr('point', 'f64', 3)
    chains = {b: sorted(ancestors(S, b)) for b in (1, 2)}; chobj = {b: w.arr('chain%d' % b, 'i32', len(chains[b]), chains[b])[0] for b in (1, 2)}
    ex = C06.executor(nv, nb); st = w.to_state(ex)
    cd = D.arrays['cdof'][3]; cdd = D.arrays['cdof_dot'][3]; cv = D.arrays['cvel'][3]
    dec = lambda mdl: {'cvel': [str(W.evalnum(mdl, x)) for x in cv], 'cdof': [str(W.evalnum(mdl, x)) for x in cd], 'cdof_dot': [str(W.evalnum(mdl, x)) for x in cdd], 'point': [str(W.evalnum(mdl, x)) for x in pt]}
    cross = lambda a_, b_: [a_[1] * b_[2] - a_[2] * b_[1], a_[2] * b_[0] - a_[0] * b_[2], a_[0] * b_[1] - a_[1] * b_[0]]
    for body in (1, 2):
        chain = chains[body]; NV = len(chain)
        seqs = C06.run_seq(ex, ck, st.clone(), [('mj_jacDot', [w.P(M.o), w.P(D.o), w.P(jp), w.P(jr), w.P(pto), I(body)]),
                                                 ('mj_jacDotSparse', [w.P(M.o), w.P(D.o), w.P(sjp), w.P(sjr), w.P(pto), I(body), I(NV), w.P(chobj[body])])])
        for cur, _k in seqs:
            ld = lambda o, i, cur=cur: ex.load(cur, w.P(o, 8 * i), FpT('double'))
            Jp = [[ld(jp, r * nv + c) for c in range(nv)] for r in range(3)]; Jr = [[ld(jr, r * nv + c) for c in range(nv)] for r in range(3)]
            sp_ = [[ld(sjp, r * NV + c) for c in range(NV)] for r in range(3)]; sr_ = [[ld(sjr, r * NV + c) for c in range(NV)] for r in range(3)]
            nargs = lambda a: [('ptr', (M.o, 0)), ('ptr', (D.o, 0))] + a
            seq = [('mj_jacDot', nargs([('ptr', (jp, 0)), ('ptr', (jr, 0)), ('ptr', (pto, 0)), ('i32', body)]), 'void'),
                   ('mj_jacDotSparse', nargs([('ptr', (sjp, 0)), ('ptr', (sjr, 0)), ('ptr', (pto, 0)), ('i32', body), ('i32', NV), ('ptr', (chobj[body], 0))]), 'void')]
            outs = [('jacp%d' % k, jp, 8 * k, 'f64', ld(jp, k)) for k in range(3 * nv)] + [('jacr%d' % k, jr, 8 * k, 'f64', ld(jr, k)) for k in range(3 * nv)] + \
                   [('sjacp%d' % k, sjp, 8 * k, 'f64', ld(sjp, k)) for k in range(3 * NV)] + [('sjacr%d' % k, sjr, 8 * k, 'f64', ld(sjr, k)) for k in range(3 * NV)]
            rp = C06.seq_replay(w, seq, outs, so_fn=so_sup)
            ck.prove('body %d: mj_jacDotSparse equals mj_jacDot on the chain columns, mj_jacDot is zero off the chain' % body, cur.pc,
                     z3.And(*([sp_[r][c] == Jp[r][chain[c]] for r in range(3) for c in range(NV)] + [sr_[r][c] == Jr[r][chain[c]] for r in range(3) for c in range(NV)] +
                              [Jp[r][c] == 0 for r in range(3) for c in range(nv) if c not in chain] + [Jr[r][c] == 0 for r in range(3) for c in range(nv) if c not in chain])),
                     site='mj_jacDot:sparse-dense', decode=dec, replay=rp)
            want = {}
            for i in chain:
                if i in (3, 4, 5):      # rotational dofs of the free joint: axis fixed in the moving body, d/dt = omega x axis (angular part of the spatial cross product cvel x cdof)
                    want[i] = cross(cv[6 * 1:6 * 1 + 3], cd[6 * i:6 * i + 3])
                else: want[i] = cdd[6 * i:6 * i + 3]
            ck.prove('body %d: rotational columns = stored cdof_dot for translational / hinge dofs, omega x axis for the rotational dofs of the free joint' % body, cur.pc,
                     z3.And(*[Jr[r][i] == want[i][r] for i in chain for r in range(3)]), site='mj_jacDot:quaternion-dofs', decode=dec, replay=rp)
    ck.reach('free symbols', st.pc)
    return ck


def unit_compos(tier, topo, hinge_only=False):
    """mj_comPos: subtree centre of mass is the mass-weighted mean over the subtree; cinert carries the body's mass and first moment about the tree's COM; the motion axis
    of a hinge is [axis; axis x (COM - anchor of THAT joint)] (the velocity of the point COM per unit joint velocity), of a slide [0; axis]"""
    import fractions
    ck = Checker('compos_%s%s' % (topo, '_h' if hinge_only else ''), tier, timeout_s=120, semantics='real')
    K = build.enum_values('mjJNT_')
    S, w, M, D = C06.world(topo, ('xipos', 'ximat', 'xmat', 'subtree_com', 'cdof', 'cinert'))
    nv, nb = S['nv'], S['nb']
    D.arr('xanchor', 'f64', 3 * nv, name='xanchor'); D.arr('xaxis', 'f64', 3 * nv, name='xaxis')
    mo, mass = M.arr('body_mass', 'f64', nb, name='mass'); smo, sm = M.arr('body_subtreemass', 'f64', nb, name='smass'); io, inr = M.arr('body_inertia', 'f64', 3 * nb, name='inertia')
    types = [K['mjJNT_HINGE'] if (hinge_only or j % 2 == 0) else K['mjJNT_SLIDE'] for j in range(nv)]
    M.arr('jnt_type', 'i32', nv, types)
    jadr = []; a = 0
    for b in range(nb): jadr.append(a if S['dnum'][b] else -1); a += S['dnum'][b]
    M.arr('body_jntadr', 'i32', nb, jadr); M.arr('body_jntnum', 'i32', nb, list(S['dnum'])); M.arr('jnt_dofadr', 'i32', nv, list(range(nv))); M.arr('jnt_bodyid', 'i32', nv, list(S['dof_body']))
    MINV = z3.RealVal(str(fractions.Fraction(1e-15)))
    ex = C06.executor(nv, nb); st = w.to_state(ex)
    pre = [sm[b] >= MINV for b in range(nb)]
    st.pc += pre
    xip = D.arrays['xipos'][3]; xan = D.arrays['xanchor'][3]; xax = D.arrays['xaxis'][3]
    res = ex.run('@mj_comPos', [w.P(M.o), w.P(D.o)], st); ck.note_results(ex, res)
    roots = C06.root_ids(S)
    dec = lambda mdl: {'topology': topo, 'joint types': ['hinge' if t == K['mjJNT_HINGE'] else 'slide' for t in types], 'mass': [str(W.evalnum(mdl, x)) for x in mass], 'subtree mass': [str(W.evalnum(mdl, x)) for x in sm],
                       'xanchor': [str(W.evalnum(mdl, x)) for x in xan], 'xaxis': [str(W.evalnum(mdl, x)) for x in xax], 'xipos': [str(W.evalnum(mdl, x)) for x in xip]}
    cross = lambda a_, b_: [a_[1] * b_[2] - a_[2] * b_[1], a_[2] * b_[0] - a_[0] * b_[2], a_[0] * b_[1] - a_[1] * b_[0]]
    nret = 0
    for r in res:
        if r.kind != 'return': continue
        nret += 1
        sc = C06.arr(ex, r.state, w, D, 'subtree_com', 3 * nb); cd = C06.arr(ex, r.state, w, D, 'cdof', 6 * nv); ci = C06.arr(ex, r.state, w, D, 'cinert', 10 * nb)
        outs = [('subtree_com%d' % k, D.arrays['subtree_com'][0], 8 * k, 'f64', sc[k]) for k in range(3 * nb)] + [('cdof%d' % k, D.arrays['cdof'][0], 8 * k, 'f64', cd[k]) for k in range(6 * nv)] + \
               [('cinert%d' % (10 * b + k), D.arrays['cinert'][0], 8 * (10 * b + k), 'f64', ci[10 * b + k]) for b in range(nb) for k in range(6, 10)]
        rp = W.make_replay(so(), 'mj_comPos', w, [('ptr', (M.o, 0)), ('ptr', (D.o, 0))], outputs=outs, semantics='real')
        for b in range(nb):
            sub = [c for c in range(nb) if c == b or (b == 0) or is_desc(S, c, b)]
            ck.prove('subtree_com[%d] * subtree mass = sum over the subtree of mass * xipos' % b, r.state.pc, z3.And(*[sc[3 * b + k] * sm[b] == sum(mass[c] * xip[3 * c + k] for c in sub) for k in range(3)]),
                     site='mj_comPos:subtree_com', decode=dec, replay=rp)
        for b in range(1, nb):
            off = [xip[3 * b + k] - sc[3 * roots[b] + k] for k in range(3)]
            ck.prove('cinert[%d]: mass and first moment mass * (xipos - COM of the tree)' % b, r.state.pc, z3.And(ci[10 * b + 9] == mass[b], *[ci[10 * b + 6 + k] == mass[b] * off[k] for k in range(3)]),
                     site='mj_comPos:cinert', decode=dec, replay=rp)
        for j in range(nv):
            b = S['dof_body'][j]; ax = [xax[3 * j + k] for k in range(3)]
            if types[j] == K['mjJNT_HINGE']:
                lin = cross(ax, [sc[3 * roots[b] + k] - xan[3 * j + k] for k in range(3)]); want = ax + lin
                what = 'hinge %d: cdof = [axis; axis x (COM of the tree - anchor of this joint)]' % j
            else:
                want = [z3.RealVal(0)] * 3 + ax; what = 'slide %d: cdof = [0; axis]' % j
            ck.prove(what, r.state.pc, z3.And(*[cd[6 * j + k] == want[k] for k in range(6)]), site='mj_comPos:cdof', decode=dec, replay=rp)
    if nret != 1: ck.error('mj_comPos: expected one returning path, got %d' % nret)
    ck.reach('subtree masses above mjMINVAL', pre)
    ck.memory_obligations(res, decode=dec)
    return ck


def is_desc(S, c, b):
    while c > 0:
        c = S['par'][c]
        if c == b: return True
    return False


def unit_posmaps(tier, nv):
    """slide / hinge joints: differentiatePos(qpos1, integratePos(qpos1, v, dt)) = v, and integratePos adds v*dt"""
    ck = Checker('posmaps_nv%d' % nv, tier, timeout_s=60, semantics='real')
    L = C06.lay(); K = build.enum_values('mjJNT_')
    w = W.World('real')
    M, _ = W.full_struct(w, L, 'mjModel_', 'MJMODEL_POINTERS', {'nq': nv, 'nv': nv, 'njnt': nv, 'nbody': nv + 1}, 'm', default_size=0,
                         values={'jnt_type': [K['mjJNT_SLIDE'] if j % 2 == 0 else K['mjJNT_HINGE'] for j in range(nv)], 'jnt_qposadr': list(range(nv)), 'jnt_dofadr': list(range(nv)),
                                 'body_jntadr': [-1] + list(range(nv)), 'body_jntnum': [0] + [1] * nv})
    M.set('opt.enableflags', 0)
    q1o, q1 = w.arr('qpos1', 'f64', nv); q2o, q2 = w.arr('qpos2', 'f64', nv, list(q1)); vo, v = w.arr('v', 'f64', nv); oo, _ = w.arr('out', 'f64', nv, [0.0] * nv)
    dt = z3.Real('dt'); w.syms.append(('dt', 'f64', dt))
    ex = llsym.Exec(mod(), fpmode='real', loop_bound=nv + 4); st = w.to_state(ex); st.pc.append(dt != 0)
    fins = C06.run_seq(ex, ck, st, [('mj_integratePos', [w.P(M.o), w.P(q2o), w.P(vo), dt]), ('mj_differentiatePos', [w.P(M.o), w.P(oo), dt, w.P(q1o), w.P(q2o)])])
    dec = lambda mdl: {'dt': str(W.evalnum(mdl, dt)), 'qpos': [str(W.evalnum(mdl, x)) for x in q1], 'v': [str(W.evalnum(mdl, x)) for x in v]}
    for cur, _k in fins:
        q2n = [ex.load(cur, w.P(q2o, 8 * i), FpT('double')) for i in range(nv)]; out = [ex.load(cur, w.P(oo, 8 * i), FpT('double')) for i in range(nv)]
        seq = [('mj_integratePos', [('ptr', (M.o, 0)), ('ptr', (q2o, 0)), ('ptr', (vo, 0)), ('f64', dt)], 'void'), ('mj_differentiatePos', [('ptr', (M.o, 0)), ('ptr', (oo, 0)), ('f64', dt), ('ptr', (q1o, 0)), ('ptr', (q2o, 0))], 'void')]
        rp = C06.seq_replay(w, seq, [('q2_%d' % i, q2o, 8 * i, 'f64', q2n[i]) for i in range(nv)] + [('out%d' % i, oo, 8 * i, 'f64', out[i]) for i in range(nv)], so_fn=so_sup)
        ck.prove('integratePos on scalar joints adds v*dt', cur.pc, z3.And(*[q2n[i] == q1[i] + v[i] * dt for i in range(nv)]), site='mj_integratePos:scalar', decode=dec, replay=rp)
        ck.prove('differentiatePos inverts integratePos', cur.pc, z3.And(*[out[i] == v[i] for i in range(nv)]), site='mj_differentiatePos:inverse', decode=dec, replay=rp)
    ck.reach('dt', [dt != 0])
    return ck


def units(tier):
    topos = ['chain3', 'fork3', 'twodof', 'mixed5'] if tier == 'quick' else ['chain3', 'fork3', 'twodof', 'mixed5', 'chain4', 'fork4', 'free3']
    u = []
    for t in topos:
        u.append(('velocity_%s' % t, 'unit_velocity', {'topo': t})); u.append(('subtreecom_%s' % t, 'unit_subtreecom', {'topo': t}))
    for t in (['twodof', 'chain3'] if tier == 'quick' else ['twodof', 'chain3', 'fork3', 'mixed5', 'chain4']):
        u.append(('compos_%s' % t, 'unit_compos', {'topo': t}))
    u.append(('compos_twodof_h', 'unit_compos', {'topo': 'twodof', 'hinge_only': True}))
    u.append(('jacdot_free6h', 'unit_jacdot', {}))
    u += [('posmaps_nv2', 'unit_posmaps', {'nv': 2})] + ([('posmaps_nv3', 'unit_posmaps', {'nv': 3})] if tier != 'quick' else [])
    return u
