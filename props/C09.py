"""C09 (discrete-time part): mj_discreteAcc inverts the velocity update of mj_EulerSkip for every disable-flag combination (both real functions run by llsym)."""
import re
import z3
from vf import ir, build, llsym, world as W
from vf.runner import Checker
from vf.irparse import IntT, FpT, PtrT

ID = 'C09'
LEVEL = 'other'
TUS = ['src/engine/engine_forward.c', 'src/engine/engine_inverse.c', 'src/engine/engine_support.c', 'src/engine/engine_util_blas.c', 'src/engine/engine_util_misc.c', 'src/engine/engine_core_smooth.c',
       'src/engine/engine_core_util.c', 'src/engine/engine_util_sparse.c']
SUP = ['src/engine/engine_support.c', 'src/engine/engine_util_blas.c', 'src/engine/engine_util_misc.c', 'src/engine/engine_util_errmem.c', 'src/engine/engine_callback.c', 'src/engine/engine_core_smooth.c',
       'src/engine/engine_core_util.c', 'src/engine/engine_util_sparse.c', 'src/engine/engine_memory.c']
EXPLANATION = ('Forward: the real mj_EulerSkip runs on a symbolic state whose continuous-time acceleration satisfies the forward-dynamics equation M qacc = qfrc_smooth + qfrc_constraint; its velocity update defines the '
               'discrete-time acceleration a_d = (qvel\' - qvel)/h. Inverse: the real static mj_discreteAcc (the invdiscrete conversion of mj_inverse) runs on a second instance whose d->qacc holds those a_d terms. z3 must show '
               'that it returns the original continuous-time acceleration - so that mj_inverse reproduces the forward forces - for EVERY combination of mjDSBL_EULERDAMP / mjDSBL_DAMPER, damping coefficients, damping polynomials, '
               'masses, velocities, forces and timestep. Forward constraint stage: the real static warmstart() with an island structure and a non-identity map_idof2dof - dofs that belong to no island (which no per-island solver writes) must leave it with '
               'the unconstrained acceleration qacc_smooth, for which inverse dynamics returns zero constraint force; island dofs all start from the same candidate.')
BOUNDS = {'quick': {'nv': '1..3 slide joints, diagonal inertia', 'integrator': 'Euler', 'warmstart': 'five island maps up to nv = 5 (island sizes 1..3), Newton/CG branch'}, 'thorough': {'nv': '1..4', 'warmstart': '+ island of 4 of 5 dofs, nv = 6 with an island of 3, an empty island map'}}
OUTSIDE = ('agreement of constraint forces (needs a converged forward solve: mj_invConstraint vs the solvers - iterative numerics); implicit / implicitfast discrete conversion (mjd_smooth_vel derivative assembly); coupled inertia '
           '(the LTDL factorisation is taken as given: its contract belongs to C06); qfrc_inverse assembly in mj_inverseSkip; mjd_effShift (effective-metric shift refresh, stubbed out); in the warmstart units mj_mulJacVec, mj_constraintUpdate and mj_mulM are stubs returning solver-chosen values (the claim is about which acceleration each dof leaves with, not about the costs), PGS branch of warmstart.')
ASSUMPTIONS = ['real-number semantics', 'M diagonal with positive entries, qLD = M, qLDiagInv = 1/M', 'damping coefficients and polynomial coefficients non-negative', 'mj_sleep returns 0, sleep disabled, mjcb_time not installed',
               'mj_stackAllocInfo returns a fresh block (its own contract is C19)']
BUDGET = {'quick': 400, 'thorough': 1200}
_c = {}
STUB_C = 'int vfstub_mj_sleep(const void* m, void* d) { vf_log_call("mj_sleep"); return 0; }\nvoid vfstub_mjd_effShift(const void* m, void* d) { vf_log_call("mjd_effShift"); }\n'


def mod():
    if 'm' not in _c: _c['m'] = ir.load(TUS)
    return _c['m']


def so_fwd():
    if 'sof' not in _c: _c['sof'] = build.native_lib(['src/engine/engine_forward.c'], SUP, name='c09_fwd', extra_c=STUB_C, redirect=['mj_sleep', 'mjd_effShift'])
    return _c['sof']


def so_inv():
    if 'soi' not in _c: _c['soi'] = build.native_lib(['src/engine/engine_inverse.c'], SUP, name='c09_inv', extra_c=STUB_C, redirect=['mj_sleep', 'mjd_effShift'])
    return _c['soi']


def lay():
    if 'l' not in _c: _c['l'] = build.Layout()
    return _c['l']


def prepare(tier): mod(); so_fwd(); so_inv(); so_ws(); lay()


def I(v): return z3.BitVecVal(v, 32)


def instance(nv, tag, sym, vals):
    """one (World, model, data) for nv decoupled slide joints; sym: symbolic arrays; vals: {array: [terms]}"""
    L = lay(); K = build.enum_values('mjJNT_'); KI = build.enum_values('mjINT_')
    w = W.World('real'); nb = nv + 1
    mv = {'jnt_type': [K['mjJNT_SLIDE']] * nv, 'jnt_qposadr': list(range(nv)), 'jnt_dofadr': list(range(nv)), 'body_jntadr': [-1] + list(range(nv)), 'body_jntnum': [0] + [1] * nv,
          'jnt_actuatorid': [-1] * nv, 'dof_jntid': list(range(nv)), 'M_rownnz': [1] * nv, 'M_rowadr': list(range(nv)), 'M_colind': list(range(nv)), 'dof_Madr': list(range(nv)), 'dof_simplenum': [1] * nv}
    mv.update({k: v for k, v in vals.items() if k.startswith('dof_')})
    M, _ = W.full_struct(w, L, 'mjModel_', 'MJMODEL_POINTERS', {'nq': nv, 'nv': nv, 'njnt': nv, 'nbody': nb, 'ntree': nv, 'nC': nv, 'nM': nv, 'nD': nv}, 'm' + tag, default_size=0,
                         symbolic=tuple(a for a in sym if a.startswith('dof_')), values=mv)
    dv = {k: v for k, v in vals.items() if not k.startswith('dof_')}
    D, _ = W.full_struct(w, L, 'mjData_', 'MJDATA_POINTERS', {'nq': nv, 'nv': nv, 'nbody': nb, 'nC': nv, 'nM': nv, 'nD': nv}, 'd' + tag, default_size=0,
                         symbolic=tuple(a for a in sym if not a.startswith('dof_')), values=dv)
    ar = w.obj('arena' + tag, 8192).zeros(); D.o.put(D.off('arena'), 'ptr', (ar, 0)); D.set('narena', 8192)
    M.set('opt.enableflags', 0); M.set('opt.integrator', KI['mjINT_EULER'])
    return w, M, D


def executor(nv, npoly):
    def alloc(ex, st, args, ins):
        size = ex.as_int(args[1]); return st.alloc(size, ('stack', len(st.objs)))
    noop = lambda ex, st, args, ins: None
    stubs = {'mj_sleep': lambda ex, st, a, i: I(0), 'mj_stackAllocInfo': alloc, 'mj_markStack': noop, 'mj_freeStack': noop, 'mjd_effShift': noop}
    return llsym.Exec(mod(), fpmode='real', stubs=stubs, loop_bound=max(nv, npoly) + 4)


def unit_euler_inverse(tier, nv):
    ck = Checker('euler_discrete_nv%d' % nv, tier, timeout_s=120, semantics='real')
    KD = build.enum_values('mjDSBL_')
    npoly = int(re.search(r'#define mjNPOLY\s+(\d+)', open(build.REPO + '/include/mujoco/mjmodel.h').read() + open(build.REPO + '/include/mujoco/mjtype.h').read()).group(1))
    ED = KD['mjDSBL_EULERDAMP']; DD = KD['mjDSBL_DAMPER']
    # ---- forward
    w, M, D = instance(nv, '', ('dof_damping', 'dof_dampingpoly', 'qpos', 'qvel', 'qfrc_smooth', 'qfrc_constraint', 'M'), {})
    h = M.sym('opt.timestep', 'h'); dis = M.sym('opt.disableflags', 'disableflags'); D.sym('time', 'time')
    qvel, fs, fc, Mm = [D.arrays[k][3] for k in ('qvel', 'qfrc_smooth', 'qfrc_constraint', 'M')]
    b = M.arrays['dof_damping'][3]; bp = M.arrays['dof_dampingpoly'][3]
    # forward dynamics: the continuous-time acceleration handed to the integrator
    qc = [(fs[i] + fc[i]) / Mm[i] for i in range(nv)]
    o_q, _ = w.arr('qacc_cont', 'f64', nv, qc); D.o.put(D.off('qacc'), 'ptr', (o_q, 0))
    pre = [h > 0, (dis & ~(ED | DD)) == 0] + [x > 0 for x in Mm] + [x >= 0 for x in b] + [x >= 0 for x in bp]
    ex = executor(nv, npoly)
    st = w.to_state(ex); st.pc += pre
    st.aux['extern_init'] = {'@mjcb_time': lambda e, s_, p: e.store(s_, p, PtrT(IntT(8)), llsym.NULL, check=False)}
    res = ex.run('@mj_EulerSkip', [w.P(M.o), w.P(D.o), I(0)], st)
    ck.note_results(ex, res)
    dec = lambda mdl: {'h': str(W.evalnum(mdl, h)), 'disableflags': hex(W.evalnum(mdl, dis)), 'damping': [str(W.evalnum(mdl, x)) for x in b], 'dampingpoly': [str(W.evalnum(mdl, x)) for x in bp],
                       'M': [str(W.evalnum(mdl, x)) for x in Mm], 'qvel': [str(W.evalnum(mdl, x)) for x in qvel], 'qfrc_smooth': [str(W.evalnum(mdl, x)) for x in fs], 'qfrc_constraint': [str(W.evalnum(mdl, x)) for x in fc]}
    npairs = 0
    for r in res:
        if r.kind != 'return': continue
        nvl = [ex.load(r.state, w.P(D.arrays['qvel'][0], 8 * i), FpT('double')) for i in range(nv)]
        a_d = [(nvl[i] - qvel[i]) / h for i in range(nv)]
        fwd_out = [('qvel%d' % i, D.arrays['qvel'][0], 8 * i, 'f64', nvl[i]) for i in range(nv)]
        rp_f = W.make_replay(so_fwd(), 'mj_EulerSkip', w, [('ptr', (M.o, 0)), ('ptr', (D.o, 0)), ('i32', 0)], outputs=fwd_out, semantics='real')
        # ---- inverse on the forward result
        w2, M2, D2 = instance(nv, '2', (), {'dof_damping': b, 'dof_dampingpoly': bp, 'qvel': qvel, 'M': Mm, 'qLD': Mm, 'qLDiagInv': [1 / x for x in Mm], 'qacc': a_d})
        M2.o.put(M2.off('opt.timestep'), 'f64', h); M2.o.put(M2.off('opt.disableflags'), 'i32', dis)
        w2.syms = list(w.syms)
        ex2 = executor(nv, npoly)
        st2 = w2.to_state(ex2); st2.pc += list(r.state.pc)
        res2 = ex2.run('@mj_discreteAcc', [w2.P(M2.o), w2.P(D2.o)], st2)
        ck.note_results(ex2, res2)
        for r2 in res2:
            if r2.kind != 'return': continue
            npairs += 1
            out = [ex2.load(r2.state, w2.P(D2.arrays['qacc'][0], 8 * i), FpT('double')) for i in range(nv)]
            rp_i = W.make_replay(so_inv(), 'mj_discreteAcc', w2, [('ptr', (M2.o, 0)), ('ptr', (D2.o, 0))], outputs=[('qacc%d' % i, D2.arrays['qacc'][0], 8 * i, 'f64', out[i]) for i in range(nv)], semantics='real')
            def rp(model, witness, rp_f=rp_f, rp_i=rp_i):
                ok1, d1 = rp_f(model, witness); ok2, d2 = rp_i(model, witness)
                return (ok1 and ok2), {'forward mj_EulerSkip': d1, 'inverse mj_discreteAcc': d2}
            for i in range(nv):
                ck.prove('mj_discreteAcc applied to the discrete acceleration of mj_EulerSkip returns the continuous acceleration M^-1 (qfrc_smooth + qfrc_constraint) of dof %d' % i, r2.state.pc, out[i] == qc[i],
                         site='mj_discreteAcc:euler-inverse', decode=dec, replay=rp)
    ck.selfcheck('forward/inverse path pairs', npairs > 0, npairs)
    ck.reach('dampers disabled, Euler damping enabled, damped dof', pre + [(dis & DD) != 0, (dis & ED) == 0, b[0] > 0])
    ck.reach('implicit damping active', pre + [(dis & DD) == 0, (dis & ED) == 0, b[0] > 0])
    return ck


WS_C = STUB_C + r"""
/* warmstart replay: the three heavy callees are replaced by stubs that hand back values chosen by the solver (cost of each constraint update, M*qacc_warmstart) */
static double *vf09_cost = 0, *vf09_ma = 0; static int vf09_k = 0, vf09_nv = 0, vf09_nefc = 0;
void vf09_set(double* cost, double* ma, int nv, int nefc) { vf09_cost = cost; vf09_ma = ma; vf09_k = 0; vf09_nv = nv; vf09_nefc = nefc; }
void vfstub_mj_mulJacVec(const void* m, void* d, double* res, const double* vec) { for (int i = 0; i < vf09_nefc; i++) res[i] = 0; }
void vfstub_mj_constraintUpdate(const void* m, void* d, const double* jar, double* cost, int flg) { if (cost) *cost = vf09_cost[vf09_k]; vf09_k++; }
void vfstub_mj_mulM(const void* m, void* d, double* res, const double* vec) { for (int i = 0; i < vf09_nv; i++) res[i] = vf09_ma[i]; }
"""


def so_ws():
    if 'sow' not in _c: _c['sow'] = build.native_lib(['src/engine/engine_forward.c'], SUP, name='c09_warmstart', extra_c=WS_C, redirect=['mj_sleep', 'mjd_effShift', 'mj_mulJacVec', 'mj_constraintUpdate', 'mj_mulM'])
    return _c['sow']


def unit_warmstart(tier, perm, nidof):
    """warmstart() of the forward constraint stage with an island structure: dofs that belong to no island (map_idof2dof[nidof..nv)) are never written by the per-island solvers, so they must
    leave warmstart with the unconstrained acceleration qacc_smooth (for which inverse dynamics returns zero constraint force); island dofs start from qacc_warmstart or qacc_smooth, all from the same one"""
    ck = Checker('warmstart_%s_n%d' % (''.join(map(str, perm)), nidof), tier, timeout_s=120, semantics='real')
    L = lay(); KS = build.enum_values('mjSOL_'); nv = len(perm); nefc = 2
    w = W.World('real')
    M, _ = W.full_struct(w, L, 'mjModel_', 'MJMODEL_POINTERS', {'nv': nv}, 'm', default_size=0)
    M.set('opt.disableflags', 0); M.set('opt.enableflags', 0); M.set('opt.solver', KS['mjSOL_NEWTON'])
    D, _ = W.full_struct(w, L, 'mjData_', 'MJDATA_POINTERS', {'nv': nv, 'nefc': nefc}, 'd', default_size=0, symbolic=('qacc', 'qacc_warmstart', 'qacc_smooth', 'qfrc_smooth'))
    D.arr('efc_aref', 'f64', nefc, name='efc_aref'); D.arr('efc_b', 'f64', nefc, name='efc_b'); D.arr('map_idof2dof', 'i32', nv, list(perm))
    D.set('nefc', nefc); D.set('nisland', 1); D.set('nidof', nidof)
    ar = w.obj('arena', 8192).zeros(); D.o.put(D.off('arena'), 'ptr', (ar, 0)); D.set('narena', 8192)
    co, cost = w.arr('vfcost', 'f64', 2); mao, ma = w.arr('vfMa', 'f64', nv)
    def alloc(ex, st, args, ins):
        return st.alloc(ex.as_int(args[1]), ('stack', len(st.objs)))
    noop = lambda ex, st, args, ins: None
    def s_jac(ex, st, args, ins):
        for i in range(nefc): ex.store(st, llsym.Ptr(args[2].obj, args[2].off + 8 * i), FpT('double'), z3.RealVal(0))
    def s_upd(ex, st, args, ins):
        k = st.aux.get('nupd', 0); st.aux['nupd'] = k + 1
        if not (isinstance(args[3], llsym.Ptr) and args[3].obj == 0): ex.store(st, args[3], FpT('double'), cost[k])
    def s_mulm(ex, st, args, ins):
        for i in range(nv): ex.store(st, llsym.Ptr(args[2].obj, args[2].off + 8 * i), FpT('double'), ma[i])
    ex = llsym.Exec(mod(), fpmode='real', loop_bound=nv + nefc + 8, stubs={'mj_stackAllocInfo': alloc, 'mj_markStack': noop, 'mj_freeStack': noop, 'mj_mulJacVec': s_jac, 'mj_constraintUpdate': s_upd, 'mj_mulM': s_mulm})
    st = w.to_state(ex)
    res = ex.run('@warmstart', [w.P(M.o), w.P(D.o)], st); ck.note_results(ex, res)
    qw = D.arrays['qacc_warmstart'][3]; qs = D.arrays['qacc_smooth'][3]
    dec = lambda mdl: {'map_idof2dof': list(perm), 'nidof': nidof, 'qacc_warmstart': [str(W.evalnum(mdl, x)) for x in qw], 'qacc_smooth': [str(W.evalnum(mdl, x)) for x in qs], 'costs': [str(W.evalnum(mdl, x)) for x in cost]}
    free = sorted(perm[nidof:]); isl = sorted(perm[:nidof]); nret = 0
    for r in res:
        if r.kind != 'return': continue
        nret += 1
        qa = [ex.load(r.state, w.P(D.arrays['qacc'][0], 8 * i), FpT('double')) for i in range(nv)]
        seq = [('vf09_set', [('ptr', (co, 0)), ('ptr', (mao, 0)), ('i32', nv), ('i32', nefc)], 'void'), ('warmstart', [('ptr', (M.o, 0)), ('ptr', (D.o, 0))], 'void')]
        from props import C06
        rp = C06.seq_replay(w, seq, [('qacc%d' % i, D.arrays['qacc'][0], 8 * i, 'f64', qa[i]) for i in range(nv)], so_fn=so_ws)
        ck.prove('dofs outside every island (%s) leave warmstart with qacc = qacc_smooth' % free, r.state.pc, z3.And(*[qa[i] == qs[i] for i in free]), site='warmstart:unconstrained-dofs', decode=dec, replay=rp)
        ck.prove('island dofs (%s) start from qacc_warmstart or from qacc_smooth, all from the same one' % isl, r.state.pc, z3.Or(z3.And(*[qa[i] == qw[i] for i in isl]), z3.And(*[qa[i] == qs[i] for i in isl])),
                 site='warmstart:island-dofs', decode=dec, replay=rp)
    if nret < 2: ck.error('expected two returning paths (warmstart kept / replaced), got %d' % nret)
    ck.memory_obligations(res, decode=dec)
    return ck


def units(tier):
    u = [('euler_discrete_nv%d' % nv, 'unit_euler_inverse', {'nv': nv}) for nv in ([1, 2, 3] if tier == 'quick' else [1, 2, 3, 4])]
    base = [((2, 0, 3, 1), 2), ((1, 2, 0), 1), ((3, 1, 0, 2), 3), ((0, 1, 2), 2), ((4, 2, 0, 3, 1), 2)]
    for perm, nidof in (base if tier == 'quick' else base + [((4, 2, 0, 3, 1), 4), ((1, 5, 3, 0, 2, 4), 3), ((0, 2, 1), 0)]):
        u.append(('warmstart_%s_n%d' % (''.join(map(str, perm)), nidof), 'unit_warmstart', {'perm': perm, 'nidof': nidof}))
    return u
