"""C46 Bounded least squares evaluates the residual only inside the box: exact binary64 arithmetic of the real statements."""
import ast, os, sys, types, textwrap
import numpy as np
import z3
from vf import build, pysym
from vf.pysym import F, B, FV, F64, RNE
from vf.runner import Checker

ID = 'C46'
LEVEL = 'other'
ENGINE = 'pysym'
TECHNIQUE = 'the real jacobian_fd and the real candidate-step statements of least_squares (taken from the AST of minimize.py on every run) executed on exact IEEE-754 binary64 z3 terms; z3/cvc5 decide "inside the box"; counterexamples replayed through the real least_squares with a recording residual'
EXPLANATION = ('python/mujoco/minimize.py is loaded from /repo. jacobian_fd runs unmodified on 1x1 object arrays of exact binary64 z3 terms (np.where/maximum/abs become ite terms), and the '
               'statements of least_squares from the computation of dlower/dupper and of the candidate "xnew = ..." up to the call residual(xnew) are extracted from the function\'s AST and '
               'executed on the same terms, with mju_boxQP replaced by its documented contract dlower <= dx <= dupper. Claim: every point at which the residual is evaluated lies in [lo, hi], '
               'exactly in binary64, for every finite x in the box, every finite bounds and every dx the box-QP may return.'
               ' Line search: the candidate / reduction / armijo statements of least_squares (from its AST) run on real-valued symbolic columns; z3 shows that a candidate accepted by the Armijo test never increases the objective, for every scaling D > 0 and every descent step.')
BOUNDS = {'quick': {'coordinates': 1, 'scaling D': 'powers of two in [1/4, 4]', '|values|': '<= 1e6, finite', 'armijo': 'n = 1, 2 coordinates, any D > 0, real arithmetic'}, 'thorough': {'scaling D': 'same', '|values|': '<= 1e12'}}
OUTSIDE = 'non-increasing objective trace beyond one acceptance test (unit_armijo: real arithmetic, box-QP step assumed to be a descent direction) and global optimum for linear residuals (iterative numerics); n > 1 coordinates (the checked arithmetic is coordinate-wise); D not a power of two (not replayable through a residual with an exactly representable column norm).'
ASSUMPTIONS = ['mju_boxQP returns dx with dlower <= dx <= dupper (documented post-condition)', 'bounds finite, lo < hi, and hi - lo >= 4*eps*max(1,|lo|,|hi|) for the finite-difference claim (box wider than the step)',
               'binary64 round-to-nearest-even, no FMA']
BUDGET = {'quick': 600, 'thorough': 3000}


def load_minimize(name='vf_minimize'):
    return pysym.load_by_path(name, os.path.join(build.REPO, 'python/mujoco/minimize.py'))


def candidate_statements():
    """source-level statements of least_squares that compute dlower/dupper and the candidate up to residual(xnew)"""
    src = open(os.path.join(build.REPO, 'python/mujoco/minimize.py')).read()
    tree = ast.parse(src)
    fn = [n for n in tree.body if isinstance(n, ast.FunctionDef) and n.name == 'least_squares'][0]
    out = {'bounds': [], 'cand': []}
    class V(ast.NodeVisitor):
        def visit_Assign(self, node):
            tg = [t.id for t in node.targets if isinstance(t, ast.Name)]
            if tg and tg[0] in ('dlower', 'dupper'): out['bounds'].append(node)
            self.generic_visit(node)
        def visit_While(self, node):
            body = node.body
            idx = [i for i, s in enumerate(body) if isinstance(s, ast.Assign) and any(isinstance(t, ast.Name) and t.id == 'rnew' for t in s.targets) and 'residual(xnew)' in ast.unparse(s)]
            if idx:
                # every statement between the box-QP loop (the last loop / break test before the call) and residual(xnew); timing statements are dropped
                last = max([i for i, s in enumerate(body[:idx[0]]) if isinstance(s, (ast.While, ast.For)) or (isinstance(s, ast.If) and any(isinstance(x, ast.Break) for x in ast.walk(s)))] + [-1])
                out['cand'] = [s for s in body[last + 1:idx[0]] if 'time.time' not in ast.unparse(s)]
            self.generic_visit(node)
    V().visit(fn)
    return out


def finite(v, big):
    return z3.And(z3.Not(z3.fpIsNaN(v)), z3.Not(z3.fpIsInf(v)), z3.fpLEQ(z3.fpAbs(v), z3.FPVal(big, F64)))


def arr(v):
    a = np.empty((1, 1), dtype=object); a[0, 0] = v if isinstance(v, F) else F(FV(v)); return pysym.OA(a)


def fval(model, t):
    from vf.world import evalnum
    return evalnum(model, t)


def unit_candidate(tier, D):
    ck = Checker('candidate_D%g' % D, tier, timeout_s=240, semantics='fp64')
    st = candidate_statements()
    ck.selfcheck('candidate statements located in least_squares', len(st['bounds']) == 2 and len(st['cand']) >= 1, [ast.unparse(s) for s in st['bounds'] + st['cand']])
    big = 1e6 if tier == 'quick' else 1e12
    x, lo, hi, dxv = [z3.FP(n, F64) for n in ('x', 'lo', 'hi', 'dx')]
    env = {'np': pysym.NpFP(), 'bounds': [arr(F(lo)), arr(F(hi))], 'x': arr(F(x)), 'D': arr(F(z3.FPVal(D, F64))), 'dx': arr(F(dxv)), 'n': 1, 'time': __import__('time')}
    for s in st['bounds']: exec(compile(ast.Module([s], []), 'minimize.py', 'exec'), env)
    dl, du = env['dlower'][0, 0].t, env['dupper'][0, 0].t
    for s in st['cand']: exec(compile(ast.Module([s], []), 'minimize.py', 'exec'), env)
    xnew = env['xnew'][0, 0].t
    ax = z3.fpAbs
    mx = z3.If(z3.fpGEQ(ax(lo), ax(hi)), ax(lo), ax(hi)); mx = z3.If(z3.fpGEQ(mx, z3.FPVal(1.0, F64)), mx, z3.FPVal(1.0, F64))
    wide = z3.fpGEQ(z3.fpSub(RNE, hi, lo), z3.fpMul(RNE, z3.FPVal(4e-6, F64), mx))      # box wider than the finite-difference step (hypothesis of the property)
    pre = [finite(x, big), finite(lo, big), finite(hi, big), z3.fpLT(lo, hi), z3.fpLEQ(lo, x), z3.fpLEQ(x, hi), wide, z3.Not(z3.fpIsNaN(dxv)), z3.fpLEQ(dl, dxv), z3.fpLEQ(dxv, du)]
    ck.functions |= {'least_squares (candidate step statements: %s)' % '; '.join(ast.unparse(s).strip().replace('\n', ' ') for s in st['bounds'] + st['cand'])}
    def replay(model, witness):
        m = load_minimize('vf_minimize_replay')
        xv, lov, hiv, dxx = [fval(model, t) for t in (x, lo, hi, dxv)]
        seen = []
        up = dxx > 0
        c = (hiv + 10.0 * max(1.0, abs(hiv))) if up else (lov - 10.0 * max(1.0, abs(lov)))
        k = 1.0 / D
        def residual(xx):
            seen.extend(np.asarray(xx, dtype=float).ravel().tolist()); return k * (np.asarray(xx) - c)
        import io
        try:
            m.least_squares(np.array([xv]), residual, bounds=[np.array([lov]), np.array([hiv])], verbose=0, output=io.StringIO(), max_iter=3, check_derivatives=False)
        except TypeError:
            m.least_squares(np.array([xv]), residual, bounds=[np.array([lov]), np.array([hiv])], verbose=0, output=io.StringIO(), max_iter=3)
        bad = [v for v in seen if not (lov <= v <= hiv)]
        return bool(bad), {'x0': repr(xv), 'lo': repr(lov), 'hi': repr(hiv), 'residual evaluated outside the box at': [repr(b) for b in bad[:4]], 'n_evaluations': len(seen)}
    dec = lambda mdl: {k_: repr(fval(mdl, t)) for k_, t in (('x', x), ('lo', lo), ('hi', hi), ('dx', dxv))}
    ck.prove('candidate xnew evaluated by least_squares lies in [lo, hi] (binary64 exact, D = %g)' % D, pre, z3.And(z3.fpLEQ(lo, xnew), z3.fpLEQ(xnew, hi)), site='least_squares:candidate-outside-bounds', decode=dec, replay=replay)
    ck.reach('precondition (box-QP step inside its bounds)', pre)
    return ck


def armijo_statements():
    """statements of the Armijo loop of least_squares from the candidate (after the box-QP loop) to the assignment of `armijo`, without the residual call and timing; and the constant armijo_c1"""
    src = open(os.path.join(build.REPO, 'python/mujoco/minimize.py')).read()
    fn = [n for n in ast.parse(src).body if isinstance(n, ast.FunctionDef) and n.name == 'least_squares'][0]
    out = {'stmts': None, 'c1': None}
    for node in ast.walk(fn):
        if isinstance(node, ast.Assign) and any(isinstance(t, ast.Name) and t.id == 'armijo_c1' for t in node.targets):
            try: out['c1'] = ast.literal_eval(node.value)
            except Exception: pass
        if isinstance(node, ast.While):
            body = node.body
            ia = [i for i, s_ in enumerate(body) if isinstance(s_, ast.Assign) and any(isinstance(t, ast.Name) and t.id == 'armijo' for t in s_.targets)]
            ir_ = [i for i, s_ in enumerate(body) if isinstance(s_, ast.Assign) and any(isinstance(t, ast.Name) and t.id == 'rnew' for t in s_.targets)]
            if ia and ir_:
                last = max([i for i, s_ in enumerate(body[:ir_[0]]) if isinstance(s_, (ast.While, ast.For)) or (isinstance(s_, ast.If) and any(isinstance(x, ast.Break) for x in ast.walk(s_)))] + [-1])
                out['stmts'] = [s_ for k, s_ in enumerate(body[last + 1:ia[0] + 1]) if 'time.time' not in ast.unparse(s_) and 'residual(xnew)' not in ast.unparse(s_) and 'n_res' not in ast.unparse(s_)]
    return out


def unit_armijo(tier, n):
    """acceptance test of the line search: with the box-QP step a descent direction in the scaled coordinates in which grad is computed (its contract: never worse than dx = 0 for a positive
    semidefinite model), a candidate that passes `armijo >= 0` has an objective no larger than the current one - for every scaling D > 0, gradient, step and objective values (real arithmetic)"""
    ck = Checker('armijo_n%d' % n, tier, timeout_s=120, semantics='real')
    st = armijo_statements()
    ck.selfcheck('Armijo statements located in least_squares', bool(st['stmts']) and st['c1'] is not None, [ast.unparse(s_) for s_ in (st['stmts'] or [])] + [st['c1']])
    if not st['stmts'] or st['c1'] is None: return ck
    col = lambda name: pysym.sym_array(name, (n, 1))
    x, D, dx, grad = col('x'), col('D'), col('dx'), col('grad')
    y = pysym.S(z3.Real('y')); ynew = pysym.S(z3.Real('ynew'))
    class Norm:
        def value(self, r): return ynew
    env = {'np': np, 'bounds': None, 'x': x, 'D': D, 'dx': dx, 'grad': grad, 'y': y, 'norm': Norm(), 'rnew': None, 'armijo_c1': st['c1'], 'n': n}
    for s_ in st['stmts']: exec(compile(ast.Module([s_], []), 'minimize.py', 'exec'), env)
    arm = env['armijo']; arm = arm.t if isinstance(arm, pysym.S) else pysym.R(arm)
    T = lambda a: [c.t for c in a.ravel()]
    gdx = sum([g * d for g, d in zip(T(grad), T(dx))], z3.RealVal(0))
    pre = [d > 0 for d in T(D)] + [gdx <= 0]
    ck.functions |= {'least_squares (Armijo statements: %s)' % '; '.join(ast.unparse(s_).strip().replace('\n', ' ') for s_ in st['stmts'])}
    names = [('D', D), ('dx', dx), ('grad', grad), ('x', x)]
    def dec(mdl):
        from vf.world import evalnum
        out = {k: [str(evalnum(mdl, t)) for t in T(a)] for k, a in names}; out.update(y=str(evalnum(mdl, y.t)), ynew=str(evalnum(mdl, ynew.t))); return out
    def replay(model, witness):
        """the same statements of the real least_squares, executed by the real interpreter on the concrete floats of the counterexample"""
        from vf.world import evalnum
        f = lambda a: np.array([[float(evalnum(model, t))] for t in T(a)])
        yv, ynv = float(evalnum(model, y.t)), float(evalnum(model, ynew.t))
        class N2:
            def value(self, r): return ynv
        e2 = {'np': np, 'bounds': None, 'x': f(x), 'D': f(D), 'dx': f(dx), 'grad': f(grad), 'y': yv, 'norm': N2(), 'rnew': None, 'armijo_c1': st['c1'], 'n': n}
        for s_ in st['stmts']: exec(compile(ast.Module([s_], []), 'minimize.py', 'exec'), e2)
        accepted = not (e2['armijo'] < 0); worse = ynv > yv
        return bool(accepted and worse and float((e2['grad'].T @ e2['dx']).item()) <= 0), {'armijo': repr(e2['armijo']), 'y': yv, 'ynew': ynv, 'grad.dx (scaled coordinates)': float((e2['grad'].T @ e2['dx']).item()), 'accepted': accepted}
    ck.prove('a candidate accepted by the Armijo test (armijo >= 0) does not increase the objective, for every positive scaling D and every descent step', pre + [arm >= 0], ynew.t <= y.t,
             site='least_squares:armijo-accepts-increase', decode=dec, replay=replay)
    ck.reach('accepted descent step', pre + [arm >= 0])
    return ck


def unit_fd(tier, case):
    ck = Checker('jacobian_fd_%s' % case, tier, timeout_s=400, semantics='fp64')
    m = load_minimize('vf_minimize_sym')
    m.np = pysym.NpFP()
    big = 1e6 if tier == 'quick' else 1e12
    x, lo, hi = [z3.FP(n, F64) for n in ('x', 'lo', 'hi')]
    eps = 1e-6
    got = {}
    def residual(xh):
        got['xh'] = xh; return arr(F(z3.FP('rh', F64)))
    jac, n_res = m.jacobian_fd(residual, arr(F(x)), arr(F(z3.FP('r', F64))), F(z3.FPVal(eps, F64)), 0, [arr(F(lo)), arr(F(hi))])
    xh = got['xh'][0, 0].t
    ax = lambda v: z3.fpAbs(v)
    mx = z3.If(z3.fpGEQ(ax(lo), ax(hi)), ax(lo), ax(hi)); mx = z3.If(z3.fpGEQ(mx, z3.FPVal(1.0, F64)), mx, z3.FPVal(1.0, F64))
    wide = z3.fpGEQ(z3.fpSub(RNE, hi, lo), z3.fpMul(RNE, z3.FPVal(4 * eps, F64), mx))
    mid = z3.fpAdd(RNE, z3.fpMul(RNE, z3.FPVal(0.5, F64), lo), z3.fpMul(RNE, z3.FPVal(0.5, F64), hi))
    one = z3.FPVal(1.0, F64)
    split = {'up_small': [z3.Not(z3.fpGT(x, mid)), z3.fpLEQ(ax(x), one)], 'up_big': [z3.Not(z3.fpGT(x, mid)), z3.fpGT(ax(x), one)],
             'down_small': [z3.fpGT(x, mid), z3.fpLEQ(ax(x), one)], 'down_big': [z3.fpGT(x, mid), z3.fpGT(ax(x), one)]}[case]     # the four cases cover every x
    pre = [finite(x, big), finite(lo, big), finite(hi, big), z3.fpLT(lo, hi), z3.fpLEQ(lo, x), z3.fpLEQ(x, hi), wide] + split
    ck.functions |= {'jacobian_fd'}
    def replay(model, witness):
        mm = load_minimize('vf_minimize_replay')
        xv, lov, hiv = [fval(model, t) for t in (x, lo, hi)]
        seen = []
        def res(xx): seen.extend(np.asarray(xx, dtype=float).ravel().tolist()); return np.asarray(xx) * 1.0
        mm.jacobian_fd(res, np.array([[xv]]), np.array([[xv]]), np.float64(eps), 0, [np.array([[lov]]), np.array([[hiv]])])
        bad = [v for v in seen if not (lov <= v <= hiv)]
        return bool(bad), {'x': repr(xv), 'lo': repr(lov), 'hi': repr(hiv), 'outside': [repr(b) for b in bad]}
    dec = lambda mdl: {k_: repr(fval(mdl, t)) for k_, t in (('x', x), ('lo', lo), ('hi', hi))}
    ck.prove('finite-difference point x+h evaluated by jacobian_fd lies in [lo, hi] (binary64 exact)', pre, z3.And(z3.fpLEQ(lo, xh), z3.fpLEQ(xh, hi)), site='jacobian_fd:point-outside-bounds', decode=dec, replay=replay)
    ck.reach('precondition', pre)
    return ck


def units(tier):
    u = [('jacobian_fd_%s' % c, 'unit_fd', {'case': c}) for c in ('up_small', 'up_big', 'down_small', 'down_big')]
    for D in ([1.0, 0.5, 2.0] if tier == 'quick' else [1.0, 0.5, 2.0, 0.25, 4.0]): u.append(('candidate_D%g' % D, 'unit_candidate', {'D': D}))
    for n in ([1, 2] if tier == 'quick' else [1, 2, 3]): u.append(('armijo_n%d' % n, 'unit_armijo', {'n': n}))
    return u
