"""C44 (state part): MJX state_size/get_state/set_state agree with the C state API for every signature - Python side run on z3 cells (pysym), C side by llsym, z3 compares."""
import os, sys, types, enum, random
from unittest import mock
import numpy as np
import z3
from vf import build, pysym, llsym, world as W
from vf.pysym import S, B, R
from vf.runner import Checker
from vf.irparse import FpT
from props import C26

ID = 'C44'
LEVEL = 'other'
ENGINE = 'pysym'
TECHNIQUE = ('cross-language symbolic equivalence: the real Python functions of mjx/_src/io.py (state_size, _state_elem_size, get_state, set_state) are executed on z3 terms (symbolic model dimensions / symbolic array cells), '
             'the real C functions mj_stateSize / mj_getState / mj_setState are executed by llsym from LLVM IR with the signature a free 32-bit variable; z3 decides equality of sizes, of every output cell and of every written field')
EXPLANATION = ('io.py is loaded by path from /repo with its heavy imports (jax, warp, trimesh-dependent modules) replaced by inert stand-ins and mujoco.mjtState rebuilt from /repo\'s mjtype.h, so the code under test is the '
               'repository\'s. (1) sizes: the model dimensions are free bit-vectors (0..2^20); mj_stateSize is run once with a symbolic signature and must equal, for EVERY signature and dimensions, the sum of the '
               'Python _state_elem_size of the selected bits; the Python state_size loop is run for all 2^14 signatures and must equal the same sum. (2) layout: on small concrete dimension profiles with symbolic cell '
               'contents, Python get_state(m,d,spec) must equal cell-by-cell what the C mj_getState writes for that signature, and the fields of set_state(m,d,state,spec) must equal what mj_setState leaves in mjData; '
               '(3) Python round trips set(get(d)) = d, get(set(d,s)) = s, rejection of wrong-size vectors and of out-of-range signatures. Counterexamples are replayed: C side natively, Python side on float arrays.')
BOUNDS = {'quick': {'sizes': 'all dimensions in 0..2^20, all 2^14 signatures', 'layout': 'profiles A (every element count 1) and B (mixed 0/1/2) of C26: single bits, all pairs, named combinations, 48 seeded random signatures'},
          'thorough': {'layout': 'profiles A, B, C; single bits, pairs, named, 400 seeded random signatures'}}
OUTSIDE = ('jax.jit / jax.vmap transparency (JAX tracing and XLA are not encodable); put_data / get_data / make_data (operate on the compiled mujoco binding\'s MjData, field by field through C++ accessors); float32 rounding of '
           'MJX arrays (cells are reals); negative signatures (C raises an error, Python get_state accepts them - not a state signature).')
ASSUMPTIONS = ['jax.numpy.concatenate / array / astype / reshape / slicing behave like their numpy namesakes on 1-d arrays', 'mjx.Data is a stand-in object with the 14 state fields and a dataclass-style replace()',
               'eq_active: Python bool cell p corresponds to the C byte If(p,1,0)', 'real-number cell contents']
BUDGET = {'quick': 600, 'thorough': 2400}
_c = {}
DIMS = ['nq', 'nv', 'na', 'nhistory', 'nu', 'neq', 'nmocap', 'nuserdata', 'npluginstate', 'nbody']


def mjtState():
    if 'e' not in _c:
        k = C26.K()
        _c['e'] = enum.IntFlag('mjtState', dict(k))
    return _c['e']


class SymArr(np.ndarray):
    """object ndarray with the two dtype conversions the state code performs"""
    def astype(self, dtype, *a, **kw):
        out = np.empty(self.shape, dtype=object)
        for idx in np.ndindex(*self.shape):
            c = self[idx]
            if dtype == 'f32':
                out[idx] = S(z3.If(c.t, z3.RealVal(1), z3.RealVal(0))) if isinstance(c, B) else (S(R(float(c))) if isinstance(c, (bool, np.bool_)) else c)
            elif dtype is bool:
                out[idx] = B(c.t != 0) if isinstance(c, S) else (bool(c) if not isinstance(c, B) else c)
            else: raise NotImplementedError(dtype)
        return out.view(SymArr)


def arr(cells, shape=None):
    a = np.empty(len(cells), dtype=object)
    for i, c in enumerate(cells): a[i] = c
    if shape is not None: a = a.reshape(shape)
    return a.view(SymArr)


JP = types.SimpleNamespace(concatenate=lambda xs, *a, **k: np.concatenate([np.asarray(x, dtype=object) for x in xs]).view(SymArr), array=lambda x, *a, **k: np.array(x, dtype=object).view(SymArr), float32='f32')
JPC = types.SimpleNamespace(concatenate=np.concatenate, array=np.array, float32=np.float32)


class FakeData:
    def __init__(self, **f): self.__dict__.update(f)
    def replace(self, **kw):
        d = FakeData(**self.__dict__)
        for k, v in kw.items():
            if not isinstance(v, np.ndarray): v = np.array(v, dtype=object if isinstance(v, (S, B)) else None)
            d.__dict__[k] = v
        return d


def load_io(symbolic=True):
    saved = dict(sys.modules)
    class Anything(types.ModuleType):
        def __getattr__(self, n):
            if n.startswith('__'): raise AttributeError(n)
            m = mock.MagicMock(name=self.__name__ + '.' + n); setattr(self, n, m); return m
    names = ['mujoco', 'mujoco.mjx', 'mujoco.mjx._src', 'mujoco.mjx._src.collision_driver', 'mujoco.mjx._src.constraint', 'mujoco.mjx._src.mesh', 'mujoco.mjx._src.support', 'mujoco.mjx._src.types', 'mujoco.mjx.warp',
             'mujoco.mjx.warp.mjwp_types', 'mujoco.mjx.warp.mujoco_warp', 'mujoco.mjx.warp.warp', 'jax', 'jax.experimental', 'jax.numpy', 'jax.extend', 'jax.extend.backend', 'scipy']
    for n in names:
        sys.modules[n] = Anything(n); sys.modules[n].__path__ = []
    sys.modules['mujoco'].mjtState = mjtState()
    for n in names:
        if '.' in n: setattr(sys.modules[n.rsplit('.', 1)[0]], n.rsplit('.', 1)[1], sys.modules[n])
    try:
        io = pysym.load_by_path('vf_c44_io_%s' % ('s' if symbolic else 'c'), os.path.join(build.REPO, 'mjx/mujoco/mjx/_src/io.py'))
    finally:
        for n in names:
            if n in saved: sys.modules[n] = saved[n]
            else: sys.modules.pop(n, None)
    io.jp = JP if symbolic else JPC
    return io


def prepare(tier): C26.prepare(tier); mjtState()


def specs_for(tier, seed=0):
    E = mjtState(); n = E.mjNSTATE.value
    s = [0] + [1 << i for i in range(n)] + [(1 << i) | (1 << j) for i in range(n) for j in range(i)]
    s += [int(E.mjSTATE_PHYSICS), int(E.mjSTATE_FULLPHYSICS), int(E.mjSTATE_USER), int(E.mjSTATE_INTEGRATION)]
    rnd = random.Random(1234 + seed)
    s += [rnd.randrange(1 << n) for _ in range(48 if tier == 'quick' else 400)]
    return sorted(set(s))


# ------------------------------------------------------------------ sizes: symbolic dimensions, every signature
def unit_sizes(tier):
    ck = Checker('sizes', tier, timeout_s=120)
    io = load_io(); E = mjtState(); k = C26.K(); n = k['mjNSTATE']
    w = W.World('real'); L = C26.lay()
    M = W.SB(w, L, 'mjModel_', 'm')
    dims = {f: M.sym(f, f) for f in DIMS}
    pre = [z3.And(v >= 0, v <= (1 << 20)) for v in dims.values()]
    sig = C26.sig_var(w)
    ex = llsym.Exec(C26.mod(), fpmode='real', merge=True, loop_bound=n + 2)
    st = w.to_state(ex); st.pc += pre
    res = ex.run('@mj_stateSize', [w.P(M.o), sig], st)
    ck.note_results(ex, res)
    ck.functions |= {'state_size', '_state_elem_size'}
    def ext(v): return z3.SignExt(64 - v.size(), v) if v.size() < 64 else v
    m = types.SimpleNamespace(**{f: ext(v) for f, v in dims.items()})
    elem = []
    for i in range(n):
        v = io._state_elem_size(m, E(1 << i))
        elem.append(z3.BitVecVal(v, 64) if isinstance(v, int) else v)
    total = z3.BitVecVal(0, 64)
    for i in range(n): total = total + z3.If((sig & (1 << i)) != 0, elem[i], z3.BitVecVal(0, 64))
    valid = z3.And(sig >= 0, sig < (1 << n))
    dec = lambda mdl: dict({f: W.evalnum(mdl, v) for f, v in dims.items()}, sig=hex(W.evalnum(mdl, sig)))
    args = [('ptr', (M.o, 0)), ('i32', sig)]
    def py_replay(model, witness):
        ioc = load_io(False)
        mc = types.SimpleNamespace(**{f: W.evalnum(model, v) for f, v in dims.items()})
        s_ = W.evalnum(model, sig); s_ = s_ - (1 << 32) if s_ >= (1 << 31) else s_
        py = ioc.state_size(mc, s_)
        status = W.native_call(C26.so(), 'mj_stateSize', w, w.concretise(model), args, restype='i32')
        return (status[0] == 'ok' and status[1]['ret'] != (py & 0xffffffff)), {'python_state_size': int(py), 'c': str(status)[:200], 'sig': hex(s_)}
    nret = 0
    for r in res:
        if r.kind != 'return': continue
        nret += 1
        ck.prove('mj_stateSize(m, sig) == sum of Python _state_elem_size over the selected bits, for every signature and all dimensions', r.state.pc, ext(r.value) == total, site='state_size:c-agreement', decode=dec, replay=py_replay)
    ck.reach('valid signature returns', list(res[0].state.pc[:0]) + pre + [valid])
    ck.selfcheck('C returning paths', nret >= 1, nret)
    # the Python loop over bits, all 2^14 signatures, batched
    allspecs = list(range(1 << n)); batch = 2048
    for b0 in range(0, len(allspecs), batch):
        bad = []
        for s in allspecs[b0:b0 + batch]:
            py = io.state_size(m, s)
            py = z3.BitVecVal(py, 64) if isinstance(py, int) else py
            want = z3.BitVecVal(0, 64)
            for i in range(n):
                if s >> i & 1: want = want + elem[i]
            d = z3.simplify(py != want)
            if not z3.is_false(d): bad.append(d)
        ck.prove('state_size(m, spec) == sum of element sizes for signatures %d..%d' % (b0, b0 + batch - 1), pre, z3.Not(z3.Or(*bad)) if bad else z3.BoolVal(True), site='state_size:additive', decode=dec)
    # enum-typed argument and named combinations
    for nm in ('mjSTATE_PHYSICS', 'mjSTATE_FULLPHYSICS', 'mjSTATE_USER', 'mjSTATE_INTEGRATION'):
        py = io.state_size(m, E[nm]); want = z3.BitVecVal(0, 64)
        for i in range(n):
            if int(E[nm]) >> i & 1: want = want + elem[i]
        ck.prove('state_size(m, %s) with an enum argument' % nm, pre, py == want, site='state_size:enum', decode=dec)
    return ck


# ------------------------------------------------------------------ layout: concrete profile, symbolic contents
def py_data(Sy):
    f = {}
    for e in Sy.el:
        if e['field'] == 'time': f['time'] = np.array(S(e['vals'][0]), dtype=object).view(SymArr)
        elif e['field'] == 'eq_active': f['eq_active'] = arr([B(v == 1) for v in e['vals']])
        elif e['field'] == 'xfrc_applied': f[e['field']] = arr([S(v) for v in e['vals']], (e['n'] // 6, 6))
        elif e['field'] == 'mocap_pos': f[e['field']] = arr([S(v) for v in e['vals']], (e['n'] // 3, 3))
        elif e['field'] == 'mocap_quat': f[e['field']] = arr([S(v) for v in e['vals']], (e['n'] // 4, 4))
        else: f[e['field']] = arr([S(v) for v in e['vals']])
    return FakeData(**f)


def py_model(prof):
    return types.SimpleNamespace(**C26.PROFILES[prof])


def cell_real(c):
    if isinstance(c, S): return c.t
    if isinstance(c, B): return z3.If(c.t, z3.RealVal(1), z3.RealVal(0))
    return R(float(c))


def unit_get_layout(tier, prof):
    ck = Checker('get_layout_%s' % prof, tier, timeout_s=120, semantics='real')
    io = load_io(); E = mjtState(); k = C26.K(); n = k['mjNSTATE']
    Sy = C26.Sys(prof); sig = C26.sig_var(Sy.w)
    cap = Sy.total + 1
    so_, st0 = Sy.w.arr('state', 'f64', cap)
    ex = llsym.Exec(C26.mod(), fpmode='real', merge=True, loop_bound=n + 4)
    st = Sy.w.to_state(ex); st.pc += Sy.pre
    res = ex.run('@mj_getState', [Sy.w.P(Sy.M.o), Sy.w.P(Sy.D.o), Sy.w.P(so_), sig], st)
    ck.note_results(ex, res)
    ck.functions |= {'get_state', 'state_size', '_state_elem_size'}
    rets = [r for r in res if r.kind == 'return']
    outs = [[ex.load(r.state, Sy.w.P(so_, 8 * i), FpT('double')) for i in range(cap)] for r in rets]
    m = py_model(prof); d = py_data(Sy)
    args = [('ptr', (Sy.M.o, 0)), ('ptr', (Sy.D.o, 0)), ('ptr', (so_, 0)), ('i32', sig)]
    for s in specs_for(tier):
        py = io.get_state(m, d, s)
        pyn = io.state_size(m, s)
        cells = [cell_real(c) for c in np.asarray(py, dtype=object).ravel()]
        ck.prove('get_state(spec=%#x) returns state_size(spec) entries' % s, [], z3.BoolVal(len(cells) == pyn), site='get_state:length')
        covered = False
        for r, out in zip(rets, outs):
            pc = r.state.pc + [sig == s]
            claim = z3.And(*([out[i] == cells[i] for i in range(min(len(cells), cap))] + [out[i] == st0[i] for i in range(len(cells), cap)])) if len(cells) < cap else z3.BoolVal(False)
            ck.prove('get_state(spec=%#x) equals what mj_getState writes, cell by cell; C writes nothing past it' % s, pc, claim, site='get_state:c-layout', decode=lambda mdl, s=s: {'spec': hex(s)}, replay=py_vs_c_replay(prof, s, 'get'))
        ck.vacuity.append({'name': 'C path for spec %#x' % s, 'status': 'sat' if any(True for _ in rets) else 'unsat', 'time_s': 0})
    # out-of-range signatures are rejected like the C API
    for s in (1 << n, (1 << n) + 1, (1 << 31) - 1):
        try: io.get_state(m, d, s); ok = False
        except ValueError: ok = True
        ck.prove('get_state rejects signature %#x' % s, [], z3.BoolVal(ok), site='get_state:invalid')
    for r in res:
        if r.kind == 'error': ck.prove('mj_getState errors only on invalid signatures', r.state.pc, z3.Not(z3.And(sig >= 0, sig < (1 << n))), site='mj_getState:error')
    ck.reach('a valid signature reaches the comparison', (rets[0].state.pc if rets else [z3.BoolVal(False)]) + [sig == 6])
    return ck


def py_vs_c_replay(prof, spec, which):
    """concrete replay: the unmodified Python function on float arrays against the natively executed C function (distinct cell values, eq_active 0/1)"""
    def rp(model, witness):
        ioc = load_io(False)
        Sy = C26.Sys(prof); sig = C26.sig_var(Sy.w)
        vals = W.Values(); vals['sig'] = spec
        f = {}; c = 1.0
        for e in Sy.el:
            xs = [(j % 2) if e['field'] == 'eq_active' else (c + j + 0.5) for j in range(e['n'])]; c += 100.0
            for v, x in zip(e['vals'], xs): vals[str(v)] = x
            a = np.array(xs, dtype=bool if e['field'] == 'eq_active' else float)
            if e['field'] == 'time': a = np.array(xs[0])
            elif e['field'] == 'xfrc_applied': a = a.reshape(-1, 6)
            elif e['field'] == 'mocap_pos': a = a.reshape(-1, 3)
            elif e['field'] == 'mocap_quat': a = a.reshape(-1, 4)
            f[e['field']] = a
        m = py_model(prof); d = FakeData(**f)
        args = lambda so_: [('ptr', (Sy.M.o, 0)), ('ptr', (Sy.D.o, 0)), ('ptr', (so_, 0)), ('i32', spec)]
        if which == 'get':
            cap = Sy.total + 1
            so_, st0 = Sy.w.arr('state', 'f64', cap)
            for v in st0: vals[str(v)] = -7.0
            py = [float(x) for x in np.asarray(ioc.get_state(m, d, spec), dtype=float).ravel()]
            status = W.native_call(C26.so(), 'mj_getState', Sy.w, vals, args(so_), outputs=[('s%d' % i, so_, 8 * i, 'f64') for i in range(cap)])
            if status[0] != 'ok': return False, {'c': str(status)[:300]}
            cres = [status[1]['out']['s%d' % i] for i in range(cap)]
            exp = py + [-7.0] * (cap - len(py))
            return (cres != exp[:cap] or len(py) >= cap), {'python': py, 'c': cres, 'spec': hex(spec)}
        n = ioc.state_size(m, spec)
        svec = np.array([1000.0 + i for i in range(n)])
        off = 0
        for e in Sy.el:
            if spec & e['bit']:
                if e['field'] == 'eq_active': svec[off:off + e['n']] = [(j + 1) % 2 for j in range(e['n'])]
                off += e['n']
        so_, sv = Sy.w.arr('state', 'f64', max(Sy.total, 1))
        for i, v in enumerate(sv): vals[str(v)] = float(svec[i]) if i < n else 0.0
        d2 = ioc.set_state(m, d, svec, spec)
        outs = []
        for e in Sy.el:
            for j in range(e['n']):
                if e['field'] == 'time': outs.append(('time0', Sy.D.o, Sy.D.off('time'), 'f64'))
                else: outs.append(('%s%d' % (e['field'], j), e['obj'], j * (1 if e['field'] == 'eq_active' else 8), 'u8' if e['field'] == 'eq_active' else 'f64'))
        status = W.native_call(C26.so(), 'mj_setState', Sy.w, vals, args(so_), outputs=outs)
        if status[0] != 'ok': return False, {'c': str(status)[:300]}
        pyf = {}; cf = {}
        for e in Sy.el:
            pyf[e['field']] = [float(x) for x in np.asarray(getattr(d2, e['field']), dtype=float).ravel()]
            cf[e['field']] = [float(status[1]['out']['%s%d' % (e['field'], j)]) for j in range(e['n'])]
        return (pyf != cf), {'python': pyf, 'c': cf, 'spec': hex(spec)}
    return rp


def unit_set_layout(tier, prof):
    ck = Checker('set_layout_%s' % prof, tier, timeout_s=120, semantics='real')
    io = load_io(); E = mjtState(); k = C26.K(); n = k['mjNSTATE']
    Sy = C26.Sys(prof); sig = C26.sig_var(Sy.w)
    cap = max(Sy.total, 1)
    so_, sv = Sy.w.arr('state', 'f64', cap)
    ex = llsym.Exec(C26.mod(), fpmode='real', merge=True, loop_bound=n + 4)
    st = Sy.w.to_state(ex); eqpre = Sy.pre + [z3.Or(v == 0, v == 1) for v in sv]; st.pc += eqpre
    res = ex.run('@mj_setState', [Sy.w.P(Sy.M.o), Sy.w.P(Sy.D.o), Sy.w.P(so_), sig], st)
    ck.note_results(ex, res)
    ck.functions |= {'set_state', 'state_size', '_state_elem_size'}
    rets = [r for r in res if r.kind == 'return']
    m = py_model(prof); d = py_data(Sy)
    for s in specs_for(tier):
        nn = io.state_size(m, s)
        d2 = io.set_state(m, d, arr([S(v) for v in sv[:nn]]), s)
        for r in rets:
            pc = r.state.pc + [sig == s]
            eqs = []
            for e in Sy.el:
                pyv = [cell_real(c) for c in np.asarray(getattr(d2, e['field']), dtype=object).ravel()]
                if len(pyv) != e['n']: eqs.append(z3.BoolVal(False)); continue
                if np.asarray(getattr(d2, e['field'])).shape != np.asarray(getattr(d, e['field'])).shape: eqs.append(z3.BoolVal(False))
                for j in range(e['n']): eqs.append(Sy.asreal(e, Sy.cur(ex, r.state, e, j)) == pyv[j])
            ck.prove('set_state(spec=%#x): every state field equals what mj_setState leaves in mjData' % s, pc, z3.And(*eqs), site='set_state:c-layout', decode=lambda mdl, s=s: {'spec': hex(s)}, replay=py_vs_c_replay(prof, s, 'set'))
        # wrong-size vectors are rejected
        for bad in (nn + 1, nn - 1):
            if bad < 0: continue
            try: io.set_state(m, d, arr([S(z3.Real('z%d' % i)) for i in range(bad)]), s); ok = False
            except ValueError: ok = True
            ck.prove('set_state(spec=%#x) rejects a vector of %d entries (needs %d)' % (s, bad, nn), [], z3.BoolVal(ok), site='set_state:size-check')
    for s in (1 << n, (1 << 31) - 1):
        try: io.set_state(m, d, arr([]), s); ok = False
        except ValueError: ok = True
        ck.prove('set_state rejects signature %#x' % s, [], z3.BoolVal(ok), site='set_state:invalid')
    ck.reach('a valid signature reaches the comparison', (rets[0].state.pc if rets else [z3.BoolVal(False)]) + [sig == 6])
    return ck


def unit_roundtrip(tier, prof):
    ck = Checker('roundtrip_%s' % prof, tier, timeout_s=60, semantics='real')
    io = load_io(); n = C26.K()['mjNSTATE']
    Sy = C26.Sys(prof); m = py_model(prof); d = py_data(Sy)
    ck.functions |= {'get_state', 'set_state', 'state_size'}
    fresh = [z3.Real('s%d' % i) for i in range(Sy.total)]
    specs = specs_for(tier) if tier == 'quick' else list(range(1 << n))
    bad1 = []; bad2 = []; pre = list(Sy.pre)
    for s in specs:
        v = io.get_state(m, d, s)
        d2 = io.set_state(m, d, v, s)
        for e in Sy.el:
            a = [cell_real(c) for c in np.asarray(getattr(d2, e['field']), dtype=object).ravel()]; b = [cell_real(c) for c in np.asarray(getattr(d, e['field']), dtype=object).ravel()]
            if len(a) != len(b): bad1.append(z3.BoolVal(True)); continue
            for x, y in zip(a, b):
                t = z3.simplify(x != y)
                if not z3.is_false(t): bad1.append(t)
        nn = io.state_size(m, s)
        sv = fresh[:nn]
        d3 = io.set_state(m, d, arr([S(x) for x in sv]), s)
        v3 = [cell_real(c) for c in np.asarray(io.get_state(m, d3, s), dtype=object).ravel()]
        # eq_active slots carry 0/1
        off = 0; eqslots = []
        for e in Sy.el:
            if s & e['bit']:
                if e['field'] == 'eq_active': eqslots += list(range(off, off + e['n']))
                off += e['n']
        if len(v3) != nn: bad2.append(z3.BoolVal(True)); continue
        for i, (x, y) in enumerate(zip(v3, sv)):
            t = z3.simplify(x != y)
            if z3.is_false(t): continue
            if i in eqslots: t = z3.And(z3.Or(y == 0, y == 1), t)
            bad2.append(t)
        # untouched fields keep identity (no copy needed, but values must be the same)
    ck.prove('set_state(get_state(d, spec), spec) leaves every field equal to d, for %d signatures' % len(specs), pre, z3.Not(z3.Or(*bad1)) if bad1 else z3.BoolVal(True), site='roundtrip:set-get')
    ck.prove('get_state(set_state(d, s, spec), spec) == s (eq_active slots 0/1), for %d signatures' % len(specs), pre, z3.Not(z3.Or(*bad2)) if bad2 else z3.BoolVal(True), site='roundtrip:get-set')
    ck.reach('preconditions satisfiable', pre)
    return ck


def units(tier):
    u = [('sizes', 'unit_sizes', {})]
    for prof in (['A', 'B'] if tier == 'quick' else ['A', 'B', 'C']):
        u.append(('get_layout_%s' % prof, 'unit_get_layout', {'prof': prof}))
        u.append(('set_layout_%s' % prof, 'unit_set_layout', {'prof': prof}))
    for prof in (['A', 'B'] if tier == 'quick' else ['A', 'B', 'C']):
        u.append(('roundtrip_%s' % prof, 'unit_roundtrip', {'prof': prof}))
    return u
