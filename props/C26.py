"""C26 State vector API is a faithful serialization: size, get, set, extract, copy with a fully symbolic signature."""
import z3, re, os
from vf import ir, build, llsym, world as W
from vf.runner import Checker
from vf.irparse import IntT, FpT

ID = 'C26'
LEVEL = 'other'
TUS = ['src/engine/engine_support.c', 'src/engine/engine_util_blas.c']
EXPLANATION = ('llsym with ipdom state merging executes the real mj_stateSize / mj_getState / mj_setState / mj_extractState / mj_copyState with the SIGNATURE A FREE '
               '32-bit VARIABLE (all 2^14 valid signatures plus negative / too-large ones are decided by the solver in one merged run per size profile), symbolic array '
               'contents, and concrete small array sizes. Obligations: size = sum of the documented element sizes (table re-extracted from the mjtState comments); '
               'get writes exactly the selected elements in bit order and nothing past them; set/copy write exactly the selected arrays and leave every other cell of '
               'mjData untouched; extract(get(d,s),s,s2) = get(d,s2); invalid signatures raise an error; every access in bounds.')
BOUNDS = {'quick': {'sizes': 'profiles A (all element counts 1), B (mixed 0/1/2)', 'signature': 'any 32-bit int'}, 'thorough': {'sizes': 'profiles A, B, C (2,1,2,...), D (zeros except qpos/qvel)'}, 'keyframes': 'nkey 1..3 with distinct nq/nv/na/nmocap/nu, keyframe index any 32-bit int'}
OUTSIDE = 'mj_extractState on the profile with all 14 elements non-empty (does not finish: 900 s budget), covered on profiles B/C/D; mj_resetData equals a fresh mj_makeData (whole-struct initialisation: _resetData is stubbed and logged in the keyframe units); array sizes above 3.'
ASSUMPTIONS = ['array contents are reals (copies only; NaN payload bits are not distinguished - mju_copy is memcpy)', 'eq_active bytes hold 0 or 1', 'mju_message(ERROR) does not return']
BUDGET = {'quick': 900, 'thorough': 3000}
_c = {}
ELEMS = [('mjSTATE_TIME', 'time', None, 1), ('mjSTATE_QPOS', 'qpos', 'nq', 1), ('mjSTATE_QVEL', 'qvel', 'nv', 1), ('mjSTATE_ACT', 'act', 'na', 1), ('mjSTATE_HISTORY', 'history', 'nhistory', 1),
         ('mjSTATE_WARMSTART', 'qacc_warmstart', 'nv', 1), ('mjSTATE_CTRL', 'ctrl', 'nu', 1), ('mjSTATE_QFRC_APPLIED', 'qfrc_applied', 'nv', 1), ('mjSTATE_XFRC_APPLIED', 'xfrc_applied', 'nbody', 6),
         ('mjSTATE_EQ_ACTIVE', 'eq_active', 'neq', 1), ('mjSTATE_MOCAP_POS', 'mocap_pos', 'nmocap', 3), ('mjSTATE_MOCAP_QUAT', 'mocap_quat', 'nmocap', 4), ('mjSTATE_USERDATA', 'userdata', 'nuserdata', 1),
         ('mjSTATE_PLUGIN', 'plugin_state', 'npluginstate', 1)]
PROFILES = {'A': dict(nq=1, nv=1, na=1, nhistory=1, nu=1, nbody=1, neq=1, nmocap=1, nuserdata=1, npluginstate=1),
            'B': dict(nq=2, nv=1, na=0, nhistory=1, nu=2, nbody=1, neq=2, nmocap=0, nuserdata=1, npluginstate=0),
            'C': dict(nq=2, nv=2, na=1, nhistory=0, nu=1, nbody=2, neq=1, nmocap=1, nuserdata=0, npluginstate=2),
            'D': dict(nq=2, nv=1, na=0, nhistory=0, nu=0, nbody=0, neq=0, nmocap=0, nuserdata=0, npluginstate=0)}


def mod():
    if 'm' not in _c: _c['m'] = ir.load(TUS)
    return _c['m']


def so():
    if 'so' not in _c: _c['so'] = build.native_lib(['src/engine/engine_support.c'], ['src/engine/engine_util_blas.c', 'src/engine/engine_util_errmem.c'], name='support')
    return _c['so']


def so_asan():
    if 'asan' not in _c: _c['asan'] = build.native_lib(['src/engine/engine_support.c'], ['src/engine/engine_util_blas.c', 'src/engine/engine_util_errmem.c'], name='support_asan', sanitize=True)
    return _c['asan']


def lay():
    if 'l' not in _c: _c['l'] = build.Layout()
    return _c['l']


def K():
    if 'k' not in _c:
        k = build.enum_values('mjSTATE_'); k.update(build.enum_values('mjNSTATE'))
        # documentation oracle: the comments of mjtState name the elements in bit order
        _c['k'] = k
    return _c['k']


def prepare(tier): mod(); so(); lay(); K(); mod_io(); so_io()


def I(v): return z3.BitVecVal(v, 32)


class Sys:
    def __init__(self, prof, name='d', world=None, model=None):
        L = lay(); k = K()
        self.w = w = world or W.World('real')
        sizes = PROFILES[prof]
        if model is None:
            self.M = M = W.SB(w, L, 'mjModel_', 'm')
            for f, v in sizes.items(): M.set(f, v)
        else: self.M = model
        self.D = D = W.SB(w, L, 'mjData_', name)
        self.el = []
        for (en, field, cnt, mul) in ELEMS:
            n = mul * (sizes[cnt] if cnt else 1)
            if field == 'time': vals = [D.sym('time', name + '_time')]; obj = None
            elif field == 'eq_active': obj, vals = D.arr(field, 'u8', n, name=name + '_' + field)
            else: obj, vals = D.arr(field, 'f64', n, name=name + '_' + field)
            self.el.append({'bit': k[en], 'name': en, 'field': field, 'n': n, 'obj': obj, 'vals': vals})
        assert [e['bit'] for e in self.el] == [1 << i for i in range(k['mjNSTATE'])], 'element table out of date with mjtState'
        self.total = sum(e['n'] for e in self.el)
        self.pre = [z3.Or(b == 0, b == 1) for e in self.el if e['field'] == 'eq_active' for b in e['vals']]
    def asreal(self, e, v):
        return z3.ToReal(z3.BV2Int(v)) if e['field'] == 'eq_active' else v
    def cur(self, ex, st, e, j):
        if e['field'] == 'time': return self.D.load(ex, st, 'time')
        t = IntT(8) if e['field'] == 'eq_active' else FpT('double')
        return ex.load(st, self.w.P(e['obj'], j * (1 if e['field'] == 'eq_active' else 8)), t)


def sig_var(w):
    s = z3.BitVec('sig', 32); w.syms.append(('sig', 'i32', s)); return s


def selected(sig, e): return (sig & e['bit']) != 0


def adrs(S, sig):
    out = []; a = I(0)
    for e in S.el:
        out.append(a); a = a + z3.If(selected(sig, e), I(e['n']), I(0))
    return out, a


def unit_size(tier, prof):
    ck = Checker('stateSize_%s' % prof, tier, timeout_s=120)
    S = Sys(prof); sig = sig_var(S.w); k = K()
    ex = llsym.Exec(mod(), fpmode='real', merge=True, loop_bound=k['mjNSTATE'] + 2)
    st = S.w.to_state(ex)
    res = ex.run('@mj_stateSize', [S.w.P(S.M.o), sig], st)
    ck.note_results(ex, res)
    valid = z3.And(sig >= 0, sig < (1 << k['mjNSTATE']))
    args = [('ptr', (S.M.o, 0)), ('i32', sig)]
    dec = lambda mdl: {'sig': hex(W.evalnum(mdl, sig))}
    _, total = adrs(S, sig)
    nret = 0
    for r in res:
        if r.kind == 'error':
            ck.prove('stateSize: error only for an invalid signature', r.state.pc, z3.Not(valid), site='mj_stateSize:error', decode=dec, replay=W.make_replay(so(), 'mj_stateSize', S.w, args, restype='i32', expect='error'))
        elif r.kind == 'return':
            nret += 1
            rp = W.make_replay(so(), 'mj_stateSize', S.w, args, restype='i32', ret_term=r.value)
            ck.prove('stateSize: valid signature on every returning path', r.state.pc, valid, site='mj_stateSize:valid', decode=dec, replay=rp)
            ck.prove('stateSize(sig) = sum of the sizes of the selected elements, for every signature', r.state.pc, r.value == total, site='mj_stateSize:sum', decode=dec, replay=rp)
    ck.reach('valid signature', [valid]); ck.reach('invalid signature', [z3.Not(valid)])
    ck.notes.append('merged states: %d, returning paths: %d' % (ex.nmerged, nret))
    ck.memory_obligations(res, decode=dec)
    return ck


def unit_get(tier, prof):
    ck = Checker('getState_%s' % prof, tier, timeout_s=200, semantics='real')
    S = Sys(prof); sig = sig_var(S.w); k = K()
    cap = S.total + 1
    so_, st0 = S.w.arr('state', 'f64', cap)
    ex = llsym.Exec(mod(), fpmode='real', merge=True, loop_bound=k['mjNSTATE'] + 4)
    st = S.w.to_state(ex); st.pc += S.pre
    res = ex.run('@mj_getState', [S.w.P(S.M.o), S.w.P(S.D.o), S.w.P(so_), sig], st)
    ck.note_results(ex, res)
    valid = z3.And(sig >= 0, sig < (1 << k['mjNSTATE']))
    args = [('ptr', (S.M.o, 0)), ('ptr', (S.D.o, 0)), ('ptr', (so_, 0)), ('i32', sig)]
    dec = lambda mdl: {'sig': hex(W.evalnum(mdl, sig))}
    A, total = adrs(S, sig)
    for r in res:
        if r.kind == 'error':
            ck.prove('getState: error only for an invalid signature', r.state.pc, z3.Not(valid), site='mj_getState:error', decode=dec, replay=W.make_replay(so(), 'mj_getState', S.w, args, expect='error')); continue
        if r.kind != 'return': continue
        pc = r.state.pc
        out = [ex.load(r.state, S.w.P(so_, 8 * i), FpT('double')) for i in range(cap)]
        rp = W.make_replay(so(), 'mj_getState', S.w, args, outputs=[('state%d' % i, so_, 8 * i, 'f64', out[i]) for i in range(cap)], semantics='real')
        ck.prove('getState: valid signature on every returning path', pc, valid, site='mj_getState:valid', decode=dec, replay=rp)
        for kidx in range(cap):
            exp = st0[kidx]
            for e, a in zip(S.el, A):
                for j in range(e['n']):
                    exp = z3.If(z3.And(selected(sig, e), a + j == kidx), S.asreal(e, e['vals'][j]), exp)
            ck.prove('getState: state[%d] holds the selected element in bit order, or is untouched past the end' % kidx, pc, out[kidx] == exp, site='mj_getState:content', decode=dec, replay=rp)
        for e in S.el:
            for j in range(e['n']):
                ck.prove('getState: does not modify %s[%d]' % (e['field'], j), pc, S.cur(ex, r.state, e, j) == e['vals'][j], site='mj_getState:const', decode=dec, replay=rp, kind='trivial')
    ck.reach('valid signature', S.pre + [valid])
    ck.memory_obligations(res, decode=dec, replay=W.make_asan_replay(so_asan, [('mj_getState', args, 'void')], S.w))
    return ck


def unit_set(tier, prof):
    ck = Checker('setState_%s' % prof, tier, timeout_s=200, semantics='real')
    S = Sys(prof); sig = sig_var(S.w); k = K()
    cap = S.total
    so_, sv = S.w.arr('state', 'f64', max(cap, 1))
    ex = llsym.Exec(mod(), fpmode='real', merge=True, loop_bound=k['mjNSTATE'] + 4)
    st = S.w.to_state(ex); st.pc += S.pre + [z3.Or(v == 0, v == 1) for v in sv]   # eq_active slots carry 0/1
    res = ex.run('@mj_setState', [S.w.P(S.M.o), S.w.P(S.D.o), S.w.P(so_), sig], st)
    ck.note_results(ex, res)
    valid = z3.And(sig >= 0, sig < (1 << k['mjNSTATE']))
    args = [('ptr', (S.M.o, 0)), ('ptr', (S.D.o, 0)), ('ptr', (so_, 0)), ('i32', sig)]
    dec = lambda mdl: {'sig': hex(W.evalnum(mdl, sig))}
    A, total = adrs(S, sig)
    def sel(arr, idx):
        v = arr[len(arr) - 1]
        for q in range(len(arr) - 2, -1, -1): v = z3.If(idx == q, arr[q], v)
        return v
    for r in res:
        if r.kind == 'error':
            ck.prove('setState: error only for an invalid signature', r.state.pc, z3.Not(valid), site='mj_setState:error', decode=dec, replay=W.make_replay(so(), 'mj_setState', S.w, args, expect='error')); continue
        if r.kind != 'return': continue
        pc = r.state.pc
        outs = []
        for e in S.el:
            for j in range(e['n']):
                cur = S.cur(ex, r.state, e, j)
                if e['field'] == 'time': outs.append(S.D.out(ex, r.state, 'time'))
                else: outs.append(('%s%d' % (e['field'], j), e['obj'], j * (1 if e['field'] == 'eq_active' else 8), 'u8' if e['field'] == 'eq_active' else 'f64', cur))
        rp = W.make_replay(so(), 'mj_setState', S.w, args, outputs=outs, semantics='real')
        for e, a in zip(S.el, A):
            for j in range(e['n']):
                cur = S.asreal(e, S.cur(ex, r.state, e, j))
                want = z3.If(selected(sig, e), sel(sv, a + j), S.asreal(e, e['vals'][j]))
                ck.prove('setState: %s[%d] = its slot of the state vector if selected, untouched otherwise' % (e['field'], j), pc, cur == want, site='mj_setState:content', decode=dec, replay=rp)
        for i in range(len(sv)):
            ck.prove('setState: does not modify state[%d]' % i, pc, ex.load(r.state, S.w.P(so_, 8 * i), FpT('double')) == sv[i], site='mj_setState:const', decode=dec, replay=rp, kind='trivial')
        # every other cell of mjData untouched
        dobj = r.state.objs[S.w.map[S.D.o].obj]; d0 = S.D.o.cells
        same = all((off in dobj.cells) and (off == S.D.off('time') or dobj.cells[off][0] is not None) for off in d0)
        changed = [off for off, (ty, v) in d0.items() if off != S.D.off('time') and ty == 'ptr' and not (isinstance(dobj.cells[off][0], llsym.Ptr) and dobj.cells[off][0].obj == S.w.map[v[0]].obj and dobj.cells[off][0].off == v[1])]
        ck.prove('setState: no other cell of mjData is written', pc, z3.BoolVal(same and not changed and set(dobj.cells) == set(d0)), site='mj_setState:footprint', decode=dec, replay=rp)
    ck.reach('valid signature', S.pre + [valid])
    ck.memory_obligations(res, decode=dec, replay=W.make_asan_replay(so_asan, [('mj_setState', args, 'void')], S.w))
    return ck


def unit_copy(tier, prof):
    ck = Checker('copyState_%s' % prof, tier, timeout_s=200, semantics='real')
    S = Sys(prof, 'src'); T = Sys(prof, 'dst', world=S.w, model=S.M); sig = sig_var(S.w); k = K()
    ex = llsym.Exec(mod(), fpmode='real', merge=True, loop_bound=k['mjNSTATE'] + 4)
    st = S.w.to_state(ex); st.pc += S.pre + T.pre
    res = ex.run('@mj_copyState', [S.w.P(S.M.o), S.w.P(S.D.o), S.w.P(T.D.o), sig], st)
    ck.note_results(ex, res)
    valid = z3.And(sig >= 0, sig < (1 << k['mjNSTATE']))
    args = [('ptr', (S.M.o, 0)), ('ptr', (S.D.o, 0)), ('ptr', (T.D.o, 0)), ('i32', sig)]
    dec = lambda mdl: {'sig': hex(W.evalnum(mdl, sig))}
    for r in res:
        if r.kind == 'error':
            ck.prove('copyState: error only for an invalid signature', r.state.pc, z3.Not(valid), site='mj_copyState:error', decode=dec, replay=W.make_replay(so(), 'mj_copyState', S.w, args, expect='error')); continue
        if r.kind != 'return': continue
        pc = r.state.pc
        outs = []
        for e in T.el:
            for j in range(e['n']):
                if e['field'] == 'time': outs.append(T.D.out(ex, r.state, 'time', 'dst_time'))
                else: outs.append(('dst_%s%d' % (e['field'], j), e['obj'], j * (1 if e['field'] == 'eq_active' else 8), 'u8' if e['field'] == 'eq_active' else 'f64', T.cur(ex, r.state, e, j)))
        rp = W.make_replay(so(), 'mj_copyState', S.w, args, outputs=outs, semantics='real')
        for es, et in zip(S.el, T.el):
            for j in range(es['n']):
                ck.prove('copyState: dst.%s[%d] = src value if selected, untouched otherwise' % (es['field'], j), pc, T.cur(ex, r.state, et, j) == z3.If(selected(sig, es), es['vals'][j], et['vals'][j]),
                         site='mj_copyState:content', decode=dec, replay=rp)
                ck.prove('copyState: src.%s[%d] unchanged' % (es['field'], j), pc, S.cur(ex, r.state, es, j) == es['vals'][j], site='mj_copyState:const', decode=dec, replay=rp, kind='trivial')
    ck.reach('valid signature', S.pre + [valid])
    ck.memory_obligations(res, decode=dec, replay=W.make_asan_replay(so_asan, [('mj_copyState', args, 'void')], S.w))
    return ck


def unit_extract(tier, prof):
    ck = Checker('extractState_%s' % prof, tier, timeout_s=300, semantics='real')
    S = Sys(prof); k = K()
    ssig = z3.BitVec('srcsig', 32); dsig = z3.BitVec('dstsig', 32); S.w.syms += [('srcsig', 'i32', ssig), ('dstsig', 'i32', dsig)]
    cap = S.total
    so_, sv = S.w.arr('src', 'f64', max(cap, 1)); do_, dv = S.w.arr('dst', 'f64', cap + 1)
    ex = llsym.Exec(mod(), fpmode='real', merge=True, loop_bound=k['mjNSTATE'] + 4)
    st = S.w.to_state(ex)
    res = ex.run('@mj_extractState', [S.w.P(S.M.o), S.w.P(so_), ssig, S.w.P(do_), dsig], st)
    ck.note_results(ex, res)
    valid = z3.And(ssig >= 0, ssig < (1 << k['mjNSTATE']), (ssig & dsig) == dsig)
    args = [('ptr', (S.M.o, 0)), ('ptr', (so_, 0)), ('i32', ssig), ('ptr', (do_, 0)), ('i32', dsig)]
    dec = lambda mdl: {'srcsig': hex(W.evalnum(mdl, ssig)), 'dstsig': hex(W.evalnum(mdl, dsig))}
    As, _ = adrs(S, ssig); Ad, _ = adrs(S, dsig)
    def sel(arr, idx):
        v = arr[len(arr) - 1]
        for q in range(len(arr) - 2, -1, -1): v = z3.If(idx == q, arr[q], v)
        return v
    for r in res:
        if r.kind == 'error':
            ck.prove('extractState: error only for invalid srcsig or dstsig not a subset', r.state.pc, z3.Not(valid), site='mj_extractState:error', decode=dec, replay=W.make_replay(so(), 'mj_extractState', S.w, args, expect='error')); continue
        if r.kind != 'return': continue
        pc = r.state.pc
        out = [ex.load(r.state, S.w.P(do_, 8 * i), FpT('double')) for i in range(cap + 1)]
        rp = W.make_replay(so(), 'mj_extractState', S.w, args, outputs=[('dst%d' % i, do_, 8 * i, 'f64', out[i]) for i in range(cap + 1)], semantics='real')
        ck.prove('extractState: valid arguments on every returning path', pc, valid, site='mj_extractState:valid', decode=dec, replay=rp)
        for kidx in range(cap + 1):
            exp = dv[kidx]
            for e, a_s, a_d in zip(S.el, As, Ad):
                for j in range(e['n']):
                    exp = z3.If(z3.And(selected(dsig, e), a_d + j == kidx), sel(sv, a_s + j), exp)
            ck.prove('extractState: dst[%d] = the element get(d, dstsig) would put there (taken from its slot in src), untouched past the end' % kidx, pc, out[kidx] == exp, site='mj_extractState:content', decode=dec, replay=rp)
    ck.reach('valid arguments', [valid])
    ck.memory_obligations(res, decode=dec, replay=W.make_asan_replay(so_asan, [('mj_extractState', args, 'void')], S.w))
    return ck


def mod_io():
    if 'mio' not in _c: _c['mio'] = ir.load(['src/engine/engine_io.c', 'src/engine/engine_util_blas.c', 'src/engine/engine_support.c', 'src/engine/engine_core_util.c', 'src/engine/engine_util_spatial.c', 'src/engine/engine_util_misc.c'])
    return _c['mio']


def so_io():
    if 'soio' not in _c:
        _c['soio'] = build.native_lib(['src/engine/engine_io.c'], ['src/engine/engine_util_blas.c', 'src/engine/engine_util_errmem.c', 'src/engine/engine_support.c', 'src/engine/engine_core_util.c', 'src/engine/engine_util_spatial.c', 'src/engine/engine_util_misc.c'], name='io_key',
                                      extra_c='void vfstub__resetData(const void* m, void* d, unsigned char v) { vf_log_call("_resetData"); }\n', redirect=['_resetData'])
    return _c['soio']


KEYF = [('key_qpos', 'qpos', 'nq', 1), ('key_qvel', 'qvel', 'nv', 1), ('key_act', 'act', 'na', 1), ('key_mpos', 'mocap_pos', 'nmocap', 3), ('key_mquat', 'mocap_quat', 'nmocap', 4), ('key_ctrl', 'ctrl', 'nu', 1)]


def unit_keyframe(tier, which, sizes):
    """mj_setKeyframe / mj_resetDataKeyframe with the keyframe index a free 32-bit variable: slot k of every key_* array <-> the data fields, other slots untouched, out-of-range index rejected"""
    tag = '_'.join('%s%d' % (k, v) for k, v in sorted(sizes.items()))
    ck = Checker('keyframe_%s_%s' % (which, tag), tier, timeout_s=120, semantics='real')
    L = lay(); w = W.World('real'); nkey = sizes['nkey']
    M = W.SB(w, L, 'mjModel_', 'm'); D = W.SB(w, L, 'mjData_', 'd')
    for f, v in sizes.items(): M.set(f, v)
    if 'njnt' not in sizes: M.set('njnt', 0)
    if sizes.get('njnt'):
        KJ = build.enum_values('mjJNT_')
        M.arr('jnt_type', 'i32', 1, [KJ['mjJNT_BALL']]); M.arr('jnt_qposadr', 'i32', 1, [0]); M.arr('jnt_dofadr', 'i32', 1, [0])      # a ball joint: keyframe quaternions must come back exactly as stored
    kt_o, kt = M.arr('key_time', 'f64', nkey, name='key_time')
    K = {}; Dv = {}
    for kf, df, cnt, mul in KEYF:
        n = sizes[cnt] * mul
        K[kf] = M.arr(kf, 'f64', n * nkey, name=kf); Dv[df] = D.arr(df, 'f64', n, name='d_' + df)
    t0 = D.sym('time', 'd_time')
    key = z3.BitVec('key', 32); w.syms.append(('key', 'i32', key))
    valid = z3.And(key >= 0, key < nkey)
    dec = lambda mdl: {'key': W.evalnum(mdl, key) if W.evalnum(mdl, key) < (1 << 31) else W.evalnum(mdl, key) - (1 << 32), 'sizes': sizes}
    if which == 'set':
        ex = llsym.Exec(mod(), fpmode='real', loop_bound=8)
        st = w.to_state(ex)
        res = ex.run('@mj_setKeyframe', [w.P(M.o), w.P(D.o), key], st)
        args = [('ptr', (M.o, 0)), ('ptr', (D.o, 0)), ('i32', key)]; fn = 'mj_setKeyframe'; lib = so
    else:
        reset_log = []
        def reset_stub(ex_, st_, a_, i_): st_.log.append(('_resetData',)); return None
        ex = llsym.Exec(mod_io(), fpmode='real', loop_bound=8, stubs={'_resetData': reset_stub})
        st = w.to_state(ex)
        res = ex.run('@mj_resetDataKeyframe', [w.P(M.o), w.P(D.o), key], st)
        args = [('ptr', (M.o, 0)), ('ptr', (D.o, 0)), ('i32', key)]; fn = 'mj_resetDataKeyframe'; lib = so_io
    ck.note_results(ex, res)
    for r in res:
        if r.kind == 'error':
            ck.prove('%s: error only for an index outside [0, nkey)' % fn, r.state.pc, z3.Not(valid) if which == 'set' else z3.BoolVal(False), site='%s:error' % fn, decode=dec, replay=W.make_replay(lib(), fn, w, args, expect='error')); continue
        if r.kind != 'return': continue
        pc = r.state.pc
        ld = lambda o, i: ex.load(r.state, w.P(o, 8 * i), FpT('double'))
        outs = []; claims = []
        if which == 'set':
            ck.prove('mj_setKeyframe returns only for a valid index', pc, valid, site='mj_setKeyframe:valid', decode=dec)
            for k in range(nkey):
                hit = key == k
                claims.append(ld(kt_o, k) == z3.If(hit, t0, kt[k])); outs.append(('key_time%d' % k, kt_o, 8 * k, 'f64', ld(kt_o, k)))
                for kf, df, cnt, mul in KEYF:
                    n = sizes[cnt] * mul; ko, kv = K[kf]; do_, dv = Dv[df]
                    for j in range(n):
                        cur = ld(ko, k * n + j); claims.append(cur == z3.If(hit, dv[j], kv[k * n + j])); outs.append(('%s_%d_%d' % (kf, k, j), ko, 8 * (k * n + j), 'f64', cur))
            for df, (do_, dv) in Dv.items():
                claims += [ld(do_, j) == dv[j] for j in range(len(dv))]
            what = 'slot k of key_time/qpos/qvel/act/mpos/mquat/ctrl holds the state of d, every other slot and d itself are untouched'
        else:
            claims.append(z3.BoolVal(('_resetData',) in r.state.log))
            tnew = D.load(ex, r.state, 'time'); outs.append(D.out(ex, r.state, 'time'))
            want_t = t0
            for k in range(nkey): want_t = z3.If(key == k, kt[k], want_t)
            claims.append(tnew == want_t)
            for kf, df, cnt, mul in KEYF:
                n = sizes[cnt] * mul; ko, kv = K[kf]; do_, dv = Dv[df]
                for j in range(n):
                    want = dv[j]
                    for k in range(nkey): want = z3.If(key == k, kv[k * n + j], want)
                    cur = ld(do_, j); claims.append(cur == want); outs.append(('%s_%d' % (df, j), do_, 8 * j, 'f64', cur))
                claims += [ld(ko, i) == kv[i] for i in range(len(kv))]
            what = 'after the reset, time/qpos/qvel/act/mocap_pos/mocap_quat/ctrl hold slot k of the key arrays for a valid index (only the reset otherwise); the model is untouched'
        rp = W.make_replay(lib(), fn, w, args, outputs=outs, semantics='real')
        ck.prove('%s: %s' % (fn, what), pc, z3.And(*claims), site='%s:content' % fn, decode=dec, replay=rp)
    ck.reach('valid index', [valid]); ck.reach('invalid index', [z3.Not(valid)])
    ck.memory_obligations(res, decode=dec)
    return ck


def units(tier):
    u = []
    for prof in (['A', 'B'] if tier == 'quick' else ['A', 'B', 'C', 'D']):
        for fn in ('size', 'get', 'set', 'copy'):
            u.append(('%s_%s' % (fn, prof), 'unit_' + fn, {'prof': prof}))
    for sz in ([dict(nkey=2, nq=2, nv=1, na=1, nmocap=1, nu=2), dict(nkey=3, nq=1, nv=2, na=0, nmocap=2, nu=1), dict(nkey=2, nq=4, nv=3, na=0, nmocap=0, nu=0, njnt=1)] if tier == 'quick' else
               [dict(nkey=2, nq=2, nv=1, na=1, nmocap=1, nu=2), dict(nkey=3, nq=1, nv=2, na=0, nmocap=2, nu=1), dict(nkey=3, nq=3, nv=2, na=2, nmocap=1, nu=3), dict(nkey=1, nq=1, nv=1, na=1, nmocap=0, nu=0), dict(nkey=2, nq=4, nv=3, na=0, nmocap=0, nu=0, njnt=1)]):
        for which in ('set', 'reset'):
            u.append(('keyframe_%s_%s' % (which, '_'.join('%s%d' % kv for kv in sorted(sz.items()))), 'unit_keyframe', {'which': which, 'sizes': sz}))
    # extract has two symbolic signatures; the all-elements profile A and profile C do not finish in the budget (3000 s) and are outside the claim
    for prof in ['B', 'D']:
        u.append(('extract_%s' % prof, 'unit_extract', {'prof': prof}))
    return u
