"""C23 Linear algebra routines agree with their definitions (real-algebraic): Cholesky, band storage, 3x3 solve, sparse products."""
import z3, itertools
from vf import ir, build, llsym, world as W
from vf.leaf import Leaf
from vf.runner import Checker
from vf.irparse import IntT, FpT

ID = 'C23'
LEVEL = 'other'
TUS = ['src/engine/engine_util_solve.c', 'src/engine/engine_util_sparse.c', 'src/engine/engine_util_blas.c', 'src/engine/engine_util_misc.c']
EXPLANATION = ('llsym in real-algebraic mode runs the real dense Cholesky (mju_cholFactor, mju_cholSolve), the band-storage routines (mju_bandDiag, mju_band2Dense, mju_dense2Band, '
               'mju_bandMulMatVec), mju_solve3 and the sparse products/conversions (mju_mulMatVecSparse, mju_mulMatTVecSparse, mju_sparse2dense, mju_dense2sparse, mju_transposeSparse) '
               'with fully symbolic matrix/vector entries; z3 (NRA) proves for ALL values: L L^T = A and rank = n for SPD input, A solve(b) = b, band<->dense are mutually inverse on the band '
               'pattern for every (ntotal, nband, ndense) within the bound, band and sparse products equal the dense definition (also for empty rows and uncompressed layouts).')
BOUNDS = {'quick': {'cholesky n': '<=3', 'band': 'ntotal<=5, all nband, ndense', 'sparse': 'nr<=2, nc<=3, 5 patterns', 'sparse vectors': 'n<=5, capacity<=3', 'dense LU': 'n<=3, every pivot sequence'}, 'thorough': {'band': 'ntotal<=6', 'sparse': 'nr<=3', 'sparse vectors': 'n<=6'}}
OUTSIDE = 'mju_eig3, mju_boxQP, mju_QCQP* (iterative), sparse Cholesky / sparse LU, the unrolled mju_factorLU6 / mju_solveLU6, mju_solveLU itself (its input contract P A = L U is what the LU units establish), AVX code paths, floating-point conditioning.'
ASSUMPTIONS = ['real-number semantics', 'SPD input for the Cholesky round trip (leading minors > 0, mindiag below the pivots)']
BUDGET = {'quick': 600, 'thorough': 2400}
_c = {}


def mod():
    if 'm' not in _c: _c['m'] = ir.load(TUS)
    return _c['m']


def so():
    if 'so' not in _c: _c['so'] = build.native_lib(['src/engine/engine_util_solve.c'], ['src/engine/engine_util_sparse.c', 'src/engine/engine_util_blas.c', 'src/engine/engine_util_misc.c', 'src/engine/engine_util_errmem.c'], name='solve')
    return _c['so']


def prepare(tier): mod(); so()


def eqv(a, b): return z3.And(*[x == y for x, y in zip(a, b)])


def unit_chol(tier, n):
    ck = Checker('chol_n%d' % n, tier, timeout_s=200, semantics='real')
    m = mod()
    # symmetric A given by its lower triangle; SPD via positive pivots: we let A = G G^T + ... simpler: constrain leading minors through the factor itself
    a = {(i, j): z3.Real('a%d%d' % (i, j)) for i in range(n) for j in range(i + 1)}
    A = [a[(max(i, j), min(i, j))] for i in range(n) for j in range(n)]
    mind = z3.Real('mindiag')
    L = Leaf(ck, m, so(), 'mju_cholFactor', [('arr', 'mat', n * n, A), ('i32', 'n', n), ('f64', 'mindiag', mind)], restype='i32')
    L.w.syms += [(str(v), 'f64', v) for v in a.values()] + [('mindiag', 'f64', mind)]
    for pc, out, ret, rp in L.paths():
        Lm = out['mat']
        pcs = pc + [mind > 0]
        cl = [sum(Lm[i * n + k] * Lm[j * n + k] for k in range(j + 1)) == a[(i, j)] for i in range(n) for j in range(i + 1)]
        ck.prove('cholFactor n=%d: when the reported rank is n, L L^T = A on the lower triangle' % n, pcs, z3.Implies(ret == n, z3.And(*cl)), site='mju_cholFactor:LLT', decode=L.decode(), replay=rp, timeout_s=150)
        ck.prove('cholFactor n=%d: diagonal of L positive, rank in [0, n]' % n, pcs, z3.And(ret >= 0, ret <= n, *[Lm[i * n + i] > 0 for i in range(n)]), site='mju_cholFactor:positive-diagonal', decode=L.decode(), replay=rp)
        ck.reach('cholFactor full-rank case reachable on this path or another', pcs)
    ck.reach('full rank reachable', [mind > 0] + [a[(i, i)] > mind for i in range(n)] + [a[(i, j)] == 0 for i in range(n) for j in range(i)])
    # solve with an arbitrary lower-triangular factor with non-zero diagonal
    l = {(i, j): z3.Real('l%d%d' % (i, j)) for i in range(n) for j in range(i + 1)}
    Lmat = [l[(i, j)] if j <= i else z3.RealVal(0) for i in range(n) for j in range(n)]
    S = Leaf(ck, m, so(), 'mju_cholSolve', [('arr', 'res', n, 'out'), ('arr', 'mat', n * n, Lmat), ('arr', 'vec', n), ('i32', 'n', n)], pre=lambda v: [l[(i, i)] != 0 for i in range(n)])
    S.w.syms += [(str(v), 'f64', v) for v in l.values()]
    for pc, out, ret, rp in S.paths():
        x = out['res']; b = S.v['vec']
        LLT = [[sum(l[(i, k)] * l[(j, k)] for k in range(min(i, j) + 1)) for j in range(n)] for i in range(n)]
        ck.prove('cholSolve n=%d: (L L^T) res = vec' % n, pc, z3.And(*[sum(LLT[i][j] * x[j] for j in range(n)) == b[i] for i in range(n)]), site='mju_cholSolve:solution', decode=S.decode(), replay=rp, timeout_s=150)
    return ck


def unit_band(tier, ntotal):
    ck = Checker('band_n%d' % ntotal, tier, timeout_s=120, semantics='real')
    m = mod()
    for ndense in range(0, ntotal + 1):
        nsparse = ntotal - ndense
        for nband in range(1, max(nsparse, 1) + 1):
            nB = nsparse * nband + ndense * ntotal
            if nB == 0: continue
            # pattern of stored entries (lower triangle within the band / dense rows)
            def stored(i, j):
                if j > i: return False
                if i < nsparse: return i - j <= min(i, nband - 1)
                return True
            tag = 'ntotal=%d nband=%d ndense=%d' % (ntotal, nband, ndense)
            D2B = Leaf(ck, m, so(), 'mju_dense2Band', [('arr', 'res', nB, 'out'), ('arr', 'mat', ntotal * ntotal), ('i32', 'nt', ntotal), ('i32', 'nb', nband), ('i32', 'nd', ndense)], prefill=0.0)
            for pc, out, ret, rp in D2B.paths():
                band = out['res']; dense = D2B.v['mat']
                # bandDiag addresses the diagonal
                for i in range(ntotal):
                    Ld = Leaf(ck, m, so(), 'mju_bandDiag', [('i32', 'i', i), ('i32', 'nt', ntotal), ('i32', 'nb', nband), ('i32', 'nd', ndense)], restype='i32')
                    for pc2, o2, r2, rp2 in Ld.paths():
                        di = z3.simplify(r2)
                        ok = z3.is_bv_value(di) and 0 <= di.as_long() < nB
                        ck.prove('bandDiag(%d) addresses the stored diagonal entry (%s)' % (i, tag), pc, z3.BoolVal(ok) if not ok else band[di.as_long()] == dense[i * ntotal + i], site='mju_bandDiag:address', decode=D2B.decode(), replay=rp)
            B2D = Leaf(ck, m, so(), 'mju_band2Dense', [('arr', 'res', ntotal * ntotal, 'out'), ('arr', 'mat', nB), ('i32', 'nt', ntotal), ('i32', 'nb', nband), ('i32', 'nd', ndense), ('u8', 'sym', 1)], prefill=7.0)
            for pc, out, ret, rp in B2D.paths():
                dn = out['res']
                ck.prove('band2Dense (%s): symmetric, zero outside the band pattern' % tag, pc, z3.And(*[dn[i * ntotal + j] == dn[j * ntotal + i] for i in range(ntotal) for j in range(i)] +
                         [dn[i * ntotal + j] == 0 for i in range(ntotal) for j in range(i + 1) if not stored(i, j)]), site='mju_band2Dense:pattern', decode=B2D.decode(), replay=rp)
                # dense2Band(band2Dense(b)) = b: chain through the real code symbolically
                w2 = W.World('real'); ro, _ = w2.arr('res', 'f64', nB, [0.0] * nB); mo, _ = w2.arr('mat', 'f64', ntotal * ntotal, dn)
                ex2 = llsym.Exec(m, fpmode='real', loop_bound=64); st2 = w2.to_state(ex2); st2.pc += pc
                I = lambda v: z3.BitVecVal(v, 32)
                for r2 in ex2.run('@mju_dense2Band', [w2.P(ro), w2.P(mo), I(ntotal), I(nband), I(ndense)], st2):
                    if r2.kind != 'return': ck.inconclusive.append('dense2Band chain: %s' % r2.kind); continue
                    back = [ex2.load(r2.state, w2.P(ro, 8 * q), FpT('double')) for q in range(nB)]
                    used = []
                    for i in range(nsparse):
                        wd = min(i, nband - 1); used += list(range((i + 1) * nband - (wd + 1), (i + 1) * nband))
                    for i in range(nsparse, ntotal): used += list(range(nsparse * nband + (i - nsparse) * ntotal, nsparse * nband + (i - nsparse) * ntotal + i + 1))
                    ck.prove('dense2Band(band2Dense(b)) = b on every stored entry of the band layout (%s)' % tag, r2.state.pc, z3.And(*[back[q] == B2D.v['mat'][q] for q in used]), site='mju_dense2Band:roundtrip', decode=B2D.decode(), replay=rp)
                # product equals dense product
                MV = Leaf(ck, m, so(), 'mju_bandMulMatVec', [('arr', 'res', ntotal, 'out'), ('arr', 'mat', nB, B2D.v['mat']), ('arr', 'vec', ntotal), ('i32', 'nt', ntotal), ('i32', 'nb', nband), ('i32', 'nd', ndense), ('i32', 'nvec', 1), ('u8', 'sym', 1)])
                MV.w.syms += [s for s in B2D.w.syms if s[0].startswith('mat')]
                for pc3, o3, r3, rp3 in MV.paths():
                    ck.prove('bandMulMatVec = band2Dense(mat) * vec (%s)' % tag, pc3 + pc, eqv(o3['res'], [sum(dn[i * ntotal + j] * MV.v['vec'][j] for j in range(ntotal)) for i in range(ntotal)]), site='mju_bandMulMatVec:product', decode=MV.decode(), replay=rp3)
    return ck


def unit_solve3(tier):
    ck = Checker('solve3', tier, timeout_s=200, semantics='real')
    m = mod()
    L = Leaf(ck, m, so(), 'mju_solve3', [('arr', 'x', 3, 'out'), ('arr', 'A', 9), ('arr', 'b', 3)])
    A, b = L.v['A'], L.v['b']
    # pivots non-zero: leading principal minors non-zero (no pivoting in the routine)
    m1 = A[0]; m2 = A[0] * A[4] - A[1] * A[3]
    det = A[0] * (A[4] * A[8] - A[5] * A[7]) - A[1] * (A[3] * A[8] - A[5] * A[6]) + A[2] * (A[3] * A[7] - A[4] * A[6])
    for pc, out, ret, rp in L.paths():
        x = out['x']
        ck.prove('solve3: A x = b when the leading principal minors are non-zero', pc + [m1 != 0, m2 != 0, det != 0], z3.And(*[sum(A[3 * i + j] * x[j] for j in range(3)) == b[i] for i in range(3)]), site='mju_solve3:solution',
                 decode=L.decode(), replay=rp, timeout_s=180)
    return ck


def unit_lu(tier, n):
    """mju_factorLU: with the recorded row exchanges applied in order to the input, P A = L U (unit lower L below the diagonal, U on and above), which is the contract mju_solveLU consumes"""
    ck = Checker('lu_n%d' % n, tier, timeout_s=120, semantics='real')
    L = Leaf(ck, mod(), so(), 'mju_factorLU', [('arr', 'A', n * n), ('i32', 'n', n), ('iarr', 'pivot', n)], restype='i32', loop_bound=n * n + 6)
    A0 = L.v['A']; nfact = 0
    for pc, out, ret, rp in L.paths():
        r = z3.simplify(ret)
        if not z3.is_bv_value(r): ck.error('return value not concrete on a path'); return ck
        if r.as_long() == 0: continue                      # reported singular: no factorisation promised
        import itertools
        pv = out['pivot']
        ck.prove('LU: recorded pivot rows lie in [k, n) (n = %d)' % n, pc, z3.And(*[z3.And(pv[k] >= k, pv[k] < n) for k in range(n)]), site='mju_factorLU:pivot-range', decode=L.decode(), replay=rp)
        LU = out['A']
        for piv in itertools.product(*[range(k, n) for k in range(n)]):
            # the exchanges may be a merged (ite) value on a path: decide the identity for each concrete exchange sequence the path admits
            cond = [pv[k] == piv[k] for k in range(n)]
            sv = z3.Solver(); sv.set('timeout', 20000); sv.add(*(list(pc) + cond))
            if str(sv.check()) == 'unsat': continue
            rows = [[A0[i * n + j] for j in range(n)] for i in range(n)]
            for k in range(n): rows[k], rows[piv[k]] = rows[piv[k]], rows[k]
            for i in range(n):
                for j in range(n):
                    lu = sum(((LU[i * n + t] if t < i else z3.RealVal(1)) * LU[t * n + j] for t in range(min(i, j) + 1)), z3.RealVal(0))
                    ck.prove('LU: (P A)[%d][%d] = (L U)[%d][%d] with the recorded exchanges %s (n = %d)' % (i, j, i, j, list(piv), n), list(pc) + cond, rows[i][j] == lu, site='mju_factorLU:PA=LU', decode=L.decode(), replay=rp)
            nfact += 1
            last = list(pc) + cond
    if not nfact: ck.error('no factorising path'); return ck
    ck.reach('a factorising path', last)
    return ck


PATTERNS = {  # (nr, nc, rownnz, rowadr, colind, nnz buffer)
    'compressed': (2, 3, [2, 1], [0, 2], [0, 2, 1], 3), 'empty_row': (2, 3, [0, 2], [0, 0], [1, 2], 2), 'uncompressed': (2, 3, [1, 1], [0, 3], [2, 9, 9, 0], 4),
    'full': (2, 2, [2, 2], [0, 2], [0, 1, 0, 1], 4), 'single': (1, 3, [3], [0], [0, 1, 2], 3)}


def unit_sparse(tier, pat):
    ck = Checker('sparse_' + pat, tier, timeout_s=120, semantics='real')
    m = mod()
    nr, nc, rownnz, rowadr, colind, nnz = PATTERNS[pat]
    ci = [c if c < nc else 0 for c in colind]
    used = sorted({rowadr[r] + k for r in range(nr) for k in range(rownnz[r])})
    def dense_of(vals): 
        Dm = [[z3.RealVal(0)] * nc for _ in range(nr)]
        for r in range(nr):
            for k in range(rownnz[r]): Dm[r][ci[rowadr[r] + k]] = vals[rowadr[r] + k]
        return Dm
    L = Leaf(ck, m, so(), 'mju_mulMatVecSparse', [('arr', 'res', nr, 'out'), ('arr', 'mat', nnz), ('arr', 'vec', nc), ('i32', 'nr', nr), ('iarr', 'rownnz', nr, rownnz), ('iarr', 'rowadr', nr, rowadr), ('iarr', 'colind', len(ci), ci), ('ptr0', 'rowsuper')])
    Dm = dense_of(L.v['mat'])
    for pc, out, ret, rp in L.paths():
        ck.prove('mulMatVecSparse (%s) = dense product' % pat, pc, eqv(out['res'], [sum(Dm[r][c] * L.v['vec'][c] for c in range(nc)) for r in range(nr)]), site='mju_mulMatVecSparse:product', decode=L.decode(), replay=rp)
    L = Leaf(ck, m, so(), 'mju_mulMatTVecSparse', [('arr', 'res', nc, 'out'), ('arr', 'mat', nnz), ('arr', 'vec', nr), ('i32', 'nr', nr), ('i32', 'nc', nc), ('iarr', 'rownnz', nr, rownnz), ('iarr', 'rowadr', nr, rowadr), ('iarr', 'colind', len(ci), ci)], prefill=5.0)
    Dm = dense_of(L.v['mat'])
    for pc, out, ret, rp in L.paths():
        ck.prove('mulMatTVecSparse (%s) = dense transposed product' % pat, pc, eqv(out['res'], [sum(Dm[r][c] * L.v['vec'][r] for r in range(nr)) for c in range(nc)]), site='mju_mulMatTVecSparse:product', decode=L.decode(), replay=rp)
    L = Leaf(ck, m, so(), 'mju_sparse2dense', [('arr', 'res', nr * nc, 'out'), ('arr', 'mat', nnz), ('i32', 'nr', nr), ('i32', 'nc', nc), ('iarr', 'rownnz', nr, rownnz), ('iarr', 'rowadr', nr, rowadr), ('iarr', 'colind', len(ci), ci)], prefill=5.0)
    Dm = dense_of(L.v['mat'])
    for pc, out, ret, rp in L.paths():
        ck.prove('sparse2dense (%s) places every stored entry, zero elsewhere' % pat, pc, eqv(out['res'], [Dm[r][c] for r in range(nr) for c in range(nc)]), site='mju_sparse2dense:dense', decode=L.decode(), replay=rp)
    # transpose (compressed input patterns only: the routine assumes rows are contiguous from rowadr[0])
    if pat in ('compressed', 'full', 'single', 'empty_row'):
        tn = sum(rownnz)
        L = Leaf(ck, m, so(), 'mju_transposeSparse', [('arr', 'res', max(tn, 1), 'out'), ('arr', 'mat', nnz), ('i32', 'nr', nr), ('i32', 'nc', nc), ('iarr', 'res_rownnz', nc, [9] * nc), ('iarr', 'res_rowadr', nc, [9] * nc),
                                                         ('iarr', 'res_colind', max(tn, 1), [9] * max(tn, 1)), ('ptr0', 'rs'), ('iarr', 'rownnz', nr, rownnz), ('iarr', 'rowadr', nr, rowadr), ('iarr', 'colind', len(ci), ci)], prefill=0.0)
        Dm = dense_of(L.v['mat'])
        for pc, out, ret, rp in L.paths():
            rn, ra, rc = out['res_rownnz'], out['res_rowadr'], out['res_colind']
            cvals = [z3.simplify(x) for x in rn + ra + rc]
            if not all(z3.is_bv_value(x) for x in cvals): ck.inconclusive.append('transpose structure not concrete'); continue
            rn = [x.as_long() for x in cvals[:nc]]; ra = [x.as_long() for x in cvals[nc:2 * nc]]; rcv = [x.as_long() for x in cvals[2 * nc:]]
            T = [[z3.RealVal(0)] * nr for _ in range(nc)]
            okstruct = True
            for c in range(nc):
                for k in range(rn[c]):
                    if not (0 <= ra[c] + k < max(tn, 1) and 0 <= rcv[ra[c] + k] < nr): okstruct = False; continue
                    T[c][rcv[ra[c] + k]] = out['res'][ra[c] + k]
            ck.prove('transposeSparse (%s): result is the transpose, as a valid compressed structure' % pat, pc, z3.And(z3.BoolVal(okstruct), *[T[c][r] == Dm[r][c] for r in range(nr) for c in range(nc)]), site='mju_transposeSparse:transpose',
                     decode=L.decode(), replay=rp)
    return ck


def unit_sparsevec(tier, n, cap):
    """sparse-vector combination utilities with SYMBOLIC index patterns (counts and ascending indices are free): mju_combineSparseCount, mju_combineSparseInc, mju_addToSclSparseInc"""
    from vf import llsym, world as W
    from vf.irparse import IntT, FpT
    ck = Checker('sparsevec_n%d_cap%d' % (n, cap), tier, timeout_s=120, semantics='real')
    I = lambda v: z3.BitVecVal(v, 32)
    def world():
        w = W.World('real')
        do, dv = w.arr('dst', 'f64', cap); so_, sv = w.arr('src', 'f64', cap); dio, di = w.arr('dst_ind', 'i32', cap); sio, si = w.arr('src_ind', 'i32', cap)
        dn = z3.BitVec('dst_nnz', 32); sn = z3.BitVec('src_nnz', 32); a = z3.Real('a'); b = z3.Real('b')
        w.syms += [('dst_nnz', 'i32', dn), ('src_nnz', 'i32', sn), ('a', 'f64', a), ('b', 'f64', b)]
        pre = [dn >= 0, dn <= cap, sn >= 0, sn <= cap]
        for ind in (di, si):
            pre += [z3.And(x >= 0, x < n) for x in ind] + [ind[k] < ind[k + 1] for k in range(cap - 1)]
        return w, (do, dv), (so_, sv), (dio, di), (sio, si), dn, sn, a, b, pre
    def src_at(sv, si, sn, idx):
        out = z3.RealVal(0)
        for k in range(cap): out = z3.If(z3.And(sn > k, si[k] == idx), sv[k], out)
        return out
    def present(si, sn, idx): return z3.Or(*[z3.And(sn > k, si[k] == idx) for k in range(cap)])
    # --- combineSparseInc: dst = a*dst + b*src at common indices (entries of src outside dst's pattern are dropped)
    w, (do, dv), (so_, sv), (dio, di), (sio, si), dn, sn, a, b, pre = world()
    ex = llsym.Exec(mod(), fpmode='real', loop_bound=4 * cap + 8); st = w.to_state(ex); st.pc += pre
    res = ex.run('@mju_combineSparseInc', [w.P(do), w.P(so_), I(n), a, b, dn, sn, w.P(dio), w.P(sio)], st); ck.note_results(ex, res)
    args = [('ptr', (do, 0)), ('ptr', (so_, 0)), ('i32', n), ('f64', a), ('f64', b), ('i32', dn), ('i32', sn), ('ptr', (dio, 0)), ('ptr', (sio, 0))]
    dec = lambda mdl: {'dst_nnz': W.evalnum(mdl, dn), 'src_nnz': W.evalnum(mdl, sn), 'dst_ind': [W.evalnum(mdl, x) for x in di], 'src_ind': [W.evalnum(mdl, x) for x in si], 'a': str(W.evalnum(mdl, a)), 'b': str(W.evalnum(mdl, b))}
    for r in res:
        if r.kind != 'return': continue
        out = [ex.load(r.state, w.P(do, 8 * k), FpT('double')) for k in range(cap)]
        rp = W.make_replay(so(), 'mju_combineSparseInc', w, args, outputs=[('dst%d' % k, do, 8 * k, 'f64', out[k]) for k in range(cap)], semantics='real')
        ck.prove('combineSparseInc: dst[k] = a*dst[k] + b*src[entry with the same index, 0 if absent] for k < dst_nnz, untouched beyond', r.state.pc,
                 z3.And(*[out[k] == z3.If(dn > k, a * dv[k] + b * src_at(sv, si, sn, di[k]), dv[k]) for k in range(cap)]), site='mju_combineSparseInc:value', decode=dec, replay=rp)
    ck.reach('different patterns with a common index', pre + [dn == 2, sn == 2, di[0] == si[1], di[1] != si[0]])
    ck.memory_obligations(res, decode=dec)
    # --- combineSparseCount
    w, (do, dv), (so_, sv), (dio, di), (sio, si), dn, sn, a, b, pre = world()
    ex = llsym.Exec(mod(), fpmode='real', loop_bound=4 * cap + 8); st = w.to_state(ex); st.pc += pre
    res = ex.run('@mju_combineSparseCount', [dn, sn, w.P(dio), w.P(sio)], st); ck.note_results(ex, res)
    args = [('i32', dn), ('i32', sn), ('ptr', (dio, 0)), ('ptr', (sio, 0))]
    dec = lambda mdl: {'a_nnz': W.evalnum(mdl, dn), 'b_nnz': W.evalnum(mdl, sn), 'a_ind': [W.evalnum(mdl, x) for x in di], 'b_ind': [W.evalnum(mdl, x) for x in si]}
    union = sum([z3.If(z3.Or(present(di, dn, j), present(si, sn, j)), 1, 0) for j in range(n)], z3.IntVal(0))
    for r in res:
        if r.kind != 'return': continue
        rp = W.make_replay(so(), 'mju_combineSparseCount', w, args, restype='i32', ret_term=r.value)
        ck.prove('combineSparseCount = size of the union of the two index sets', r.state.pc, z3.BV2Int(r.value) == union, site='mju_combineSparseCount:union', decode=dec, replay=rp)
    ck.memory_obligations(res, decode=dec)
    # --- addToSclSparseInc
    w, (do, dv), (so_, sv), (dio, di), (sio, si), dn, sn, a, b, pre = world()
    ex = llsym.Exec(mod(), fpmode='real', loop_bound=4 * cap + 8); st = w.to_state(ex); st.pc += pre
    res = ex.run('@mju_addToSclSparseInc', [w.P(do), w.P(so_), dn, w.P(dio), sn, w.P(sio), a], st); ck.note_results(ex, res)
    args = [('ptr', (do, 0)), ('ptr', (so_, 0)), ('i32', dn), ('ptr', (dio, 0)), ('i32', sn), ('ptr', (sio, 0)), ('f64', a)]
    dec = lambda mdl: {'nnzdst': W.evalnum(mdl, dn), 'nnzsrc': W.evalnum(mdl, sn), 'inddst': [W.evalnum(mdl, x) for x in di], 'indsrc': [W.evalnum(mdl, x) for x in si]}
    for r in res:
        if r.kind != 'return': continue
        out = [ex.load(r.state, w.P(do, 8 * k), FpT('double')) for k in range(cap)]
        rp = W.make_replay(so(), 'mju_addToSclSparseInc', w, args, outputs=[('dst%d' % k, do, 8 * k, 'f64', out[k]) for k in range(cap)], semantics='real')
        ck.prove('addToSclSparseInc: dst[k] += scl*src[entry with the same index] for k < nnzdst, untouched otherwise', r.state.pc,
                 z3.And(*[out[k] == z3.If(dn > k, dv[k] + a * src_at(sv, si, sn, di[k]), dv[k]) for k in range(cap)]), site='mju_addToSclSparseInc:value', decode=dec, replay=rp)
    ck.memory_obligations(res, decode=dec)
    return ck


def units(tier):
    u = [('chol_n1', 'unit_chol', {'n': 1}), ('chol_n2', 'unit_chol', {'n': 2}), ('solve3', 'unit_solve3', {})]
    for nt in ([2, 3, 4, 5] if tier == 'quick' else [2, 3, 4, 5, 6]): u.append(('band_n%d' % nt, 'unit_band', {'ntotal': nt}))
    for p in PATTERNS: u.append(('sparse_' + p, 'unit_sparse', {'pat': p}))
    u.append(('sparsevec_n4_cap2', 'unit_sparsevec', {'n': 4, 'cap': 2}))
    u.append(('sparsevec_n5_cap3', 'unit_sparsevec', {'n': 5, 'cap': 3}))
    u.append(('chol_n3', 'unit_chol', {'n': 3}, 2000))
    u += [('lu_n2', 'unit_lu', {'n': 2}), ('lu_n3', 'unit_lu', {'n': 3})]
    if tier == 'thorough': u.append(('sparsevec_n6_cap3', 'unit_sparsevec', {'n': 6, 'cap': 3}))
    return u
