"""C50 Scene construction is bounded and faithful: geom acquisition against the scene capacity, and the model-geom producer."""
import z3, re
from vf import ir, build, llsym, world as W
from vf.runner import Checker
from vf.irparse import IntT, FpT, PtrT

ID = 'C50'
LEVEL = 'other'
TUS = ['src/engine/engine_vis_visualize.c', 'src/engine/engine_util_blas.c', 'src/engine/engine_util_misc.c', 'src/engine/engine_util_spatial.c']
EXPLANATION = ('llsym executes the real acquireGeom / releaseGeom / addTriangle and the model-geom producer addGeomGeoms of engine_vis_visualize.c on a scene whose capacity maxgeom and fill '
               'level ngeom are SYMBOLIC (the geoms buffer is an object of symbolic size maxgeom*sizeof(mjvGeom)), with symbolic geom groups, body categories, category mask and '
               'per-geom alpha: no store at or beyond geoms[maxgeom], ngeom <= maxgeom always, a full buffer sets status = 1 and is never dereferenced, and with room the scene receives '
               'exactly the geoms whose clamped group is enabled, whose category is in the mask and whose alpha is non-zero, in model order with objid/objtype/category/segid set.')
BOUNDS = {'quick': {'maxgeom': '0..3 symbolic', 'model geoms': '<= 2'}, 'thorough': {'maxgeom': '0..4', 'model geoms': '<= 3'}}
OUTSIDE = 'the other add*Geoms producers, poses/sizes (mjv_initGeom is a logged stub), planes and meshes (geom type fixed to sphere), labels, perturbation glow, island colouring.'
ASSUMPTIONS = ['mjv_initGeom, setMaterial (alpha written as a free value), markselected, makeLabel, islandColor stubbed', '0 <= ngeom <= maxgeom at entry', 'geom_bodyid in range']
BUDGET = {'quick': 600, 'thorough': 1800}
_c = {}
SUP = ['src/engine/engine_util_blas.c', 'src/engine/engine_util_misc.c', 'src/engine/engine_util_spatial.c', 'src/engine/engine_util_errmem.c']


def mod():
    if 'm' not in _c: _c['m'] = ir.load(TUS)
    return _c['m']


STUB_C = '''
void vfstub_mjv_initGeom(void* g, int type, const void* size, const void* pos, const void* mat, const void* rgba) { vf_log_call("mjv_initGeom"); }
static float vf_alpha[8]; static int vf_ai = 0;
void vf_set_alpha(int i, float a) { vf_alpha[i] = a; vf_ai = 0; }
static const float* vf_rgba_base = 0; static long vf_rgba3_off = 0;
void vf_set_rgba(const float* base, long off) { vf_rgba_base = base; vf_rgba3_off = off; }
void vfstub_setMaterial(const void* m, char* geom, int matid, const float* rgba, const void* flags) {
  int i = (int)((rgba - vf_rgba_base) / 4); *(float*)(geom + vf_rgba3_off) = vf_alpha[i]; vf_log_call("setMaterial"); }
'''


def so():
    if 'so' not in _c: _c['so'] = build.native_lib(['src/engine/engine_vis_visualize.c'], SUP, name='vis', extra_c=STUB_C, redirect=['mjv_initGeom', 'setMaterial'])
    return _c['so']


def so_asan():
    if 'asan' not in _c: _c['asan'] = build.native_lib(['src/engine/engine_vis_visualize.c'], SUP, name='vis_asan', extra_c=STUB_C, redirect=['mjv_initGeom', 'setMaterial'], sanitize=True)
    return _c['asan']


def lay():
    if 'l' not in _c: _c['l'] = build.Layout()
    return _c['l']


def prepare(tier): mod(); so(); lay()


def I(v): return z3.BitVecVal(v, 32)


class Scene:
    def __init__(self, w, maxcap):
        L = lay()
        self.gsz = L.sizeof('mjvGeom_')
        self.S = W.SB(w, L, 'mjvScene_', 'scn', zero=True)
        self.maxgeom = self.S.sym('maxgeom', 'maxgeom'); self.ngeom = self.S.sym('ngeom', 'ngeom0'); self.status = self.S.sym('status', 'status0')
        self.geoms = w.obj('geoms', z3.ZeroExt(32, self.maxgeom) * self.gsz).zeros()
        self.S.o.put(self.S.off('geoms'), 'ptr', (self.geoms, 0))
        self.pre = [self.maxgeom >= 0, self.maxgeom <= maxcap, self.ngeom >= 0, self.ngeom <= self.maxgeom, z3.Or(self.status == 0, self.status == 1)]
        self.goff = {f: L.field('mjvGeom_', f)[0] for f in ('objtype', 'objid', 'category', 'segid', 'dataid')}
        self.rgba3 = L.field('mjvGeom_', 'rgba[3]')[0]


def initgeom_stub(ex, st, args, ins): st.log.append(('call', 'mjv_initGeom')); return None


def cross_stub(ex, st, args, ins):
    for k in range(3): ex.store(st, llsym.Ptr(args[0].obj, ex.addoff(args[0].off, None, 8 * k)), FpT('double'), ex.newsym(FpT('double'), 'cross'))
    return None


def unit_acquire(tier, maxcap):
    ck = Checker('acquire_cap%d' % maxcap, tier, timeout_s=120)
    w = W.World(); sc = Scene(w, maxcap)
    objid, cat, objtype = [z3.BitVec(n, 32) for n in ('objid', 'category', 'objtype')]; w.syms += [(n, 'i32', v) for n, v in (('objid', objid), ('category', cat), ('objtype', objtype))]
    ex = llsym.Exec(mod(), stubs={'mjv_initGeom': initgeom_stub}, loop_bound=8); ex.concretise_geps = {'geoms'}
    st = w.to_state(ex); st.pc += sc.pre
    res = ex.run('@acquireGeom', [w.P(sc.S.o), objid, cat, objtype], st)
    ck.note_results(ex, res)
    args = [('ptr', (sc.S.o, 0)), ('i32', objid), ('i32', cat), ('i32', objtype)]
    dec = lambda mdl: {'maxgeom': W.evalnum(mdl, sc.maxgeom), 'ngeom': W.evalnum(mdl, sc.ngeom), 'status': W.evalnum(mdl, sc.status)}
    full = sc.ngeom >= sc.maxgeom
    for r in res:
        if r.kind != 'return': continue
        pc = r.state.pc; p = r.value
        ng = sc.S.load(ex, r.state, 'ngeom'); stt = sc.S.load(ex, r.state, 'status')
        outs = [sc.S.out(ex, r.state, 'ngeom'), sc.S.out(ex, r.state, 'status')]
        if isinstance(p, llsym.Ptr) and p.obj == 0:
            rp = W.make_replay(so(), 'acquireGeom', w, args, restype='u64', ret_term=z3.BitVecVal(0, 64), outputs=outs)
            ck.prove('acquireGeom: NULL only when the buffer is full; status set to 1, ngeom unchanged', pc, z3.And(full, stt == 1, ng == sc.ngeom), site='acquireGeom:full', decode=dec, replay=rp)
        else:
            off = p.off if not isinstance(p.off, int) else z3.BitVecVal(p.off, 64)
            ok = isinstance(p, llsym.Ptr) and p.obj == w.map[sc.geoms].obj
            ck.prove('acquireGeom: with room returns &geoms[ngeom], leaves ngeom and status unchanged', pc, z3.And(z3.Not(full), z3.BoolVal(ok), off == z3.ZeroExt(32, sc.ngeom) * sc.gsz, ng == sc.ngeom, stt == sc.status),
                     site='acquireGeom:slot', decode=dec)
    ck.reach('full buffer', sc.pre + [full]); ck.reach('room', sc.pre + [z3.Not(full)])
    ck.memory_obligations(res, decode=dec, replay=W.make_asan_replay(so_asan, [('acquireGeom', args, 'ptr')], w))
    # addTriangle: acquire + release
    w2 = W.World('real'); sc2 = Scene(w2, maxcap)
    vs = [w2.arr('v%d' % k, 'f64', 3)[0] for k in range(3)]; rg = w2.arr('rgba', 'f32', 4, [0.5] * 4)[0]
    ex2 = llsym.Exec(mod(), fpmode='real', stubs={'mjv_initGeom': initgeom_stub, 'mju_normalize3': lambda e, s_, a, i: e.newsym(FpT('double'), 'len'), 'mju_cross': cross_stub}, loop_bound=8); ex2.concretise_geps = {'geoms'}
    st2 = w2.to_state(ex2); st2.pc += sc2.pre
    targs = [('ptr', (sc2.S.o, 0))] + [('ptr', (v, 0)) for v in vs] + [('ptr', (rg, 0)), ('i32', 3), ('i32', 1), ('i32', 5)]
    res2 = ex2.run('@addTriangle', [w2.P(sc2.S.o)] + [w2.P(v) for v in vs] + [w2.P(rg), I(3), I(1), I(5)], st2)
    ck.note_results(ex2, res2)
    dec2 = lambda mdl: {'maxgeom': W.evalnum(mdl, sc2.maxgeom), 'ngeom': W.evalnum(mdl, sc2.ngeom)}
    for r in res2:
        if r.kind != 'return': continue
        ng = sc2.S.load(ex2, r.state, 'ngeom'); stt = sc2.S.load(ex2, r.state, 'status')
        rp = W.make_replay(so(), 'addTriangle', w2, targs, outputs=[sc2.S.out(ex2, r.state, 'ngeom'), sc2.S.out(ex2, r.state, 'status')], semantics='real')
        ck.prove('addTriangle: one geom appended if there is room, otherwise nothing appended and status = 1; ngeom <= maxgeom', r.state.pc,
                 z3.And(ng <= sc2.maxgeom, z3.If(sc2.ngeom < sc2.maxgeom, z3.And(ng == sc2.ngeom + 1, stt == sc2.status), z3.And(ng == sc2.ngeom, stt == 1))), site='addTriangle:bounded', decode=dec2, replay=rp)
    ck.memory_obligations(res2, decode=dec2, replay=W.make_asan_replay(so_asan, [('addTriangle', targs, 'void')], w2))
    return ck


def unit_geoms(tier, ngm, maxcap):
    ck = Checker('addGeomGeoms_n%d_cap%d' % (ngm, maxcap), tier, timeout_s=120, semantics='real')
    L = lay(); K = build.enum_values('mjCAT_'); K.update(build.enum_values('mjOBJ_GEOM')); K.update(build.enum_values('mjGEOM_SPHERE'))
    ngroup = int(re.search(r'#define mjNGROUP\s+(\d+)', open(build.REPO + '/include/mujoco/mjvisualize.h').read()).group(1))
    w = W.World('real'); sc = Scene(w, maxcap)
    M, _ = W.full_struct(w, L, 'mjModel_', 'MJMODEL_POINTERS', {'ngeom': ngm, 'nbody': 2}, 'm', default_size=0, symbolic=('geom_bodyid', 'geom_group', 'body_weldid'),
                         values={'geom_type': [K['mjGEOM_SPHERE']] * ngm, 'geom_matid': [-1] * ngm})
    D, _ = W.full_struct(w, L, 'mjData_', 'MJDATA_POINTERS', {'ngeom': ngm, 'nbody': 2}, 'd', default_size=0)
    bodyid = M.arrays['geom_bodyid'][3]; grp = M.arrays['geom_group'][3]; weld = M.arrays['body_weldid'][3]
    V = W.SB(w, L, 'mjvOption_', 'vopt', zero=True); gg = [V.sym('geomgroup[%d]' % k, 'gg%d' % k) for k in range(ngroup)]
    P = W.SB(w, L, 'mjvPerturb_', 'pert', zero=True)
    catmask = z3.BitVec('catmask', 32); w.syms.append(('catmask', 'i32', catmask))
    alphas = [z3.Real('alpha%d' % i) for i in range(ngm)]
    def setmat(ex, st, args, ins):
        k = args[3].off // 16; st.log.append(('call', 'setMaterial'))      # rgba argument is m->geom_rgba + 4*i: identifies the geom
        g = args[1]; ex.store(st, llsym.Ptr(g.obj, ex.addoff(g.off, None, sc.rgba3)), FpT('float'), alphas[k] if k < ngm else z3.RealVal(1)); return None
    stubs = {'mjv_initGeom': initgeom_stub, 'setMaterial': setmat, 'markselected': lambda e, s, a, i: None, 'makeLabel': lambda e, s, a, i: None, 'islandColor': lambda e, s, a, i: None}
    ex = llsym.Exec(mod(), fpmode='real', stubs=stubs, loop_bound=ngm + 3, max_paths=20000); ex.concretise_geps = {'geoms'}
    st = w.to_state(ex)
    pre = sc.pre + [z3.And(b >= 0, b < 2) for b in bodyid]
    st.pc += pre
    res = ex.run('@addGeomGeoms', [w.P(M.o), w.P(D.o), w.P(V.o), w.P(P.o), catmask, w.P(sc.S.o)], st)
    ck.note_results(ex, res)
    dec = lambda mdl: {'maxgeom': W.evalnum(mdl, sc.maxgeom), 'ngeom0': W.evalnum(mdl, sc.ngeom), 'catmask': W.evalnum(mdl, catmask), 'groups': [W.evalnum(mdl, g) for g in grp], 'geomgroup': [W.evalnum(mdl, g) for g in gg], 'alpha': [str(W.evalnum(mdl, a_)) for a_ in alphas], 'bodyid': [W.evalnum(mdl, b) for b in bodyid], 'weld': [W.evalnum(mdl, b) for b in weld], 'status0': W.evalnum(mdl, sc.status)}
    sel2 = lambda arr, i: z3.If(i == 0, arr[0], arr[1])
    cat = [z3.If(sel2(weld, bodyid[i]) == 0, I(K['mjCAT_STATIC']), I(K['mjCAT_DYNAMIC'])) for i in range(ngm)]
    def ggsel(g):
        gid = z3.If(g < 0, 0, z3.If(g > ngroup - 1, ngroup - 1, g)); v = gg[ngroup - 1]
        for k in range(ngroup - 2, -1, -1): v = z3.If(gid == k, gg[k], v)
        return v
    cand = [z3.And((cat[i] & catmask) != 0, ggsel(grp[i]) != 0) for i in range(ngm)]       # geoms for which a slot is requested
    keep = [z3.And(cand[i], alphas[i] != 0) for i in range(ngm)]
    import ctypes
    w.syms += [('alpha%d' % i, 'f32', alphas[i]) for i in range(ngm)]
    nargs = [('ptr', (M.o, 0)), ('ptr', (D.o, 0)), ('ptr', (V.o, 0)), ('ptr', (P.o, 0)), ('i32', catmask), ('ptr', (sc.S.o, 0))]
    def pre_(lib, nw):
        lib.vf_set_alpha.argtypes = [ctypes.c_int, ctypes.c_float]; lib.vf_set_rgba.argtypes = [ctypes.c_void_p, ctypes.c_long]
        for i_ in range(ngm): lib.vf_set_alpha(i_, float(nw.values.get('alpha%d' % i_, 1.0)))
        lib.vf_set_rgba(ctypes.c_void_p(nw.addr(M.arrays['geom_rgba'][0])), sc.rgba3)
    for r in res:
        if r.kind != 'return': continue
        pc = r.state.pc
        ng = sc.S.load(ex, r.state, 'ngeom'); stt = sc.S.load(ex, r.state, 'status')
        rp = W.make_replay(so(), 'addGeomGeoms', w, nargs, outputs=[sc.S.out(ex, r.state, 'ngeom'), sc.S.out(ex, r.state, 'status')], semantics='real', pre=pre_)
        ck.prove('addGeomGeoms n=%d: ngeom never exceeds maxgeom' % ngm, pc, z3.And(ng >= sc.ngeom, ng <= sc.maxgeom), site='addGeomGeoms:bounded', decode=dec, replay=rp)
        want = sc.ngeom + sum([z3.If(k_, I(1), I(0)) for k_ in keep], I(0))
        room = want <= sc.maxgeom
        # with room for every requested slot: exactly the kept geoms are appended
        slots_needed = sc.ngeom + sum([z3.If(c_, I(1), I(0)) for c_ in cand], I(0))
        ck.prove('addGeomGeoms n=%d: with room, exactly the geoms with enabled (clamped) group, unmasked category and non-zero alpha are appended' % ngm, pc + [slots_needed <= sc.maxgeom], z3.And(ng == want, stt == sc.status),
                 site='addGeomGeoms:exact', decode=dec, replay=rp)
        ck.prove('addGeomGeoms n=%d: if a requested slot is unavailable the scene status reports overflow' % ngm, pc + [want > sc.maxgeom], stt == 1, site='addGeomGeoms:overflow-status', decode=dec, replay=rp)
        # identity of appended geoms: objid increasing in model order, objtype GEOM
        gso = w.map[sc.geoms].obj
        so_ = r.state.objs[gso]
        for slot in range(maxcap):
            base = slot * sc.gsz
            if base + sc.goff['objid'] in so_.cells:
                oid = so_.cells[base + sc.goff['objid']][0]; oty = so_.cells[base + sc.goff['objtype']][0]; sg = so_.cells[base + sc.goff['segid']][0]
                ck.prove('addGeomGeoms n=%d: slot %d written on this path holds a model geom (objtype GEOM, objid in range, segid = slot)' % (ngm, slot), pc + [sc.ngeom <= slot, I(slot) < ng],
                         z3.And(oty == K['mjOBJ_GEOM'], oid >= 0, oid < ngm, sg == slot), site='addGeomGeoms:identity', decode=dec)
    ck.reach('geoms precondition', pre)
    ck.memory_obligations(res, decode=dec)
    return ck


def units(tier):
    u = [('acquire_cap3', 'unit_acquire', {'maxcap': 3})]
    for n, c in ([(1, 2), (2, 3)] if tier == 'quick' else [(1, 2), (2, 3), (3, 4)]): u.append(('addGeomGeoms_n%d_cap%d' % (n, c), 'unit_geoms', {'ngm': n, 'maxcap': c}))
    return u
