"""C18 Sleeping islands: cycle encoding of tree_asleep, wake/sleep steps as inductive steps, derived awake arrays."""
import z3, itertools
from vf import ir, build, llsym, world as W
from vf.runner import Checker
from vf.irparse import IntT, FpT

ID = 'C18'
LEVEL = 'other'
TUS = ['src/engine/engine_sleep.c', 'src/engine/engine_util_blas.c', 'src/engine/engine_util_misc.c']
EXPLANATION = ('llsym executes the real mj_sleepCycle, mj_wakeIsland, mj_sleepTrees, mj_sleep (treeCanSleep uninterpreted) and mj_updateSleepInit from an ARBITRARY '
               'tree_asleep[] satisfying the cycle invariant CYC (sleeping trees are closed under next=tree_asleep[.], next in range and injective), so one step '
               'covers wake/sleep histories of any length for forests up to the bound: waking sets exactly one whole cycle, sleeping creates exactly one new cycle '
               'over the given trees and zeroes exactly their qvel/qacc slices, mj_sleep never leaves a partial cycle, derived awake arrays agree with tree_asleep.')
BOUNDS = {'quick': {'ntree': '<=4 (cycle, wake), <=3 (sleepTrees, mj_sleep, update)'}, 'thorough': {'ntree': '<=5 / <=4'}}
OUTSIDE = 'bit-identical qpos of sleeping trees across real steps; wake on contact/equality/tendon (needs collision and constraint pipeline); treeCanSleep itself.'
ASSUMPTIONS = ['CYC(ntree) on tree_asleep (its preservation by every encoded operation is an obligation)', 'mju_isTopicEnabled(mjTOPIC_SLEEP) = 0 (debug tracing off)',
               'treeCanSleep is an uninterpreted function of (tree) in mj_sleep', 'tree_dofadr/tree_dofnum partition [0,nv)']
BUDGET = {'quick': 500, 'thorough': 3000}
_c = {}


def mod():
    if 'm' not in _c: _c['m'] = ir.load(TUS)
    return _c['m']


SUPPORT = ['src/engine/engine_util_blas.c', 'src/engine/engine_util_misc.c', 'src/engine/engine_util_errmem.c']


def so():
    if 'so' not in _c: _c['so'] = build.native_lib(['src/engine/engine_sleep.c'], SUPPORT, name='sleep')
    return _c['so']


def so_asan():
    if 'asan' not in _c: _c['asan'] = build.native_lib(['src/engine/engine_sleep.c'], SUPPORT, name='sleep_asan', sanitize=True)
    return _c['asan']


def lay():
    if 'l' not in _c: _c['l'] = build.Layout()
    return _c['l']


def prepare(tier): mod(); so(); lay(); build.enum_values('mjS_')


def I(v): return z3.BitVecVal(v, 32)


def sel(arr, idx):
    n = len(arr); v = arr[n - 1]
    for k in range(n - 2, -1, -1): v = z3.If(idx == k, arr[k], v)
    return v


def cyc(a):
    n = len(a); cs = []
    for t in range(n):
        cs.append(z3.Or(a[t] < 0, z3.And(a[t] < n, sel(a, a[t]) >= 0)))
        for u in range(t): cs.append(z3.Or(a[t] < 0, a[u] < 0, a[t] != a[u]))
    return z3.And(*cs)


def orbit(a, i):
    """member[t] <=> t reachable from i by next (i symbolic or int, asleep)"""
    n = len(a)
    cur = i if z3.is_expr(i) else I(i)
    pts = [cur]
    for _ in range(n - 1):
        cur = sel(a, cur); pts.append(cur)
    return [z3.Or(*[p == t for p in pts]) for t in range(n)]


STUBS = {'mju_isTopicEnabled': lambda ex, st, a, i: z3.BoolVal(False)}


def unit_cycle(tier, n):
    ck = Checker('sleepCycle_n%d' % n, tier, timeout_s=90)
    w = W.World(); ao, a = w.arr('tree_asleep', 'i32', n)
    i = z3.BitVec('i', 32); w.syms.append(('i', 'i32', i))
    ex = llsym.Exec(mod(), loop_bound=n + 3, stubs=STUBS)
    st = w.to_state(ex); st.pc.append(cyc(a))
    res = ex.run('@mj_sleepCycle', [w.P(ao), I(n), i], st)
    ck.note_results(ex, res)
    args = [('ptr', (ao, 0)), ('i32', n), ('i32', i)]
    dec = lambda mdl: {'tree_asleep': [W.evalnum(mdl, x) for x in a], 'i': W.evalnum(mdl, i)}
    inr = z3.And(i >= 0, i < n)
    orb = orbit(a, i)
    mn = I(n)
    for t in reversed(range(n)): mn = z3.If(orb[t], I(t), mn)
    for r in res:
        if r.kind != 'return': continue
        rp = W.make_replay(so(), 'mj_sleepCycle', w, args, restype='i32', ret_term=r.value)
        ck.prove('sleepCycle: -1 iff index out of range or tree awake', r.state.pc, (r.value == -1) == z3.Or(z3.Not(inr), sel(a, i) < 0), site='mj_sleepCycle:error', decode=dec, replay=rp)
        ck.prove('sleepCycle: returns the smallest tree of the cycle through i', r.state.pc, z3.Implies(z3.And(inr, sel(a, i) >= 0), r.value == mn), site='mj_sleepCycle:min', decode=dec, replay=rp)
    ck.reach('CYC satisfiable with a sleeping tree', [cyc(a), a[0] >= 0])
    ck.memory_obligations(res, decode=dec, replay=W.make_asan_replay(so_asan, [('mj_sleepCycle', args, 'i32')], w))
    return ck


def unit_wake(tier, n):
    ck = Checker('wakeIsland_n%d' % n, tier, timeout_s=90)
    w = W.World(); ao, a = w.arr('tree_asleep', 'i32', n)
    i = z3.BitVec('i', 32); wv = z3.BitVec('wakeval', 32); w.syms += [('i', 'i32', i), ('wakeval', 'i32', wv)]
    ex = llsym.Exec(mod(), loop_bound=n + 3, stubs=STUBS, fpmode='fp')
    st = w.to_state(ex); st.pc += [cyc(a), wv < 0, i >= 0, i < n]
    res = ex.run('@mj_wakeIsland', [w.P(ao), I(n), i, wv, llsym.NULL, z3.FPVal(0.0, z3.Float64())], st)
    ck.note_results(ex, res)
    args = [('ptr', (ao, 0)), ('i32', n), ('i32', i), ('i32', wv), ('ptr', None), ('f64', 0.0)]
    dec = lambda mdl: {'tree_asleep': [W.evalnum(mdl, x) for x in a], 'i': W.evalnum(mdl, i), 'wakeval': W.evalnum(mdl, wv)}
    orb = orbit(a, i); asleep_i = sel(a, i) >= 0
    size = sum([z3.If(o, I(1), I(0)) for o in orb], I(0))
    for r in res:
        if r.kind == 'error':
            ck.prove('wakeIsland: no error under the cycle invariant', r.state.pc, z3.BoolVal(False), site='mj_wakeIsland:error', decode=dec, replay=W.make_replay(so(), 'mj_wakeIsland', w, args, restype='i32', expect='error'))
            continue
        if r.kind != 'return': continue
        new = [ex.load(r.state, w.P(ao, 4 * t), IntT(32)) for t in range(n)]
        rp = W.make_replay(so(), 'mj_wakeIsland', w, args, restype='i32', ret_term=r.value, outputs=[('a%d' % t, ao, 4 * t, 'i32', new[t]) for t in range(n)])
        pc = r.state.pc
        for t in range(n):
            exp = z3.If(asleep_i, z3.If(orb[t], wv, a[t]), z3.If(i == t, z3.If(wv < a[t], wv, a[t]), a[t]))
            ck.prove('wakeIsland: tree %d set to wakeval iff in the cycle of i (awake i: counter lowered)' % t, pc, new[t] == exp, site='mj_wakeIsland:cycle', decode=dec, replay=rp)
        ck.prove('wakeIsland: returns the cycle length (0 if already awake)', pc, r.value == z3.If(asleep_i, size, I(0)), site='mj_wakeIsland:count', decode=dec, replay=rp)
        ck.prove('wakeIsland: cycle invariant preserved', pc, cyc(new), site='mj_wakeIsland:invariant', decode=dec, replay=rp)
    ck.reach('wake of a sleeping tree', [cyc(a), wv < 0, i >= 0, i < n, asleep_i])
    ck.memory_obligations(res, decode=dec, replay=W.make_asan_replay(so_asan, [('mj_wakeIsland', args, 'i32')], w))
    return ck


def model_data(w, ntree, dofs, real=True):
    """mjModel/mjData with ntree trees of dofs[t] dofs each"""
    L = lay()
    M = W.SB(w, L, 'mjModel_', 'm'); D = W.SB(w, L, 'mjData_', 'd')
    nv = sum(dofs)
    M.set('ntree', ntree); M.set('nv', nv)
    adr = [sum(dofs[:t]) for t in range(ntree)]
    M.arr('tree_dofadr', 'i32', ntree, adr); M.arr('tree_dofnum', 'i32', ntree, list(dofs))
    ao, a = D.arr('tree_asleep', 'i32', ntree)
    qv = D.arr('qvel', 'f64', nv)[1]; qa = D.arr('qacc', 'f64', nv)[1]
    D.sym('time', 'time')
    return M, D, a, qv, qa, adr


def unit_sleeptrees(tier, ntree, k):
    ck = Checker('sleepTrees_n%d_k%d' % (ntree, k), tier, timeout_s=90, semantics='real')
    w = W.World('real')
    dofs = [1 + (t % 2) for t in range(ntree)]
    M, D, a, qv, qa, adr = model_data(w, ntree, dofs)
    to, tr = w.arr('tree', 'i32', k)
    ex = llsym.Exec(mod(), loop_bound=8, stubs=STUBS, fpmode='real')
    st = w.to_state(ex)
    pre = [cyc(a)] + [z3.And(t >= 0, t < ntree) for t in tr] + ([z3.Distinct(*tr)] if k > 1 else []) + [sel(a, t) == -1 for t in tr]
    st.pc += pre
    res = ex.run('@mj_sleepTrees', [w.P(M.o), w.P(D.o), w.P(to), I(k)], st)
    ck.note_results(ex, res)
    args = [('ptr', (M.o, 0)), ('ptr', (D.o, 0)), ('ptr', (to, 0)), ('i32', k)]
    dec = lambda mdl: {'tree_asleep': [W.evalnum(mdl, x) for x in a], 'tree': [W.evalnum(mdl, x) for x in tr]}
    nv = sum(dofs)
    ao = D.arrays['tree_asleep'][0]; qvo = D.arrays['qvel'][0]; qao = D.arrays['qacc'][0]
    for r in res:
        if r.kind == 'error':
            ck.prove('sleepTrees: no error for distinct trees that are ready (-1)', r.state.pc, z3.BoolVal(False), site='mj_sleepTrees:error', decode=dec,
                     replay=W.make_replay(so(), 'mj_sleepTrees', w, args, expect='error')); continue
        if r.kind != 'return': continue
        pc = r.state.pc
        new = [ex.load(r.state, w.P(ao, 4 * t), IntT(32)) for t in range(ntree)]
        nqv = [ex.load(r.state, w.P(qvo, 8 * j), FpT('double')) for j in range(nv)]; nqa = [ex.load(r.state, w.P(qao, 8 * j), FpT('double')) for j in range(nv)]
        outs = [('a%d' % t, ao, 4 * t, 'i32', new[t]) for t in range(ntree)] + [('qvel%d' % j, qvo, 8 * j, 'f64', nqv[j]) for j in range(nv)] + [('qacc%d' % j, qao, 8 * j, 'f64', nqa[j]) for j in range(nv)]
        rp = W.make_replay(so(), 'mj_sleepTrees', w, args, outputs=outs, semantics='real')
        for t in range(ntree):
            inlist = z3.Or(*[tr[q] == t for q in range(k)])
            nxt = a[t]
            for q in range(k): nxt = z3.If(tr[q] == t, tr[(q + 1) % k], nxt)
            ck.prove('sleepTrees: tree %d points to its successor in the list iff listed' % t, pc, new[t] == nxt, site='mj_sleepTrees:cycle', decode=dec, replay=rp)
            for j in range(adr[t], adr[t] + dofs[t]):
                ck.prove('sleepTrees: qvel/qacc of dof %d zeroed iff its tree %d is listed' % (j, t), pc,
                         z3.And(nqv[j] == z3.If(inlist, 0, qv[j]), nqa[j] == z3.If(inlist, 0, qa[j])), site='mj_sleepTrees:zero', decode=dec, replay=rp)
        ck.prove('sleepTrees: cycle invariant preserved (exactly one new cycle)', pc, cyc(new), site='mj_sleepTrees:invariant', decode=dec, replay=rp)
    ck.reach('sleepTrees precondition', pre)
    ck.memory_obligations(res, decode=dec, replay=W.make_asan_replay(so_asan, [('mj_sleepTrees', args, 'void')], w))
    return ck


def unit_update(tier, ntree, nbody):
    """mj_updateSleepInit: derived arrays consistent with tree_asleep"""
    ck = Checker('updateSleep_nt%d_nb%d' % (ntree, nbody), tier, timeout_s=90)
    L = lay(); K = build.enum_values('mjS_')
    w = W.World()
    M = W.SB(w, L, 'mjModel_', 'm'); D = W.SB(w, L, 'mjData_', 'd')
    nv = nbody
    M.set('ntree', ntree); M.set('nbody', nbody); M.set('nv', nv)
    treeid = M.arr('body_treeid', 'i32', nbody)[1]; parent = M.arr('body_parentid', 'i32', nbody)[1]; root = M.arr('body_rootid', 'i32', nbody)[1]
    mocap = M.arr('body_mocapid', 'i32', nbody)[1]; dofbody = M.arr('dof_bodyid', 'i32', nv)[1]
    a = D.arr('tree_asleep', 'i32', ntree)[1]
    for nm, n_ in (('tree_awake', ntree), ('body_awake', nbody), ('dof_awake_ind', nv), ('body_awake_ind', nbody), ('parent_awake_ind', nbody)):
        D.arr(nm, 'i32', n_, [0x5A5A5A5A] * n_)
    for f in ('ntree_awake', 'nbody_awake', 'nparent_awake', 'nv_awake'): D.set(f, 0x5A5A)
    flg = z3.BitVec('flg', 32); w.syms.append(('flg', 'i32', flg))
    ex = llsym.Exec(mod(), loop_bound=max(ntree, nbody, nv) + 2, stubs=STUBS)
    st = w.to_state(ex)
    pre = [z3.And(t >= -1, t < ntree) for t in treeid] + [z3.And(p >= 0, p < nbody) for p in parent] + [z3.And(p >= 0, p < nbody) for p in root] + \
          [z3.And(p >= 0, p < nbody) for p in dofbody] + [treeid[0] == -1, parent[0] == 0] + [parent[i] < i for i in range(1, nbody)]
    st.pc += pre
    res = ex.run('@mj_updateSleepInit', [w.P(M.o), w.P(D.o), flg], st)
    ck.note_results(ex, res)
    args = [('ptr', (M.o, 0)), ('ptr', (D.o, 0)), ('i32', flg)]
    AW, AS, ST = K['mjS_AWAKE'], K['mjS_ASLEEP'], K['mjS_STATIC']
    dec = lambda mdl: {'tree_asleep': [W.evalnum(mdl, x) for x in a], 'body_treeid': [W.evalnum(mdl, x) for x in treeid], 'flg': W.evalnum(mdl, flg)}
    def out(name, n_):
        o = D.arrays[name][0]; return o, n_
    for r in res:
        if r.kind != 'return': continue
        pc = r.state.pc
        ld = lambda name, j: ex.load(r.state, w.P(D.arrays[name][0], 4 * j), IntT(32))
        ta = [ld('tree_awake', t) for t in range(ntree)]; ba = [ld('body_awake', b) for b in range(nbody)]
        bai = [ld('body_awake_ind', b) for b in range(nbody)]; pai = [ld('parent_awake_ind', b) for b in range(nbody)]; dai = [ld('dof_awake_ind', j) for j in range(nv)]
        nta = D.load(ex, r.state, 'ntree_awake'); nba = D.load(ex, r.state, 'nbody_awake'); npa = D.load(ex, r.state, 'nparent_awake'); nva = D.load(ex, r.state, 'nv_awake')
        outs = [('tree_awake%d' % t, D.arrays['tree_awake'][0], 4 * t, 'i32', ta[t]) for t in range(ntree)] + [('body_awake%d' % b, D.arrays['body_awake'][0], 4 * b, 'i32', ba[b]) for b in range(nbody)] + \
               [D.out(ex, r.state, f) for f in ('ntree_awake', 'nbody_awake', 'nparent_awake', 'nv_awake')]
        rp = W.make_replay(so(), 'mj_updateSleepInit', w, args, outputs=outs)
        for t in range(ntree):
            ck.prove('update: tree_awake[%d] = (tree_asleep < 0)' % t, pc, ta[t] == z3.If(a[t] < 0, I(1), I(0)), site='mj_updateSleepInit:tree_awake', decode=dec, replay=rp)
        ck.prove('update: ntree_awake counts awake trees', pc, nta == sum([z3.If(x < 0, I(1), I(0)) for x in a], I(0)), site='mj_updateSleepInit:ntree_awake', decode=dec, replay=rp)
        want = []
        for b in range(nbody):
            dyn = z3.If(sel(a, treeid[b]) < 0, I(AW), I(AS)) if ntree else I(AW)
            stat = z3.If(sel(mocap, root[b]) >= 0, I(AW), z3.If(flg != 0, I(AW), I(ST)))
            want.append(z3.If(treeid[b] < 0, stat, dyn))
            ck.prove('update: body_awake[%d] follows its tree / static / mocap rule' % b, pc, ba[b] == want[b], site='mj_updateSleepInit:body_awake', decode=dec, replay=rp)
        notasleep = [want[b] != AS for b in range(nbody)]
        ck.prove('update: nbody_awake counts non-sleeping bodies', pc, nba == sum([z3.If(x, I(1), I(0)) for x in notasleep], I(0)), site='mj_updateSleepInit:nbody_awake', decode=dec, replay=rp)
        for b in range(nbody):
            rank = sum([z3.If(notasleep[q], I(1), I(0)) for q in range(b)], I(0))
            ck.prove('update: body %d listed in body_awake_ind at its rank iff not asleep' % b, pc, z3.Implies(notasleep[b], sel(bai, rank) == b), site='mj_updateSleepInit:body_awake_ind', decode=dec, replay=rp)
        par_ok = [z3.BoolVal(False)] + [sel(want, parent[b]) != AS for b in range(1, nbody)]
        ck.prove('update: nparent_awake counts bodies whose parent is not asleep', pc, npa == sum([z3.If(x, I(1), I(0)) for x in par_ok], I(0)), site='mj_updateSleepInit:nparent_awake', decode=dec, replay=rp)
        dof_ok = [z3.And(sel(treeid, dofbody[j]) >= 0, sel(want, dofbody[j]) == AW) for j in range(nv)]
        ck.prove('update: nv_awake counts dofs of awake dynamic bodies', pc, nva == sum([z3.If(x, I(1), I(0)) for x in dof_ok], I(0)), site='mj_updateSleepInit:nv_awake', decode=dec, replay=rp)
        for j in range(nv):
            rank = sum([z3.If(dof_ok[q], I(1), I(0)) for q in range(j)], I(0))
            ck.prove('update: dof %d listed in dof_awake_ind at its rank iff awake' % j, pc, z3.Implies(dof_ok[j], sel(dai, rank) == j), site='mj_updateSleepInit:dof_awake_ind', decode=dec, replay=rp)
    ck.reach('update precondition', pre)
    ck.memory_obligations(res, decode=dec, replay=W.make_asan_replay(so_asan, [('mj_updateSleepInit', args, 'void')], w))
    return ck


def unit_wakeeq(tier, ntree, eqs):
    """mj_wakeEquality: trees coupled by an ACTIVE equality (d->eq_active, runtime-toggleable) to an awake tree are woken, whole sleep cycles at a time; inactive equalities do nothing.
    eqs: list of (type, body1, body2) with one body per tree (body b belongs to tree b-1), body 0 = world (static)"""
    ck = Checker('wakeEquality_nt%d_%s' % (ntree, '_'.join('%s%d%d' % (t[5:8], b1, b2) for t, b1, b2 in eqs)), tier, timeout_s=120)
    L = lay(); KE = build.enum_values('mjEQ_'); KO = build.enum_values('mjOBJ_'); KN = build.enum_values('mjENBL_'); KS = build.enum_values('mjS_')
    import re
    src = open(build.REPO + '/src/engine/engine_sleep.c').read()
    minawake = build.enum_values('mjMINAWAKE').get('mjMINAWAKE')
    if minawake is None: minawake = int(re.search(r'#define\s+mjMINAWAKE\s+(\d+)', src + open(build.REPO + '/include/mujoco/mjmodel.h').read() + open(build.REPO + '/include/mujoco/mjtype.h').read()).group(1))
    kawake = -(1 + minawake)
    w = W.World(); neq = len(eqs); nb = ntree + 1
    M = W.SB(w, L, 'mjModel_', 'm'); D = W.SB(w, L, 'mjData_', 'd')
    M.set('neq', neq); M.set('ntree', ntree); M.set('nbody', nb); M.set('opt.enableflags', KN['mjENBL_SLEEP'])
    M.arr('eq_type', 'i32', neq, [KE[t] for t, _, _ in eqs]); M.arr('eq_objtype', 'i32', neq, [KO['mjOBJ_BODY'] if t != 'mjEQ_JOINT' else KO['mjOBJ_JOINT'] for t, _, _ in eqs])
    M.arr('eq_obj1id', 'i32', neq, [b1 if t != 'mjEQ_JOINT' else b1 - 1 for t, b1, _ in eqs]); M.arr('eq_obj2id', 'i32', neq, [b2 if t != 'mjEQ_JOINT' else b2 - 1 for t, _, b2 in eqs])
    M.arr('body_treeid', 'i32', nb, [-1] + list(range(ntree))); M.arr('jnt_bodyid', 'i32', ntree, list(range(1, nb)))
    e0o, e0 = M.arr('eq_active0', 'u8', neq, name='eq_active0')
    eao, ea = D.arr('eq_active', 'u8', neq, name='eq_active')
    ao, a = D.arr('tree_asleep', 'i32', ntree)
    two, tw = D.arr('tree_awake', 'i32', ntree); bwo, bw = D.arr('body_awake', 'i32', nb)
    D.sym('time', 'time')
    pre = [cyc(a)] + [z3.Or(x == 0, x == 1) for x in list(e0) + list(ea)] + [tw[t] == z3.If(a[t] < 0, I(KS['mjS_AWAKE']), I(KS['mjS_ASLEEP'])) for t in range(ntree)]
    pre += [bw[0] == KS['mjS_STATIC']] + [bw[b] == tw[b - 1] for b in range(1, nb)]
    ex = llsym.Exec(mod(), loop_bound=4 * ntree + neq + 6, stubs=STUBS, fpmode='fp', max_paths=20000)
    st = w.to_state(ex); st.pc += pre
    res = ex.run('@mj_wakeEquality', [w.P(M.o), w.P(D.o)], st)
    ck.note_results(ex, res)
    args = [('ptr', (M.o, 0)), ('ptr', (D.o, 0))]
    dec = lambda mdl: {'tree_asleep': [W.evalnum(mdl, x) if W.evalnum(mdl, x) < (1 << 31) else W.evalnum(mdl, x) - (1 << 32) for x in a], 'eq_active': [W.evalnum(mdl, x) for x in ea], 'eq_active0': [W.evalnum(mdl, x) for x in e0]}
    # reference: equalities in order; sleep states from the tree_awake flags as given, cycles from the current tree_asleep
    cur = list(a); nw = I(0)
    awake0 = [a[t] < 0 for t in range(ntree)]
    for k, (ty, b1, b2) in enumerate(eqs):
        t1, t2 = b1 - 1, b2 - 1
        if t1 < 0 or t2 < 0 or t1 == t2: continue          # static partner / same tree: nothing to do
        s1, s2 = z3.Not(awake0[t1]), z3.Not(awake0[t2])       # asleep flags
        o1 = orbit(cur, t1); o2 = orbit(cur, t2)
        def cycid(orb, t0):
            m_ = I(ntree)
            for t in reversed(range(ntree)): m_ = z3.If(orb[t], I(t), m_)
            return z3.If(cur[t0] < 0, I(-1), m_)          # mj_sleepCycle: -1 for a tree that is (by now) awake
        same_cycle = cycid(o1, t1) == cycid(o2, t2)
        act = ea[k] != 0
        wake1 = z3.And(act, z3.Or(z3.And(s1, z3.Not(s2)), z3.And(s1, s2, z3.Not(same_cycle))), cur[t1] >= 0)
        wake2 = z3.And(act, z3.Or(z3.And(s2, z3.Not(s1)), z3.And(s1, s2, z3.Not(same_cycle))), cur[t2] >= 0)
        n1 = sum([z3.If(o, I(1), I(0)) for o in o1], I(0)); n2 = sum([z3.If(o, I(1), I(0)) for o in o2], I(0))
        # an already woken tree (cur >= 0 false) only has its counter lowered to kAwake
        low1 = z3.And(act, z3.Or(z3.And(s1, z3.Not(s2)), z3.And(s1, s2, z3.Not(same_cycle))), cur[t1] < 0)
        low2 = z3.And(act, z3.Or(z3.And(s2, z3.Not(s1)), z3.And(s1, s2, z3.Not(same_cycle))), cur[t2] < 0)
        nxt = []
        for t in range(ntree):
            v = cur[t]
            v = z3.If(z3.And(wake1, o1[t]), I(kawake), v)
            v = z3.If(z3.And(wake2, o2[t]), I(kawake), v)
            if t == t1: v = z3.If(z3.And(low1, I(kawake) < v), I(kawake), v)
            if t == t2: v = z3.If(z3.And(low2, I(kawake) < v), I(kawake), v)
            nxt.append(v)
        nw = nw + z3.If(wake1, n1, I(0)) + z3.If(z3.And(wake2, z3.Not(z3.And(wake1, same_cycle))), n2, I(0))
        cur = [z3.simplify(v) for v in nxt]
    for r in res:
        if r.kind == 'error':
            ck.prove('wakeEquality: no error for connect / weld / joint equalities', r.state.pc, z3.BoolVal(False), site='mj_wakeEquality:error', decode=dec, replay=W.make_replay(so(), 'mj_wakeEquality', w, args, restype='i32', expect='error')); continue
        if r.kind != 'return': continue
        new = [ex.load(r.state, w.P(ao, 4 * t), IntT(32)) for t in range(ntree)]
        rp = W.make_replay(so(), 'mj_wakeEquality', w, args, restype='i32', ret_term=r.value, outputs=[('a%d' % t, ao, 4 * t, 'i32', new[t]) for t in range(ntree)])
        pc = r.state.pc
        ck.prove('wakeEquality: a sleeping tree tied by an ACTIVE equality to an awake tree (or to a sleeping tree of another cycle) is woken with its whole cycle; inactive equalities, static partners and same-cycle pairs change nothing',
                 pc, z3.And(*[new[t] == cur[t] for t in range(ntree)]), site='mj_wakeEquality:trees', decode=dec, replay=rp)
        ck.prove('wakeEquality: returns the number of trees woken', pc, r.value == nw, site='mj_wakeEquality:count', decode=dec, replay=rp)
        ck.prove('wakeEquality: cycle invariant preserved', pc, cyc(new), site='mj_wakeEquality:invariant', decode=dec, replay=rp)
    ck.reach('an active equality between a sleeping and an awake tree', pre + [ea[0] == 1, a[0] >= 0, a[1] < 0])
    ck.reach('runtime-disabled equality that is active in the model', pre + [ea[0] == 0, e0[0] == 1, a[0] >= 0, a[1] < 0])
    ck.memory_obligations(res, decode=dec, replay=W.make_asan_replay(so_asan, [('mj_wakeEquality', args, 'i32')], w))
    return ck


def units(tier):
    u = []
    big = [2, 3, 4] if tier == 'quick' else [2, 3, 4, 5]
    for n in big:
        u.append(('sleepCycle_n%d' % n, 'unit_cycle', {'n': n})); u.append(('wakeIsland_n%d' % n, 'unit_wake', {'n': n}))
    for n in ([2, 3] if tier == 'quick' else [2, 3, 4]):
        for k in range(1, n + 1): u.append(('sleepTrees_n%d_k%d' % (n, k), 'unit_sleeptrees', {'ntree': n, 'k': k}))
    for nt, nb in ([(1, 2), (2, 3)] if tier == 'quick' else [(1, 2), (2, 3), (2, 4), (3, 4)]):
        u.append(('updateSleep_nt%d_nb%d' % (nt, nb), 'unit_update', {'ntree': nt, 'nbody': nb}))
    eqsets = [(2, [('mjEQ_CONNECT', 1, 2)]), (3, [('mjEQ_WELD', 1, 2), ('mjEQ_CONNECT', 2, 3)]), (2, [('mjEQ_CONNECT', 0, 1), ('mjEQ_JOINT', 1, 2)])]
    if tier != 'quick': eqsets += [(3, [('mjEQ_JOINT', 1, 3), ('mjEQ_WELD', 3, 2)]), (3, [('mjEQ_CONNECT', 1, 2), ('mjEQ_CONNECT', 1, 3)])]
    for nt, eqs in eqsets: u.append(('wakeEquality_nt%d_%s' % (nt, '_'.join('%s%d%d' % (t[5:8], b1, b2) for t, b1, b2 in eqs)), 'unit_wakeeq', {'ntree': nt, 'eqs': eqs}))
    return u
