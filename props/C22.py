"""C22 Sorting and selection utilities: stable merge sort, partial (heap) sort, insertion sorts."""
import z3, os
from vf import ir, build, llsym, world as W
from vf.runner import Checker
from vf.irparse import IntT, FpT

ID = 'C22'
LEVEL = 'other'
HARNESS = os.path.join(build.VERIF, 'harness/c/sort_harness.c')
EXPLANATION = ('llsym executes the real macro bodies of engine_sort.h (mjSORT/_mjMERGE/_mjINSERTION_SORT, mjPARTIAL_SORT/_mjSIFT_DOWN), instantiated on a '
               '{key, tag} element by harness/c/sort_harness.c, and mju_insertionSort/mju_insertionSortInt from engine_util_misc.c, on arrays whose keys are '
               'fully symbolic 32-bit integers (reals for mjtNum). Every feasible comparison outcome sequence is a path; on each path z3 proves: output is a '
               'permutation of the input (tags), keys non-decreasing, equal keys keep input order (stability), partial sort returns the k smallest in order, '
               'and every array access is in bounds. The run-length parameter _mjRUNSIZE is re-defined to 1/2/4 so the merge passes execute for small n.')
BOUNDS = {'quick': {'n': '<=5 (merge sort RUNSIZE 2 up to n=6)', 'RUNSIZE': [2, 32], 'partial': 'n<=5, all k'},
          'thorough': {'n': '<=7', 'RUNSIZE': [1, 2, 4, 32], 'partial': 'n<=6, all k'}}
OUTSIDE = 'n > 32 with the shipped run length 32 (merge passes are exercised only with the re-defined run length); NaN keys in mju_insertionSort.'
ASSUMPTIONS = ['keys arbitrary 32-bit ints; tags = original index', 'mju_insertionSort: real-number semantics for comparisons (no NaN)']
BUDGET = {'quick': 500, 'thorough': 3000}
_c = {}


def mod(runsize):
    k = ('m', runsize)
    if k not in _c: _c[k] = ir.load([HARNESS], flags=['-DVF_RUNSIZE=%d' % runsize] if runsize != 32 else [])
    return _c[k]


def so(runsize):
    k = ('so', runsize)
    if k not in _c: _c[k] = build.native_lib([HARNESS], ['src/engine/engine_util_errmem.c'], flags=['-DVF_RUNSIZE=%d' % runsize] if runsize != 32 else [], name='sort%d' % runsize)
    return _c[k]


def so_asan(runsize=32):
    k = ('asan', runsize)
    if k not in _c: _c[k] = build.native_lib([HARNESS], ['src/engine/engine_util_errmem.c'], flags=['-DVF_RUNSIZE=%d' % runsize] if runsize != 32 else [], name='sort%d_asan' % runsize, sanitize=True)
    return _c[k]


def misc_asan():
    if 'miscasan' not in _c: _c['miscasan'] = build.native_lib(['src/engine/engine_util_misc.c'], ['src/engine/engine_util_errmem.c'], name='misc_asan', sanitize=True)
    return _c['miscasan']


def misc():
    if 'misc' not in _c:
        _c['misc'] = ir.load(['src/engine/engine_util_misc.c'])
        _c['miscso'] = build.native_lib(['src/engine/engine_util_misc.c'], ['src/engine/engine_util_errmem.c'], name='misc')
    return _c['misc'], _c['miscso']


def prepare(tier):
    for r in ([2, 32] if tier == 'quick' else [1, 2, 4, 32]): mod(r); so(r)
    misc()


def I(v): return z3.BitVecVal(v, 32)


def items(w, name, n, symbolic=True):
    o = w.obj(name, 8 * max(n, 1))
    keys = []
    for i in range(n):
        if symbolic: keys.append(o.sym(8 * i, 'i32', 'key%d' % i)); o.put(8 * i + 4, 'i32', i)
        else: o.put(8 * i, 'i32', 0x55 + i); o.put(8 * i + 4, 'i32', 100 + i)
    return o, keys


def sel(arr, idx, n):
    v = arr[n - 1]
    for k in range(n - 2, -1, -1): v = z3.If(idx == k, arr[k], v)
    return v


def unit_sort(tier, n, runsize):
    ck = Checker('sort_n%d_run%d' % (n, runsize), tier, timeout_s=60)
    m = mod(runsize)
    w = W.World()
    ao, keys = items(w, 'arr', n); bo, _ = items(w, 'buf', n, symbolic=False)
    ex = llsym.Exec(m, loop_bound=n * n + 8)
    st = w.to_state(ex)
    res = ex.run('@vf_sort', [w.P(ao), w.P(bo), I(n)], st)
    ck.note_results(ex, res)
    args = [('ptr', (ao, 0)), ('ptr', (bo, 0)), ('i32', n)]
    dec = lambda mdl: {'keys': [W.evalnum(mdl, k) for k in keys]}
    for r in res:
        if r.kind != 'return': continue
        pc = r.state.pc
        ok = [ex.load(r.state, w.P(ao, 8 * i), IntT(32)) for i in range(n)]
        ot = [ex.load(r.state, w.P(ao, 8 * i + 4), IntT(32)) for i in range(n)]
        outs = [('key%d' % i, ao, 8 * i, 'i32', ok[i]) for i in range(n)] + [('tag%d' % i, ao, 8 * i + 4, 'i32', ot[i]) for i in range(n)]
        rp = W.make_replay(so(runsize), 'vf_sort', w, args, outputs=outs)
        claims = [('tags are a permutation of 0..n-1', z3.And(z3.Distinct(*ot) if n > 1 else z3.BoolVal(True), *[z3.And(t >= 0, t < n) for t in ot])),
                  ('keys travel with their tags', z3.And(*[ok[i] == sel(keys, ot[i], n) for i in range(n)])),
                  ('keys non-decreasing', z3.And(*[ok[i] <= ok[i + 1] for i in range(n - 1)])),
                  ('stable: equal keys keep input order', z3.And(*[z3.Implies(ok[i] == ok[i + 1], ot[i] < ot[i + 1]) for i in range(n - 1)]))]
        for nm, c in claims:
            ck.prove('mjSORT n=%d run=%d: %s' % (n, runsize, nm), pc, c, site='mjSORT:%s' % nm.split(':')[0].split(' ')[0], decode=dec, replay=rp)
    ck.reach('sort precondition', [])
    ck.memory_obligations(res, decode=dec, replay=W.make_asan_replay(lambda: so_asan(runsize), [('vf_sort', args, 'void')], w))
    if n >= 2:
        def wf(pick):
            w2 = W.World(); a2 = w2.obj('arr', 8 * n); b2 = w2.obj('buf', 8 * n)
            for i in range(n):
                a2.put(8 * i, 'i32', int(pick('k', 'i32'))); a2.put(8 * i + 4, 'i32', i); b2.put(8 * i, 'i32', 0); b2.put(8 * i + 4, 'i32', 0)
            return w2, [('ptr', (a2, 0)), ('ptr', (b2, 0)), ('i32', n)], [('k%d' % i, a2, 8 * i, 'i32') for i in range(n)] + [('t%d' % i, a2, 8 * i + 4, 'i32') for i in range(n)]
        W.selfcheck_concrete(ck, 'vf_sort', lambda: llsym.Exec(m, loop_bound=n * n + 8), 'vf_sort', wf, so(runsize), seeds=(1, 2, 3))
    return ck


def unit_partial(tier, n, k):
    ck = Checker('partial_n%d_k%d' % (n, k), tier, timeout_s=60)
    m = mod(32)
    w = W.World()
    ao, keys = items(w, 'arr', n); bo, _ = items(w, 'buf', max(k, 0), symbolic=False)
    ex = llsym.Exec(m, loop_bound=n * n + 8)
    st = w.to_state(ex)
    res = ex.run('@vf_partial', [w.P(ao), w.P(bo), I(n), I(k)], st)
    ck.note_results(ex, res)
    args = [('ptr', (ao, 0)), ('ptr', (bo, 0)), ('i32', n), ('i32', k)]
    dec = lambda mdl: {'keys': [W.evalnum(mdl, x) for x in keys], 'k': k}
    for r in res:
        if r.kind != 'return': continue
        pc = r.state.pc
        ok = [ex.load(r.state, w.P(ao, 8 * i), IntT(32)) for i in range(n)]
        ot = [ex.load(r.state, w.P(ao, 8 * i + 4), IntT(32)) for i in range(n)]
        outs = [('key%d' % i, ao, 8 * i, 'i32', ok[i]) for i in range(n)] + [('tag%d' % i, ao, 8 * i + 4, 'i32', ot[i]) for i in range(n)]
        rp = W.make_replay(so(32), 'vf_partial', w, args, outputs=outs)
        if k <= 0 or n < k:
            c = z3.And(*[z3.And(ok[i] == keys[i], ot[i] == i) for i in range(n)]) if n else z3.BoolVal(True)
            ck.prove('mjPARTIAL_SORT n=%d k=%d: untouched when k<=0 or n<k' % (n, k), pc, c, site='mjPARTIAL_SORT:noop', decode=dec, replay=rp)
            continue
        first = ot[:k]
        claims = [('first k tags distinct and valid', z3.And(z3.Distinct(*first) if k > 1 else z3.BoolVal(True), *[z3.And(t >= 0, t < n) for t in first])),
                  ('keys travel with their tags', z3.And(*[ok[i] == sel(keys, ot[i], n) for i in range(k)])),
                  ('first k keys non-decreasing', z3.And(*[ok[i] <= ok[i + 1] for i in range(k - 1)])),
                  ('every element left out is >= the k-th smallest returned', z3.And(*[z3.Or(z3.Or(*[first[j] == t for j in range(k)]), keys[t] >= ok[k - 1]) for t in range(n)]))]
        for nm, c in claims:
            ck.prove('mjPARTIAL_SORT n=%d k=%d: %s' % (n, k, nm), pc, c, site='mjPARTIAL_SORT:%s' % nm.split(' ')[0], decode=dec, replay=rp)
    ck.reach('partial precondition', [])
    ck.memory_obligations(res, decode=dec, replay=W.make_asan_replay(lambda: so_asan(32), [('vf_partial', args, 'void')], w))
    return ck


def unit_insertion_int(tier, n):
    ck = Checker('insertionSortInt_n%d' % n, tier, timeout_s=60)
    m, lib = misc()
    w = W.World()
    ao, xs = w.arr('list', 'i32', n)
    ex = llsym.Exec(m, loop_bound=n * n + 4)
    st = w.to_state(ex)
    res = ex.run('@mju_insertionSortInt', [w.P(ao), I(n)], st)
    ck.note_results(ex, res)
    args = [('ptr', (ao, 0)), ('i32', n)]
    dec = lambda mdl: {'list': [W.evalnum(mdl, x) for x in xs]}
    for r in res:
        if r.kind != 'return': continue
        out = [ex.load(r.state, w.P(ao, 4 * i), IntT(32)) for i in range(n)]
        rp = W.make_replay(lib, 'mju_insertionSortInt', w, args, outputs=[('x%d' % i, ao, 4 * i, 'i32', out[i]) for i in range(n)])
        cnt = lambda arr, v: sum([z3.If(a == v, 1, 0) for a in arr])
        ck.prove('insertionSortInt n=%d: non-decreasing' % n, r.state.pc, z3.And(*[out[i] <= out[i + 1] for i in range(n - 1)]), site='mju_insertionSortInt:order', decode=dec, replay=rp)
        ck.prove('insertionSortInt n=%d: permutation (multiset equality)' % n, r.state.pc, z3.And(*[cnt(out, v) == cnt(xs, v) for v in xs]), site='mju_insertionSortInt:permutation', decode=dec, replay=rp)
    ck.memory_obligations(res, decode=dec, replay=W.make_asan_replay(misc_asan, [('mju_insertionSortInt', args, 'void')], w))
    return ck


def unit_insertion_num(tier, n):
    ck = Checker('insertionSort_n%d' % n, tier, timeout_s=60, semantics='real')
    m, lib = misc()
    w = W.World('real')
    ao, xs = w.arr('list', 'f64', n)
    ex = llsym.Exec(m, fpmode='real', loop_bound=n * n + 4)
    st = w.to_state(ex)
    res = ex.run('@mju_insertionSort', [w.P(ao), I(n)], st)
    ck.note_results(ex, res)
    args = [('ptr', (ao, 0)), ('i32', n)]
    dec = lambda mdl: {'list': [W.evalnum(mdl, x) for x in xs]}
    for r in res:
        if r.kind != 'return': continue
        out = [ex.load(r.state, w.P(ao, 8 * i), FpT('double')) for i in range(n)]
        rp = W.make_replay(lib, 'mju_insertionSort', w, args, outputs=[('x%d' % i, ao, 8 * i, 'f64', out[i]) for i in range(n)], semantics='real')
        cnt = lambda arr, v: sum([z3.If(a == v, 1, 0) for a in arr])
        ck.prove('insertionSort n=%d: non-decreasing' % n, r.state.pc, z3.And(*[out[i] <= out[i + 1] for i in range(n - 1)]), site='mju_insertionSort:order', decode=dec, replay=rp)
        ck.prove('insertionSort n=%d: permutation (multiset equality)' % n, r.state.pc, z3.And(*[cnt(out, v) == cnt(xs, v) for v in xs]), site='mju_insertionSort:permutation', decode=dec, replay=rp)
    ck.memory_obligations(res, decode=dec, replay=W.make_asan_replay(misc_asan, [('mju_insertionSort', args, 'void')], w))
    return ck


def units(tier):
    u = []
    if tier == 'quick':
        sorts = [(n, 32) for n in (0, 1, 2, 3, 4, 5)] + [(n, 2) for n in (2, 3, 4, 5, 6)] + [(5, 1), (6, 1)]      # run length 1: six runs, i.e. three merge passes with an unpaired tail
        parts = [(n, k) for n in (1, 2, 3, 4, 5) for k in range(0, n + 2)]
        ins = [2, 3, 4, 5]
    else:
        sorts = [(n, 32) for n in range(0, 8)] + [(n, r) for r in (1, 2, 4) for n in range(2, 8)]
        parts = [(n, k) for n in range(1, 7) for k in range(-1, n + 2)]
        ins = [2, 3, 4, 5, 6]
    for n, r in sorts: u.append(('sort_n%d_run%d' % (n, r), 'unit_sort', {'n': n, 'runsize': r}))
    for n, k in parts: u.append(('partial_n%d_k%d' % (n, k), 'unit_partial', {'n': n, 'k': k}))
    for n in ins:
        u.append(('insertionSortInt_n%d' % n, 'unit_insertion_int', {'n': n}))
        u.append(('insertionSort_n%d' % n, 'unit_insertion_num', {'n': n}))
    return u
