"""C34 Name lookup inverts naming: layout of the per-type hash map segments, and name2id/id2name on symbolic names."""
import z3, re, os
from vf import ir, build, llsym, world as W
from vf.runner import Checker
from vf.irparse import IntT, PtrT

ID = 'C34'
LEVEL = 'other'
TUS = ['src/engine/engine_name.c']
EXPLANATION = ('llsym executes the real _getnumadr / mj_hashString / mj_name2id / mj_id2name. (a) Layout: all 23 object counts symbolic; for every object type the '
               'returned (count, address array, hash-map offset) must equal the layout mjCModel::CopyNames writes (order of the namelist() calls is re-extracted '
               'from src/user/user_model.cc on every run; count field from the mjmodel.h size comments), segments disjoint and inside [0, nnames_map). '
               '(b) Lookup: N objects of one type with fully symbolic byte-string names (possibly empty, distinct when non-empty), the hash table filled by the '
               'linear-probing rule of namelist() re-stated in SMT, symbolic query string: name2id(id2name(j)) = j, id2name = NULL iff unnamed/out of range, '
               'name2id(q) = -1 iff q is no name; every table/string access in bounds.')
BOUNDS = {'quick': {'layout': 'all types, counts in [0, 2^20]', 'lookup': 'N<=2 names of <=3 bytes; N=3 names of 1 byte'}, 'thorough': {'lookup': 'N<=3 names of <=2 bytes; N<=2 names of <=3 bytes'}}
OUTSIDE = 'the C++ side (namelist/addtolist) is modelled, not executed: its insertion rule is re-stated in SMT (trusted model); names longer than the bound.'
ASSUMPTIONS = ['names_map filled by linear probing from mj_hashString(name, 2N), empty names skipped (namelist in user_model.cc)', 'names are NUL-terminated, non-empty names pairwise distinct (compiler rejects duplicates)',
               'nnames_map = mjLOAD_MULTIPLE * sum of all counts (mj_makeModel)', 'strncmp modelled byte-wise per its C contract']
BUDGET = {'quick': 500, 'thorough': 3000}
_c = {}

# independent oracle: object type -> name address field
TYPE_FIELD = {'mjOBJ_BODY': 'name_bodyadr', 'mjOBJ_XBODY': 'name_bodyadr', 'mjOBJ_JOINT': 'name_jntadr', 'mjOBJ_GEOM': 'name_geomadr', 'mjOBJ_SITE': 'name_siteadr',
              'mjOBJ_CAMERA': 'name_camadr', 'mjOBJ_LIGHT': 'name_lightadr', 'mjOBJ_FLEX': 'name_flexadr', 'mjOBJ_MESH': 'name_meshadr', 'mjOBJ_SKIN': 'name_skinadr',
              'mjOBJ_HFIELD': 'name_hfieldadr', 'mjOBJ_TEXTURE': 'name_texadr', 'mjOBJ_MATERIAL': 'name_matadr', 'mjOBJ_PAIR': 'name_pairadr', 'mjOBJ_EXCLUDE': 'name_excludeadr',
              'mjOBJ_EQUALITY': 'name_eqadr', 'mjOBJ_TENDON': 'name_tendonadr', 'mjOBJ_ACTUATOR': 'name_actuatoradr', 'mjOBJ_SENSOR': 'name_sensoradr', 'mjOBJ_NUMERIC': 'name_numericadr',
              'mjOBJ_TEXT': 'name_textadr', 'mjOBJ_TUPLE': 'name_tupleadr', 'mjOBJ_KEY': 'name_keyadr', 'mjOBJ_PLUGIN': 'name_pluginadr'}


def mod():
    if 'm' not in _c: _c['m'] = ir.load(TUS)
    return _c['m']


def so():
    if 'so' not in _c: _c['so'] = build.native_lib(TUS, ['src/engine/engine_util_errmem.c'], name='name')
    return _c['so']


def so_asan():
    if 'asan' not in _c: _c['asan'] = build.native_lib(TUS, ['src/engine/engine_util_errmem.c'], name='name_asan', sanitize=True)
    return _c['asan']


def lay():
    if 'l' not in _c: _c['l'] = build.Layout()
    return _c['l']


def facts():
    """order of name lists written by CopyNames and the count field of each name array (from the sources, every run)"""
    if 'f' not in _c:
        um = open(os.path.join(build.REPO, 'src/user/user_model.cc')).read()
        body = um[um.index('void mjCModel::CopyNames'):]
        body = body[:body.index('\n}\n')]
        order = re.findall(r'namelist\(\w+,\s*adr,\s*m->(name_\w+adr)', body)
        hdr = open(os.path.join(build.REPO, 'include/mujoco/mjmodel.h')).read()
        cnt = dict(re.findall(r'int\*\s+(name_\w+adr);.*?\((n\w+) x 1\)', hdr))
        mult = int(re.search(r'#define mjLOAD_MULTIPLE (\d+)', open(os.path.join(build.REPO, 'src/engine/engine_io.h')).read()).group(1))
        _c['f'] = (order, cnt, mult)
    return _c['f']


def prepare(tier): mod(); so(); lay(); facts(); build.enum_values('mjOBJ_')


def I(v): return z3.BitVecVal(v, 32)


def unit_layout(tier):
    ck = Checker('layout', tier, timeout_s=90)
    L = lay(); K = build.enum_values('mjOBJ_'); order, cnt, mult = facts()
    ck.selfcheck('CopyNames lists match the 23 name arrays of mjModel', sorted(order) == sorted(cnt) and len(order) == 23, (len(order), len(cnt)))
    types = sorted(set(K.values()) | {-1, 4, 26, 27, 99, 103})
    name_of = {}
    for k, v in K.items(): name_of.setdefault(v, k)
    for tval in types:
        w = W.World()
        M = W.SB(w, L, 'mjModel_', 'm')
        counts = {}
        for f in order:
            counts[f] = M.sym(cnt[f], cnt[f]); M.arr(f, 'i32', 1, [0], name=f)
        total = sum([z3.SignExt(32, c) if c.size() == 32 else c for c in counts.values()])
        nm = M.sym('nnames_map', 'nnames_map')
        padr = w.obj('padr', 8); padr.put(0, 'ptr', None)
        mo = w.obj('mapadr', 4); mo.put(0, 'i32', 0x7777)
        ex = llsym.Exec(mod(), merge=False)
        st = w.to_state(ex)
        w64 = lambda c: z3.SignExt(64 - c.size(), c) if c.size() < 64 else c
        pre = [z3.And(c >= 0, c <= 1 << 20) for c in counts.values()] + [w64(nm) == mult * sum([w64(c) for c in counts.values()])]
        st.pc += pre
        tt = I(tval)
        res = ex.run('@_getnumadr', [w.P(M.o), tt, w.P(padr), w.P(mo)], st)
        ck.note_results(ex, res)
        tname = name_of.get(tval, 'value %d' % tval)
        field = TYPE_FIELD.get(name_of.get(tval))
        for r in res:
            if r.kind != 'return': continue
            pc = r.state.pc
            got_adr = ex.load(r.state, w.P(padr), PtrT(IntT(32))); got_map = ex.load(r.state, w.P(mo), IntT(32))
            dec = lambda mdl: {k_: W.evalnum(mdl, v) for k_, v in counts.items()}
            args = [('ptr', (M.o, 0)), ('i32', tval), ('ptr', (padr, 0)), ('ptr', (mo, 0))]
            rp = W.make_replay(so(), '_getnumadr', w, args, restype='i32', ret_term=r.value, outputs=[('mapadr', mo, 0, 'i32', got_map)])
            if field is None:
                ck.prove('layout %s: unknown/unnamed type gives 0 objects and no address list' % tname, pc, z3.And(r.value == 0, z3.BoolVal(isinstance(got_adr, llsym.Ptr) and got_adr.obj == 0)),
                         site='_getnumadr:unknown', decode=dec, replay=rp)
                continue
            want_obj = M.arrays[field][0]
            ck.prove('layout %s: count = %s' % (tname, cnt[field]), pc, w64(r.value) == w64(counts[field]), site='_getnumadr:count', decode=dec, replay=rp)
            ck.prove('layout %s: address list = %s' % (tname, field), pc, z3.BoolVal(isinstance(got_adr, llsym.Ptr) and got_adr.obj == w.map[want_obj].obj and got_adr.off == 0),
                     site='_getnumadr:adr', decode=dec, replay=rp)
            before = sum([w64(counts[f]) for f in order[:order.index(field)]], z3.BitVecVal(0, 64))
            ck.prove('layout %s: map segment starts at %d * (objects of the lists CopyNames writes earlier)' % (tname, mult), pc, w64(got_map) == mult * before, site='_getnumadr:mapadr', decode=dec, replay=rp)
            after = sum([w64(counts[f]) for f in order[order.index(field):]], z3.BitVecVal(0, 64))
            # (implied by the two obligations above given nnames_map = mult * sum of all counts; stated on the suffix sum so that it stays linear for the solver)
            ck.prove('layout %s: map segment inside [0, nnames_map)' % tname, pc, z3.And(w64(got_map) >= 0, w64(got_map) == w64(nm) - mult * after, mult * w64(counts[field]) <= mult * after),
                     site='_getnumadr:segment', decode=dec, replay=rp)
        ck.reach('layout precondition %s' % tname, pre)
        ck.memory_obligations(res)
    return ck


def hash_smt(bytes_, n):
    """mj_hashString on a NUL-terminated symbolic byte string (bytes_ includes positions up to the bound), modulo n"""
    h = z3.BitVecVal(5381, 64); done = z3.BoolVal(False)
    for c in bytes_:
        done = z3.Or(done, c == 0)
        h = z3.If(done, h, ((h << 5) + h) ^ z3.SignExt(56, c))
    return z3.URem(h, z3.BitVecVal(n, 64))


def streq(a, b):
    eq = z3.BoolVal(True); done = z3.BoolVal(False)
    for x, y in zip(a, b):
        eq = z3.And(eq, z3.Or(done, x == y)); done = z3.Or(done, x == 0)
    return eq


def stub_strncmp(ex, st, args, ins):
    a, b, n = args
    K = st.aux['strcap']
    res = z3.BitVecVal(0, 32); reached = z3.BoolVal(True)
    parts = []
    for i in range(K):
        guard = z3.And(reached, z3.UGT(n, i))
        st.pc.append(guard)
        try:
            ca = ex.load(st, ex.gep(st, IntT(8), a, [(IntT(64), z3.BitVecVal(i, 64))]), IntT(8))
            cb = ex.load(st, ex.gep(st, IntT(8), b, [(IntT(64), z3.BitVecVal(i, 64))]), IntT(8))
        finally:
            st.pc.pop()
        if ca is None or cb is None: break
        parts.append((guard, ca, cb))
        reached = z3.And(guard, ca == cb, ca != 0)
    for guard, ca, cb in reversed(parts):
        res = z3.If(z3.And(guard, ca != cb), z3.ZeroExt(24, ca) - z3.ZeroExt(24, cb), z3.If(guard, res if True else res, res))
    # sequential semantics: first differing position decides
    out = z3.BitVecVal(0, 32)
    for guard, ca, cb in reversed(parts):
        out = z3.If(z3.And(guard, ca != cb), z3.ZeroExt(24, ca) - z3.ZeroExt(24, cb), z3.If(z3.And(guard, ca == 0), z3.BitVecVal(0, 32), out))
    if len(parts) == K:
        # comparison could continue past the modelled cap: only sound if it has stopped by then
        ex.add_obl(st, z3.Not(reached), 'strncmp model cap reached', kind='model')
    return out


def unit_lookup(tier, N, slen, tname='mjOBJ_GEOM', nbody=1):
    ck = Checker('lookup_N%d_len%d' % (N, slen), tier, timeout_s=120)
    L = lay(); K = build.enum_values('mjOBJ_'); order, cnt, mult = facts()
    field = TYPE_FIELD[tname]
    w = W.World()
    M = W.SB(w, L, 'mjModel_', 'm')
    for f in order:
        n_ = N if f == field else (nbody if f == 'name_bodyadr' else 0)
        M.set(cnt[f], n_)
        if f != field: M.arr(f, 'i32', max(n_, 1), [0] * max(n_, 1), name=f)
    pre_cells = mult * sum((N if f == field else (nbody if f == 'name_bodyadr' else 0)) for f in order[:order.index(field)])
    post_cells = mult * sum((N if f == field else (nbody if f == 'name_bodyadr' else 0)) for f in order[order.index(field) + 1:])
    tsize = mult * N
    M.set('nnames_map', pre_cells + tsize + post_cells)
    slot = slen + 1
    base = 1 + nbody   # model name "" + one empty body name per body
    nnames = base + N * slot
    M.set('nnames', nnames)
    no = w.obj('names', nnames)
    for i in range(base): no.put(i, 'u8', 0)
    names = []
    for j in range(N):
        bs = [no.sym(base + j * slot + k, 'u8', 'name%d_%d' % (j, k)) for k in range(slen)]
        no.put(base + j * slot + slen, 'u8', 0); names.append(bs + [z3.BitVecVal(0, 8)])
    M.o.put(M.off('names'), 'ptr', (no, 0))
    adr = [base + j * slot for j in range(N)]
    M.arr(field, 'i32', N, adr, name=field)
    # table filled by the insertion rule of namelist(): linear probing from hash, empty names skipped
    table = [I(-1)] * tsize
    for j in range(N):
        named = names[j][0] != 0
        h = hash_smt(names[j], tsize)
        placed = z3.Not(named); newt = list(table)
        for k in range(tsize):
            for s_ in range(tsize):
                here = z3.And(z3.Not(placed), h == ((s_ - k) % tsize), table[s_] == -1)
                newt[s_] = z3.If(here, I(j), newt[s_])
            placed = z3.Or(placed, *[z3.And(h == ((s_ - k) % tsize), table[s_] == -1) for s_ in range(tsize)])
        table = newt
    tvals = [I(-1)] * pre_cells + table + [I(-1)] * post_cells
    to, _ = w.arr('names_map', 'i32', len(tvals), tvals)
    M.o.put(M.off('names_map'), 'ptr', (to, 0))
    qo = w.obj('query', slen + 1)
    q = [qo.sym(k, 'u8', 'q%d' % k) for k in range(slen)] + [z3.BitVecVal(0, 8)]; qo.put(slen, 'u8', 0)
    pre = []
    for j in range(N):
        for k in range(slen - 1): pre.append(z3.Implies(names[j][k] == 0, names[j][k + 1] == 0))   # bytes after NUL irrelevant: normalise to 0
        for j2 in range(j): pre.append(z3.Or(names[j][0] == 0, names[j2][0] == 0, z3.Not(streq(names[j], names[j2]))))
    for k in range(slen - 1): pre.append(z3.Implies(q[k] == 0, q[k + 1] == 0))
    tval = K[tname]
    dec = lambda mdl: {'names': [bytes(W.evalnum(mdl, c) for c in nm[:-1]).split(b'\0')[0].decode('latin1') for nm in names], 'query': bytes(W.evalnum(mdl, c) for c in q[:-1]).split(b'\0')[0].decode('latin1')}
    stubs = {}
    # ---- name2id on an arbitrary query
    ex = llsym.Exec(mod(), loop_bound=tsize + slen + 4, stubs=stubs)
    st = w.to_state(ex); st.pc += pre; st.aux['strcap'] = slen + 1
    args = [('ptr', (M.o, 0)), ('i32', tval), ('ptr', (qo, 0))]
    res = ex.run('@mj_name2id', [w.P(M.o), I(tval), w.P(qo)], st)
    ck.note_results(ex, res)
    for r in res:
        if r.kind != 'return': continue
        pc = r.state.pc
        rp = W.make_replay(so(), 'mj_name2id', w, args, restype='i32', ret_term=r.value)
        match = [z3.And(names[j][0] != 0, streq(q, names[j])) for j in range(N)]
        want = I(-1)
        for j in reversed(range(N)): want = z3.If(match[j], I(j), want)
        ck.prove('name2id(q) = j iff q is the name of object j, -1 iff q is no name (N=%d, len<=%d)' % (N, slen), pc, z3.Implies(q[0] != 0, r.value == want), site='mj_name2id:lookup', decode=dec, replay=rp)
    ck.reach('lookup precondition with all names set', pre + [nm[0] != 0 for nm in names])
    ck.memory_obligations(res, decode=dec, replay=W.make_asan_replay(so_asan, [('mj_name2id', args, 'i32')], w), kinds=('mem', 'model'))
    # ---- id2name
    idv = z3.BitVec('id', 32); w.syms.append(('id', 'i32', idv))
    ex2 = llsym.Exec(mod(), loop_bound=8, stubs=stubs)
    st2 = w.to_state(ex2); st2.pc += pre
    args2 = [('ptr', (M.o, 0)), ('i32', tval), ('i32', idv)]
    res2 = ex2.run('@mj_id2name', [w.P(M.o), I(tval), idv], st2)
    ck.note_results(ex2, res2)
    for r in res2:
        if r.kind != 'return': continue
        pc = r.state.pc; p = r.value
        inr = z3.And(idv >= 0, idv < N)
        named = z3.Or(*[z3.And(idv == j, names[j][0] != 0) for j in range(N)])
        if isinstance(p, llsym.Ptr) and p.obj == 0:
            ck.prove('id2name = NULL only if id out of range or object unnamed', pc, z3.Not(z3.And(inr, named)), site='mj_id2name:null', decode=dec)
        else:
            off = p.off if not isinstance(p.off, int) else z3.BitVecVal(p.off, 64)
            wantoff = z3.BitVecVal(0, 64)
            for j in range(N): wantoff = z3.If(idv == j, z3.BitVecVal(adr[j], 64), wantoff)
            ck.prove('id2name returns names + name_adr[id] for a named object in range', pc, z3.And(inr, named, z3.BoolVal(p.obj == w.map[no].obj), off == wantoff), site='mj_id2name:pointer', decode=dec)
    ck.memory_obligations(res2, decode=dec, replay=W.make_asan_replay(so_asan, [('mj_id2name', args2, 'ptr')], w))
    return ck


def units(tier):
    u = [('layout', 'unit_layout', {})]
    cfg = [(1, 1), (1, 2), (2, 1), (2, 2), (3, 1), (2, 3)] if tier == 'quick' else [(1, 1), (1, 2), (2, 1), (2, 2), (3, 1), (3, 2), (2, 3)]
    for N, sl in cfg: u.append(('lookup_N%d_len%d' % (N, sl), 'unit_lookup', {'N': N, 'slen': sl}))
    if tier == 'thorough': u.append(('lookup_body_N2_len2', 'unit_lookup', {'N': 2, 'slen': 2, 'tname': 'mjOBJ_KEY', 'nbody': 2}))
    return u
