"""C51 (PID part): the PID actuator plugin's Compute / ActDot follow the documented control law and write only their own slices (llsym over the C++ IR)."""
import z3
from vf import ir, build, llsym, world as W
from vf.runner import Checker
from vf.irparse import IntT, FpT, NamedT

ID = 'C51'
LEVEL = 'other'
FLAGS = ['-fno-exceptions', '-I' + build.REPO + '/plugin/actuator']
TUS = ['plugin/actuator/pid.cc', 'src/engine/engine_util_misc.c', 'src/engine/engine_util_blas.c']
SUP = ['src/engine/engine_util_misc.c', 'src/engine/engine_util_blas.c', 'src/engine/engine_util_errmem.c']
EXPLANATION = ('plugin/actuator/pid.cc is lowered by clang++ to LLVM IR and the real member functions Pid::Compute and Pid::ActDot (with GetState, GetCtrl, NextActivation and the libstdc++ optional/vector accessors they call, '
               'all executed from the IR) run in llsym on a Pid object laid out from the IR\'s own struct types: gains, imax, slewmax, their has_value flags, timestep, time, ctrl, act, act_dot, length and velocity are symbolic; '
               'actearly, ctrllimited, actlimited and the dynamics type are symbolic; the configuration family (ki zero/non-zero, imax set, slewmax set, dyntype none / stateful) is enumerated over all combinations Pid::Create accepts, one unit each. For every path z3 must show: force = kp*e + kd*de + ki*I with '
               'e = setpoint - length, de = setpoint_dot - velocity, I = clip(act_I + e*dt, -imax, imax) (0 when ki = 0), setpoint = ctrl clipped to ctrlrange (dyntype none) or the last activation variable, '
               'slew-limited to previous +- slewmax*dt once time > 0; ActDot integrates the integral and setpoint activation slots so that after the Euler step they hold exactly I and the setpoint '
               '(so |I| <= imax and |setpoint - previous| <= slewmax*dt); only actuator_force / act_dot cells of the plugin\'s own actuators are written, every other cell of mjData is untouched; every access in bounds.')
BOUNDS = {'quick': {'model': '2-3 actuators; the other actuators are scalar (1 control, 1 output) or multi-input/output (so3: 3 controls 3 outputs; builtin pid: 3 controls 1 output), so ctrladr/outadr differ from the actuator id; plugin drives [1], [0,1] or [0,2]', 'dyntype': 'none / integrator / filter (Euler), actearly 0/1'}, 'thorough': {'model': 'further layouts incl. a 4-control so3 in front and three plugin actuators'}}
OUTSIDE = ('cable elasticity plugin (plugin/elasticity/cable.cc: quaternion algebra over std::vector state, not encoded); mjDYN_FILTEREXACT early activation (mju_exp); attribute parsing (strtod) and Pid::Create validation; '
           'plugin registration; integration of act by the engine (mj_advance, covered under C05).')
ASSUMPTIONS = ['real-number semantics', 'timestep > 0', 'imax >= 0 and slewmax >= 0 (enforced by Pid::Create), ctrlrange[0] <= ctrlrange[1], actrange[0] <= actrange[1]',
               'actnum = [ki != 0] + [slewmax set] + [dyntype != none] as validated by Pid::Create; activation slots of different actuators do not overlap']
BUDGET = {'quick': 600, 'thorough': 1800}
_c = {}
COMPUTE = '@_ZN6mujoco6plugin8actuator3Pid7ComputeEPK8mjModel_P7mjData_i'
ACTDOT = '@_ZNK6mujoco6plugin8actuator3Pid6ActDotEPK8mjModel_P7mjData_i'


def mod():
    if 'm' not in _c: _c['m'] = ir.load(TUS, flags=FLAGS)
    return _c['m']


def so():
    if 'so' not in _c: _c['so'] = build.native_lib(['plugin/actuator/pid.cc'], SUP, flags=FLAGS, name='pid')
    return _c['so']


def lay():
    if 'l' not in _c: _c['l'] = build.Layout()
    return _c['l']


def prepare(tier): mod(); so(); lay()


def pid_layout(ex):
    """byte offsets of the Pid object, from the struct types of the IR itself"""
    T = lambda n: ex.resolve(NamedT(n))
    pid = T('%"class.mujoco::plugin::actuator::Pid"'); offs, size, _ = ex.struct_layout(pid)
    cfg = T('%"struct.mujoco::plugin::actuator::PidConfig"'); co, csz, _ = ex.struct_layout(cfg)
    assert len(cfg.fields) == 5 and len(pid.fields) == 2, 'PidConfig / Pid changed shape'
    pl = T('%"struct.std::_Optional_payload_base.base"'); po, _, _ = ex.struct_layout(pl)
    return {'p': co[0], 'i': co[1], 'd': co[2], 'imax': co[3] + po[0], 'imax_has': co[3] + po[1], 'slew': co[4] + po[0], 'slew_has': co[4] + po[1], 'vec': offs[1], 'size': size}


def clip(x, lo, hi): return z3.If(x < lo, lo, z3.If(x > hi, hi, x))


def setup(io, acts, cfg):
    """io: per actuator (ctrlnum, outnum) - e.g. an so3 actuator has (3, 3) - from which ctrladr / outadr / nu / nout follow as the compiler assigns them"""
    L = lay(); KD = build.enum_values('mjDYN_')
    w = W.World('real')
    nact = len(io)
    cadr = [sum(c for c, o in io[:i]) for i in range(nact)]; oadr = [sum(o for c, o in io[:i]) for i in range(nact)]
    nu = sum(c for c, o in io); nout = sum(o for c, o in io)
    NA = 3 * nact
    M, _ = W.full_struct(w, L, 'mjModel_', 'MJMODEL_POINTERS', {'nu': nu, 'na': NA, 'nactuator': nact, 'nout': nout}, 'm', default_size=0,
                         symbolic=('actuator_ctrlrange', 'actuator_actrange', 'actuator_dyntype', 'actuator_actearly', 'actuator_ctrllimited', 'actuator_actlimited', 'actuator_actnum'),
                         values={'actuator_actadr': [3 * i for i in range(nact)], 'actuator_ctrladr': cadr, 'actuator_outadr': oadr, 'actuator_ctrlnum': [c for c, o in io], 'actuator_outnum': [o for c, o in io]})
    D, _ = W.full_struct(w, L, 'mjData_', 'MJDATA_POINTERS', {'nu': nu, 'na': NA, 'nactuator': nact, 'nout': nout}, 'd', default_size=0,
                         symbolic=('ctrl', 'act', 'act_dot', 'actuator_length', 'actuator_velocity', 'actuator_force'))
    dt = M.sym('opt.timestep', 'dt'); tm = D.sym('time', 'time')
    ex = llsym.Exec(mod(), fpmode='real', loop_bound=len(acts) + 3)
    lo = pid_layout(ex)
    P = w.obj('pid', lo['size']).zeros()
    c = {k: P.sym(lo[k], 'f64', k) for k in ('p', 'i', 'd', 'imax', 'slew')}
    c['imax_has'] = P.sym(lo['imax_has'], 'u8', 'imax_has'); c['slew_has'] = P.sym(lo['slew_has'], 'u8', 'slew_has')
    vo, _ = w.arr('actuators', 'i32', len(acts), list(acts))
    P.put(lo['vec'], 'ptr', (vo, 0)); P.put(lo['vec'] + 8, 'ptr', (vo, 4 * len(acts))); P.put(lo['vec'] + 16, 'ptr', (vo, 4 * len(acts)))
    A = {k: M.arrays[k][3] for k in ('actuator_ctrlrange', 'actuator_actrange', 'actuator_dyntype', 'actuator_actearly', 'actuator_ctrllimited', 'actuator_actlimited', 'actuator_actnum')}
    V = {k: D.arrays[k][3] for k in ('ctrl', 'act', 'act_dot', 'actuator_length', 'actuator_velocity', 'actuator_force')}
    pre = [dt > 0, z3.Or(c['imax_has'] == 0, c['imax_has'] == 1), z3.Or(c['slew_has'] == 0, c['slew_has'] == 1), c['imax'] >= 0, c['slew'] >= 0,
           z3.Implies(c['i'] == 0, c['imax_has'] == 0)]      # FromModel: i_max only set when i_gain != 0
    # configuration family of this unit (the code still branches on the symbolic cells; the family fixes which branch is feasible)
    has_i, imax_has, slew_has, dynnone = cfg
    pre += [c['i'] != 0 if has_i else c['i'] == 0, c['imax_has'] == int(imax_has), c['slew_has'] == int(slew_has)]
    for u in range(nu):
        pre += [z3.Or(A['actuator_ctrllimited'][u] == 0, A['actuator_ctrllimited'][u] == 1), A['actuator_ctrlrange'][2 * u] <= A['actuator_ctrlrange'][2 * u + 1]]
    for i in range(nact):
        dyn = A['actuator_dyntype'][i]
        pre += [(dyn == KD['mjDYN_NONE']) if (i not in acts or dynnone[acts.index(i) % len(dynnone)]) else z3.Or(dyn == KD['mjDYN_INTEGRATOR'], dyn == KD['mjDYN_FILTER']),
                z3.Or(A['actuator_actearly'][i] == 0, A['actuator_actearly'][i] == 1),
                z3.Or(A['actuator_actlimited'][i] == 0, A['actuator_actlimited'][i] == 1),
                A['actuator_actrange'][2 * i] <= A['actuator_actrange'][2 * i + 1]]
        if i in acts:
            b1 = lambda cond: z3.If(cond, z3.BitVecVal(1, 32), z3.BitVecVal(0, 32))
            pre.append(A['actuator_actnum'][i] == b1(c['i'] != 0) + b1(c['slew_has'] == 1) + b1(dyn != KD['mjDYN_NONE']))
        else:
            pre.append(z3.And(A['actuator_actnum'][i] >= 0, A['actuator_actnum'][i] <= 3))
    return dict(w=w, M=M, D=D, P=P, ex=ex, c=c, A=A, V=V, dt=dt, tm=tm, pre=pre, KD=KD, nu=nu, nout=nout, nact=nact, cadr=cadr, oadr=oadr, acts=acts, NA=NA, cfg=cfg)


def reference(S, i, early):
    """documented law for actuator i in this unit's configuration family; `early`: Compute honours actearly, ActDot never does"""
    c, A, V, dt, tm, KD = S['c'], S['A'], S['V'], S['dt'], S['tm'], S['KD']
    has_i, imax_has, slew_has, dynnone = S['cfg']; none = dynnone[S['acts'].index(i) % len(dynnone)]
    adr = 3 * i
    nI = 1 if has_i else 0; last = nI + (1 if slew_has else 0)      # slots: [integral][previous setpoint][dynamics activation]
    u = S['cadr'][i]; o = S['oadr'][i]                                # the actuator's own control and output slots
    if none:
        raw = V['ctrl'][u]
        sp = z3.If(A['actuator_ctrllimited'][u] != 0, clip(raw, A['actuator_ctrlrange'][2 * u], A['actuator_ctrlrange'][2 * u + 1]), raw)
        sp_dot = z3.RealVal(0)
    else:
        a_last = V['act'][adr + last]; ad_last = V['act_dot'][adr + last]
        nxt = a_last + ad_last * dt
        nxt = z3.If(A['actuator_actlimited'][i] != 0, clip(nxt, A['actuator_actrange'][2 * i], A['actuator_actrange'][2 * i + 1]), nxt)
        sp = z3.If(A['actuator_actearly'][i] != 0, nxt, a_last) if early else a_last
        sp_dot = ad_last
    prev = V['act'][adr + nI]
    if slew_has: sp = z3.If(tm > 0, clip(sp, prev - c['slew'] * dt, prev + c['slew'] * dt), sp)
    e = sp - V['actuator_length'][o]
    de = sp_dot - V['actuator_velocity'][o]
    if has_i:
        integ = V['act'][adr] + e * dt
        if imax_has: integ = clip(integ, -c['imax'], c['imax'])
    else: integ = z3.RealVal(0)
    force = c['p'] * e + c['d'] * de + c['i'] * integ
    return dict(sp=sp, e=e, de=de, integ=integ, force=force, has_i=has_i, has_s=slew_has, nI=nI, prev=prev)


def decoder(S):
    names = dict(S['c']); names.update(dt=S['dt'], time=S['tm'])
    def dec(mdl):
        out = {k: str(W.evalnum(mdl, v)) for k, v in names.items()}
        for k in ('actuator_dyntype', 'actuator_actearly', 'actuator_ctrllimited', 'actuator_actnum'): out[k] = [W.evalnum(mdl, v) for v in S['A'][k]]
        for k in ('ctrl', 'act', 'act_dot', 'actuator_length', 'actuator_velocity'): out[k] = [str(W.evalnum(mdl, v)) for v in S['V'][k]]
        return out
    return dec


def footprint(S, ck, r, allowed, fname, rp, dec):
    """every f64 cell of the symbolic mjData arrays outside `allowed` keeps its initial term; struct cells keep their pointers"""
    ex, w, D = S['ex'], S['w'], S['D']
    same = []
    for k, vals in S['V'].items():
        for j, v in enumerate(vals):
            if (k, j) in allowed: continue
            same.append(ex.load(r.state, w.P(D.arrays[k][0], 8 * j), FpT('double')) == v)
    ck.prove('%s: no cell of ctrl/act/act_dot/length/velocity/force outside the plugin\'s own slice changes' % fname, r.state.pc, z3.And(*same), site='%s:footprint' % fname, decode=dec, replay=rp)
    dobj = r.state.objs[w.map[D.o].obj]; d0 = D.o.cells
    ok = set(dobj.cells) == set(d0) and all(not (ty == 'ptr') or (isinstance(dobj.cells[off][0], llsym.Ptr) and v is not None and dobj.cells[off][0].obj == w.map[v[0]].obj and dobj.cells[off][0].off == v[1]) or v is None
                                             for off, (ty, v) in d0.items())
    ck.prove('%s: the mjData struct itself is not written' % fname, r.state.pc, z3.BoolVal(bool(ok)), site='%s:struct' % fname)
    pobj = r.state.objs[w.map[S['P'].o if hasattr(S['P'], 'o') else S['P']].obj]
    # zero-default objects of mjData (arrays not made symbolic) must still be all zero: any store creates a cell
    touched = []
    for k, (o, ety, n, vs) in D.arrays.items():
        if vs is None and n:
            so_ = r.state.objs[w.map[o].obj]
            if any(True for off, cell in so_.cells.items() if not (z3.is_expr(cell[0]) and z3.is_true(z3.simplify(cell[0] == 0))) and cell[0] is not None and not isinstance(cell[0], (int, float))): touched.append(k)
    ck.prove('%s: no other mjData array is written' % fname, r.state.pc, z3.BoolVal(not touched), site='%s:other-arrays' % fname, decode=lambda m: {'arrays': touched})


def unit_compute(tier, io, acts, cfg):
    ck = Checker('compute', tier, timeout_s=120, semantics='real')
    S = setup(io, acts, cfg); nu = S['nout']; ex, w, D, M, P = S['ex'], S['w'], S['D'], S['M'], S['P']
    st = w.to_state(ex); st.pc += S['pre']
    res = ex.run(COMPUTE, [w.P(P), w.P(M.o), w.P(D.o), z3.BitVecVal(0, 32)], st)
    ck.note_results(ex, res)
    dec = decoder(S)
    args = [('ptr', (P, 0)), ('ptr', (M.o, 0)), ('ptr', (D.o, 0)), ('i32', 0)]
    nret = 0
    for r in res:
        if r.kind != 'return': continue
        nret += 1
        F = [ex.load(r.state, w.P(D.arrays['actuator_force'][0], 8 * i), FpT('double')) for i in range(nu)]
        outs = [('force%d' % i, D.arrays['actuator_force'][0], 8 * i, 'f64', F[i]) for i in range(nu)]
        rp = W.make_replay(so(), COMPUTE[1:], w, args, outputs=outs, semantics='real')
        for i in acts:
            ref = reference(S, i, early=True)
            ck.prove('Compute: the force output of actuator %d = kp*e + kd*de + ki*I (clipped integral, slew-limited / clamped setpoint of its own control)' % i, r.state.pc, F[S['oadr'][i]] == ref['force'], site='Pid::Compute:law', decode=dec, replay=rp)
        footprint(S, ck, r, {('actuator_force', S['oadr'][i]) for i in acts}, 'Pid::Compute', rp, dec)
    ck.selfcheck('returning paths', nret > 0, nret)
    ck.reach('preconditions satisfiable', S['pre'])
    ck.memory_obligations(res, decode=dec)
    return ck


def unit_actdot(tier, io, acts, cfg):
    ck = Checker('actdot', tier, timeout_s=120, semantics='real')
    S = setup(io, acts, cfg); ex, w, D, M, P = S['ex'], S['w'], S['D'], S['M'], S['P']
    st = w.to_state(ex); st.pc += S['pre']
    res = ex.run(ACTDOT, [w.P(P), w.P(M.o), w.P(D.o), z3.BitVecVal(0, 32)], st)
    ck.note_results(ex, res)
    dec = decoder(S); c = S['c']; dt = S['dt']; V = S['V']
    args = [('ptr', (P, 0)), ('ptr', (M.o, 0)), ('ptr', (D.o, 0)), ('i32', 0)]
    nret = 0
    for r in res:
        if r.kind != 'return': continue
        nret += 1
        AD = [ex.load(r.state, w.P(D.arrays['act_dot'][0], 8 * j), FpT('double')) for j in range(S['NA'])]
        outs = [('act_dot%d' % j, D.arrays['act_dot'][0], 8 * j, 'f64', AD[j]) for j in range(S['NA'])]
        rp = W.make_replay(so(), ACTDOT[1:], w, args, outputs=outs, semantics='real')
        allowed = set()
        for i in acts:
            adr = 3 * i
            # ActDot reads act_dot of the dynamics slot only through NextActivation, never (actearly=false): its reference uses the initial act_dot terms
            ref = reference(S, i, early=False)
            if ref['has_i']:
                nxt0 = V['act'][adr] + dt * AD[adr]
                ck.prove('ActDot: after the Euler step the integral slot of actuator %d holds clip(I + e*dt, +-imax)' % i, r.state.pc, nxt0 == ref['integ'], site='Pid::ActDot:integral', decode=dec, replay=rp)
                if S['cfg'][1]: ck.prove('ActDot: the stored integral stays within +-imax', r.state.pc, z3.And(nxt0 <= c['imax'], nxt0 >= -c['imax']), site='Pid::ActDot:imax', decode=dec, replay=rp)
            nI = ref['nI']
            if ref['has_s']:
                nxt = V['act'][adr + nI] + dt * AD[adr + nI]
                ck.prove('ActDot: after the Euler step the setpoint slot of actuator %d holds the (slew-limited) setpoint' % i, r.state.pc, nxt == ref['sp'], site='Pid::ActDot:setpoint', decode=dec, replay=rp)
                ck.prove('ActDot: setpoint moves by at most slewmax*dt per step once time > 0', r.state.pc + [S['tm'] > 0], z3.And(nxt - V['act'][adr + nI] <= c['slew'] * dt, V['act'][adr + nI] - nxt <= c['slew'] * dt),
                         site='Pid::ActDot:slew', decode=dec, replay=rp)
            for k in range(3):
                own = (ref['has_i'] and k == 0) or (ref['has_s'] and k == nI)
                if own: allowed.add(('act_dot', adr + k))
        footprint(S, ck, r, allowed, 'Pid::ActDot', rp, dec)
    ck.selfcheck('returning paths', nret > 0, nret)
    ck.reach('preconditions satisfiable', S['pre'])
    ck.memory_obligations(res, decode=dec)
    return ck


def ioname(io): return 'io' + '-'.join('%d%d' % t for t in io)


def units(tier):
    one = (1, 1); so3 = (3, 3); pid3 = (3, 1)
    lay_ = [([one, one], [1]), ([so3, one], [1]), ([one, pid3, one], [0, 2])]
    if tier != 'quick': lay_ += [([one, one], [0, 1]), ([one, one, one], [0, 1, 2]), ([(4, 3), one, one], [1, 2]), ([one, so3, one], [0, 2]), ([pid3, one], [1])]
    u = []
    for io, acts in lay_:
        dyns = [(True,), (False,)] if len(acts) == 1 else ([(True, False)] if tier == 'quick' else [(True, True), (True, False), (False, False)])
        for has_i, imax_has in ((0, 0), (1, 0), (1, 1)):
            for slew in (0, 1):
                for dn in dyns:
                    cfg = (bool(has_i), bool(imax_has), bool(slew), dn)
                    nm = '%s_a%s_i%d%d_s%d_d%s' % (ioname(io), ''.join(map(str, acts)), has_i, imax_has, slew, ''.join('n' if x else 'a' for x in dn))
                    u.append(('compute_' + nm, 'unit_compute', {'io': io, 'acts': acts, 'cfg': cfg}))
                    u.append(('actdot_' + nm, 'unit_actdot', {'io': io, 'acts': acts, 'cfg': cfg}))
    return u
