"""C48 sysid signal transforms are pure: the real numpy code runs on object arrays of z3 terms (pysym)."""
import os, sys, types, itertools, json, fractions
import numpy as np
import z3
from vf import build, pysym
from vf.pysym import S
from vf.runner import Checker

ID = 'C48'
LEVEL = 'other'
ENGINE = 'pysym'
TECHNIQUE = 'symbolic execution of the real numpy code on object arrays of z3 terms (shapes/timestamps concrete, data symbolic); z3 decides cell-wise (in)equalities; counterexamples replayed on the unmodified module with float arrays'
EXPLANATION = ('The unmodified functions of python/mujoco/sysid/_src/signal_modifier.py and timeseries.py (loaded by path from /repo) are executed by numpy itself on '
               'dtype=object arrays whose cells are z3 real terms, so views, copies, fancy indexing and in-place operators behave exactly as in production. After each '
               'call z3 is asked whether ANY data values make a cell of the caller\'s ts.data / ts.times differ from its original term (purity), whether writing into the '
               'result can reach the input (aliasing), whether grouped resampling differs from the column-wise reference in any cell, and whether resampling at the original '
               'timestamps returns the original data. Shapes, timestamps, delays and signal mappings range over a small enumerated set; data, bias and gain are symbolic.')
BOUNDS = {'quick': {'T': '2..3 samples', 'D': '1..3 columns', 'delays': [0.0, 0.05, 0.1, -0.05, 0.25]}, 'thorough': {'T': '2..4', 'D': '1..4', 'delays': 'same + per-sensor groupings'}}
OUTSIDE = 'interpolation stays within the range of neighbouring samples / exact at knots: properties of SciPy\'s compiled interp1d, which is replaced here by a piecewise-linear stand-in with the same contract.'
ASSUMPTIONS = ['scipy.interpolate.interp1d(kind=linear, bounds_error=False, fill_value=(first,last)) replaced by an exact piecewise-linear model', 'np.empty in the module under test creates object arrays',
               'parameter.Parameter replaced by an object with a .value attribute (the real module needs colorama/tabulate, absent here)', 'real-number semantics for data']
BUDGET = {'quick': 300, 'thorough': 1500}
SRC = 'python/mujoco/sysid/_src'


def load(symbolic=True):
    """fresh copies of the two real modules; symbolic=True injects the shims"""
    tag = 'vfsym' if symbolic else 'vfconc'
    pkg = 'vf_sysid_%s' % tag
    for n in list(sys.modules):
        if n.startswith(pkg): del sys.modules[n]
    base = os.path.join(build.REPO, SRC)
    # the modules import "from mujoco.sysid._src import parameter, timeseries": provide those names
    import mujoco
    for name in ('mujoco.sysid', 'mujoco.sysid._src'):
        if name not in sys.modules:
            m = types.ModuleType(name); m.__path__ = []; sys.modules[name] = m
    par = types.ModuleType('mujoco.sysid._src.parameter')
    class Parameter:
        def __init__(self, value): self.value = value
    par.Parameter = Parameter
    sys.modules['mujoco.sysid._src.parameter'] = par; sys.modules['mujoco.sysid._src'].parameter = par
    ts = pysym.load_by_path('mujoco.sysid._src.timeseries', os.path.join(base, 'timeseries.py'))
    sys.modules['mujoco.sysid._src'].timeseries = ts
    sm = pysym.load_by_path('mujoco.sysid._src.signal_modifier', os.path.join(base, 'signal_modifier.py'))
    sys.modules['mujoco.sysid._src'].signal_modifier = sm
    if symbolic:
        shim_interp = types.SimpleNamespace(interpolate=types.SimpleNamespace(interp1d=pysym.LinInterp))
        ts.scipy = shim_interp
        sm.np = pysym.NpShim(); 
    global _last_base; _last_base = base
    return ts, sm, Parameter


def load_transform(symbolic=True):
    tsm, sm, Parameter = load(symbolic)
    st = pysym.load_by_path('mujoco.sysid._src.signal_transform', os.path.join(_last_base, 'signal_transform.py'))
    if symbolic: st.np = pysym.NpShim()
    return tsm, sm, st, Parameter


def mapping(ts_mod, D):
    ST = ts_mod.SignalType
    t = list(ST)[0]
    if D == 1: return {'a': (t, np.array([0]))}
    if D == 2: return {'a': (t, np.array([0])), 'b': (t, np.array([1]))}
    if D == 3: return {'a': (t, np.array([0])), 'b': (t, np.array([1, 2]))}
    return {'a': (t, np.array([0, 3])), 'b': (t, np.array([1, 2]))}


def times_for(T): return np.array([0.0, 0.1, 0.2, 0.35][:T])


def differs(orig_terms, new_cells):
    new = [c.t if isinstance(c, S) else pysym.R(c) for c in new_cells]
    return z3.Or(*[a != b for a, b in zip(orig_terms, new)]) if orig_terms else z3.BoolVal(False)


def concrete_replay(fn_name, T, D, sensor, arg, model, data_syms):
    """run the real, unmodified function on float arrays built from the model; reproduced iff the caller's array changed or is aliased"""
    def rp(model_, witness):
        tsm, sm, Parameter = load(symbolic=False)
        vals = np.array([[float(z3.simplify(model_.eval(data_syms[i, j].t, model_completion=True)).as_fraction()) for j in range(D)] for i in range(T)])
        ts = tsm.TimeSeries(times_for(T), vals.copy(), mapping(tsm, D))
        before_d = ts.data.copy(); before_t = ts.times.copy()
        a = arg
        if isinstance(arg, tuple) and arg[0] == 'param':
            v = arg[1]
            if z3.is_expr(v): v = float(z3.simplify(model_.eval(v, model_completion=True)).as_fraction())
            a = Parameter(v)
        if fn_name == 'apply_time_window': out = sm.apply_time_window(ts, *arg)
        elif fn_name == 'apply_resample_and_delay': out = sm.apply_resample_and_delay(ts, *arg)
        elif fn_name == 'resample': out = ts.resample(arg)
        else: out = getattr(sm, fn_name)(ts, sensor, a)
        changed = not (np.array_equal(before_d, ts.data) and np.array_equal(before_t, ts.times))
        out.data[...] = 12345.678
        aliased = not np.array_equal(before_d, ts.data) and not changed
        return (changed or aliased), {'input_changed_by_call': bool(changed), 'result_aliases_input': bool(aliased), 'data': vals.tolist()}
    return rp


def unit_modifier(tier, fn_name, T, D, delay=None):
    ck = Checker('%s_T%d_D%d%s' % (fn_name, T, D, '' if delay is None else '_d%g' % delay), tier, timeout_s=60, semantics='real')
    tsm, sm, Parameter = load(symbolic=True)
    data = pysym.sym_array('x', (T, D)); orig = pysym.terms(data); data0 = data.copy()
    times = times_for(T); t0 = times.copy()
    ts = tsm.TimeSeries(times, data, mapping(tsm, D))
    held = ts.data            # the caller's buffer
    sensor = 'b' if D >= 2 else 'a'
    if fn_name == 'apply_bias': p = z3.Real('bias'); arg = ('param', p); out = sm.apply_bias(ts, sensor, Parameter(S(p)))
    elif fn_name == 'apply_gain': p = z3.Real('gain'); arg = ('param', p); out = sm.apply_gain(ts, sensor, Parameter(S(p)))
    elif fn_name == 'apply_delay': arg = ('param', delay); out = sm.apply_delay(ts, sensor, Parameter(delay))
    elif fn_name == 'apply_time_window': arg = (0.05, 0.25); out = sm.apply_time_window(ts, *arg)
    elif fn_name == 'apply_resample_and_delay':
        sd = {sensor: delay} if D >= 2 else None
        arg = (np.array([0.05, 0.15]), 0.02, sd, True); out = sm.apply_resample_and_delay(ts, *arg)
    elif fn_name == 'resample': arg = times.copy() + (delay or 0.0); out = ts.resample(arg)
    else: raise KeyError(fn_name)
    ck.functions |= {fn_name, 'TimeSeries.resample', 'TimeSeries.interpolate', 'TimeSeries.get_indices', 'TimeSeries.__post_init__'}
    dec = lambda mdl: {'T': T, 'D': D, 'delay': delay, 'data': [str(mdl.eval(t, model_completion=True)) for t in orig]}
    rp = concrete_replay(fn_name, T, D, sensor, arg, None, data0)
    ck.prove('%s: the caller\'s ts.data holds its original terms after the call' % fn_name, [], z3.Not(differs(orig, list(held.ravel()))), site='%s:input-mutated' % fn_name, decode=dec, replay=rp)
    ck.prove('%s: ts.times unchanged and ts.data is still the caller\'s buffer' % fn_name, [], z3.BoolVal(bool(np.array_equal(ts.times, t0)) and ts.data is held), site='%s:times' % fn_name, decode=dec, replay=rp)
    # aliasing (informational, not part of the claim: numpy slices are views by design, e.g. apply_time_window)
    fresh = pysym.sym_array('w', out.data.shape)
    out.data[...] = fresh
    aliased = any((a is not b.t) and not (z3.is_expr(b.t) and a.eq(b.t)) for a, b in zip(orig, held.ravel()))
    ck.notes.append('%s: result %s the input buffer' % (fn_name, 'shares memory with' if aliased else 'does not alias'))
    ck.reach('symbolic data unconstrained', [])
    return ck


def unit_grouping(tier, T, D, delays):
    ck = Checker('grouping_T%d_D%d_%s' % (T, D, '_'.join('%g' % d for d in delays)), tier, timeout_s=60, semantics='real')
    tsm, sm, Parameter = load(symbolic=True)
    data = pysym.sym_array('x', (T, D))
    ts = tsm.TimeSeries(times_for(T), data, mapping(tsm, D))
    names = list(ts.signal_mapping)
    sd = {n: d for n, d in zip(names, delays[1:])}
    new_times = np.array([0.03, 0.11, 0.19][:max(2, T - 1)])
    def grp_replay(predicted):
        def rp(model, witness):
            tsc, smc, _P = load(symbolic=False)
            rng = np.random.RandomState(1)
            vals = rng.uniform(-1, 1, size=(T, D)) * 1e6
            tsx = tsc.TimeSeries(times_for(T), vals, mapping(tsc, D))
            o = smc.apply_resample_and_delay(tsx, new_times, delays[0], sd, predicted)
            ref = smc._apply_resample_and_delay_columnwise(tsx, new_times, smc._build_per_column_delays(tsx, delays[0], sd, predicted))
            return (not np.array_equal(o.data, ref)), {'max_abs_difference': float(np.max(np.abs(o.data - ref))), 'delays': list(delays)}
        return rp
    for predicted in (True, False):
        out = sm.apply_resample_and_delay(ts, new_times, delays[0], sd, predicted)
        percol = sm._build_per_column_delays(ts, delays[0], sd, predicted)
        ref = sm._apply_resample_and_delay_columnwise(ts, new_times, percol)
        a = pysym.terms(out.data); b = pysym.terms(ref)
        ck.prove('grouped resampling equals the column-wise reference in every cell (predicted=%s)' % predicted, [], z3.And(*[x == y for x, y in zip(a, b)]) if len(a) == len(b) else z3.BoolVal(False),
                 site='apply_resample_and_delay:grouping', decode=lambda mdl: {'T': T, 'D': D, 'delays': delays}, replay=grp_replay(predicted))
        ck.prove('result has the requested timestamps and shape', [], z3.BoolVal(out.data.shape == (len(new_times), D) and np.array_equal(out.times, new_times)), site='apply_resample_and_delay:shape')
    # resampling at the original timestamps returns the original data
    out = ts.resample(times_for(T).copy())
    ck.prove('resampling at the original timestamps returns the original data', [], z3.And(*[x == y for x, y in zip(pysym.terms(out.data), pysym.terms(data))]), site='TimeSeries.resample:identity')
    ck.functions |= {'apply_resample_and_delay', '_apply_resample_and_delay_columnwise', '_build_per_column_delays', 'TimeSeries.resample', 'TimeSeries.interpolate'}
    return ck


TRANSFORMS = {   # registered (kind, pattern, target) lists
    'gain_pred': [('gain', 'b', 'predicted')], 'bias_pred': [('bias', 'b', 'predicted')], 'bias_both': [('bias', '*', 'both')], 'gain_bias': [('gain', 'a', 'both'), ('bias', 'b', 'measured')],
    'bias_then_gain_other': [('bias', 'a', 'measured'), ('gain', 'b', 'predicted')], 'none': [], 'two_bias': [('bias', 'a', 'predicted'), ('bias', '*', 'predicted')]}


def unit_transform(tier, T, D, cfg):
    """SignalTransform._apply_gains_biases: pure in its input, equal to the column-wise reference"""
    ck = Checker('transform_T%d_D%d_%s' % (T, D, cfg), tier, timeout_s=60, semantics='real')
    tsm, sm, stm, Parameter = load_transform(symbolic=True)
    def build(mod_ts, mod_st, P, data, pvals):
        tr = mod_st.SignalTransform(); params = {}
        for n_, (kind, pat, target) in enumerate(TRANSFORMS[cfg]):
            p_ = P(pvals[n_]); p_.name = 'p%d' % n_; params[p_.name] = p_
            getattr(tr, kind)(pat, p_, target=target)
        return tr, params, mod_ts.TimeSeries(times_for(T), data, mapping(mod_ts, D))
    pv = [z3.Real('p%d' % i) for i in range(len(TRANSFORMS[cfg]))]
    for target in ('predicted', 'measured'):
        data = pysym.sym_array('x', (T, D)); orig = pysym.terms(data)
        tr, params, ts = build(tsm, stm, Parameter, data, [S(v) for v in pv])
        held = ts.data
        out = tr._apply_gains_biases(ts, target, params)
        def rp(model, witness, target=target):
            tsc, smc, stc, Pc = load_transform(symbolic=False)
            vals = np.array([[float(z3.simplify(model.eval(data[i, j].t, model_completion=True)).as_fraction()) for j in range(D)] for i in range(T)])
            pvs = [float(z3.simplify(model.eval(v, model_completion=True)).as_fraction()) for v in pv]
            if all(x == 0 for x in pvs): pvs = [1.5 + i for i in range(len(pvs))]       # a bias/gain of 0 or an all-zero model would hide a write
            trc, prm, tsx = build(tsc, stc, Pc, vals.copy(), pvs)
            before = tsx.data.copy()
            o = trc._apply_gains_biases(tsx, target, prm)
            ref = trc._apply_gains_biases_reference(tsc.TimeSeries(times_for(T), vals.copy(), mapping(tsc, D)), target, prm)
            changed = not np.array_equal(before, tsx.data); differs_ = not np.array_equal(o.data, ref.data)
            return (changed or differs_), {'input_changed_by_call': bool(changed), 'differs_from_reference': bool(differs_), 'data': vals.tolist(), 'params': pvs, 'target': target}
        dec = lambda mdl: {'T': T, 'D': D, 'transform': TRANSFORMS[cfg], 'params': [str(mdl.eval(v, model_completion=True)) for v in pv]}
        ck.prove('_apply_gains_biases(%s): the caller\'s ts.data holds its original terms after the call' % target, [], z3.Not(differs(orig, list(held.ravel()))), site='SignalTransform._apply_gains_biases:input-mutated', decode=dec, replay=rp)
        data2 = pysym.sym_array('x', (T, D))
        tr2, params2, ts2 = build(tsm, stm, Parameter, data2, [S(v) for v in pv])
        ref = tr2._apply_gains_biases_reference(ts2, target, params2)
        a_ = pysym.terms(out.data); b_ = pysym.terms(ref.data)
        ck.prove('_apply_gains_biases(%s) equals applying apply_gain / apply_bias one by one, in every cell' % target, [], z3.And(*[x == y for x, y in zip(a_, b_)]) if len(a_) == len(b_) else z3.BoolVal(False),
                 site='SignalTransform._apply_gains_biases:reference', decode=dec, replay=rp)
        ck.prove('times and mapping are passed through', [], z3.BoolVal(bool(np.array_equal(out.times, times_for(T))) and out.signal_mapping is ts.signal_mapping), site='SignalTransform._apply_gains_biases:meta')
    ck.functions |= {'SignalTransform._apply_gains_biases', 'SignalTransform._apply_gains_biases_reference', 'SignalTransform.gain', 'SignalTransform.bias', 'apply_gain', 'apply_bias', 'TimeSeries.get_indices'}
    ck.reach('symbolic data unconstrained', [])
    return ck


def units(tier):
    u = []
    shapes = [(2, 1), (3, 2), (3, 3)] if tier == 'quick' else [(2, 1), (3, 2), (3, 3), (4, 3), (4, 4)]
    dl = [0.0, 0.05, 0.1, -0.05, 0.25]
    for T, D in shapes:
        for fn in ('apply_bias', 'apply_gain', 'apply_time_window'):
            u.append(('%s_T%d_D%d' % (fn, T, D), 'unit_modifier', {'fn_name': fn, 'T': T, 'D': D}))
        for d in dl:
            u.append(('apply_delay_T%d_D%d_d%g' % (T, D, d), 'unit_modifier', {'fn_name': 'apply_delay', 'T': T, 'D': D, 'delay': d}))
            u.append(('resample_T%d_D%d_d%g' % (T, D, d), 'unit_modifier', {'fn_name': 'resample', 'T': T, 'D': D, 'delay': d}))
        u.append(('apply_resample_and_delay_T%d_D%d' % (T, D), 'unit_modifier', {'fn_name': 'apply_resample_and_delay', 'T': T, 'D': D, 'delay': 0.05}))
        if D >= 2:
            for ds in ([(0.0, 0.05, 0.05), (0.02, 0.02, 0.1), (0.0, 0.0, 0.0), (0.0, 0.01, 0.0100000004), (0.3, 0.1 + 0.2, 0.3)]):
                u.append(('grouping_T%d_D%d_%s' % (T, D, '_'.join('%g' % d for d in ds)), 'unit_grouping', {'T': T, 'D': D, 'delays': ds}))
    for T, D in ([(2, 2), (3, 3)] if tier == 'quick' else [(2, 2), (3, 3), (4, 4)]):
        for cfg in TRANSFORMS: u.append(('transform_T%d_D%d_%s' % (T, D, cfg), 'unit_transform', {'T': T, 'D': D, 'cfg': cfg}))
    return u
