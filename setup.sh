#!/bin/bash
# Builds the framework's Python environment offline: an overlay venv of /venv (numpy, scipy, the repo's
# Python deps) plus z3-solver / cvc5 from the local wheelhouse. Idempotent.
set -e
cd "$(dirname "$0")"
V=/verif/.venv
if [ ! -x "$V/bin/python" ] || ! "$V/bin/python" -c "import z3, numpy" 2>/dev/null; then
  rm -rf "$V"
  /venv/bin/python -m venv "$V"
  SP=$("$V/bin/python" -c "import site; print(site.getsitepackages()[0])")
  echo "import site; site.addsitedir('/venv/lib/python3.12/site-packages')" > "$SP/vf_overlay.pth"
  PIP_NO_INDEX=1 "$V/bin/pip" install -q --no-index --find-links /opt/veriftools/wheels z3-solver cvc5 >/dev/null 2>&1 || \
  PIP_NO_INDEX=1 "$V/bin/pip" install -q --no-index --find-links /opt/veriftools/wheels z3-solver
fi
"$V/bin/python" -c "import z3, numpy; print('venv ok: z3', z3.get_version_string(), 'numpy', numpy.__version__)"
mkdir -p /verif/.work /verif/evidence
