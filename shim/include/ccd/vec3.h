#ifndef CCD_VEC3_STUB_H
#define CCD_VEC3_STUB_H
typedef double ccd_real_t;
typedef struct { ccd_real_t v[3]; } ccd_vec3_t;
#endif
