"""LLVM-14 textual IR parser (subset emitted by clang for the mujoco sources). Prototype."""
import re

TOK = re.compile(r'''
   (?P<ws>\s+)
 | (?P<cstr>c"(?:[^"\\]|\\[0-9A-Fa-f]{2}|\\\\)*")
 | (?P<qname>[%@$]"[^"]*")
 | (?P<name>[%@$][-a-zA-Z$._0-9]+)
 | (?P<meta>![-a-zA-Z$._0-9]*(?:\([^)]*\))?)
 | (?P<attr>\#[0-9]+)
 | (?P<str>"[^"]*")
 | (?P<hex>0x[KLMHR]?[0-9A-Fa-f]+)
 | (?P<num>[-+]?[0-9]+\.[0-9]*(?:[eE][-+]?[0-9]+)?|[-+]?[0-9]+)
 | (?P<dots>\.\.\.)
 | (?P<id>[a-zA-Z_][a-zA-Z0-9_.]*)
 | (?P<p>[()\[\]{}<>,=*:|])
''', re.X)

def tokenize(line):
    out = []
    pos = 0
    n = len(line)
    while pos < n:
        if line[pos] == ';':
            break
        m = TOK.match(line, pos)
        if not m:
            raise SyntaxError('tokenize: %r at %d in %r' % (line[pos:pos+20], pos, line))
        pos = m.end()
        k = m.lastgroup
        if k == 'ws':
            continue
        out.append((k, m.group()))
    return out

# ---------------- types
class Ty:
    pass
class IntT(Ty):
    def __init__(s, w): s.w = w
    def __repr__(s): return 'i%d' % s.w
    def __eq__(s, o): return isinstance(o, IntT) and o.w == s.w
    def __hash__(s): return hash(('i', s.w))
class FpT(Ty):
    def __init__(s, k): s.k = k   # 'float' | 'double'
    def __repr__(s): return s.k
    def __eq__(s, o): return isinstance(o, FpT) and o.k == s.k
    def __hash__(s): return hash(s.k)
class VoidT(Ty):
    def __repr__(s): return 'void'
class PtrT(Ty):
    def __init__(s, to): s.to = to
    def __repr__(s): return '%r*' % (s.to,)
class ArrT(Ty):
    def __init__(s, n, el): s.n = n; s.el = el
    def __repr__(s): return '[%d x %r]' % (s.n, s.el)
class StructT(Ty):
    def __init__(s, fields, packed=False): s.fields = fields; s.packed = packed
    def __repr__(s): return '{%s}' % ', '.join(map(repr, s.fields))
class NamedT(Ty):
    def __init__(s, name): s.name = name
    def __repr__(s): return s.name
class FnT(Ty):
    def __init__(s, ret, args, va): s.ret = ret; s.args = args; s.va = va
    def __repr__(s): return '%r(%s)' % (s.ret, ', '.join(map(repr, s.args)))
class OpaqueT(Ty):
    def __repr__(s): return 'opaque'
class LabelT(Ty):
    def __repr__(s): return 'label'
class MetaT(Ty):
    def __repr__(s): return 'metadata'

# ---------------- operands
class Reg:
    def __init__(s, n): s.n = n
    def __repr__(s): return s.n
class GlobalRef:
    def __init__(s, n): s.n = n
    def __repr__(s): return s.n
class Const:
    def __init__(s, kind, v=None): s.kind = kind; s.v = v   # int, fp, null, undef, zero, true/false, agg, cstr
    def __repr__(s): return '%s(%r)' % (s.kind, s.v)
class CExpr:
    def __init__(s, op, args, extra=None): s.op = op; s.args = args; s.extra = extra
    def __repr__(s): return 'cexpr %s %r' % (s.op, s.args)

class P:
    """token-stream parser"""
    def __init__(s, toks): s.t = toks; s.i = 0
    def peek(s, k=0): return s.t[s.i+k] if s.i+k < len(s.t) else (None, None)
    def next(s): r = s.t[s.i]; s.i += 1; return r
    def accept(s, v):
        if s.peek()[1] == v: s.i += 1; return True
        return False
    def expect(s, v):
        k, x = s.next()
        if x != v: raise SyntaxError('expected %r got %r in %r' % (v, x, s.t))
    def eof(s): return s.i >= len(s.t)

    def ty(s):
        k, x = s.next()
        if k == 'id':
            if re.fullmatch(r'i[0-9]+', x): t = IntT(int(x[1:]))
            elif x in ('float', 'double'): t = FpT(x)
            elif x == 'void': t = VoidT()
            elif x == 'opaque': t = OpaqueT()
            elif x == 'label': t = LabelT()
            elif x == 'metadata': t = MetaT()
            elif x == 'x86_fp80': t = FpT('x86_fp80')
            else: raise SyntaxError('type? %r' % x)
        elif k in ('name', 'qname'): t = NamedT(x)
        elif x == '[':
            n = int(s.next()[1]); s.expect('x'); el = s.ty(); s.expect(']'); t = ArrT(n, el)
        elif x == '{':
            fs = []
            if not s.accept('}'):
                while True:
                    fs.append(s.ty())
                    if s.accept('}'): break
                    s.expect(',')
            t = StructT(fs)
        elif x == '<':
            if s.peek()[1] == '{':
                s.next(); fs = []
                if not s.accept('}'):
                    while True:
                        fs.append(s.ty())
                        if s.accept('}'): break
                        s.expect(',')
                s.expect('>'); t = StructT(fs, packed=True)
            else:
                n = int(s.next()[1]); s.expect('x'); el = s.ty(); s.expect('>'); t = ArrT(n, el); t.vector = True
        else:
            raise SyntaxError('type? %r in %r' % (x, s.t))
        while True:
            if s.accept('*'): t = PtrT(t)
            elif s.peek()[1] == '(' :
                # function type
                s.next(); args = []; va = False
                if not s.accept(')'):
                    while True:
                        if s.peek()[0] == 'dots': s.next(); va = True
                        else: args.append(s.ty())
                        if s.accept(')'): break
                        s.expect(',')
                t = FnT(t, args, va)
            else: break
        return t

    PARAM_ATTRS = {'noundef','nonnull','signext','zeroext','inreg','noalias','nocapture','readonly','readnone','writeonly','returned','immarg','nest','swiftself','nofree','inalloca'}
    def skip_attrs(s):
        while True:
            k, x = s.peek()
            if k == 'id' and x in s.PARAM_ATTRS: s.next()
            elif k == 'id' and x in ('align', 'dereferenceable', 'dereferenceable_or_null'):
                s.next()
                if s.accept('('): s.next(); s.expect(')')
                else: s.next()
            elif k == 'id' and x in ('byval', 'sret', 'byref', 'preallocated', 'elementtype'):
                s.next(); s.expect('('); s.ty(); s.expect(')')
            else: break

    def val(s, ty):
        k, x = s.next()
        if k in ('name', 'qname'):
            return Reg(x) if x[0] == '%' else GlobalRef(x)
        if k == 'num':
            if isinstance(ty, FpT): return Const('fp', float(x))
            return Const('int', int(x))
        if k == 'hex':
            if isinstance(ty, FpT):
                import struct
                return Const('fp', struct.unpack('>d', bytes.fromhex(x[2:].rjust(16, '0')))[0])
            return Const('int', int(x, 16))
        if k == 'cstr':
            raw = x[2:-1]; b = bytearray(); i = 0
            while i < len(raw):
                if raw[i] == '\\':
                    if raw[i+1] == '\\': b.append(92); i += 2
                    else: b.append(int(raw[i+1:i+3], 16)); i += 3
                else: b.append(ord(raw[i])); i += 1
            return Const('cstr', bytes(b))
        if k == 'id':
            if x in ('null', 'undef', 'poison', 'zeroinitializer', 'true', 'false', 'none'):
                return Const({'null':'null','undef':'undef','poison':'undef','zeroinitializer':'zero','true':'true','false':'false','none':'undef'}[x])
            if x in ('getelementptr',):
                inb = s.accept('inbounds'); s.expect('('); bt = s.ty(); s.expect(',')
                ops = []
                while True:
                    s.accept('inrange')
                    t = s.ty(); v = s.val(t); ops.append((t, v))
                    if s.accept(')'): break
                    s.expect(',')
                return CExpr('gep', ops, bt)
            if x in ('bitcast', 'ptrtoint', 'inttoptr', 'trunc', 'zext', 'sext', 'addrspacecast'):
                s.expect('('); t = s.ty(); v = s.val(t); s.expect('to'); t2 = s.ty(); s.expect(')')
                return CExpr(x, [(t, v)], t2)
            if x in ('icmp', 'fcmp'):
                pred = s.next()[1]; s.expect('('); t = s.ty(); a = s.val(t); s.expect(','); t2 = s.ty(); b = s.val(t2); s.expect(')')
                return CExpr(x, [(t, a), (t2, b)], pred)
            if x in ('add', 'sub', 'mul', 'and', 'or', 'xor', 'shl'):
                while s.peek()[1] in ('nsw', 'nuw'): s.next()
                s.expect('('); t = s.ty(); a = s.val(t); s.expect(','); t2 = s.ty(); b = s.val(t2); s.expect(')')
                return CExpr(x, [(t, a), (t2, b)])
        if x == '[' or x == '{' or x == '<':
            close = {'[':']', '{':'}', '<':'>'}[x]
            if x == '<' and s.peek()[1] == '{': s.next(); close2 = True
            else: close2 = False
            items = []
            if not s.accept('}' if close2 else close):
                while True:
                    t = s.ty(); v = s.val(t); items.append((t, v))
                    if s.accept('}' if close2 else close): break
                    s.expect(',')
            if close2: s.expect('>')
            return Const('agg', items)
        raise SyntaxError('value? %r %r in %r' % (k, x, s.t))

    def tyval(s):
        t = s.ty(); s.skip_attrs(); return t, s.val(t)

class Instr:
    __slots__ = ('dst', 'op', 'a', 'line')
    def __init__(s, dst, op, a, line): s.dst = dst; s.op = op; s.a = a; s.line = line
    def __repr__(s): return s.line

class Fn:
    def __init__(s, name, ret, params, va): s.name = name; s.ret = ret; s.params = params; s.va = va; s.blocks = {}; s.order = []; s.entry = None

class Module:
    def __init__(s): s.types = {}; s.globals = {}; s.fns = {}; s.decls = {}

FAST = {'fast','nnan','ninf','nsz','arcp','contract','afn','reassoc'}
CASTS = {'trunc','zext','sext','fptrunc','fpext','fptoui','fptosi','uitofp','sitofp','ptrtoint','inttoptr','bitcast','addrspacecast'}
BIN = {'add','sub','mul','udiv','sdiv','urem','srem','shl','lshr','ashr','and','or','xor','fadd','fsub','fmul','fdiv','frem'}
LINK = {'private','internal','external','linkonce','linkonce_odr','weak','weak_odr','common','appending','extern_weak','available_externally',
        'dso_local','dso_preemptable','hidden','protected','default','unnamed_addr','local_unnamed_addr','thread_local','externally_initialized'}

def parse_instr(line):
    line = re.sub(r'(,\s*![-\w.]+\s+![-\w.()]+)+\s*$', '', line)
    p = P(tokenize(line))
    dst = None
    if p.peek()[0] in ('name', 'qname') and p.peek(1)[1] == '=':
        dst = p.next()[1]; p.next()
    k, op = p.next()
    a = {}
    if op in BIN:
        while p.peek()[1] in ('nsw', 'nuw', 'exact') or p.peek()[1] in FAST: a.setdefault('flags', []).append(p.next()[1])
        t = p.ty(); x = p.val(t); p.expect(','); y = p.val(t); a.update(ty=t, x=x, y=y)
    elif op == 'fneg':
        while p.peek()[1] in FAST: p.next()
        t = p.ty(); a.update(ty=t, x=p.val(t))
    elif op in ('icmp', 'fcmp'):
        while p.peek()[1] in FAST: p.next()
        pred = p.next()[1]; t = p.ty(); x = p.val(t); p.expect(','); y = p.val(t); a.update(pred=pred, ty=t, x=x, y=y)
    elif op in CASTS:
        t = p.ty(); x = p.val(t); p.expect('to'); t2 = p.ty(); a.update(ty=t, x=x, to=t2)
    elif op == 'select':
        while p.peek()[1] in FAST: p.next()
        tc, c = p.tyval(); p.expect(','); t1, x = p.tyval(); p.expect(','); t2, y = p.tyval(); a.update(c=c, ty=t1, x=x, y=y)
    elif op == 'phi':
        while p.peek()[1] in FAST: p.next()
        t = p.ty(); inc = []
        while True:
            p.expect('['); v = p.val(t); p.expect(','); l = p.next()[1]; p.expect(']'); inc.append((v, l))
            if not p.accept(','): break
        a.update(ty=t, inc=inc)
    elif op == 'alloca':
        if p.peek()[1] == 'inalloca': p.next()
        t = p.ty(); n = None
        if p.accept(','):
            if p.peek()[1] == 'align': pass
            else:
                tn = p.ty(); n = p.val(tn)
        a.update(ty=t, n=n)
    elif op == 'load':
        atomic = p.accept('atomic'); p.accept('volatile')
        t = p.ty(); p.expect(','); pt = p.ty(); ptr = p.val(pt); a.update(ty=t, ptr=ptr, atomic=atomic)
    elif op == 'store':
        atomic = p.accept('atomic'); p.accept('volatile')
        t = p.ty(); v = p.val(t); p.expect(','); pt = p.ty(); ptr = p.val(pt); a.update(ty=t, v=v, ptr=ptr, atomic=atomic)
    elif op == 'getelementptr':
        p.accept('inbounds'); bt = p.ty(); p.expect(','); pt = p.ty(); ptr = p.val(pt); idx = []
        while p.accept(','):
            t = p.ty(); idx.append((t, p.val(t)))
        a.update(base=bt, ptr=ptr, idx=idx)
    elif op in ('call', 'invoke', 'tail', 'musttail', 'notail'):
        if op in ('tail', 'musttail', 'notail'): p.expect('call'); op = 'call'
        while p.peek()[1] in FAST or p.peek()[1] in ('fastcc', 'ccc', 'coldcc'): p.next()
        p.skip_attrs()
        rt = p.ty()
        if isinstance(rt, FnT): rt = rt.ret   # explicit fn type given "ret (args)"
        k2, callee = p.next()
        if k2 == 'id' and callee in ('bitcast',):   # call through bitcast constant
            p.i -= 1; callee = p.val(None)
        elif k2 in ('name', 'qname'):
            callee = Reg(callee) if callee[0] == '%' else GlobalRef(callee)
        else: raise SyntaxError('callee? %r' % line)
        p.expect('('); args = []
        if not p.accept(')'):
            while True:
                t = p.ty(); p.skip_attrs()
                if isinstance(t, MetaT):
                    # metadata args (dbg) -- swallow until , or )
                    depth = 0
                    while not (depth == 0 and p.peek()[1] in (',', ')')):
                        x = p.next()[1]
                        if x == '(': depth += 1
                        if x == ')': depth -= 1
                    args.append((t, None))
                else:
                    args.append((t, p.val(t)))
                if p.accept(')'): break
                p.expect(',')
        a.update(ret=rt, callee=callee, args=args)
        if op == 'invoke':
            # ... to label %x unwind label %y
            while not p.eof() and p.peek()[1] != 'to': p.next()
            p.expect('to'); p.expect('label'); a['normal'] = p.next()[1]; p.expect('unwind'); p.expect('label'); a['unwind'] = p.next()[1]
    elif op == 'br':
        if p.accept('label'): a.update(target=p.next()[1])
        else:
            t = p.ty(); c = p.val(t); p.expect(','); p.expect('label'); t1 = p.next()[1]; p.expect(','); p.expect('label'); t2 = p.next()[1]
            a.update(c=c, t=t1, f=t2)
    elif op == 'switch':
        t = p.ty(); v = p.val(t); p.expect(','); p.expect('label'); d = p.next()[1]; p.expect('['); cases = []
        while not p.accept(']'):
            ct = p.ty(); cv = p.val(ct); p.expect(','); p.expect('label'); cases.append((cv.v, p.next()[1]))
        a.update(ty=t, v=v, default=d, cases=cases)
    elif op == 'ret':
        t = p.ty()
        a.update(ty=t, v=None if isinstance(t, VoidT) else p.val(t))
    elif op == 'unreachable':
        pass
    elif op in ('extractvalue', 'insertvalue'):
        t = p.ty(); v = p.val(t)
        if op == 'insertvalue':
            p.expect(','); t2 = p.ty(); e = p.val(t2); a.update(ety=t2, e=e)
        idx = []
        while p.accept(','): idx.append(int(p.next()[1]))
        a.update(ty=t, v=v, idx=idx)
    elif op == 'atomicrmw':
        p.accept('volatile'); rop = p.next()[1]; pt = p.ty(); ptr = p.val(pt); p.expect(','); t = p.ty(); v = p.val(t); a.update(rop=rop, ptr=ptr, ty=t, v=v)
    elif op == 'cmpxchg':
        p.accept('weak'); p.accept('volatile'); pt = p.ty(); ptr = p.val(pt); p.expect(','); t = p.ty(); c = p.val(t); p.expect(','); t2 = p.ty(); n = p.val(t2); a.update(ptr=ptr, ty=t, cmp=c, new=n)
    elif op == 'fence':
        pass
    elif op in ('landingpad', 'resume', 'freeze', 'va_arg'):
        a['raw'] = line
    else:
        raise SyntaxError('instr? %s in %r' % (op, line))
    return Instr(dst, op, a, line.strip())

def parse_module(path, mod=None):
    mod = mod or Module()
    lines = open(path).read().split('\n')
    i = 0
    cur = None; blk = None
    while i < len(lines):
        line = lines[i]; i += 1
        st = line.strip()
        if not st or st.startswith(';'): continue
        if cur is None:
            if st.startswith('target datalayout'): mod.datalayout = st; continue
            if st.startswith(('target', 'source_filename', 'attributes', '!', 'declare', '$', 'module asm')):
                if st.startswith('declare'):
                    m = re.search(r'@("[^"]*"|[-a-zA-Z$._0-9]+)\(', st)
                    if m: mod.decls['@' + m.group(1)] = st
                continue
            if st.startswith('define'):
                p = P(tokenize(st)); p.expect('define')
                while p.peek()[1] in LINK or p.peek()[1] in ('fastcc', 'ccc', 'noundef', 'nonnull', 'signext', 'zeroext', 'noalias') or p.peek()[1] in ('align', 'dereferenceable', 'dereferenceable_or_null'):
                    x = p.next()[1]
                    if x in ('align', 'dereferenceable', 'dereferenceable_or_null'):
                        if p.accept('('): p.next(); p.expect(')')
                        else: p.next()
                ret = p.ty(); name = p.next()[1]; p.expect('('); params = []; va = False
                if not p.accept(')'):
                    while True:
                        if p.peek()[0] == 'dots': p.next(); va = True
                        else:
                            t = p.ty(); p.skip_attrs(); params.append((t, p.next()[1]))
                        if p.accept(')'): break
                        p.expect(',')
                cur = Fn(name, ret, params, va); mod.fns[name] = cur
                blk = str(len(params)) if all(re.fullmatch(r'%[0-9]+', n) for _, n in params) else 'entry'
                # clang numbers unnamed entry block after params
                blk = '%' + blk if not blk.startswith('%') else blk
                cur.entry = blk; cur.blocks[blk] = []; cur.order.append(blk)
                continue
            m = re.match(r'(%"[^"]*"|%[-a-zA-Z$._0-9]+) = type (.*)', st)
            if m:
                p = P(tokenize(m.group(2))); mod.types[m.group(1)] = p.ty(); continue
            m = re.match(r'(@"[^"]*"|@[-a-zA-Z$._0-9]+) = (.*)', st)
            if m:
                p = P(tokenize(m.group(2)))
                while p.peek()[1] in LINK or (p.peek()[1] == 'thread_local'):
                    x = p.next()[1]
                    if x == 'thread_local' and p.accept('('): p.next(); p.expect(')')
                kind = p.next()[1]   # global | constant
                if kind not in ('global', 'constant'):
                    continue  # alias / ifunc
                t = p.ty(); init = None
                if not p.eof() and p.peek()[1] != ',':
                    init = p.val(t)
                mod.globals[m.group(1)] = (t, init, kind == 'constant'); continue
            continue
        # inside function
        if st == '}':
            cur = None; continue
        m = re.match(r'("[^"]*"|[-a-zA-Z$._0-9]+):', line)
        if m:
            blk = '%' + m.group(1); cur.blocks[blk] = []; cur.order.append(blk); continue
        if st.startswith('switch') or (' switch ' in st.split('=')[-1][:10]):
            while not lines[i-1].strip().endswith(']'):
                st += ' ' + lines[i].strip(); i += 1
        if st.startswith(('invoke', '%')) and ' invoke ' in ' ' + st and 'unwind' not in st:
            st += ' ' + lines[i].strip(); i += 1
        if ('landingpad' in st) and not st.rstrip().endswith(('cleanup',)) :
            # swallow following clause lines
            while i < len(lines) and lines[i].strip().startswith(('catch', 'cleanup', 'filter')): i += 1
        cur.blocks[blk].append(parse_instr(st))
    return mod

if __name__ == '__main__':
    import sys
    m = parse_module(sys.argv[1])
    print(len(m.types), 'types', len(m.globals), 'globals', len(m.fns), 'fns', sum(len(b) for f in m.fns.values() for b in f.blocks.values()), 'instrs')
