"""llsym: symbolic executor over LLVM-14 textual IR (path forking + optional ipdom merging), z3 back end.

Integers are bit-vectors of their machine width (wrap-around), pointers are (object, offset) pairs or,
for the allocator harness, integer addresses into one flat byte region; double/float are either IEEE
terms (fpmode='fp') or reals (fpmode='real', sqrt as an auxiliary variable with t>=0 and t*t==x).
Every load/store/memcpy produces a bounds/null obligation. Anything the executor does not model ends
the path as 'unsupported' (inconclusive), never as a pass.
"""
import re
import z3, time, sys, fractions
from .irparse import *

sys.setrecursionlimit(100000)
PTRW = 64


class Ptr:
    __slots__ = ('obj', 'off')
    def __init__(s, obj, off): s.obj = obj; s.off = off
    def __repr__(s): return 'Ptr(%s,%s)' % (s.obj, s.off)


class FnPtr:
    __slots__ = ('name',)
    def __init__(s, name): s.name = name
    def __repr__(s): return 'FnPtr(%s)' % s.name


NULL = Ptr(0, 0)


class IntPtr:
    """pointer represented by its 64-bit integer address (flat-region harnesses)"""
    __slots__ = ('addr',)
    def __init__(s, addr): s.addr = addr
    def __repr__(s): return 'IntPtr(%s)' % s.addr


class Obj:
    __slots__ = ('size', 'cells', 'name', 'default', 'freed', 'heap')
    def __init__(s, size, name, default=None):
        s.size = size; s.cells = {}; s.name = name; s.default = default; s.freed = False; s.heap = False
    def clone(s):
        o = Obj(s.size, s.name, s.default); o.cells = dict(s.cells); o.freed = s.freed; o.heap = s.heap; return o


class Frame:
    __slots__ = ('fn', 'blk', 'idx', 'regs', 'prev', 'dst', 'after', 'allocas', 'fid')
    _next = [0]
    def __init__(s, fn, blk, regs, dst, after=None):
        s.fn = fn; s.blk = blk; s.idx = 0; s.regs = regs; s.prev = None; s.dst = dst; s.after = after; s.allocas = []
        Frame._next[0] += 1; s.fid = Frame._next[0]
    def clone(s):
        f = Frame(s.fn, s.blk, dict(s.regs), s.dst, s.after); f.idx = s.idx; f.prev = s.prev; f.allocas = list(s.allocas); f.fid = s.fid; return f


class State:
    def __init__(s):
        s.stack = []; s.objs = {}; s.pc = []; s.next_obj = 1; s.log = []; s.obls = []; s.loops = {}; s.flat = None
        s.aux = {}
    def clone(s):
        t = State(); t.stack = [f.clone() for f in s.stack]; t.objs = {k: o.clone() for k, o in s.objs.items()}
        t.pc = list(s.pc); t.next_obj = s.next_obj; t.log = list(s.log); t.obls = list(s.obls); t.loops = dict(s.loops)
        t.flat = None if s.flat is None else dict(s.flat); t.aux = {k: (dict(v) if isinstance(v, dict) else v) for k, v in s.aux.items()}; return t
    def alloc(s, size, name, default=None):
        i = s.next_obj; s.next_obj += 1; s.objs[i] = Obj(size, name, default); return Ptr(i, 0)
    def obj(s, p):
        return s.objs[p.obj]


class Unsupported(Exception): pass
class UnwindBound(Unsupported): pass
class HarnessError(Exception): pass


class Result:
    def __init__(s, kind, state, value=None, info=None): s.kind = kind; s.state = state; s.value = value; s.info = info
    def __repr__(s): return 'Result(%s,%s)' % (s.kind, s.info)


def bvv(v, w): return z3.BitVecVal(v, w)


def is_concrete(v):
    return z3.is_bv_value(v) or z3.is_true(v) or z3.is_false(v) or z3.is_rational_value(v) or z3.is_fprm_value(v) or (z3.is_fp(v) and z3.is_fp_value(v))


class Exec:
    def __init__(s, mod, fpmode='real', loop_bound=64, stubs=None, merge=False, feas_timeout_ms=20000, max_paths=200000):
        s.mod = mod; s.fpmode = fpmode; s.loop_bound = loop_bound; s.merge = merge; s.max_paths = max_paths
        s.stubs = dict(DEFAULT_STUBS); s.stubs.update(stubs or {})
        s.solver = z3.Solver(); s.solver.set('timeout', min(feas_timeout_ms, 5000))
        s.nq = 0; s.tq = 0.0; s.fresh = 0; s.axioms = []; s._lay = {}; s._ipdom = {}
        s.npaths = 0; s.nmerged = 0; s.ninstr = 0; s.fork_symbolic_memcpy = False
        s.slicing = True; s._vars = {}; s._keep = []; s.real_only = None; s.concretise_geps = None
        s.is_shared = None     # callable(st, ptr) -> bool: accesses to shared cells are scheduling points (llconc)
        s.called = set()
    # ---------- layout
    def resolve(s, t):
        while isinstance(t, NamedT): t = s.mod.types[t.name]
        return t
    def sizeof(s, t):
        t = s.resolve(t)
        if isinstance(t, IntT): return max(1, (t.w + 7) // 8)
        if isinstance(t, FpT): return {'float': 4, 'double': 8, 'x86_fp80': 16}[t.k]
        if isinstance(t, (PtrT, FnT)): return 8
        if isinstance(t, ArrT): return t.n * s.sizeof(t.el)
        if isinstance(t, StructT): return s.struct_layout(t)[1]
        raise Unsupported('sizeof %r' % t)
    def alignof(s, t):
        t = s.resolve(t)
        if isinstance(t, IntT): return min(8, max(1, (t.w + 7) // 8))
        if isinstance(t, FpT): return {'float': 4, 'double': 8, 'x86_fp80': 16}[t.k]
        if isinstance(t, (PtrT, FnT)): return 8
        if isinstance(t, ArrT): return s.alignof(t.el)
        if isinstance(t, StructT): return 1 if t.packed else max([s.alignof(f) for f in t.fields] or [1])
        raise Unsupported('alignof %r' % t)
    def struct_layout(s, t):
        key = id(t); c = s._lay
        if key in c: return c[key]
        off = 0; offs = []
        for f in t.fields:
            a = 1 if t.packed else s.alignof(f)
            off = (off + a - 1) // a * a; offs.append(off); off += s.sizeof(f)
        a = 1 if t.packed else max([s.alignof(f) for f in t.fields] or [1])
        size = (off + a - 1) // a * a
        c[key] = (offs, size, t); return c[key]
    # ---------- values
    def fsort(s, t):
        return z3.Float32() if t.k == 'float' else z3.Float64()
    def newsym(s, t, hint='v'):
        s.fresh += 1; n = '%s!%d' % (hint, s.fresh); t = s.resolve(t)
        if isinstance(t, IntT): return z3.Bool(n) if t.w == 1 else z3.BitVec(n, t.w)
        if isinstance(t, FpT): return s.fpsym(n, t)
        raise Unsupported('newsym %r' % t)
    def fpsym(s, n, t):
        if s.fpmode == 'real': return z3.Real(n)
        return z3.FP(n, s.fsort(t))
    def fpconst(s, v, t):
        if s.fpmode == 'real':
            if v != v or v in (float('inf'), float('-inf')): raise Unsupported('non-finite fp constant in real mode')
            return z3.RealVal(str(fractions.Fraction(v)))
        return z3.FPVal(v, s.fsort(t))
    def zero(s, t):
        t = s.resolve(t)
        if isinstance(t, IntT): return z3.BoolVal(False) if t.w == 1 else z3.BitVecVal(0, t.w)
        if isinstance(t, FpT): return s.fpconst(0.0, t)
        if isinstance(t, (PtrT, FnT)): return NULL
        if isinstance(t, ArrT): return [s.zero(t.el) for _ in range(t.n)]
        if isinstance(t, StructT): return [s.zero(f) for f in t.fields]
        raise Unsupported('zero %r' % t)
    def const(s, st, t, v):
        t = s.resolve(t) if t is not None else None
        if isinstance(v, Reg):
            fr = st.stack[-1]
            if v.n not in fr.regs: raise HarnessError('undefined reg %s in %s' % (v.n, fr.fn.name))
            return fr.regs[v.n]
        if isinstance(v, GlobalRef):
            if v.n in s.mod.fns or v.n in s.mod.decls: return FnPtr(v.n)
            return s.global_ptr(st, v.n)
        if isinstance(v, Const):
            if v.kind == 'int':
                if isinstance(t, IntT): return z3.BoolVal(v.v != 0) if t.w == 1 else z3.BitVecVal(v.v, t.w)
                if isinstance(t, FpT): return s.fpconst(float(v.v), t)
            if v.kind == 'fp': return s.fpconst(v.v, t)
            if v.kind == 'true': return z3.BoolVal(True)
            if v.kind == 'false': return z3.BoolVal(False)
            if v.kind == 'null': return NULL
            if v.kind == 'zero': return s.zero(t)
            if v.kind == 'undef': return s.zero(t)   # undef/poison read as 0 (stated in DESIGN)
            if v.kind == 'agg':
                return [s.const(st, et, ev) for et, ev in v.v]
            if v.kind == 'cstr': return [z3.BitVecVal(b, 8) for b in v.v]
        if isinstance(v, CExpr):
            if v.op == 'gep':
                (pt, pv) = v.args[0]; base = s.const(st, pt, pv)
                return s.gep(st, v.extra, base, [(it, s.const(st, it, iv)) for it, iv in v.args[1:]])
            if v.op in ('bitcast', 'addrspacecast'): return s.const(st, v.args[0][0], v.args[0][1])
            if v.op == 'ptrtoint':
                p = s.const(st, v.args[0][0], v.args[0][1])
                return s.ptrtoint(st, p, s.resolve(v.extra).w)
            if v.op == 'inttoptr':
                x = s.const(st, v.args[0][0], v.args[0][1])
                return s.cast(st, 'inttoptr', s.resolve(v.args[0][0]), x, None)
            if v.op in ('add', 'sub', 'mul', 'and', 'or', 'xor', 'shl'):
                (t1, a), (t2, b) = v.args
                return s.binop(v.op, s.resolve(t1), s.const(st, t1, a), s.const(st, t2, b), st)
            if v.op == 'icmp':
                (t1, a), (t2, b) = v.args
                return s.icmp(st, v.extra, s.resolve(t1), s.const(st, t1, a), s.const(st, t2, b))
            if v.op in ('trunc', 'zext', 'sext'):
                (t1, a) = v.args[0]
                return s.cast(st, v.op, s.resolve(t1), s.const(st, t1, a), s.resolve(v.extra))
        raise Unsupported('const %r : %r' % (v, t))
    def global_ptr(s, st, name):
        key = ('g', name)
        gi = st.aux.get('globals')
        if gi is None: gi = st.aux['globals'] = {}
        if name in gi: return Ptr(gi[name], 0)
        if name not in s.mod.globals: raise HarnessError('unknown global %s' % name)
        t, init, isconst = s.mod.globals[name]
        p = st.alloc(s.sizeof(t), key)
        gi[name] = p.obj
        if init is not None:
            s.store(st, p, t, s.const(st, t, init), check=False)
        else:
            # external global without initialiser: harness must define it
            ov = st.aux.get('extern_init', {}).get(name)
            if ov is None: raise HarnessError('external global %s has no initialiser (harness must provide)' % name)
            ov(s, st, p)
        return p
    def ptrtoint(s, st, p, w):
        if isinstance(p, IntPtr): return p.addr if w == 64 else z3.Extract(w - 1, 0, p.addr)
        if isinstance(p, FnPtr): return z3.BitVec('fnaddr_' + p.name, w)
        if p.obj == 0: base = z3.BitVecVal(0, 64)
        else:
            base = z3.BitVec('base_%d' % p.obj, 64)
            o = st.objs.get(p.obj)
            al = 8
            c = [base & (al - 1) == 0, z3.UGE(base, 4096)]
            if o is not None and o.size is not None: c.append(z3.ULE(base, (1 << 47) - o.size))
            key = ('basec', p.obj)
            if key not in st.aux:
                st.aux[key] = True; st.pc.extend(c)
        off = p.off if not isinstance(p.off, int) else z3.BitVecVal(p.off, 64)
        r = base + off
        return r if w == 64 else z3.Extract(w - 1, 0, r)
    # ---------- memory
    def gep(s, st, bt, base, idx):
        if isinstance(base, IntPtr):
            p = s.gep(st, bt, Ptr(-1, 0), idx)
            off = p.off if not isinstance(p.off, int) else z3.BitVecVal(p.off, 64)
            return IntPtr(z3.simplify(base.addr + off))
        if not isinstance(base, Ptr): raise Unsupported('gep on %r' % (base,))
        off = base.off
        t = bt
        first = True
        for it, iv in idx:
            if first:
                sz = s.sizeof(t); first = False
                off = s.addoff(off, iv, sz)
            else:
                t = s.resolve(t)
                if isinstance(t, StructT):
                    k = s.as_int(iv)
                    off = s.addoff(off, None, s.struct_layout(t)[0][k]); t = t.fields[k]
                elif isinstance(t, ArrT):
                    off = s.addoff(off, iv, s.sizeof(t.el)); t = t.el
                else: raise Unsupported('gep into %r' % t)
        return Ptr(base.obj, off)
    def as_int(s, v):
        v = z3.simplify(v)
        if z3.is_bv_value(v): return v.as_signed_long()
        raise Unsupported('symbolic value where a constant is required')
    def addoff(s, off, iv, scale):
        if iv is None: d = scale
        else:
            iv = z3.simplify(iv)
            if z3.is_bv_value(iv): d = iv.as_signed_long() * scale
            else:
                w = iv.size()
                iv64 = iv if w == 64 else z3.SignExt(64 - w, iv)
                d = iv64 * scale
        if isinstance(off, int) and isinstance(d, int): return off + d
        a = off if not isinstance(off, int) else z3.BitVecVal(off, 64)
        b = d if not isinstance(d, int) else z3.BitVecVal(d, 64)
        r = z3.simplify(a + b)
        return r.as_signed_long() if z3.is_bv_value(r) else r
    def scalar_types(s, t, base=0):
        t = s.resolve(t)
        if isinstance(t, (IntT, FpT, PtrT, FnT)): return [(base, t)]
        if isinstance(t, ArrT):
            es = s.sizeof(t.el); out = []
            for i in range(t.n): out += s.scalar_types(t.el, base + i * es)
            return out
        if isinstance(t, StructT):
            offs = s.struct_layout(t)[0]; out = []
            for f, o in zip(t.fields, offs): out += s.scalar_types(f, base + o)
            return out
        raise Unsupported('flatten %r' % t)
    def flatten_val(s, t, v):
        t = s.resolve(t)
        if isinstance(t, (IntT, FpT, PtrT, FnT)): return [v]
        if isinstance(t, ArrT): return [x for e in v for x in s.flatten_val(t.el, e)]
        if isinstance(t, StructT): return [x for f, e in zip(t.fields, v) for x in s.flatten_val(f, e)]
    def unflatten(s, t, it):
        t = s.resolve(t)
        if isinstance(t, (IntT, FpT, PtrT, FnT)): return next(it)
        if isinstance(t, ArrT): return [s.unflatten(t.el, it) for _ in range(t.n)]
        if isinstance(t, StructT): return [s.unflatten(f, it) for f in t.fields]
    def add_obl(s, st, claim, what, kind='mem'):
        fr = st.stack[-1] if st.stack else None
        site = '%s' % (fr.fn.name if fr else '?')
        st.obls.append((list(st.pc), claim, what, kind, site))
    def check_access(s, st, p, size, what):
        if isinstance(p, FnPtr): raise Unsupported('data access through function pointer')
        if not isinstance(p, Ptr): raise Unsupported('access through %r' % (p,))
        if p.obj == 0:
            s.add_obl(st, z3.BoolVal(False), 'null-deref %s' % what); return False
        o = st.objs.get(p.obj)
        if o is None: raise HarnessError('dangling object %s' % p.obj)
        if o.freed:
            s.add_obl(st, z3.BoolVal(False), 'use-after-free %s obj=%s' % (what, o.name)); return False
        if z3.is_expr(o.size):
            # object of symbolic size (e.g. the arena): bounds become an obligation over the size term
            off = p.off if not isinstance(p.off, int) else z3.BitVecVal(p.off, 64)
            s.add_obl(st, z3.And(z3.ULE(off, o.size), z3.ULE(z3.BitVecVal(size, 64), o.size - off)), 'in-bounds %s obj=%s (symbolic size)' % (what, o.name))
            return True
        if isinstance(p.off, int):
            if p.off < 0 or (o.size is not None and p.off + size > o.size):
                s.add_obl(st, z3.BoolVal(False), 'out-of-bounds %s obj=%s off=%d size=%d objsize=%s' % (what, o.name, p.off, size, o.size)); return False
        else:
            if o.size is not None:
                s.add_obl(st, z3.And(p.off >= 0, p.off <= o.size - size), 'in-bounds %s obj=%s objsize=%s' % (what, o.name, o.size))
        return True
    def load_scalar(s, st, p, t):
        size = s.sizeof(t); o = st.objs[p.obj]
        if isinstance(p.off, int):
            c = o.cells.get(p.off)
            if c is not None and c[1] == size: return s.retype(c[0], t)
            if c is None and o.default is not None and not s._overlaps(o, p.off, size):
                v = o.default(s, p.off, t); o.cells[p.off] = (v, size); return v
            v = s.assemble(st, o, p.off, size, t)
            if v is not None: return v
            raise HarnessError('uninitialised/mistyped read obj=%s off=%d size=%d in %s (cells near: %s)' % (
                o.name, p.off, size, st.stack[-1].fn.name, sorted(k for k in o.cells if abs(k - p.off) < 64)[:12]))
        # symbolic offset: ite chain over same-size cells; materialise default cells first when object is small
        s.materialise(st, o, size, t)
        cands = sorted(k for k, c in o.cells.items() if c[1] == size)
        if not cands: raise HarnessError('symbolic read with no candidate cells obj=%s' % (o.name,))
        off = p.off
        # only candidates that are feasible targets
        v = None
        for k in reversed(cands):
            cv = s.retype(o.cells[k][0], t)
            v = cv if v is None else s.ite(off == k, cv, v)
        s.add_obl(st, z3.Or(*[off == k for k in cands]), 'in-bounds symbolic-index load obj=%s ncell=%d' % (o.name, len(cands)))
        return v
    def _overlaps(s, o, off, size):
        for k, c in o.cells.items():
            if k < off + size and off < k + c[1]: return True
        return False
    def materialise(s, st, o, size, t):
        """turn lazily-defaulted regions into explicit cells of this size (for symbolic indexing)"""
        if o.default is None or o.size is None or z3.is_expr(o.size) or o.size > 4096: return
        for off in range(0, o.size - size + 1, size):
            if off not in o.cells and not s._overlaps(o, off, size):
                try:
                    o.cells[off] = (o.default(s, off, t), size)
                except HarnessError:
                    pass
    def retype(s, v, t):
        t = s.resolve(t)
        if isinstance(t, IntT) and z3.is_expr(v):
            if z3.is_fp(v): return z3.fpToIEEEBV(v)
            if z3.is_real(v): raise Unsupported('reading a real-mode fp cell as an integer')
            if z3.is_bool(v) and t.w != 1: return z3.If(v, bvv(1, t.w), bvv(0, t.w))
        if isinstance(t, FpT) and z3.is_expr(v) and z3.is_bv(v):
            if s.fpmode == 'real':
                vv = z3.simplify(v)
                if z3.is_bv_value(vv) and vv.as_long() == 0: return z3.RealVal(0)
                raise Unsupported('reading an integer cell as fp in real mode')
            return z3.fpBVToFP(v, s.fsort(t))
        if isinstance(t, (PtrT, FnT)) and z3.is_expr(v) and z3.is_bv(v):
            vv = z3.simplify(v)
            if z3.is_bv_value(vv) and vv.as_long() == 0: return NULL
            return IntPtr(v)
        if isinstance(t, IntT) and isinstance(v, (Ptr, IntPtr, FnPtr)) and t.w == 64:
            if isinstance(v, Ptr) and v.obj == 0: return bvv(0, 64)
            raise Unsupported('reading a pointer cell as integer')
        return v
    def assemble(s, st, o, off, size, t):
        t = s.resolve(t)
        bs = []
        for b in range(size):
            found = None
            for k, (v, sz) in o.cells.items():
                if k <= off + b < k + sz:
                    if not z3.is_expr(v): return None
                    if z3.is_fp(v): v = z3.fpToIEEEBV(v)
                    if z3.is_bool(v): v = z3.If(v, bvv(1, 8 * sz), bvv(0, 8 * sz))
                    if not z3.is_bv(v): return None
                    sh = (off + b - k) * 8; found = z3.Extract(sh + 7, sh, v); break
            if found is None:
                if o.default is not None:
                    try: found = o.default(s, off + b, IntT(8))
                    except HarnessError: return None
                else: return None
            bs.append(found)
        v = z3.simplify(z3.Concat(*reversed(bs))) if len(bs) > 1 else bs[0]
        if isinstance(t, IntT):
            return (v == 1) if t.w == 1 else v
        if isinstance(t, FpT):
            return s.retype(v, t)
        if isinstance(t, (PtrT, FnT)):
            return s.retype(v, t)
        return None
    def ite(s, c, a, b):
        if isinstance(a, IntPtr) or isinstance(b, IntPtr):
            f = lambda p: p.addr if isinstance(p, IntPtr) else z3.BitVecVal(0, 64)
            if not all(isinstance(p, IntPtr) or (isinstance(p, Ptr) and p.obj == 0) for p in (a, b)):
                raise Unsupported('ite over integer and object pointers')
            return IntPtr(z3.If(c, f(a), f(b)))
        if isinstance(a, FnPtr) or isinstance(b, FnPtr):
            if isinstance(a, FnPtr) and isinstance(b, FnPtr) and a.name == b.name: return a
            raise Unsupported('ite over different function pointers')
        if isinstance(a, Ptr) or isinstance(b, Ptr):
            if isinstance(a, Ptr) and isinstance(b, Ptr) and a.obj == b.obj:
                if isinstance(a.off, int) and isinstance(b.off, int) and a.off == b.off: return a
                ao = a.off if not isinstance(a.off, int) else z3.BitVecVal(a.off, 64)
                bo = b.off if not isinstance(b.off, int) else z3.BitVecVal(b.off, 64)
                return Ptr(a.obj, z3.If(c, ao, bo))
            raise Unsupported('ite over pointers to different objects')
        if isinstance(a, list): return [s.ite(c, x, y) for x, y in zip(a, b)]
        if a is b: return a
        if z3.is_expr(a) and z3.is_expr(b) and a.eq(b): return a
        return z3.If(c, a, b)
    def flat_check(s, st, addr, size, what):
        f = st.flat
        if f is None: raise Unsupported('integer-address access without flat region')
        ok = z3.And(z3.UGE(addr, f['lo']), z3.ULE(addr, f['hi'] - size), z3.ULE(f['lo'], f['hi'] - size))
        s.add_obl(st, ok, 'flat-region %s inside [arena, arena+narena)' % what)
    def load(s, st, p, t):
        if isinstance(p, IntPtr):
            parts = s.scalar_types(t); vals = []
            for off, ft in parts:
                size = s.sizeof(ft); a = p.addr + off
                s.flat_check(st, a, size, 'load')
                bs = [z3.Select(st.flat['mem'], a + i) for i in range(size)]
                v = z3.Concat(*reversed(bs)) if size > 1 else bs[0]
                ft = s.resolve(ft)
                if isinstance(ft, (PtrT,)): v = IntPtr(v)
                elif isinstance(ft, FpT): raise Unsupported('fp load from flat region')
                elif isinstance(ft, IntT) and ft.w == 1: v = (v == 1)
                vals.append(v)
            return s.unflatten(t, iter(vals))
        if not s.check_access(st, p, s.sizeof(t), 'load'): return None
        parts = s.scalar_types(t)
        vals = [s.load_scalar(st, Ptr(p.obj, s.addoff(p.off, None, o)), ft) for o, ft in parts]
        return s.unflatten(t, iter(vals))
    def store(s, st, p, t, v, check=True):
        if isinstance(p, IntPtr):
            parts = s.scalar_types(t); vals = s.flatten_val(t, v)
            for (off, ft), x in zip(parts, vals):
                size = s.sizeof(ft); a = p.addr + off
                s.flat_check(st, a, size, 'store')
                if isinstance(x, IntPtr): x = x.addr
                elif isinstance(x, Ptr):
                    if x.obj == 0: x = z3.BitVecVal(0, 64)
                    else: raise Unsupported('store object pointer into flat region')
                elif z3.is_bool(x): x = z3.If(x, bvv(1, 8), bvv(0, 8))
                elif not z3.is_bv(x): raise Unsupported('non-integer store into flat region')
                for i in range(size):
                    st.flat['mem'] = z3.Store(st.flat['mem'], a + i, z3.Extract(8 * i + 7, 8 * i, x))
            return True
        if check and not s.check_access(st, p, s.sizeof(t), 'store'): return False
        parts = s.scalar_types(t); vals = s.flatten_val(t, v)
        o = st.objs[p.obj]
        for (off, ft), x in zip(parts, vals):
            size = s.sizeof(ft); a = s.addoff(p.off, None, off)
            if isinstance(a, int):
                for k in [k for k, c in o.cells.items() if k < a + size and a < k + c[1] and k != a]:
                    if k not in o.cells: continue          # already removed together with an earlier overlapping cell
                    s.split_cell(o, k)
                    for kk in [kk for kk, c in o.cells.items() if kk < a + size and a < kk + c[1] and kk != a]:
                        del o.cells[kk]
                o.cells[a] = (x, size)
            else:
                s.materialise(st, o, size, ft)
                cands = sorted(k for k, c in o.cells.items() if c[1] == size)
                if not cands: raise HarnessError('symbolic write with no candidate cells obj=%s' % (o.name,))
                s.add_obl(st, z3.Or(*[a == k for k in cands]), 'in-bounds symbolic-index store obj=%s ncell=%d' % (o.name, len(cands)))
                for k in cands:
                    o.cells[k] = (s.ite(a == k, x, s.retype_cell(o.cells[k][0], x)), size)
        return True
    def retype_cell(s, old, new):
        return old
    def split_cell(s, o, k):
        """split an integer cell into byte cells so that a partial overwrite keeps the remaining bytes"""
        v, sz = o.cells[k]
        if z3.is_expr(v) and z3.is_bv(v) and sz > 1 and v.size() == 8 * sz:
            del o.cells[k]
            for i in range(sz): o.cells[k + i] = (z3.simplify(z3.Extract(8 * i + 7, 8 * i, v)), 1)
    def concretise(s, st, exprs, limit=24):
        """all feasible joint values of the given bit-vector terms under the path condition: [(values, cond)]"""
        out = []
        sol = z3.Solver(); sol.set('timeout', 20000); sol.add(*st.pc)
        while True:
            t = time.time(); r = sol.check(); s.nq += 1; s.tq += time.time() - t
            if r == z3.unknown: raise Unsupported('solver unknown while concretising')
            if r == z3.unsat: break
            m = sol.model()
            vals = [m.eval(e, model_completion=True) for e in exprs]
            cond = z3.And(*[e == v for e, v in zip(exprs, vals)])
            out.append((vals, cond)); sol.add(z3.Not(cond))
            if len(out) > limit: raise Unsupported('more than %d feasible values while concretising (memcpy/memset operand)' % limit)
        return out
    def mem_fork(s, st, what, dst, src, n):
        """memcpy/memset with symbolic length or offsets: fork one path per feasible (length, offsets) combination"""
        exprs = []
        def reg(v):
            if z3.is_expr(v) and not z3.is_bv_value(z3.simplify(v)): exprs.append(v); return len(exprs) - 1
            return None
        kn = reg(n)
        kd = reg(dst.off) if isinstance(dst, Ptr) and not isinstance(dst.off, int) else None
        ks = reg(src.off) if isinstance(src, Ptr) and not isinstance(src.off, int) else None
        combos = s.concretise(st, exprs)
        outs = []
        for vals, cond in combos:
            st2 = st.clone(); st2.pc.append(cond)
            n2 = vals[kn] if kn is not None else n
            d2 = Ptr(dst.obj, vals[kd].as_signed_long()) if kd is not None else dst
            if what == 'memcpy':
                s2 = Ptr(src.obj, vals[ks].as_signed_long()) if ks is not None else src
                ok = s.memcpy(st2, d2, s2, n2)
            else:
                ok = s.memset(st2, d2, src, n2)
            outs.append(st2 if ok else Result('memfault', st2, info=what))
        return outs
    def memcpy(s, st, dst, src, n):
        n = z3.simplify(n)
        if not z3.is_bv_value(n): raise Unsupported('memcpy symbolic length')
        n = n.as_long()
        if n == 0: return True
        if isinstance(dst, IntPtr) or isinstance(src, IntPtr): raise Unsupported('memcpy on flat region')
        if not (s.check_access(st, dst, n, 'memcpy-dst') and s.check_access(st, src, n, 'memcpy-src')): return False
        if not (isinstance(dst.off, int) and isinstance(src.off, int)):
            return s.memcpy_elementwise(st, dst, src, n)
        so = st.objs[src.obj]; do = st.objs[dst.obj]
        moved = {}
        covered = 0
        for k, (v, sz) in sorted(so.cells.items()):
            if src.off <= k and k + sz <= src.off + n: moved[k - src.off] = (v, sz); covered += sz
            elif k < src.off + n and src.off < k + sz: raise Unsupported('memcpy splits a cell obj=%s' % (so.name,))
        for k in [k for k, c in do.cells.items() if k < dst.off + n and dst.off < k + c[1]]:
            if not (dst.off <= k and k + do.cells[k][1] <= dst.off + n): s.split_cell(do, k)
        for k in [k for k, c in do.cells.items() if k < dst.off + n and dst.off < k + c[1]]:
            if not (dst.off <= k and k + do.cells[k][1] <= dst.off + n): raise Unsupported('memcpy partially overwrites a cell obj=%s' % (do.name,))
            del do.cells[k]
        if covered != n and so.default is not None:
            # (uninitialised source bytes - padding, unions - stay uninitialised in the destination; reading them later is a harness error)
            # copy default lazily: destination default delegates to source default for uncovered bytes
            prev = do.default; sdef = so.default; lo, hi, delta = dst.off, dst.off + n, src.off - dst.off
            def dflt(ex, off, t, prev=prev, sdef=sdef, lo=lo, hi=hi, delta=delta):
                if lo <= off < hi: return sdef(ex, off + delta, t)
                if prev is not None: return prev(ex, off, t)
                raise HarnessError('uninitialised read at %d' % off)
            do.default = dflt
        for k, c in moved.items(): do.cells[dst.off + k] = c
        return True
    def memcpy_elementwise(s, st, dst, src, n):
        """concrete length, symbolic offset(s): copy cell by cell through ite-chain loads/stores (uniform cell size required)"""
        so = st.objs[src.obj]; do = st.objs[dst.obj]
        sizes = {c[1] for c in so.cells.values()} | {c[1] for c in do.cells.values()}
        if len(sizes) != 1: raise Unsupported('memcpy with symbolic offset over non-uniform cells (%s -> %s)' % (so.name, do.name))
        es = sizes.pop()
        if n % es: raise Unsupported('memcpy length not a multiple of the cell size')
        sample = next(iter(so.cells.values()))[0]
        t = FpT('double') if (z3.is_expr(sample) and (z3.is_real(sample) or z3.is_fp(sample)) and es == 8) else FpT('float') if (z3.is_expr(sample) and (z3.is_real(sample) or z3.is_fp(sample))) else IntT(8 * es)
        vals = []
        for k in range(n // es):
            v = s.load_scalar(st, Ptr(src.obj, s.addoff(src.off, None, k * es)), t)
            vals.append(v)
        for k, v in enumerate(vals):
            if not s.store(st, Ptr(dst.obj, s.addoff(dst.off, None, k * es)), t, v, check=False): return False
        return True
    def memset(s, st, dst, val, n):
        n = z3.simplify(n)
        if not z3.is_bv_value(n): raise Unsupported('memset symbolic length')
        n = n.as_long()
        if n == 0: return True
        if isinstance(dst, IntPtr): raise Unsupported('memset on flat region')
        if not s.check_access(st, dst, n, 'memset'): return False
        o = st.objs[dst.obj]
        if not isinstance(dst.off, int): raise Unsupported('memset symbolic offset')
        for k in [k for k, c in o.cells.items() if k < dst.off + n and dst.off < k + c[1]]:
            if not (dst.off <= k and k + o.cells[k][1] <= dst.off + n): s.split_cell(o, k)
        for k in [k for k, c in o.cells.items() if k < dst.off + n and dst.off < k + c[1]]:
            if not (dst.off <= k and k + o.cells[k][1] <= dst.off + n): raise Unsupported('memset partially overwrites a cell')
            del o.cells[k]
        bv = z3.simplify(val)
        if z3.is_bv_value(bv) and bv.as_long() == 0:
            prev = o.default
            lo, hi = dst.off, dst.off + n
            def dflt(ex, off, t, prev=prev, lo=lo, hi=hi):
                if lo <= off < hi: return ex.zero(t)
                if prev is not None: return prev(ex, off, t)
                raise HarnessError('uninitialised read at %d' % off)
            o.default = dflt
        else:
            if n > 4096: raise Unsupported('large non-zero memset')
            for b in range(n): o.cells[dst.off + b] = (bv, 1)
        return True
    # ---------- solver
    def vars_of(s, e):
        """set of ids of the uninterpreted constants in e (cached by ast id)"""
        c = s._vars
        k = e.get_id()
        if k in c: return c[k]
        out = set(); seen = set(); todo = [e]
        while todo:
            x = todo.pop(); i = x.get_id()
            if i in seen: continue
            seen.add(i)
            if i in c and x is not e: out |= c[i]; continue
            if z3.is_const(x):
                if x.decl().kind() == z3.Z3_OP_UNINTERPRETED: out.add(i)
            else: todo.extend(x.children())
        r = frozenset(out); c[k] = r; s._keep.append(e); return r
    def feasible(s, pc):
        """is pc satisfiable? pc[:-1] is satisfiable by construction (path invariant), so only the constraints that share
        variables (transitively) with the newest one are sent to the solver (independence slicing)."""
        t = time.time()
        if s.slicing and len(pc) > 1 and not s.axioms:
            new = pc[-1]; need = set(s.vars_of(new)); rest = [(c, s.vars_of(c)) for c in pc[:-1]]; sel = [new]
            changed = True
            while changed:
                changed = False; keep = []
                for c, vs in rest:
                    if vs & need: sel.append(c); need |= vs; changed = True
                    else: keep.append((c, vs))
                rest = keep
            q = sel
        else: q = list(s.axioms) + list(pc)
        s.solver.push(); s.solver.add(*q); r = s.solver.check(); s.solver.pop(); s.nq += 1; s.tq += time.time() - t
        if r == z3.unknown:
            from . import smt
            t = time.time(); rr, _, info = smt.solve(q, getattr(s, 'feasibility_timeout_s', 90), z3_first_s=1); s.tq += time.time() - t
            if rr == 'unknown':
                if getattr(s, 'unknown_is_feasible', False): s.nunknown = getattr(s, 'nunknown', 0) + 1; return True    # explore it: an infeasible path only adds vacuous obligations
                raise Unsupported('solver unknown on path feasibility')
            return rr == 'sat'
        return r == z3.sat
    # ---------- CFG helpers (ipdom for merging)
    def ipdoms(s, fn):
        if fn.name in s._ipdom: return s._ipdom[fn.name]
        succ = {}
        for b, ins in fn.blocks.items():
            term = ins[-1]; a = term.a
            if term.op == 'br': succ[b] = [a['target']] if 'target' in a else [a['t'], a['f']]
            elif term.op == 'switch': succ[b] = [a['default']] + [l for _, l in a['cases']]
            elif term.op == 'invoke': succ[b] = [a['normal']]
            else: succ[b] = []
        EXIT = '<exit>'
        nodes = list(fn.blocks) + [EXIT]
        for b in fn.blocks:
            if not succ[b]: succ[b] = [EXIT]
        succ[EXIT] = []
        pdom = {n: set(nodes) for n in nodes}; pdom[EXIT] = {EXIT}
        changed = True
        while changed:
            changed = False
            for n in nodes:
                if n == EXIT: continue
                new = set(nodes)
                for x in succ[n]: new &= pdom[x]
                new |= {n}
                if new != pdom[n]: pdom[n] = new; changed = True
        ip = {}
        for n in nodes:
            if n == EXIT: continue
            cands = pdom[n] - {n}
            close = None
            for c in cands:
                if pdom[c] == cands: close = c; break
            ip[n] = None if close in (None, EXIT) else close
        s._ipdom[fn.name] = ip
        return ip
    # ---------- run
    def run(s, fname, args, st=None):
        st = st or State()
        fn = s.mod.fns[fname]
        if len(args) != len(fn.params): raise HarnessError('%s expects %d args' % (fname, len(fn.params)))
        args = [s.coerce_arg(t, a) for (t, n), a in zip(fn.params, args)]
        regs = {n: a for (t, n), a in zip(fn.params, args)}
        st.stack.append(Frame(fn, fn.entry, regs, None))
        s.called.add(fname)
        results = []
        s.explore(st, None, results)
        return results
    def coerce_arg(s, t, a):
        t = s.resolve(t)
        if isinstance(t, IntT) and t.w == 1 and z3.is_expr(a) and z3.is_bv(a): return z3.simplify(a != 0)     # _Bool parameters are i1
        if isinstance(t, IntT) and t.w > 1 and z3.is_expr(a) and z3.is_bv(a) and a.size() != t.w:
            return z3.simplify(z3.Extract(t.w - 1, 0, a) if a.size() > t.w else z3.SignExt(t.w - a.size(), a))
        return a
    def explore(s, st, stop, results):
        """run st until it terminates (Result appended) or reaches stop=(depth, fn, blk); returns states at stop"""
        work = [st]; reached = []
        while work:
            cur = work.pop()
            try:
                out = s.step_until_fork(cur, stop, results)
            except UnwindBound as e:
                results.append(Result('unwind', cur, info=str(e))); continue
            except Unsupported as e:
                results.append(Result('unsupported', cur, info=str(e))); continue
            for r in out:
                if isinstance(r, Result):
                    results.append(r); s.npaths += 1
                    if s.npaths > s.max_paths: raise Unsupported('path budget exceeded')
                elif isinstance(r, tuple) and r[0] == 'stop': reached.append(r[1])
                else: work.append(r)
        return reached
    def step_until_fork(s, st, stop, results):
        while True:
            fr = st.stack[-1]
            if stop is not None and len(st.stack) == stop[0] and fr.blk == stop[2] and fr.fn.name == stop[1] and s.at_block_start(fr):
                return [('stop', st)]
            ins = fr.fn.blocks[fr.blk][fr.idx]
            fr.idx += 1
            s.ninstr += 1
            r = s.do(st, fr, ins, stop, results)
            if r is not None: return r
    def at_block_start(s, fr):
        blk = fr.fn.blocks[fr.blk]
        i = 0
        while i < len(blk) and blk[i].op == 'phi': i += 1
        return fr.idx == i
    def jump(s, st, fr, target):
        key = (fr.fid, fr.blk, target)      # per frame instance: repeated calls of a function do not accumulate
        c = st.loops.get(key, 0) + 1; st.loops[key] = c
        if c > s.loop_bound: raise UnwindBound('unwinding bound %d exceeded at %s %s->%s' % (s.loop_bound, fr.fn.name, fr.blk, target))
        fr.prev = fr.blk; fr.blk = target; fr.idx = 0
        blk = fr.fn.blocks[target]; new = {}
        for ins in blk:
            if ins.op != 'phi': break
            for v, l in ins.a['inc']:
                if l == fr.prev: new[ins.dst] = s.const(st, ins.a['ty'], v); break
            else: raise HarnessError('phi without incoming %s from %s' % (ins.line, fr.prev))
            fr.idx += 1
        fr.regs.update(new)
    def branch(s, st, fr, stop, results, alts):
        """alts: list of (cond, target). Returns fork list / None after committing to a single feasible alternative."""
        feas = [(c, t) for c, t in alts if s.feasible(st.pc + [c])]
        if not feas: return [Result('infeasible', st)]
        if len(feas) == 1:
            st.pc.append(feas[0][0]); s.jump(st, fr, feas[0][1]); return None
        join = None
        if s.merge:
            j = s.ipdoms(fr.fn).get(fr.blk)
            # a join at the unified return block means one side leaves the function early: fork instead of nesting the rest of the function
            if j is not None and fr.fn.blocks[j][-1].op != 'ret': join = (len(st.stack), fr.fn.name, j)
        if join is None or (stop is not None and join == stop and False):
            outs = []
            for c, t in feas[1:]:
                st2 = st.clone(); st2.pc.append(c); s.jump(st2, st2.stack[-1], t); outs.append(st2)
            st.pc.append(feas[0][0]); s.jump(st, fr, feas[0][1]); outs.append(st)
            return outs
        # merging: explore each alternative to the join block, merge the survivors
        base_len = len(st.pc)
        reached = []
        for c, t in feas:
            st2 = st.clone(); st2.pc.append(c); s.jump(st2, st2.stack[-1], t)
            reached += s.explore(st2, join, results)
        if not reached: return []
        merged = s.merge_states(reached, base_len)
        return merged
    def merge_states(s, states, base_len):
        if len(states) == 1: return states
        groups = []
        for st in states:
            for g in groups:
                if s.mergeable(g[0], st): g.append(st); break
            else: groups.append([st])
        out = []
        for g in groups:
            if len(g) == 1: out.append(g[0]); continue
            m = g[0]
            conds = [z3.And(*st.pc[base_len:]) if len(st.pc) > base_len else z3.BoolVal(True) for st in g]
            for st, c in zip(g[1:], conds[1:]):
                # m := ite(c, st, m)
                for fm, fs in zip(m.stack, st.stack):
                    for r in list(fm.regs):
                        a, b = fs.regs.get(r), fm.regs[r]
                        if a is None: del fm.regs[r]; continue
                        if a is not b: fm.regs[r] = s.ite(c, a, b)
                for oid, om in m.objs.items():
                    os_ = st.objs[oid]
                    keys = set(om.cells) | set(os_.cells)
                    for k in keys:
                        ca, cb = os_.cells.get(k), om.cells.get(k)
                        if ca is None or cb is None or ca[1] != cb[1]:
                            raise Unsupported('merge: cell layout differs obj=%s off=%s' % (om.name, k))
                        if ca[0] is not cb[0]: om.cells[k] = (s.ite(c, ca[0], cb[0]), ca[1])
                if m.flat is not None:
                    m.flat['mem'] = z3.If(c, st.flat['mem'], m.flat['mem'])
                m.obls = m.obls + [o for o in st.obls if not any(o is x for x in m.obls)]
                m.next_obj = max(m.next_obj, st.next_obj)
                for k, v in st.loops.items(): m.loops[k] = max(m.loops.get(k, 0), v)
                s.nmerged += 1
            m.pc = m.pc[:base_len] + [z3.Or(*conds)]
            out.append(m)
        return out
    def mergeable(s, a, b):
        if len(a.stack) != len(b.stack) or a.log != b.log: return False
        if set(a.objs) != set(b.objs): return False
        for fa, fb in zip(a.stack, b.stack):
            if fa.fn is not fb.fn or fa.blk != fb.blk or fa.idx != fb.idx: return False
            for r, va in fa.regs.items():
                vb = fb.regs.get(r)
                if vb is None: continue      # defined on one side only: dead at the join (SSA dominance)
                if isinstance(va, Ptr) and isinstance(vb, Ptr) and va.obj != vb.obj: return False
                if type(va) is not type(vb) and not (z3.is_expr(va) and z3.is_expr(vb)): return False
        for oid, oa in a.objs.items():
            ob = b.objs[oid]
            if oa.freed != ob.freed or oa.default is not ob.default: return False
            if set(oa.cells) != set(ob.cells): return False
            for k, (va, sa) in oa.cells.items():
                vb, sb = ob.cells[k]
                if sa != sb: return False
                if isinstance(va, Ptr) != isinstance(vb, Ptr): return False
                if isinstance(va, Ptr) and va.obj != vb.obj: return False
                if isinstance(va, FnPtr) or isinstance(vb, FnPtr):
                    if not (isinstance(va, FnPtr) and isinstance(vb, FnPtr) and va.name == vb.name): return False
        return True
    def do(s, st, fr, ins, stop=None, results=None):
        op = ins.op; a = ins.a
        C = lambda t, v: s.const(st, t, v)
        if op in BIN:
            t = s.resolve(a['ty']); x = C(t, a['x']); y = C(t, a['y'])
            if 'nsw' in a.get('flags', ()) and z3.is_bv(x) and not (z3.is_bv_value(x) and z3.is_bv_value(y)) and st.aux.get('check_nsw'):
                s.nsw_obl(st, op, x, y, ins)
            fr.regs[ins.dst] = s.binop(op, t, x, y, st)
        elif op == 'fneg':
            x = C(a['ty'], a['x']); fr.regs[ins.dst] = (-x) if s.fpmode == 'real' else z3.fpNeg(x)
        elif op == 'icmp':
            t = s.resolve(a['ty']); x = C(t, a['x']); y = C(t, a['y']); fr.regs[ins.dst] = s.icmp(st, a['pred'], t, x, y)
        elif op == 'fcmp':
            x = C(a['ty'], a['x']); y = C(a['ty'], a['y']); fr.regs[ins.dst] = s.fcmp(a['pred'], x, y)
        elif op in CASTS:
            fr.regs[ins.dst] = s.cast(st, op, s.resolve(a['ty']), C(a['ty'], a['x']), s.resolve(a['to']))
        elif op == 'select':
            c = C(IntT(1), a['c']); x = C(a['ty'], a['x']); y = C(a['ty'], a['y'])
            c = z3.simplify(c)
            fr.regs[ins.dst] = x if z3.is_true(c) else y if z3.is_false(c) else s.ite(c, x, y)
        elif op == 'alloca':
            n = 1
            if a['n'] is not None: n = s.as_int(C(IntT(64), a['n']))
            p = st.alloc(s.sizeof(a['ty']) * n, ('alloca', fr.fn.name, ins.dst)); fr.regs[ins.dst] = p; fr.allocas.append(p.obj)
        elif op == 'load':
            p = C(None, a['ptr'])
            if s.is_shared is not None and s.yield_here(st, fr, p): return [Result('yield', st, info=ins.line)]
            v = s.load(st, p, a['ty'])
            if v is None: return [Result('memfault', st, info=ins.line)]
            fr.regs[ins.dst] = v
        elif op == 'store':
            p = C(None, a['ptr']); v = C(a['ty'], a['v'])
            if s.is_shared is not None and s.yield_here(st, fr, p): return [Result('yield', st, info=ins.line)]
            if not s.store(st, p, a['ty'], v): return [Result('memfault', st, info=ins.line)]
        elif op == 'getelementptr':
            base = C(None, a['ptr']); p = s.gep(st, a['base'], base, [(t, C(t, v)) for t, v in a['idx']])
            if s.concretise_geps and isinstance(p, Ptr) and not isinstance(p.off, int) and (s.concretise_geps is True or st.objs[p.obj].name in s.concretise_geps):
                # pointer arithmetic with a symbolic index into the listed objects: one path per feasible offset (small, bounded ranges only)
                outs = []
                for vals, cond in s.concretise(st, [p.off]):
                    st2 = st.clone(); st2.pc.append(cond); st2.stack[-1].regs[ins.dst] = Ptr(p.obj, vals[0].as_signed_long()); outs.append(st2)
                return outs
            fr.regs[ins.dst] = p
        elif op == 'phi':
            raise HarnessError('phi reached by fallthrough')
        elif op == 'br':
            if 'target' in a: s.jump(st, fr, a['target']); return None
            c = z3.simplify(C(IntT(1), a['c']))
            if z3.is_true(c): s.jump(st, fr, a['t']); return None
            if z3.is_false(c): s.jump(st, fr, a['f']); return None
            return s.branch(st, fr, stop, results, [(c, a['t']), (z3.Not(c), a['f'])])
        elif op == 'switch':
            v = z3.simplify(C(a['ty'], a['v']))
            if z3.is_bv_value(v):
                val = v.as_long()
                for cv, l in a['cases']:
                    if cv % (1 << v.size()) == val: s.jump(st, fr, l); return None
                s.jump(st, fr, a['default']); return None
            alts = []; rest = []
            bytarget = {}
            for cv, l in a['cases']:
                bytarget.setdefault(l, []).append(v == cv); rest.append(v != cv)
            for l, cs in bytarget.items(): alts.append((z3.Or(*cs) if len(cs) > 1 else cs[0], l))
            alts.append((z3.And(*rest), a['default']))
            return s.branch(st, fr, stop, results, alts)
        elif op == 'ret':
            v = None if a['v'] is None else C(a['ty'], a['v'])
            st.stack.pop()
            if st.stack:
                for oid in fr.allocas: st.objs.pop(oid, None)    # locals of the returning frame die
            if not st.stack: return [Result('return', st, v)]
            caller = st.stack[-1]
            if fr.dst is not None: caller.regs[fr.dst] = v
            if fr.after is not None: s.jump(st, caller, fr.after)
        elif op == 'unreachable':
            return [Result('unreachable', st)]
        elif op in ('call', 'invoke'):
            depth = len(st.stack)
            r = s.call(st, fr, ins)
            if r is not None: return r
            if op == 'invoke' and len(st.stack) == depth:
                s.jump(st, fr, a['normal'])
        elif op == 'extractvalue':
            v = C(a['ty'], a['v'])
            for i in a['idx']: v = v[i]
            fr.regs[ins.dst] = v
        elif op == 'insertvalue':
            v = list(C(a['ty'], a['v']))
            e = C(a['ety'], a['e'])
            if len(a['idx']) != 1: raise Unsupported('nested insertvalue')
            v[a['idx'][0]] = e; fr.regs[ins.dst] = v
        elif op == 'fence':
            pass
        elif op == 'atomicrmw':
            p = C(None, a['ptr']); t = a['ty']; v = C(t, a['v'])
            if s.is_shared is not None and s.yield_here(st, fr, p): return [Result('yield', st, info=ins.line)]
            old = s.load(st, p, t)
            if old is None: return [Result('memfault', st, info=ins.line)]
            new = {'add': lambda: old + v, 'sub': lambda: old - v, 'xchg': lambda: v, 'and': lambda: old & v, 'or': lambda: old | v}[a['rop']]()
            s.store(st, p, t, z3.simplify(new)); fr.regs[ins.dst] = old
        elif op == 'cmpxchg':
            p = C(None, a['ptr']); t = a['ty']; c = C(t, a['cmp']); n = C(t, a['new'])
            if s.is_shared is not None and s.yield_here(st, fr, p): return [Result('yield', st, info=ins.line)]
            old = s.load(st, p, t)
            if old is None: return [Result('memfault', st, info=ins.line)]
            ok = old == c
            s.store(st, p, t, z3.If(ok, n, old)); fr.regs[ins.dst] = [old, ok]
        elif op == 'freeze':
            raise Unsupported('freeze')
        else:
            raise Unsupported('instr %s' % ins.line)
        return None
    def yield_here(s, st, fr, p):
        """scheduling point before an access to a shared cell; the access itself runs when the thread is resumed"""
        if not s.is_shared(st, p): return False
        if st.aux.get('skip_yield'):
            st.aux['skip_yield'] = False; return False
        fr.idx -= 1      # re-execute this instruction on resume
        return True
    def resume(s, st, at_yield=None):
        """continue a state that stopped at a scheduling point; returns the list of Results. at_yield: the thread stopped BEFORE a shared access that must now execute
        (None: guess from the position - wrong when the access is the first instruction of a function, so explorers that can, say it)"""
        results = []
        st.aux['skip_yield'] = (st.stack[-1].idx > 0 or st.stack[-1].blk != st.stack[-1].fn.entry) if at_yield is None else bool(at_yield)
        s.explore(st, None, results)
        return results
    def start(s, st, fname, args):
        fn = s.mod.fns[fname]
        regs = {n: a for (t, n), a in zip(fn.params, args)}
        st.stack = [Frame(fn, fn.entry, regs, None)]
        s.called.add(fname)
    def nsw_obl(s, st, op, x, y, ins):
        w = x.size()
        if op == 'add': ok = z3.BVAddNoOverflow(x, y, True) if hasattr(z3, 'BVAddNoOverflow') else None
        elif op == 'sub': ok = z3.BVSubNoOverflow(x, y) if hasattr(z3, 'BVSubNoOverflow') else None
        elif op == 'mul': ok = z3.BVMulNoOverflow(x, y, True) if hasattr(z3, 'BVMulNoOverflow') else None
        else: ok = None
        if ok is not None:
            if op == 'add': ok = z3.And(ok, z3.BVAddNoUnderflow(x, y))
            if op == 'sub': ok = z3.And(ok, z3.BVSubNoUnderflow(x, y, True))
            if op == 'mul': ok = z3.And(ok, z3.BVMulNoUnderflow(x, y))
            s.add_obl(st, ok, 'signed overflow (nsw %s) %s' % (op, ins.line[:60]), kind='ub')
    def binop(s, op, t, x, y, st):
        if isinstance(t, FpT):
            if s.fpmode == 'real':
                if op == 'fadd': return x + y
                if op == 'fsub': return x - y
                if op == 'fmul': return x * y
                if op == 'fdiv': return x / y
            else:
                rm = z3.RNE()
                if op in ('fadd', 'fsub', 'fmul', 'fdiv'):
                    return {'fadd': z3.fpAdd, 'fsub': z3.fpSub, 'fmul': z3.fpMul, 'fdiv': z3.fpDiv}[op](rm, x, y)
            raise Unsupported(op)
        if isinstance(x, (Ptr, IntPtr)) or isinstance(y, (Ptr, IntPtr)): raise Unsupported('integer arithmetic on pointer values')
        if isinstance(t, IntT) and t.w == 1:
            return z3.simplify({'and': z3.And, 'or': z3.Or, 'xor': z3.Xor, 'add': z3.Xor, 'sub': z3.Xor}[op](x, y))
        f = {'add': lambda a, b: a + b, 'sub': lambda a, b: a - b, 'mul': lambda a, b: a * b, 'udiv': z3.UDiv, 'sdiv': lambda a, b: a / b,
             'urem': z3.URem, 'srem': z3.SRem, 'shl': lambda a, b: a << b, 'lshr': z3.LShR, 'ashr': lambda a, b: a >> b,
             'and': lambda a, b: a & b, 'or': lambda a, b: a | b, 'xor': lambda a, b: a ^ b}[op]
        if op in ('udiv', 'sdiv', 'urem', 'srem'):
            yy = z3.simplify(y)
            if not z3.is_bv_value(yy): s.add_obl(st, y != 0, 'division by zero (%s)' % op, kind='ub')
            elif yy.as_long() == 0: s.add_obl(st, z3.BoolVal(False), 'division by zero (%s)' % op, kind='ub')
        return z3.simplify(f(x, y))
    def icmp(s, st, pred, t, x, y):
        if isinstance(x, IntPtr) or isinstance(y, IntPtr):
            conv = lambda p: p.addr if isinstance(p, IntPtr) else (z3.BitVecVal(0, 64) if (isinstance(p, Ptr) and p.obj == 0) else None)
            x, y = conv(x), conv(y)
            if x is None or y is None: raise Unsupported('compare int pointer with object pointer')
            t = IntT(64)
        if isinstance(x, (Ptr, FnPtr)) or isinstance(y, (Ptr, FnPtr)):
            if isinstance(x, FnPtr) or isinstance(y, FnPtr):
                same = isinstance(x, FnPtr) and isinstance(y, FnPtr) and x.name == y.name
                if pred not in ('eq', 'ne'): raise Unsupported('relational compare of function pointers')
                return z3.BoolVal(same if pred == 'eq' else not same)
            if x.obj != y.obj:
                if pred in ('eq', 'ne'): return z3.BoolVal(pred == 'ne')
                raise Unsupported('relational compare of pointers into different objects')
            xo = x.off if not isinstance(x.off, int) else z3.BitVecVal(x.off, 64)
            yo = y.off if not isinstance(y.off, int) else z3.BitVecVal(y.off, 64)
            x, y = xo, yo
            pred = {'ult': 'slt', 'ule': 'sle', 'ugt': 'sgt', 'uge': 'sge'}.get(pred, pred)
        if z3.is_bool(x) or z3.is_bool(y):
            if not z3.is_bool(x): x = (x == 1)
            if not z3.is_bool(y): y = (y == 1)
            if pred == 'eq': return z3.simplify(x == y)
            if pred == 'ne': return z3.simplify(x != y)
            raise Unsupported('relational compare on i1')
        f = {'eq': lambda a, b: a == b, 'ne': lambda a, b: a != b, 'slt': lambda a, b: a < b, 'sle': lambda a, b: a <= b,
             'sgt': lambda a, b: a > b, 'sge': lambda a, b: a >= b, 'ult': z3.ULT, 'ule': z3.ULE, 'ugt': z3.UGT, 'uge': z3.UGE}[pred]
        return z3.simplify(f(x, y))
    def fcmp(s, pred, x, y):
        if pred == 'true': return z3.BoolVal(True)
        if pred == 'false': return z3.BoolVal(False)
        if s.fpmode == 'real':
            f = {'oeq': lambda a, b: a == b, 'one': lambda a, b: a != b, 'olt': lambda a, b: a < b, 'ole': lambda a, b: a <= b,
                 'ogt': lambda a, b: a > b, 'oge': lambda a, b: a >= b, 'une': lambda a, b: a != b, 'ueq': lambda a, b: a == b,
                 'ult': lambda a, b: a < b, 'ule': lambda a, b: a <= b, 'ugt': lambda a, b: a > b, 'uge': lambda a, b: a >= b,
                 'ord': lambda a, b: z3.BoolVal(True), 'uno': lambda a, b: z3.BoolVal(False)}[pred]
            return z3.simplify(f(x, y))
        nan = z3.Or(z3.fpIsNaN(x), z3.fpIsNaN(y))
        o = {'eq': z3.fpEQ, 'ne': lambda a, b: z3.Not(z3.fpEQ(a, b)), 'lt': z3.fpLT, 'le': z3.fpLEQ, 'gt': z3.fpGT, 'ge': z3.fpGEQ}
        if pred == 'ord': return z3.simplify(z3.Not(nan))
        if pred == 'uno': return z3.simplify(nan)
        base = o[pred[1:]](x, y)
        return z3.simplify(z3.And(z3.Not(nan), base) if pred[0] == 'o' else z3.Or(nan, base))
    def cast(s, st, op, t, x, to):
        if op in ('bitcast', 'addrspacecast'):
            if isinstance(t, (PtrT, FnT)): return x
            if isinstance(t, FpT) and isinstance(to, IntT) and s.fpmode != 'real': return z3.fpToIEEEBV(x)
            if isinstance(t, IntT) and isinstance(to, FpT) and s.fpmode != 'real': return z3.fpBVToFP(x, s.fsort(to))
            raise Unsupported('bitcast %r -> %r' % (t, to))
        if op == 'zext':
            if t.w == 1: return z3.If(x, z3.BitVecVal(1, to.w), z3.BitVecVal(0, to.w))
            return z3.ZeroExt(to.w - t.w, x)
        if op == 'sext':
            if t.w == 1: return z3.If(x, z3.BitVecVal(-1, to.w), z3.BitVecVal(0, to.w))
            return z3.SignExt(to.w - t.w, x)
        if op == 'trunc':
            if to.w == 1: return z3.simplify(z3.Extract(0, 0, x) == 1)
            return z3.simplify(z3.Extract(to.w - 1, 0, x))
        if op in ('sitofp', 'uitofp'):
            if t.w == 1: x = z3.If(x, z3.BitVecVal(1, 8), z3.BitVecVal(0, 8))
            if s.fpmode == 'real':
                xs = z3.simplify(x)
                if z3.is_bv_value(xs):
                    return z3.RealVal(xs.as_signed_long() if op == 'sitofp' else xs.as_long())
                return z3.ToReal(z3.BV2Int(x, is_signed=(op == 'sitofp')))
            srt = s.fsort(to)
            return z3.fpSignedToFP(z3.RNE(), x, srt) if op == 'sitofp' else z3.fpUnsignedToFP(z3.RNE(), x, srt)
        if op in ('fptosi', 'fptoui'):
            if s.fpmode == 'real':
                xs = z3.simplify(x)
                if z3.is_rational_value(xs):
                    fr_ = fractions.Fraction(xs.numerator_as_long(), xs.denominator_as_long())
                    return bvv(int(fr_), to.w)   # trunc toward zero
                # truncation toward zero of a symbolic real
                i = z3.ToInt(x); tr = z3.If(z3.Or(x >= 0, z3.ToReal(i) == x), i, i + 1)
                return z3.Int2BV(tr, to.w)
            return z3.fpToSBV(z3.RTZ(), x, z3.BitVecSort(to.w)) if op == 'fptosi' else z3.fpToUBV(z3.RTZ(), x, z3.BitVecSort(to.w))
        if op in ('fpext', 'fptrunc'):
            if s.fpmode == 'real': return x
            return z3.fpFPToFP(z3.RNE(), x, s.fsort(to))
        if op == 'ptrtoint': return s.ptrtoint(st, x, to.w)
        if op == 'inttoptr':
            x = z3.simplify(x)
            if z3.is_bv_value(x) and x.as_long() == 0: return NULL
            return IntPtr(x if t.w == 64 else z3.ZeroExt(64 - t.w, x))
        raise Unsupported('cast %s' % op)
    # ---------- calls
    def call(s, st, fr, ins):
        a = ins.a
        callee = a['callee']
        if isinstance(callee, Reg):
            f = s.const(st, None, callee)
            if isinstance(f, Ptr) and f.obj == 0:
                s.add_obl(st, z3.BoolVal(False), 'call through NULL function pointer'); return [Result('memfault', st, info=ins.line)]
            if not isinstance(f, FnPtr): raise Unsupported('indirect call through %r' % (f,))
            name = f.name
        elif isinstance(callee, GlobalRef): name = callee.n
        elif isinstance(callee, CExpr) and callee.op == 'bitcast' and isinstance(callee.args[0][1], GlobalRef): name = callee.args[0][1].n
        else: raise Unsupported('callee %r' % (callee,))
        args = [None if v is None else s.const(st, t, v) for t, v in a['args']]
        key = name[1:].strip('"')
        s.called.add(name)
        if key in s.stubs:
            r = s.stubs[key](s, st, args, ins)
            if isinstance(r, list): return r
            if ins.dst is not None: fr.regs[ins.dst] = r
            return None
        if key.startswith('llvm.'):
            return s.intrinsic(st, fr, ins, key, args)
        if s.real_only is not None and key not in s.real_only:
            # every callee outside the functions under test is an uninterpreted, logged call (its occurrence is part of the trace)
            st.log.append(('call', key))
            rt = s.resolve(ins.a['ret'])
            if isinstance(rt, VoidT): return None
            if isinstance(rt, (IntT, FpT)):
                if ins.dst is not None: fr.regs[ins.dst] = s.newsym(rt, key)
                return None
            raise Unsupported('uninterpreted %s returning %r' % (key, rt))
        if name in s.mod.fns:
            fn = s.mod.fns[name]
            regs = {n: v for (t, n), v in zip(fn.params, args)}
            st.stack.append(Frame(fn, fn.entry, regs, ins.dst, ins.a.get('normal') if ins.op == 'invoke' else None)); return None
        raise Unsupported('call to undefined %s (no stub)' % name)
    def intrinsic(s, st, fr, ins, key, args):
        real = s.fpmode == 'real'
        if key.startswith(('llvm.lifetime', 'llvm.dbg', 'llvm.assume', 'llvm.experimental.noalias', 'llvm.stacksave', 'llvm.stackrestore', 'llvm.prefetch')): return None
        m_ = re.match(r'llvm\.(s|u)(add|sub|mul)\.with\.overflow\.i(\d+)$', key)
        if m_:
            # {iN result, i1 overflow}: computed in 2N bits and compared with the (sign/zero-)extended truncation
            sg, opn, n = m_.group(1) == 's', m_.group(2), int(m_.group(3))
            ext = (lambda v: z3.SignExt(n, v)) if sg else (lambda v: z3.ZeroExt(n, v))
            x, y = ext(args[0]), ext(args[1])
            wide = x + y if opn == 'add' else (x - y if opn == 'sub' else x * y)
            res = z3.Extract(n - 1, 0, wide)
            ovf = z3.simplify(ext(res) != wide)
            if ins.dst is not None: fr.regs[ins.dst] = [z3.simplify(res), ovf]
            return None
        if key.startswith(('llvm.memcpy', 'llvm.memmove', 'llvm.memset')):
            what = 'memset' if key.startswith('llvm.memset') else 'memcpy'
            symlen = not z3.is_bv_value(z3.simplify(args[2]))
            symoff = any(isinstance(p, Ptr) and not isinstance(p.off, int) for p in args[:2])
            symb = symlen or (symoff and (what == 'memset' or s.fork_symbolic_memcpy))
            if symb and not any(isinstance(p, IntPtr) for p in args[:2]):
                return s.mem_fork(st, what, args[0], args[1], args[2])
            ok = s.memcpy(st, args[0], args[1], args[2]) if what == 'memcpy' else s.memset(st, args[0], args[1], args[2])
            return None if ok else [Result('memfault', st, info=ins.line)]
        if key.startswith('llvm.fabs'):
            x = args[0]; fr.regs[ins.dst] = z3.If(x >= 0, x, -x) if real else z3.fpAbs(x); return None
        if key.startswith('llvm.fmuladd'):
            x, y, z = args
            fr.regs[ins.dst] = (x * y + z) if real else z3.fpAdd(z3.RNE(), z3.fpMul(z3.RNE(), x, y), z); return None
        if key.startswith('llvm.sqrt'):
            fr.regs[ins.dst] = s.sqrt(st, args[0]); return None
        if key.startswith(('llvm.minnum', 'llvm.maxnum')):
            x, y = args; mx = key.startswith('llvm.maxnum')
            if real: fr.regs[ins.dst] = z3.If((x >= y) if mx else (x <= y), x, y)
            else: fr.regs[ins.dst] = z3.fpMax(x, y) if mx else z3.fpMin(x, y)
            return None
        if key.startswith(('llvm.smax', 'llvm.smin', 'llvm.umax', 'llvm.umin')):
            x, y = args
            c = {'smax': x >= y, 'smin': x <= y, 'umax': z3.UGE(x, y), 'umin': z3.ULE(x, y)}[key[5:9]]
            fr.regs[ins.dst] = z3.If(c, x, y); return None
        if key.startswith('llvm.abs'):
            x = args[0]; fr.regs[ins.dst] = z3.If(x >= 0, x, -x); return None
        if key.startswith('llvm.floor') and not real:
            fr.regs[ins.dst] = z3.fpRoundToIntegral(z3.RTN(), args[0]); return None
        if key.startswith('llvm.ceil') and not real:
            fr.regs[ins.dst] = z3.fpRoundToIntegral(z3.RTP(), args[0]); return None
        if key.startswith('llvm.floor') and real:
            fr.regs[ins.dst] = z3.ToReal(z3.ToInt(args[0])); return None
        if key.startswith('llvm.trap'):
            return [Result('trap', st)]
        raise Unsupported('intrinsic %s' % key)
    def sqrt(s, st, x):
        if s.fpmode != 'real': return z3.fpSqrt(z3.RNE(), x)
        xs = z3.simplify(x)
        if z3.is_rational_value(xs):
            fr_ = fractions.Fraction(xs.numerator_as_long(), xs.denominator_as_long())
            import math
            if fr_ >= 0:
                n, d = math.isqrt(fr_.numerator), math.isqrt(fr_.denominator)
                if n * n == fr_.numerator and d * d == fr_.denominator: return z3.RealVal(str(fractions.Fraction(n, d)))
        s.fresh += 1; t = z3.Real('sqrt!%d' % s.fresh)
        # total on negatives as in C (NaN) is not modelled: harness must keep argument >= 0 or the obligation flags it
        s.add_obl(st, x >= 0, 'sqrt argument non-negative (real mode)', kind='domain')
        st.pc.append(z3.And(t >= 0, t * t == x))
        st.log.append(('sqrt', t, x))
        return t


# ------------------------------------------------------------------ default stubs (environment model)
def _stub_message(ex, st, args, ins):
    lvl = ex.load(st, args[0], IntT(32))
    lvl = z3.simplify(lvl)
    if z3.is_bv_value(lvl):
        if lvl.as_long() >= 3:
            st.log.append(('error', st.stack[-1].fn.name))
            return [Result('error', st, info='mju_message(ERROR) in %s' % st.stack[-1].fn.name)]
        st.log.append(('message', lvl.as_long())); return None
    raise Unsupported('mju_message with symbolic level')


def _stub_error(ex, st, args, ins):
    st.log.append(('error', st.stack[-1].fn.name))
    return [Result('error', st, info='mju_error in %s' % st.stack[-1].fn.name)]


def _stub_warning(ex, st, args, ins):
    st.log.append(('warning', st.stack[-1].fn.name)); return None


def _stub_zero32(ex, st, args, ins): return bvv(0, 32)


def _stub_sqrt(ex, st, args, ins): return ex.sqrt(st, args[0])


def _stub_fabs(ex, st, args, ins):
    x = args[0]; return z3.If(x >= 0, x, -x) if ex.fpmode == 'real' else z3.fpAbs(x)


def _stub_fmin(ex, st, args, ins):
    x, y = args; return z3.If(x <= y, x, y) if ex.fpmode == 'real' else z3.fpMin(x, y)


def _stub_fmax(ex, st, args, ins):
    x, y = args; return z3.If(x >= y, x, y) if ex.fpmode == 'real' else z3.fpMax(x, y)


def _stub_libc_mem(what):
    def stub(ex, st, args, ins):
        fr = st.stack[-1]
        symlen = not z3.is_bv_value(z3.simplify(args[2]))
        symoff = any(isinstance(p, Ptr) and not isinstance(p.off, int) for p in args[:2])
        symb = symlen or (symoff and (what == 'memset' or ex.fork_symbolic_memcpy))
        a1 = args[1]
        if what == 'memset' and z3.is_expr(a1) and a1.size() != 8: a1 = z3.Extract(7, 0, a1)
        if symb and not any(isinstance(p, IntPtr) for p in args[:2]):
            outs = ex.mem_fork(st, what, args[0], a1, args[2])
            for o in outs:
                if isinstance(o, State) and ins.dst is not None: o.stack[-1].regs[ins.dst] = args[0]
            return outs
        ok = ex.memcpy(st, args[0], a1, args[2]) if what == 'memcpy' else ex.memset(st, args[0], a1, args[2])
        if not ok: return [Result('memfault', st, info=ins.line)]
        return args[0]
    return stub


def _byte_at(ex, st, p, i, guard):
    """byte p[i] read under `guard` (the bounds obligation of the read is conditional on the guard)"""
    st.pc.append(guard)
    try:
        q = ex.gep(st, IntT(8), p, [(IntT(64), z3.BitVecVal(i, 64))])
        if isinstance(q, Ptr) and q.obj != 0:
            o = st.objs.get(q.obj)
            if o is not None and isinstance(q.off, int) and not z3.is_expr(o.size) and o.size is not None and q.off >= o.size:
                ex.add_obl(st, z3.BoolVal(False), 'out-of-bounds string read obj=%s off=%d objsize=%s' % (o.name, q.off, o.size)); return None
        return ex.load(st, q, IntT(8))
    finally:
        st.pc.pop()


def _strcap(ex, st, p):
    cap = st.aux.get('strcap', 16)
    if isinstance(p, Ptr) and p.obj in st.objs:
        o = st.objs[p.obj]
        if o.size is not None and not z3.is_expr(o.size) and isinstance(p.off, int): cap = min(cap, max(o.size - p.off, 0) + 1)
    return cap


def _stub_strlen(ex, st, args, ins):
    p = args[0]; K = _strcap(ex, st, p)
    reached = z3.BoolVal(True); parts = []
    for i in range(K):
        c = _byte_at(ex, st, p, i, reached)
        if c is None: break
        parts.append((reached, c)); reached = z3.And(reached, c != 0)
    out = z3.BitVecVal(len(parts), 64)
    for i in reversed(range(len(parts))):
        g, c = parts[i]; out = z3.If(z3.And(g, c == 0), z3.BitVecVal(i, 64), out)
    ex.add_obl(st, z3.Not(reached), 'string is NUL-terminated within the modelled cap (strlen)', kind='model')
    return out


def _stub_strnlen(ex, st, args, ins):
    n = args[1]; ln = _stub_strlen(ex, st, args[:1], ins)
    return z3.If(z3.ULT(ln, n), ln, n)


def _stub_cmp(kind):
    def stub(ex, st, args, ins):
        a, b = args[0], args[1]
        n = args[2] if kind in ('strncmp', 'memcmp') else None
        K = max(_strcap(ex, st, a), _strcap(ex, st, b)) if kind != 'memcmp' else st.aux.get('strcap', 16)
        reached = z3.BoolVal(True); parts = []
        for i in range(K):
            guard = reached if n is None else z3.And(reached, z3.UGT(n, i))
            ca = _byte_at(ex, st, a, i, guard); cb = _byte_at(ex, st, b, i, guard)
            if ca is None or cb is None: break
            parts.append((guard, ca, cb))
            reached = z3.And(guard, ca == cb) if kind == 'memcmp' else z3.And(guard, ca == cb, ca != 0)
        out = z3.BitVecVal(0, 32)
        for guard, ca, cb in reversed(parts):
            diff = z3.ZeroExt(24, ca) - z3.ZeroExt(24, cb)
            if kind == 'memcmp': out = z3.If(z3.And(guard, ca != cb), diff, out)
            else: out = z3.If(z3.And(guard, ca != cb), diff, z3.If(z3.And(guard, ca == 0), z3.BitVecVal(0, 32), out))
        if len(parts) == K:
            ex.add_obl(st, z3.Not(reached), '%s comparison ends within the modelled cap' % kind, kind='model')
        return out
    return stub


DEFAULT_STUBS = {
    'strlen': _stub_strlen, 'strnlen': _stub_strnlen, 'strcmp': _stub_cmp('strcmp'), 'strncmp': _stub_cmp('strncmp'), 'memcmp': _stub_cmp('memcmp'),
    'memset': _stub_libc_mem('memset'), 'memcpy': _stub_libc_mem('memcpy'), 'memmove': _stub_libc_mem('memcpy'),
    'mju_message': _stub_message, 'mju_error': _stub_error, 'mju_error_v': _stub_error,
    'mju_warning': _stub_warning, 'snprintf': _stub_zero32, 'printf': _stub_zero32,
    'sqrt': _stub_sqrt, 'sqrtf': _stub_sqrt, 'fabs': _stub_fabs, 'fabsf': _stub_fabs,
    'fmin': _stub_fmin, 'fmax': _stub_fmax, 'fminf': _stub_fmin, 'fmaxf': _stub_fmax,
}


def uf_stub(name, ret_ty=None, log=True):
    """uninterpreted callee: logs (name, args) and returns a fresh symbol"""
    def stub(ex, st, args, ins):
        if log: st.log.append(('call', name, tuple(_key(a) for a in args)))
        rt = ins.a['ret']
        rt = ex.resolve(rt)
        if isinstance(rt, VoidT): return None
        if isinstance(rt, (IntT, FpT)): return ex.newsym(rt, name)
        raise Unsupported('uninterpreted %s returning %r' % (name, rt))
    return stub


def _key(a):
    if isinstance(a, Ptr): return ('ptr', a.obj, a.off if isinstance(a.off, int) else str(a.off))
    if isinstance(a, (FnPtr, IntPtr)): return repr(a)
    if a is None: return None
    return a.sexpr() if z3.is_expr(a) else repr(a)
