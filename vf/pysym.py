"""pysym: run the repository's real numpy code on dtype=object arrays whose cells wrap z3 terms."""
import fractions, importlib.util, os, sys, types
import numpy as np
import z3


def R(x):
    if isinstance(x, S): return x.t
    if z3.is_expr(x): return x
    if isinstance(x, (bool, np.bool_)): raise TypeError('bool in arithmetic')
    if isinstance(x, (int, np.integer)): return z3.RealVal(int(x))
    if isinstance(x, (float, np.floating)): return z3.RealVal(str(fractions.Fraction(float(x))))
    raise TypeError('cannot lift %r' % (x,))


class S:
    """symbolic scalar cell (immutable). Arithmetic with ndarrays defers to numpy (returns NotImplemented)."""
    __slots__ = ('t',)
    def __init__(self, t): self.t = t
    def _b(self, o, f):
        if isinstance(o, np.ndarray): return NotImplemented
        return S(z3.simplify(f(self.t, R(o))))
    def __add__(self, o): return self._b(o, lambda a, b: a + b)
    def __radd__(self, o): return self._b(o, lambda a, b: b + a)
    def __sub__(self, o): return self._b(o, lambda a, b: a - b)
    def __rsub__(self, o): return self._b(o, lambda a, b: b - a)
    def __mul__(self, o): return self._b(o, lambda a, b: a * b)
    def __rmul__(self, o): return self._b(o, lambda a, b: b * a)
    def __truediv__(self, o): return self._b(o, lambda a, b: a / b)
    def __rtruediv__(self, o): return self._b(o, lambda a, b: b / a)
    def __neg__(self): return S(-self.t)
    def __pos__(self): return self
    def __abs__(self): return S(z3.If(self.t >= 0, self.t, -self.t))
    def _c(self, o, f):
        if isinstance(o, np.ndarray): return NotImplemented
        return B(f(self.t, R(o)))
    def __lt__(self, o): return self._c(o, lambda a, b: a < b)
    def __le__(self, o): return self._c(o, lambda a, b: a <= b)
    def __gt__(self, o): return self._c(o, lambda a, b: a > b)
    def __ge__(self, o): return self._c(o, lambda a, b: a >= b)
    def __float__(self): raise TypeError('symbolic cell used where a concrete float is required')
    def __bool__(self): raise TypeError('truth value of a symbolic cell')
    def __repr__(self): return 'S(%s)' % self.t


def sym_array(name, shape, sort=z3.Real):
    a = np.empty(shape, dtype=object)
    for idx in np.ndindex(*shape):
        a[idx] = S(sort('%s_%s' % (name, '_'.join(map(str, idx)))))
    return a


def terms(a):
    return [x.t if isinstance(x, S) else (R(x) if not isinstance(x, S) else x.t) for x in np.asarray(a, dtype=object).ravel()]


class NpShim:
    """numpy facade for the module under test: array constructors that would create float buffers create object arrays"""
    def __init__(self, overrides=None): self._o = overrides or {}
    def __getattr__(self, n):
        if n in self._o: return self._o[n]
        return getattr(np, n)
    def empty(self, shape, dtype=None, **kw): return np.empty(shape, dtype=object)
    def zeros(self, shape, dtype=None, **kw):
        a = np.empty(shape, dtype=object); a.fill(S(z3.RealVal(0))); return a
    def ones(self, shape, dtype=None, **kw):
        a = np.empty(shape, dtype=object); a.fill(S(z3.RealVal(1))); return a
    def isclose(self, a, b, rtol=1e-05, atol=1e-08, equal_nan=False):
        return _elem(lambda x, y: B(z3.If(R(x) - R(y) >= 0, R(x) - R(y), R(y) - R(x)) <= R(atol) + R(rtol) * z3.If(R(y) >= 0, R(y), -R(y))), a, b)
    def allclose(self, a, b, rtol=1e-05, atol=1e-08, equal_nan=False):
        cells = [c.t for c in self.isclose(a, b, rtol, atol).ravel()]
        return B(z3.And(*cells)) if cells else True
    def eye(self, n, dtype=None, **kw):
        a = np.empty((n, n), dtype=object)
        for i in range(n):
            for j in range(n): a[i, j] = S(z3.RealVal(1 if i == j else 0))
        return a


def load_by_path(modname, path, inject=None):
    """import a repository file under a given module name; `inject` = {global name: object} replaces names after exec"""
    spec = importlib.util.spec_from_file_location(modname, path)
    m = importlib.util.module_from_spec(spec)
    sys.modules[modname] = m
    spec.loader.exec_module(m)
    for k, v in (inject or {}).items(): setattr(m, k, v)
    return m


class LinInterp:
    """stand-in for scipy.interpolate.interp1d(kind='linear', axis=0, bounds_error=False, fill_value=(first, last)):
    piecewise-linear with CONCRETE abscissae, so the result is linear in the (symbolic) ordinates"""
    def __init__(self, x, y, kind='linear', axis=0, bounds_error=False, fill_value=None, assume_sorted=True):
        if kind != 'linear' or axis != 0: raise NotImplementedError(kind)
        self.x = np.asarray(x, dtype=float); self.y = y; self.fill = fill_value
    def __call__(self, t):
        t = np.atleast_1d(np.asarray(t, dtype=float))
        out = np.empty((len(t),) + self.y.shape[1:], dtype=object)
        for k, tk in enumerate(t):
            if tk < self.x[0]: out[k] = self.fill[0]
            elif tk > self.x[-1]: out[k] = self.fill[1]
            else:
                i = int(np.searchsorted(self.x, tk, side='right')) - 1
                if i >= len(self.x) - 1: out[k] = self.y[-1]; continue
                w = fractions.Fraction(float(tk)) - fractions.Fraction(float(self.x[i]))
                w = w / (fractions.Fraction(float(self.x[i + 1])) - fractions.Fraction(float(self.x[i])))
                wz = z3.RealVal(str(w))
                out[k] = self.y[i] + (self.y[i + 1] - self.y[i]) * S(wz) if w != 0 else self.y[i]
        return out


# ------------------------------------------------------------------ exact IEEE-754 cells (binary64)
F64 = z3.Float64()
RNE = z3.RNE()


def FV(x):
    if isinstance(x, F): return x.t
    if z3.is_expr(x): return x
    return z3.FPVal(float(x), F64)


class B:
    """symbolic boolean cell"""
    __slots__ = ('t',)
    def __init__(self, t): self.t = t
    def __and__(self, o): return B(z3.And(self.t, o.t if isinstance(o, B) else z3.BoolVal(bool(o))))
    def __or__(self, o): return B(z3.Or(self.t, o.t if isinstance(o, B) else z3.BoolVal(bool(o))))
    def __invert__(self): return B(z3.Not(self.t))
    def __bool__(self):
        # data-dependent branch of the code under test: decided by the path engine (fork by re-execution), if one is active
        if ENGINE[0] is None: raise TypeError('truth value of a symbolic boolean')
        return ENGINE[0].branch(self.t)


ENGINE = [None]


class Paths:
    """depth-first exploration of the code's data-dependent branches by re-execution: every `if` on a symbolic boolean asks z3 which sides are
    feasible under the path condition so far (unknown counts as feasible), follows one and queues the other"""
    def __init__(self, base=(), timeout_ms=10000): self.base = list(base); self.decisions = []; self.pos = 0; self.pc = []; self.nq = 0; self.timeout_ms = timeout_ms
    def _feasible(self, extra):
        s = z3.Solver(); s.set('timeout', self.timeout_ms); s.add(*self.base); s.add(*self.pc); s.add(extra); self.nq += 1
        return s.check() != z3.unsat
    def branch(self, cond):
        c = z3.simplify(cond)
        if z3.is_true(c): return True
        if z3.is_false(c): return False
        if self.pos < len(self.decisions): v = self.decisions[self.pos][0]
        else:
            okT = self._feasible(c); okF = self._feasible(z3.Not(c))
            if not (okT or okF): raise RuntimeError('infeasible path reached')
            self.decisions.append([okT, okT and okF]); v = okT
        self.pos += 1; self.pc.append(c if v else z3.Not(c)); return v
    def next_path(self):
        while self.decisions and not self.decisions[-1][1]: self.decisions.pop()
        if not self.decisions: return False
        self.decisions[-1] = [not self.decisions[-1][0], False]; return True


def explore(fn, base=(), max_paths=64):
    """run fn() once per feasible path; yields (path condition, fn result, engine)"""
    eng = Paths(base); n = 0
    while True:
        eng.pos = 0; eng.pc = []; ENGINE[0] = eng
        try: ret = fn()
        finally: ENGINE[0] = None
        yield list(eng.pc), ret, eng
        n += 1
        if n >= max_paths or not eng.next_path(): return


class F:
    """IEEE binary64 cell: every operation is the correctly rounded (RNE) z3 floating-point operation"""
    __slots__ = ('t',)
    def __init__(self, t): self.t = t
    def _b(self, o, f):
        if isinstance(o, np.ndarray): return NotImplemented
        return F(f(self.t, FV(o)))
    def __add__(self, o): return self._b(o, lambda a, b: z3.fpAdd(RNE, a, b))
    def __radd__(self, o): return self._b(o, lambda a, b: z3.fpAdd(RNE, b, a))
    def __sub__(self, o): return self._b(o, lambda a, b: z3.fpSub(RNE, a, b))
    def __rsub__(self, o): return self._b(o, lambda a, b: z3.fpSub(RNE, b, a))
    def __mul__(self, o): return self._b(o, lambda a, b: z3.fpMul(RNE, a, b))
    def __rmul__(self, o): return self._b(o, lambda a, b: z3.fpMul(RNE, b, a))
    def __truediv__(self, o): return self._b(o, lambda a, b: z3.fpDiv(RNE, a, b))
    def __rtruediv__(self, o): return self._b(o, lambda a, b: z3.fpDiv(RNE, b, a))
    def __neg__(self): return F(z3.fpNeg(self.t))
    def __abs__(self): return F(z3.fpAbs(self.t))
    def __gt__(self, o): return B(z3.fpGT(self.t, FV(o)))
    def __lt__(self, o): return B(z3.fpLT(self.t, FV(o)))
    def __ge__(self, o): return B(z3.fpGEQ(self.t, FV(o)))
    def __le__(self, o): return B(z3.fpLEQ(self.t, FV(o)))
    def __float__(self): raise TypeError('symbolic cell used where a concrete float is required')
    def __repr__(self): return 'F(%s)' % self.t


def _elem(f, *arrs):
    arrs = np.broadcast_arrays(*[np.asarray(a, dtype=object) for a in arrs])
    out = np.empty(arrs[0].shape, dtype=object)
    for idx in np.ndindex(*arrs[0].shape): out[idx] = f(*[a[idx] for a in arrs])
    return out


class NpFP(NpShim):
    """numpy facade for FP cells: the data-dependent primitives become ite terms"""
    def _lift(self, v): return v if isinstance(v, F) else F(FV(v))
    def ones(self, shape, dtype=None, **kw):
        a = np.empty(shape, dtype=object); a.fill(F(z3.FPVal(1.0, F64))); return a
    def zeros(self, shape, dtype=None, **kw):
        a = np.empty(shape, dtype=object); a.fill(F(z3.FPVal(0.0, F64))); return a
    def where(self, c, a, b):
        return _elem(lambda cc, x, y: F(z3.If(cc.t if isinstance(cc, B) else z3.BoolVal(bool(cc)), FV(x), FV(y))), c, a, b)
    def maximum(self, a, b):
        # numpy.maximum propagates NaN; inputs are assumed non-NaN by the harness preconditions
        return _elem(lambda x, y: F(z3.If(z3.fpGEQ(FV(x), FV(y)), FV(x), FV(y))), a, b)
    def minimum(self, a, b):
        return _elem(lambda x, y: F(z3.If(z3.fpLEQ(FV(x), FV(y)), FV(x), FV(y))), a, b)
    def abs(self, a): return _elem(lambda x: abs(self._lift(x)), a)
    def clip(self, a, lo, hi, out=None):
        r = self.minimum(self.maximum(a, lo), hi)
        if out is not None: out[...] = r; return out
        return r


class OA(np.ndarray):
    """object ndarray whose comparisons stay symbolic (numpy would otherwise coerce each result to bool)"""
    def __new__(cls, a):
        return np.asarray(a, dtype=object).view(cls)
    def _cmp(self, o, f):
        return _elem(f, np.asarray(self, dtype=object), o).view(OA)
    def __gt__(self, o): return self._cmp(o, lambda a, b: a > b if isinstance(a, F) else F(FV(a)) > b)
    def __lt__(self, o): return self._cmp(o, lambda a, b: a < b if isinstance(a, F) else F(FV(a)) < b)
    def __ge__(self, o): return self._cmp(o, lambda a, b: a >= b if isinstance(a, F) else F(FV(a)) >= b)
    def __le__(self, o): return self._cmp(o, lambda a, b: a <= b if isinstance(a, F) else F(FV(a)) <= b)
