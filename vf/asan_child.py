"""Out-of-process replay under AddressSanitizer: objects are malloc'ed with their exact size so that
any out-of-bounds read or write by the real code is reported. Usage: python asan_child.py spec.json"""
import ctypes, json, struct, sys

def main():
    spec = json.load(open(sys.argv[1]))
    libc = ctypes.CDLL(None)
    libc.malloc.restype = ctypes.c_void_p; libc.malloc.argtypes = [ctypes.c_size_t]
    lib = ctypes.CDLL(spec['so'], mode=ctypes.RTLD_GLOBAL)
    try:
        eh = ctypes.c_void_p.in_dll(lib, 'mju_user_error'); eh.value = ctypes.cast(lib.vf_error_exit, ctypes.c_void_p).value
        wh = ctypes.c_void_p.in_dll(lib, 'mju_user_warning'); wh.value = ctypes.cast(lib.vf_warning_count, ctypes.c_void_p).value
    except ValueError: pass
    addr = {}
    for o in spec['objs']:
        a = libc.malloc(max(o['size'], 1)); addr[o['name']] = a
        ctypes.memset(a, 0 if o['zero'] else 0xA5, max(o['size'], 1))
    FMT = {'i8': 'B', 'u8': 'B', 'i16': 'H', 'i32': 'I', 'u32': 'I', 'i64': 'Q', 'u64': 'Q', 'f64': 'd', 'f32': 'f', 'ptr': 'Q'}
    def val(ty, v):
        if ty == 'ptr': return 0 if v is None else addr[v[0]] + v[1]
        return v
    for o in spec['objs']:
        for off, ty, v in o['cells']:
            x = val(ty, v)
            if ty in ('f64', 'f32'): b = struct.pack('<' + FMT[ty], float(x))
            else:
                n = struct.calcsize(FMT[ty]); b = struct.pack('<' + FMT[ty], int(x) & ((1 << 8 * n) - 1))
            ctypes.memmove(addr[o['name']] + off, b, len(b))
    RT = {'void': None, 'i32': ctypes.c_int32, 'i64': ctypes.c_int64, 'u64': ctypes.c_uint64, 'f64': ctypes.c_double, 'ptr': ctypes.c_void_p, 'u8': ctypes.c_uint8, 'i8': ctypes.c_int8, 'f32': ctypes.c_float, 'u32': ctypes.c_uint32}
    rets = []
    for fname, args, restype in spec['calls']:
        f = getattr(lib, fname); f.restype = RT[restype]
        cargs = []
        for ty, v in args:
            x = val(ty, v)
            if ty == 'ptr': cargs.append(ctypes.c_void_p(x))
            elif ty == 'f64': cargs.append(ctypes.c_double(float(x)))
            elif ty == 'f32': cargs.append(ctypes.c_float(float(x)))
            elif ty in ('i64', 'u64'): cargs.append(ctypes.c_uint64(int(x) & (2**64 - 1)))
            elif ty in ('i8', 'u8'): cargs.append(ctypes.c_uint8(int(x) & 255))
            else: cargs.append(ctypes.c_uint32(int(x) & (2**32 - 1)))
        r = f(*cargs)
        rets.append(r if not isinstance(r, float) else repr(r))
    print('VF-RESULT ' + json.dumps({'rets': rets}))
    sys.stdout.flush()

main()
