"""Out-of-process replay under AddressSanitizer: objects are malloc'ed with their exact size so that
any out-of-bounds read or write by the real code is reported. Usage: python asan_child.py spec.json"""
import ctypes, json, struct, sys

def main():
    spec = json.load(open(sys.argv[1]))
    libc = ctypes.CDLL(None)
    libc.malloc.restype = ctypes.c_void_p; libc.malloc.argtypes = [ctypes.c_size_t]
    lib = ctypes.CDLL(spec['so'], mode=ctypes.RTLD_GLOBAL)
    try:
        eh = ctypes.c_void_p.in_dll(lib, 'mju_user_error'); eh.value = ctypes.cast(lib.vf_error_exit, ctypes.c_void_p).value
        wh = ctypes.c_void_p.in_dll(lib, 'mju_user_warning'); wh.value = ctypes.cast(lib.vf_warning_count, ctypes.c_void_p).value
    except ValueError: pass
    addr = {}
    mode = spec.get('alloc', 'malloc')
    if mode != 'malloc':
        # guard pages: every object ends exactly at ('end') or starts exactly at ('start') a page boundary whose neighbour page is inaccessible,
        # so that an out-of-bounds access of ANY distance up to a page faults (ASan's red zones only cover a few bytes)
        PAGE = 4096
        libc.mmap.restype = ctypes.c_void_p; libc.mmap.argtypes = [ctypes.c_void_p, ctypes.c_size_t, ctypes.c_int, ctypes.c_int, ctypes.c_int, ctypes.c_long]
        libc.mprotect.argtypes = [ctypes.c_void_p, ctypes.c_size_t, ctypes.c_int]
    for o in spec['objs']:
        n = max(o['size'], 1)
        if mode == 'malloc':
            a = libc.malloc(n)
        else:
            npg = (n + PAGE - 1) // PAGE
            base = libc.mmap(None, (npg + 2) * PAGE, 3, 0x22, -1, 0)      # PROT_READ|PROT_WRITE, MAP_PRIVATE|MAP_ANONYMOUS
            libc.mprotect(base, PAGE, 0); libc.mprotect(base + (npg + 1) * PAGE, PAGE, 0)
            a = base + PAGE + (npg * PAGE - n if mode == 'end' else 0)
            if mode == 'end': a -= a % 8 if n % 8 == 0 else 0
        addr[o['name']] = a
        ctypes.memset(a, 0 if o['zero'] else 0xA5, n)
    FMT = {'i8': 'B', 'u8': 'B', 'i16': 'H', 'i32': 'I', 'u32': 'I', 'i64': 'Q', 'u64': 'Q', 'f64': 'd', 'f32': 'f', 'ptr': 'Q'}
    def val(ty, v):
        if ty == 'ptr': return 0 if v is None else addr[v[0]] + v[1]
        return v
    for o in spec['objs']:
        for off, ty, v in o['cells']:
            x = val(ty, v)
            if ty in ('f64', 'f32'): b = struct.pack('<' + FMT[ty], float(x))
            else:
                n = struct.calcsize(FMT[ty]); b = struct.pack('<' + FMT[ty], int(x) & ((1 << 8 * n) - 1))
            ctypes.memmove(addr[o['name']] + off, b, len(b))
    RT = {'void': None, 'i32': ctypes.c_int32, 'i64': ctypes.c_int64, 'u64': ctypes.c_uint64, 'f64': ctypes.c_double, 'ptr': ctypes.c_void_p, 'u8': ctypes.c_uint8, 'i8': ctypes.c_int8, 'f32': ctypes.c_float, 'u32': ctypes.c_uint32}
    rets = []
    for fname, args, restype in spec['calls']:
        f = getattr(lib, fname); f.restype = RT[restype]
        cargs = []
        for ty, v in args:
            x = val(ty, v)
            if ty == 'ptr': cargs.append(ctypes.c_void_p(x))
            elif ty == 'f64': cargs.append(ctypes.c_double(float(x)))
            elif ty == 'f32': cargs.append(ctypes.c_float(float(x)))
            elif ty in ('i64', 'u64'): cargs.append(ctypes.c_uint64(int(x) & (2**64 - 1)))
            elif ty in ('i8', 'u8'): cargs.append(ctypes.c_uint8(int(x) & 255))
            else: cargs.append(ctypes.c_uint32(int(x) & (2**32 - 1)))
        r = f(*cargs)
        rets.append(r if not isinstance(r, float) else repr(r))
    print('VF-RESULT ' + json.dumps({'rets': rets}))
    sys.stdout.flush()

main()
