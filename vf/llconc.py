"""llconc (interleaving part): threads are IR function instances sharing one memory; every access to a shared cell is a
scheduling point. All schedules of the thread segments are explored with the DATA symbolic; each complete schedule yields a
final state whose obligations the solver decides (the schedule index is tied to a free variable so that "the solver picks the
interleaving"). Sequential consistency; relaxed-memory reorderings are outside the claim."""
from . import llsym


def interleavings(ex, st0, calls, max_schedules=5000):
    """calls: [(fname, args)] one per thread. Yields (final_state, schedule, rets, outcome) for every complete schedule/path.
    schedule = list of thread ids, one entry per executed segment."""
    n = len(calls)
    init = st0.clone(); init.stack = []
    stacks = []
    for fname, args in calls:
        tmp = st0.clone(); ex.start(tmp, fname, args); stacks.append(tmp.stack)
    work = [(init, stacks, [None] * n, [False] * n, [])]
    out = []; count = 0
    while work:
        st, stks, rets, done, sched = work.pop()
        if all(done):
            out.append((st, sched, rets, 'return')); continue
        for t in range(n):
            if done[t]: continue
            s2 = st.clone(); s2.stack = [f.clone() for f in stks[t]]
            for r in ex.resume(s2):
                count += 1
                if count > max_schedules: raise llsym.Unsupported('schedule budget exceeded')
                if r.kind == 'yield':
                    ns = list(stks); ns[t] = r.state.stack
                    nst = r.state; 
                    work.append((nst, ns, list(rets), list(done), sched + [t]))
                elif r.kind == 'return':
                    nr = list(rets); nr[t] = r.value; nd = list(done); nd[t] = True
                    ns = list(stks); ns[t] = []
                    work.append((r.state, ns, nr, nd, sched + [t]))
                elif r.kind == 'infeasible':
                    continue
                else:
                    out.append((r.state, sched + [t], rets, r.kind + ':' + str(r.info)))
    return out
