"""llconc (interleaving part): threads are IR function instances sharing one memory; every access to a shared cell is a
scheduling point. All schedules of the thread segments are explored with the DATA symbolic; each complete schedule yields a
final state whose obligations the solver decides (the schedule index is tied to a free variable so that "the solver picks the
interleaving"). Sequential consistency; relaxed-memory reorderings are outside the claim."""
import z3
from . import llsym


def _key(v, ren):
    if isinstance(v, llsym.Ptr): return ('p', ren.get(v.obj, v.obj), v.off if isinstance(v.off, int) else v.off.sexpr())
    if isinstance(v, llsym.IntPtr): return ('ip', v.addr.sexpr() if z3.is_expr(v.addr) else v.addr)
    if isinstance(v, (list, tuple)): return tuple(_key(x, ren) for x in v)
    if z3.is_expr(v): return v.sexpr()
    return repr(v)


def state_key(st, stks, rets, done):
    """global state = every thread's frames (function, block, instruction, registers), every memory cell, path condition, results so far.
    Two schedules that reach the same global state have the same futures (partial-order reduction by visited-state pruning).
    Stack locals get their object ids in allocation order, which depends on the schedule: they are renamed to (thread, frame, index)."""
    ren = {}
    for t, s in enumerate(stks):
        for fi, f in enumerate(s or []):
            for ai, oid in enumerate(f.allocas): ren[oid] = ('a', t, fi, ai)
    ths = tuple(None if not s else tuple((f.fn.name, f.blk, f.idx, tuple(sorted((r, _key(v, ren)) for r, v in f.regs.items()))) for f in s) for s in stks)
    mem = tuple(sorted(((repr(ren.get(oid, oid)), o.size if isinstance(o.size, int) else _key(o.size, ren), o.freed, tuple(sorted((off, _key(tuple(c), ren)) for off, c in o.cells.items()))) for oid, o in st.objs.items()), key=repr))
    return (ths, mem, tuple(sorted(c.sexpr() for c in st.pc)), _key(rets, ren), tuple(done), _key(st.log, ren))


def interleavings(ex, st0, calls, max_schedules=5000, dedupe=False):
    """calls: [(fname, args)] one per thread. Yields (final_state, schedule, rets, outcome) for every complete schedule/path.
    schedule = list of thread ids, one entry per executed segment."""
    n = len(calls)
    init = st0.clone(); init.stack = []
    stacks = []
    for fname, args in calls:
        tmp = st0.clone(); ex.start(tmp, fname, args); stacks.append(tmp.stack)
    work = [(init, stacks, [None] * n, [False] * n, [], (False,) * n)]
    out = []; count = 0; seen = set()
    while work:
        st, stks, rets, done, sched, ay = work.pop()
        if dedupe:
            k = (state_key(st, stks, rets, done), ay)
            if k in seen:
                out.append((st, sched, rets, 'pruned')); continue      # same global state already explored: only the obligations recorded so far remain to be decided
            seen.add(k)
        if all(done):
            out.append((st, sched, rets, 'return')); continue
        for t in range(n):
            if done[t]: continue
            s2 = st.clone(); s2.stack = [f.clone() for f in stks[t]]
            for r in ex.resume(s2, at_yield=ay[t]):
                count += 1
                if count > max_schedules: raise llsym.Unsupported('schedule budget exceeded')
                if r.kind == 'yield':
                    ns = list(stks); ns[t] = r.state.stack
                    nst = r.state; 
                    work.append((nst, ns, list(rets), list(done), sched + [t], ay[:t] + (True,) + ay[t + 1:]))
                elif r.kind == 'return':
                    nr = list(rets); nr[t] = r.value; nd = list(done); nd[t] = True
                    ns = list(stks); ns[t] = []
                    work.append((r.state, ns, nr, nd, sched + [t], ay[:t] + (False,) + ay[t + 1:]))
                elif r.kind == 'infeasible':
                    continue
                else:
                    out.append((r.state, sched + [t], rets, r.kind + ':' + str(r.info)))
    return out
