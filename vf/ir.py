"""Load (lower + parse) real translation units into one llsym Module; parsed modules are pickled by source hash."""
import os, pickle, sys
from . import build
from .irparse import parse_module, Module

sys.setrecursionlimit(100000)


def load(tus, flags=(), passes='mem2reg,simplifycfg', olevel='-O0'):
    mod = Module()
    mod.sources = []
    for tu in tus:
        sym, raw, h = build.lower(tu, flags, passes, olevel)
        pk = sym + '.pickle'
        m1 = None
        if os.path.exists(pk):
            try: m1 = pickle.load(open(pk, 'rb'))
            except Exception: m1 = None
        if m1 is None:
            m1 = parse_module(sym)
            tmp = pk + '.tmp%d' % os.getpid()
            pickle.dump(m1, open(tmp, 'wb'), protocol=pickle.HIGHEST_PROTOCOL); os.replace(tmp, pk)
        for k, v in m1.types.items(): mod.types.setdefault(k, v)
        for k, v in m1.globals.items():
            if k not in mod.globals or (mod.globals[k][1] is None and v[1] is not None): mod.globals[k] = v
        for k, v in m1.fns.items():
            if k in mod.fns and k.startswith('@') and not _same(mod.fns[k], v):
                # static functions with the same name in two TUs: keep the first, expose the second under a suffixed name
                mod.fns[k + '.' + os.path.basename(tu)] = v
            else: mod.fns[k] = v
        for k, v in m1.decls.items(): mod.decls.setdefault(k, v)
        if getattr(m1, 'datalayout', None): mod.datalayout = m1.datalayout
        mod.sources.append((tu, h))
    for k in list(mod.decls):
        if k in mod.fns: del mod.decls[k]
    return mod


def _same(a, b):
    return a is b
