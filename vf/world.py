"""World: one description of harness-built memory, instantiated both symbolically (llsym State) and
natively (ctypes buffers for replay / translator validation)."""
import ctypes, struct, os, sys, json, signal, traceback, math, fractions, re
import z3
from . import llsym
from .irparse import IntT, FpT, PtrT

TY = {'i8': (1, 'b'), 'u8': (1, 'B'), 'i16': (2, 'h'), 'i32': (4, 'i'), 'u32': (4, 'I'), 'i64': (8, 'q'), 'u64': (8, 'Q'), 'f64': (8, 'd'), 'f32': (4, 'f'), 'ptr': (8, 'Q')}
GUARD = 64
CANARY = 0xA5


def irty(ty):
    if ty in ('f64',): return FpT('double')
    if ty == 'f32': return FpT('float')
    if ty == 'ptr': return PtrT(IntT(8))
    return IntT(TY[ty][0] * 8)


class WObj:
    def __init__(self, world, name, size):
        self.world = world; self.name = name; self.size = size; self.cells = {}; self.zero_default = False
    def put(self, off, ty, val):
        """val: z3 expr | python number | (WObj, offset) pointer | None (NULL pointer)"""
        self.cells[off] = (ty, val); return val
    def sym(self, off, ty, name=None):
        v = self.world.fresh(ty, name or '%s_%d' % (self.name, off)); self.cells[off] = (ty, v); return v
    def array(self, off, ty, n, name=None, vals=None):
        out = []
        sz = TY[ty][0]
        for i in range(n):
            if vals is not None: v = vals[i]; self.cells[off + i * sz] = (ty, v)
            else: v = self.sym(off + i * sz, ty, '%s%d' % (name or self.name, i))
            out.append(v)
        return out
    def zeros(self):
        self.zero_default = True; return self
    def ptr(self, off=0): return (self, off)


class World:
    def __init__(self, fpmode='real'):
        self.objs = []; self.fpmode = fpmode; self.nfresh = 0; self.syms = []
    def obj(self, name, size):
        o = WObj(self, name, size); self.objs.append(o); return o
    def arr(self, name, ty, n, vals=None):
        o = self.obj(name, max(n, 0) * TY[ty][0])
        vs = o.array(0, ty, n, name, vals)
        return o, vs
    def fresh(self, ty, name):
        self.nfresh += 1
        nm = name
        if ty in ('f64', 'f32'):
            if self.fpmode == 'real': v = z3.Real(nm)
            else: v = z3.FP(nm, z3.Float64() if ty == 'f64' else z3.Float32())
        elif ty == 'ptr': raise ValueError('symbolic pointer')
        else: v = z3.BitVec(nm, TY[ty][0] * 8)
        self.syms.append((nm, ty, v)); return v
    # ---------------- symbolic instantiation
    def to_state(self, ex, st=None):
        st = st or llsym.State()
        m = {}
        for o in self.objs:
            p = st.alloc(o.size, o.name); m[o] = p
            if o.zero_default:
                def dflt(e, off, t): return e.zero(t)
                st.objs[p.obj].default = dflt
        for o in self.objs:
            so = st.objs[m[o].obj]
            for off, (ty, val) in o.cells.items():
                so.cells[off] = (self._symval(ex, ty, val, m), TY[ty][0])
        self.map = m
        return st
    def _symval(self, ex, ty, val, m):
        if ty == 'ptr':
            if val is None: return llsym.NULL
            if isinstance(val, llsym.FnPtr): return val
            if isinstance(val, llsym.IntPtr): return val
            o, off = val; return llsym.Ptr(m[o].obj, off)
        if z3.is_expr(val): return val
        if ty in ('f64', 'f32'):
            if self.fpmode == 'real': return z3.RealVal(str(fractions.Fraction(val)))
            return z3.FPVal(val, z3.Float64() if ty == 'f64' else z3.Float32())
        return z3.BitVecVal(val, TY[ty][0] * 8)
    def P(self, o, off=0):
        return llsym.Ptr(self.map[o].obj, off)
    # ---------------- concretisation
    def concretise(self, model):
        """{sym name: python value} under a z3 model (None model: all zeros)"""
        out = Values()
        for nm, ty, v in self.syms:
            out[nm] = evalnum(model, v) if model is not None else 0
        out.model = model
        return out


class Values(dict):
    """concrete values of the symbolic inputs; keeps the z3 model so that derived cell terms can be evaluated too"""
    model = None
    def of(self, term):
        nm = str(term)
        if nm in self: return self[nm]
        if self.model is not None: return evalnum(self.model, term)
        import z3 as _z
        subs = []
        todo = [term]; seen = set()
        while todo:
            x = todo.pop()
            if x.get_id() in seen: continue
            seen.add(x.get_id())
            if _z.is_const(x) and x.decl().kind() == _z.Z3_OP_UNINTERPRETED and str(x) in self:
                v = self[str(x)]
                if _z.is_bv(x): subs.append((x, _z.BitVecVal(int(v), x.size())))
                elif _z.is_real(x): subs.append((x, _z.RealVal(str(fractions.Fraction(float(v))))))
                elif _z.is_fp(x): subs.append((x, _z.FPVal(float(v), x.sort())))
            todo.extend(x.children())
        return tonum(_z.simplify(_z.substitute(term, *subs)))


def evalnum(model, v, prec=30):
    """python value of z3 term under model (completion on)"""
    if not z3.is_expr(v): return v
    r = model.eval(v, model_completion=True) if model is not None else z3.simplify(v)
    return tonum(r, prec)


def tonum(r, prec=30):
    if z3.is_bv_value(r): return r.as_long()
    if z3.is_true(r): return 1
    if z3.is_false(r): return 0
    if z3.is_int_value(r): return r.as_long()
    if z3.is_rational_value(r): return float(fractions.Fraction(r.numerator_as_long(), r.denominator_as_long()))
    if z3.is_algebraic_value(r): return float(r.approx(prec).as_fraction())
    if z3.is_fp(r):
        rr = z3.simplify(r)
        if z3.is_fp_value(rr):
            if rr.isNaN(): return float('nan')
            if rr.isInf(): return float('-inf') if rr.isNegative() else float('inf')
            bv = z3.simplify(z3.fpToIEEEBV(rr))
            n = bv.as_long()
            return struct.unpack('<d', struct.pack('<Q', n))[0] if bv.size() == 64 else struct.unpack('<f', struct.pack('<I', n))[0]
    rr = z3.simplify(r)
    if rr is not r and not rr.eq(r): return tonum(rr, prec)
    raise ValueError('cannot convert %s' % r)


# ------------------------------------------------------------------ native side
class NativeWorld:
    """ctypes instantiation of a World under concrete values"""
    def __init__(self, world, values):
        self.world = world; self.bufs = {}; self.values = values
        self.sizes = {}
        for o in world.objs:
            size = o.size
            if z3.is_expr(size):
                size = int(values.of(size)) if isinstance(values, Values) else (int(values[str(size)]) if str(size) in values else tonum(z3.simplify(size)))
                if size > (1 << 26): raise ValueError('object %s too large to instantiate natively (%d bytes)' % (o.name, size))
            self.sizes[o] = size
            raw = (ctypes.c_ubyte * (size + 2 * GUARD))()
            ctypes.memset(raw, CANARY, size + 2 * GUARD)
            if o.zero_default: ctypes.memset(ctypes.addressof(raw) + GUARD, 0, size)
            self.bufs[o] = raw
        for o in world.objs:
            for off, (ty, val) in o.cells.items():
                if off + TY[ty][0] > self.sizes[o]: continue     # cell lies beyond a symbolic-size object's actual extent
                self.write(o, off, ty, self._val(ty, val))
    def addr(self, o, off=0): return ctypes.addressof(self.bufs[o]) + GUARD + off
    def _val(self, ty, val):
        if ty == 'ptr':
            if val is None: return 0
            if isinstance(val, (llsym.FnPtr, llsym.IntPtr)): raise ValueError('function/int pointer cell needs custom native value')
            o, off = val; return self.addr(o, off)
        if z3.is_expr(val):
            v = self.values.of(val) if isinstance(self.values, Values) else (self.values[str(val)] if str(val) in self.values else tonum(z3.simplify(val)))
        else: v = val
        return v
    def write(self, o, off, ty, v):
        sz, fmt = TY[ty]
        if ty in ('f64', 'f32'): v = float(v)
        else:
            v = int(v) & ((1 << (8 * sz)) - 1); fmt = {1: 'B', 2: 'H', 4: 'I', 8: 'Q'}[sz]
        struct.pack_into('<' + fmt, self.bufs[o], GUARD + off, v)
    def read(self, o, off, ty):
        sz, fmt = TY[ty]
        if ty not in ('f64', 'f32'): fmt = {1: 'B', 2: 'H', 4: 'I', 8: 'Q'}[sz]   # integers are compared as unsigned bit patterns
        return struct.unpack_from('<' + fmt, self.bufs[o], GUARD + off)[0]
    def canaries_intact(self):
        bad = []
        for o, raw in self.bufs.items():
            b = bytes(raw)
            if any(x != CANARY for x in b[:GUARD]) or any(x != CANARY for x in b[GUARD + self.sizes[o]:]): bad.append(o.name)
        return bad


def run_child(fn, timeout=60):
    """run fn() in a forked child; returns ('ok', result) | ('error', msg) | ('stub', msg) | ('crash', signo) | ('timeout', None) | ('exc', text)"""
    r, w = os.pipe()
    er, ew = os.pipe()
    pid = os.fork()
    if pid == 0:
        try:
            os.close(r); os.close(er)
            os.dup2(ew, 2)
            try:
                res = fn()
                data = json.dumps({'ok': res}).encode()
            except BaseException as e:
                data = json.dumps({'exc': traceback.format_exc()}).encode()
            os.write(w, data)
        finally:
            os._exit(0)
    os.close(w); os.close(ew)
    import select, time
    chunks = []; errs = []
    t0 = time.time()
    fds = {r, er}
    while fds:
        left = timeout - (time.time() - t0)
        if left <= 0:
            os.kill(pid, signal.SIGKILL); os.waitpid(pid, 0); os.close(r); os.close(er); return ('timeout', None)
        rd, _, _ = select.select(list(fds), [], [], left)
        for fd in rd:
            d = os.read(fd, 65536)
            if not d: fds.discard(fd)
            elif fd == r: chunks.append(d)
            else: errs.append(d)
    os.close(r); os.close(er)
    _, status = os.waitpid(pid, 0)
    err = b''.join(errs).decode(errors='replace')
    if os.WIFSIGNALED(status): return ('crash', os.WTERMSIG(status), err[-2000:])
    code = os.WEXITSTATUS(status)
    if code == 42: return ('error', err[-500:])
    if code == 43: return ('stub', err[-500:])
    if code != 0: return ('crash', -code, err[-2000:])
    try:
        d = json.loads(b''.join(chunks).decode())
    except Exception:
        return ('exc', 'no result from child; stderr: ' + err[-1000:])
    if 'exc' in d: return ('exc', d['exc'])
    return ('ok', d['ok'])


_ERRCB = ctypes.CFUNCTYPE(None, ctypes.c_char_p)


def load_lib(so):
    lib = ctypes.CDLL(so, mode=ctypes.RTLD_GLOBAL)
    # engine errors end the child with status 42; warnings are counted
    try:
        eh = ctypes.c_void_p.in_dll(lib, 'mju_user_error')
        eh.value = ctypes.cast(lib.vf_error_exit, ctypes.c_void_p).value
        wh = ctypes.c_void_p.in_dll(lib, 'mju_user_warning')
        wh.value = ctypes.cast(lib.vf_warning_count, ctypes.c_void_p).value
    except ValueError:
        pass
    return lib


_RT = None


def _restype(restype):
    return {'void': None, 'i32': ctypes.c_int32, 'i64': ctypes.c_int64, 'u64': ctypes.c_uint64, 'f64': ctypes.c_double, 'ptr': ctypes.c_void_p,
            'u8': ctypes.c_uint8, 'i8': ctypes.c_int8, 'f32': ctypes.c_float, 'u32': ctypes.c_uint32}[restype]


def _cargs(nw, args):
    cargs = []
    for ty, v in args:
        if ty == 'ptr': cargs.append(ctypes.c_void_p(nw._val('ptr', v)))
        elif ty in ('f64',): cargs.append(ctypes.c_double(float(nw._val(ty, v))))
        elif ty in ('f32',): cargs.append(ctypes.c_float(float(nw._val(ty, v))))
        elif ty in ('i64', 'u64'): cargs.append(ctypes.c_uint64(int(nw._val(ty, v)) & (2**64 - 1)))
        elif ty in ('i8', 'u8'): cargs.append(ctypes.c_uint8(int(nw._val(ty, v)) & 0xff))
        else: cargs.append(ctypes.c_uint32(int(nw._val(ty, v)) & (2**32 - 1)))
    return cargs


def native_seq(so, calls, world, values, outputs=(), timeout=60, pre=None):
    """Run a sequence of real calls [(fname, args, restype)] on one native instantiation of the world, in a child process."""
    def child():
        lib = load_lib(so)
        nw = NativeWorld(world, values)
        if pre: pre(lib, nw)
        rets = []
        for fname, args, restype in calls:
            f = getattr(lib, fname)
            f.restype = _restype(restype)
            ret = f(*_cargs(nw, args))
            if restype in ('i32', 'i64', 'i8') and ret is not None: ret &= {'i32': 2**32 - 1, 'i64': 2**64 - 1, 'i8': 255}[restype]
            if isinstance(ret, float) and (ret != ret or ret in (float('inf'), float('-inf'))): ret = repr(ret)
            rets.append(ret)
        out = {}
        for label, o, off, ty in outputs:
            v = nw.read(o, off, ty)
            if isinstance(v, float) and (v != v or v in (float('inf'), float('-inf'))): v = repr(v)
            out[label] = v
        lib.vf_get_calls.restype = ctypes.c_char_p
        res = {'ret': rets[-1] if rets else None, 'rets': rets, 'out': out, 'canaries': nw.canaries_intact(), 'nwarn': lib.vf_get_nwarn(),
               'calls': [c for c in lib.vf_get_calls().decode().split(';') if c]}
        if calls and calls[-1][2] == 'ptr':
            ret = rets[-1]; res['ret_obj'] = None
            if ret:
                for o in world.objs:
                    a = nw.addr(o)
                    if a <= ret <= a + nw.sizes[o]: res["ret_obj"] = [o.name, ret - a]
        return res
    return run_child(child, timeout)


def native_call(so, fname, world, values, args, restype='void', outputs=(), timeout=60, pre=None):
    """Call the real function in a child process.
    args: list of ('i32', value|z3) | ('f64', ...) | ('ptr', (WObj, off) | None)
    outputs: list of (label, WObj, off, ty). Returns (status, {'ret':..., 'out': {label: value}, 'canaries': [...]})"""
    return native_seq(so, [(fname, args, restype)], world, values, outputs, timeout, pre)


def close(a, b, semantics):
    if isinstance(a, str) or isinstance(b, str): return str(a) == str(b)
    if semantics == 'real':
        a = float(a); b = float(b)
        return abs(a - b) <= 1e-7 * max(1.0, abs(a), abs(b))
    if isinstance(a, float) or isinstance(b, float):
        a = float(a); b = float(b)
        return (a != a and b != b) or struct.pack('<d', a) == struct.pack('<d', b) or a == b
    return int(a) == int(b)


def make_replay(so, fname, world, args, restype='void', outputs=(), expect='return', semantics='bv', ret_term=None, pre=None, timeout=60, calls=None):
    """Replay closure: runs the real function natively on the model's inputs and compares the observable
    outputs with the values the encoding predicts under the same model.
    outputs: list of (label, WObj, off, ty, z3 term predicted by the encoding).
    expect: 'return' | 'error' (mju_error reached) | 'crash' (memory fault: signal or canary damage)."""
    def replay(model, witness):
        values = world.concretise(model)
        status = native_call(so, fname, world, values, args, restype, [(l, o, off, ty) for (l, o, off, ty, _) in outputs], timeout, pre)
        kind = status[0]
        detail = {'native': kind, 'inputs': {k: (v if not isinstance(v, float) else repr(v)) for k, v in list(values.items())[:60]}}
        if expect == 'error':
            detail['native_msg'] = status[1] if len(status) > 1 else None
            return kind == 'error', detail
        if expect == 'crash':
            if kind == 'crash': detail['signal'] = status[1]; return True, detail
            if kind == 'ok' and status[1]['canaries']: detail['canaries'] = status[1]['canaries']; return True, detail
            return False, detail
        if kind != 'ok':
            detail['native_detail'] = str(status[1:])[:500]
            return False, detail
        res = status[1]
        mism = []
        pred = {}
        for (l, o, off, ty, term) in outputs:
            if term is None: continue
            pv = evalnum(model, term); pred[l] = pv if not isinstance(pv, float) else repr(pv)
            if not close(pv, res['out'][l], semantics): mism.append((l, pv, res['out'][l]))
        if ret_term is not None:
            pv = evalnum(model, ret_term); pred['ret'] = pv
            rv = res['ret']
            if not close(pv, rv, semantics): mism.append(('ret', pv, rv))
        detail['native_outputs'] = res['out']; detail['native_ret'] = res['ret']; detail['predicted'] = pred
        if calls is not None:
            detail['native_calls'] = res['calls']; detail['predicted_calls'] = list(calls)
            if list(calls) != res['calls']: mism.append(('calls', calls, res['calls']))
        if res['canaries']: detail['canaries'] = res['canaries']
        if mism:
            detail['encoding_mismatch'] = [(l, str(a), str(b)) for l, a, b in mism[:10]]
            return False, detail
        return True, detail
    return replay


def selfcheck_concrete(ck, name, ex_factory, fname, world_factory, so, restype='void', seeds=(1, 2, 3), semantics='bv', rng_vals=None):
    """Translator validation: run the interpreter on concrete inputs and compare with the native function.
    world_factory(values) -> (world, args, outputs[(label,WObj,off,ty)]); values: callable name,ty -> number"""
    import random
    for sd in seeds:
        rnd = random.Random(sd)
        def pick(nm, ty):
            if rng_vals: return rng_vals(rnd, nm, ty)
            if ty in ('f64', 'f32'): return rnd.choice([0.0, 1.0, -1.5, 0.25, 3.0, rnd.uniform(-4, 4)])
            return rnd.randrange(0, 4)
        world, args, outputs = world_factory(pick)
        ex = ex_factory()
        st = world.to_state(ex)
        sargs = []
        for ty, v in args:
            if ty == 'ptr': sargs.append(llsym.NULL if v is None else world.P(*v))
            else: sargs.append(world._symval(ex, ty, v, world.map))
        res = ex.run('@' + fname, sargs, st)
        rets = [r for r in res if r.kind in ('return', 'error', 'memfault')]
        if len(res) != 1 or len(rets) != 1:
            ck.selfcheck('%s seed %d' % (name, sd), False, 'concrete run gave %s' % [(r.kind, r.info) for r in res]); continue
        r = rets[0]
        status = native_call(so, fname, world, {}, args, restype, outputs)
        if r.kind == 'error':
            ck.selfcheck('%s seed %d' % (name, sd), status[0] == 'error', 'interp error vs native %s' % (status[0],)); continue
        if status[0] != 'ok':
            ck.selfcheck('%s seed %d' % (name, sd), False, 'native %s vs interp %s' % (status[:2], r.kind)); continue
        bad = []
        for (l, o, off, ty) in outputs:
            v = ex.load(r.state, world.P(o, off), irty(ty))
            pv = tonum(z3.simplify(v))
            if not close(pv, status[1]['out'][l], semantics): bad.append((l, pv, status[1]['out'][l]))
        if restype != 'void' and restype != 'ptr':
            pv = tonum(z3.simplify(r.value)); rv = status[1]['ret']
            if not close(pv, rv, semantics): bad.append(('ret', pv, rv))
        ck.selfcheck('%s seed %d' % (name, sd), not bad, bad[:4])


ASAN_RT = '/usr/lib/llvm-14/lib/clang/14.0.6/lib/linux/libclang_rt.asan-x86_64.so'


def plain_world(world, values):
    """JSON-able concrete description of a world (for the out-of-process ASan replay)"""
    objs = []
    for o in world.objs:
        cells = []
        for off, (ty, val) in o.cells.items():
            if ty == 'ptr':
                v = None if val is None else [val[0].name, val[1]]
            elif z3.is_expr(val):
                v = values.of(val) if isinstance(values, Values) else (values[str(val)] if str(val) in values else tonum(z3.simplify(val)))
            else: v = val
            cells.append([off, ty, v])
        size = o.size
        if z3.is_expr(size): size = int(values.of(size)) if isinstance(values, Values) else (int(values[str(size)]) if str(size) in values else tonum(z3.simplify(size)))
        objs.append({'name': o.name, 'size': min(size, 1 << 26), 'zero': o.zero_default, 'cells': cells})
    return objs


def asan_seq(so_asan, calls, world, values, timeout=40, alloc='malloc'):
    """Run calls on exact-size malloc'ed objects under AddressSanitizer. Returns ('asan', report) | ('ok', rets) | ('error', msg) | ('crash', sig) | ..."""
    import subprocess, tempfile
    def conv(args):
        out = []
        for ty, v in args:
            if ty == 'ptr': out.append([ty, None if v is None else [v[0].name, v[1]]])
            elif z3.is_expr(v):
                nm = str(v); out.append([ty, values[nm] if nm in values else tonum(z3.simplify(v))])
            else: out.append([ty, v])
        return out
    spec = {'so': so_asan, 'objs': plain_world(world, values), 'calls': [[f, conv(a), r] for f, a, r in calls], 'alloc': alloc}
    fd, path = tempfile.mkstemp(suffix='.json'); os.write(fd, json.dumps(spec).encode()); os.close(fd)
    env = dict(os.environ, LD_PRELOAD=ASAN_RT, ASAN_OPTIONS='detect_leaks=0:exitcode=77:abort_on_error=0:allocator_may_return_null=1:detect_odr_violation=0:symbolize=0:fast_unwind_on_fatal=1', PYTHONMALLOC='malloc')
    try:
        p = subprocess.run([sys.executable, os.path.join(os.path.dirname(os.path.abspath(__file__)), 'asan_child.py'), path], env=env,
                           stdout=subprocess.PIPE, stderr=subprocess.PIPE, text=True, timeout=timeout)
    except subprocess.TimeoutExpired:
        return ('timeout', None)
    finally:
        os.unlink(path)
    if 'ERROR: AddressSanitizer' in p.stderr:
        m = [l for l in p.stderr.splitlines() if 'ERROR: AddressSanitizer' in l or l.strip().startswith(('READ of', 'WRITE of', '#0', '#1', '#2'))]
        kind = re.search(r'ERROR: AddressSanitizer: ([\w-]+)', p.stderr).group(1)
        memkinds = ('heap-buffer-overflow', 'stack-buffer-overflow', 'global-buffer-overflow', 'heap-use-after-free', 'SEGV', 'stack-use-after-return', 'stack-use-after-scope',
                    'dynamic-stack-buffer-overflow', 'negative-size-param', 'unknown-crash', 'double-free', 'attempting', 'memcpy-param-overlap', 'use-after-poison', 'container-overflow')
        return ('asan' if kind in memkinds else 'asan-other', kind + ': ' + ' | '.join(m[:6])[:700])
    if p.returncode == 42: return ('error', p.stderr[-300:])
    if p.returncode == 43: return ('stub', p.stderr[-300:])
    if p.returncode < 0: return ('crash', -p.returncode)
    for l in p.stdout.splitlines():
        if l.startswith('VF-RESULT '): return ('ok', json.loads(l[10:]))
    return ('exc', (p.stderr or p.stdout)[-600:])


def make_asan_replay(so_asan_fn, calls, world):
    """replay closure for memory-safety obligations: reproduced iff ASan reports (or the process dies with a signal)"""
    def replay(model, witness):
        values = world.concretise(model)
        lib = so_asan_fn() if callable(so_asan_fn) else so_asan_fn
        st = asan_seq(lib, calls, world, values); how = 'exact-size malloc under AddressSanitizer'
        if st[0] not in ('asan', 'crash'):
            # far out-of-bounds accesses jump over ASan's red zones: repeat with every object placed against an inaccessible guard page (after, then before)
            for alloc in ('end', 'start'):
                st2 = asan_seq(lib, calls, world, values, alloc=alloc)
                if st2[0] in ('asan', 'crash'): st = st2; how = 'objects placed against an inaccessible guard page (%s)' % alloc; break
        detail = {'native': st[0], 'allocation': how, 'report': str(st[1])[:600] if len(st) > 1 else None, 'inputs': {k: v for k, v in list(values.items())[:40]}}
        return st[0] in ('asan', 'crash'), detail
    return replay


class SB:
    """struct builder: one World object laid out like a C struct (offsets from clang's debug info)"""
    def __init__(self, w, L, struct, name=None, zero=False):
        self.w = w; self.L = L; self.struct = struct; self.o = w.obj(name or struct.rstrip('_'), L.sizeof(struct))
        if zero: self.o.zeros()
        self.arrays = {}
    def _ty(self, path):
        off, size, kind = self.L.field(self.struct, path)
        if kind == 'fp': ty = {8: 'f64', 4: 'f32'}[size]
        elif kind == 'ptr': ty = 'ptr'
        elif kind in ('int', 'uint'): ty = {1: 'u8', 2: 'i16', 4: 'i32', 8: 'i64'}[size]
        else: raise KeyError('field %s of %s is a %s' % (path, self.struct, kind))
        return off, ty
    def set(self, path, val):
        off, ty = self._ty(path); self.o.put(off, ty, val); return val
    def sym(self, path, name=None):
        off, ty = self._ty(path); return self.o.sym(off, ty, name or path.replace('.', '_').replace('[', '_').replace(']', ''))
    def off(self, path): return self.L.field(self.struct, path)[0]
    def arr(self, path, elty, n, vals=None, name=None):
        o, vs = self.w.arr(name or path, elty, n, vals)
        off, ty = self._ty(path); assert ty == 'ptr', path
        self.o.put(off, 'ptr', (o, 0)); self.arrays[path] = (o, elty, n, vs)
        return o, vs
    def null(self, path):
        off, ty = self._ty(path); self.o.put(off, 'ptr', None)
    def load(self, ex, st, path):
        off, ty = self._ty(path)
        return ex.load(st, self.w.P(self.o, off), irty(ty))
    def out(self, ex, st, path, label=None):
        off, ty = self._ty(path)
        return (label or path, self.o, off, ty, ex.load(st, self.w.P(self.o, off), irty(ty)))


CTY = {'mjtNum': 'f64', 'int': 'i32', 'float': 'f32', 'mjtByte': 'u8', 'mjtBool': 'u8', 'char': 'u8', 'mjtSize': 'i64', 'size_t': 'i64', 'uintptr_t': 'i64'}


def full_struct(w, L, struct, macro, sizes, name, symbolic=(), default_size=1, values=None, sym_ints=False):
    """Build a complete mjModel/mjData: every array of the X-macro table gets an object of its documented size.
    sizes: {size field: n}; arrays listed in `symbolic` (or all int arrays if sym_ints) get symbolic cells, others are zero-filled.
    Returns (SB, rows)."""
    from . import build
    rows = build.xmacro_table(macro, {k: v for k, v in sizes.items() if k.startswith('nuser_')})
    sb = SB(w, L, struct, name, zero=True)
    env = {}
    for ty, aname, nr, es, nc in rows:
        for ident in re.findall(r'[A-Za-z_]\w*', nr): env.setdefault(ident, sizes.get(ident, default_size))
    for k, v in env.items():
        try: sb.set(k, v)
        except KeyError: pass
    sb.sizes = env
    for ty, aname, nr, es, nc in rows:
        n = int(eval(nr, {}, dict(env))) * nc
        ety = CTY[ty]
        if values and aname in values:
            sb.arr(aname, ety, n, list(values[aname]), name=name + '.' + aname)
        elif aname in symbolic or (sym_ints and ety == 'i32'):
            sb.arr(aname, ety, n, name=name + '.' + aname)
        else:
            o = w.obj(name + '.' + aname, n * TY[ety][0]).zeros()
            off, t_ = sb._ty(aname); sb.o.put(off, 'ptr', (o, 0)); sb.arrays[aname] = (o, ety, n, None)
    return sb, rows
