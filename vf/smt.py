"""Solver portfolio: z3 (in-process) first, then the cvc5 binary with int-blasting for bit-vector arithmetic
(`--solve-bv-as-int=sum` decides 64-bit add/sub/compare chains in milliseconds that bit-blasting does not finish),
then z3 again with the remaining budget. A cvc5 `sat` answer is only used after z3 has re-validated the model."""
import os, re, subprocess, tempfile, time
import z3

CVC5 = '/usr/bin/cvc5'
STATS = {'z3': 0, 'cvc5': 0, 'cvc5_calls': 0}


def _has(exprs, pred):
    seen = set(); todo = list(exprs)
    while todo:
        e = todo.pop()
        if e.get_id() in seen: continue
        seen.add(e.get_id())
        if pred(e): return True
        todo.extend(e.children())
    return False


def logic_features(exprs):
    f = {'fp': False, 'real': False, 'array': False, 'int': False, 'bv': False}
    seen = set(); todo = list(exprs)
    while todo:
        e = todo.pop()
        if e.get_id() in seen: continue
        seen.add(e.get_id())
        s = e.sort().kind()
        if s == z3.Z3_FLOATING_POINT_SORT or s == z3.Z3_ROUNDING_MODE_SORT: f['fp'] = True
        elif s == z3.Z3_REAL_SORT: f['real'] = True
        elif s == z3.Z3_ARRAY_SORT: f['array'] = True
        elif s == z3.Z3_INT_SORT: f['int'] = True
        elif s == z3.Z3_BV_SORT: f['bv'] = True
        todo.extend(e.children())
    return f


def run_cvc5(smt2, timeout_s, opts):
    fd, path = tempfile.mkstemp(suffix='.smt2', dir=os.environ.get('VERIF_WORK', '/verif/.work') if os.path.isdir(os.environ.get('VERIF_WORK', '/verif/.work')) else None)
    os.write(fd, smt2.encode()); os.close(fd)
    try:
        p = subprocess.run([CVC5, '--tlimit=%d' % int(timeout_s * 1000)] + opts + [path], stdout=subprocess.PIPE, stderr=subprocess.PIPE, text=True, timeout=timeout_s + 5)
        out = p.stdout + p.stderr
    except subprocess.TimeoutExpired:
        return 'unknown', 'timeout'
    finally:
        try: os.unlink(path)
        except OSError: pass
    errs = [l for l in out.split('\n') if ('(error' in l or l.lower().startswith('error')) and 'Cannot get model unless' not in l]
    if errs: return 'unknown', out[:300]
    first = out.strip().split('\n')[0].strip() if out.strip() else ''
    if first in ('sat', 'unsat'): return first, out
    return 'unknown', out[:300]


def solve(assertions, timeout_s=60, z3_first_s=None, tactic=None):
    """returns (status str, z3 model or None, info dict)"""
    t0 = time.time()
    info = {'solver': 'z3'}
    feats = logic_features(assertions)
    use_cvc5 = feats['bv'] and not (feats['fp'] or feats['real'] or feats['int']) and os.path.exists(CVC5)
    first = z3_first_s if z3_first_s is not None else (min(timeout_s, 2) if use_cvc5 else timeout_s)
    sol = z3.Solver() if tactic is None else z3.Tactic(tactic).solver()
    sol.set('timeout', int(first * 1000)); sol.add(*assertions)
    r = sol.check(); STATS['z3'] += 1
    if r != z3.unknown:
        return str(r), (sol.model() if r == z3.sat else None), info
    info['z3_first'] = sol.reason_unknown()
    if use_cvc5:
        left = max(5.0, timeout_s - (time.time() - t0))
        s0 = z3.Solver(); s0.add(*assertions)    # fresh solver: sexpr() of a solver that already ran contains internal state
        smt2 = '(set-logic %s)\n(set-option :produce-models true)\n' % ('QF_ABV' if feats['array'] else 'QF_BV') + s0.sexpr() + '\n(check-sat)\n(get-model)\n'
        STATS['cvc5_calls'] += 1
        st, out = run_cvc5(smt2, min(left, 60), ['--solve-bv-as-int=sum'] if not feats['array'] else ['--solve-bv-as-int=sum'])
        info['cvc5'] = st
        if st == 'unsat':
            STATS['cvc5'] += 1; info['solver'] = 'cvc5 --solve-bv-as-int=sum'
            return 'unsat', None, info
        if st == 'sat':
            # rebuild a z3 model: fix the scalar constants to cvc5's values and let z3 confirm
            vals = dict(re.findall(r'\(define-fun\s+(\S+)\s+\(\)\s+\(_ BitVec \d+\)\s+(#[xb][0-9a-fA-F]+)\)', out))
            s2 = z3.Solver(); s2.set('timeout', 20000); s2.add(*assertions)
            consts = {}
            def collect(e, seen=set()):
                todo = [e]
                while todo:
                    x = todo.pop()
                    if x.get_id() in seen: continue
                    seen.add(x.get_id())
                    if z3.is_const(x) and x.decl().kind() == z3.Z3_OP_UNINTERPRETED and z3.is_bv(x): consts[str(x)] = x
                    todo.extend(x.children())
            for a in assertions: collect(a)
            for nm, v in vals.items():
                nm = nm.strip('|')
                if nm in consts:
                    c = consts[nm]
                    iv = int(v[2:], 16) if v[1] == 'x' else int(v[2:], 2)
                    s2.add(c == z3.BitVecVal(iv, c.size()))
            r2 = s2.check()
            if r2 == z3.sat:
                STATS['cvc5'] += 1; info['solver'] = 'cvc5 model confirmed by z3'
                return 'sat', s2.model(), info
            info['cvc5_model_check'] = str(r2)
    left = timeout_s - (time.time() - t0)
    if left > 2:
        sol.set('timeout', int(left * 1000))
        r = sol.check()
        if r != z3.unknown: return str(r), (sol.model() if r == z3.sat else None), info
        info['reason'] = sol.reason_unknown()
    return 'unknown', None, info
