"""Solver portfolio: z3 (in-process) first, then the cvc5 binary with int-blasting for bit-vector arithmetic
(`--solve-bv-as-int=sum` decides 64-bit add/sub/compare chains in milliseconds that bit-blasting does not finish),
then z3 again with the remaining budget. A cvc5 `sat` answer is only used after z3 has re-validated the model."""
import os, re, subprocess, tempfile, time
import z3

CVC5 = '/usr/bin/cvc5'
STATS = {'z3': 0, 'cvc5': 0, 'cvc5_calls': 0}


def _has(exprs, pred):
    seen = set(); todo = list(exprs)
    while todo:
        e = todo.pop()
        if e.get_id() in seen: continue
        seen.add(e.get_id())
        if pred(e): return True
        todo.extend(e.children())
    return False


def logic_features(exprs):
    f = {'fp': False, 'real': False, 'array': False, 'int': False, 'bv': False}
    seen = set(); todo = list(exprs)
    while todo:
        e = todo.pop()
        if e.get_id() in seen: continue
        seen.add(e.get_id())
        s = e.sort().kind()
        if s == z3.Z3_FLOATING_POINT_SORT or s == z3.Z3_ROUNDING_MODE_SORT: f['fp'] = True
        elif s == z3.Z3_REAL_SORT: f['real'] = True
        elif s == z3.Z3_ARRAY_SORT: f['array'] = True
        elif s == z3.Z3_INT_SORT: f['int'] = True
        elif s == z3.Z3_BV_SORT: f['bv'] = True
        todo.extend(e.children())
    return f


def run_cvc5(smt2, timeout_s, opts):
    fd, path = tempfile.mkstemp(suffix='.smt2', dir=os.environ.get('VERIF_WORK', '/verif/.work') if os.path.isdir(os.environ.get('VERIF_WORK', '/verif/.work')) else None)
    os.write(fd, smt2.encode()); os.close(fd)
    try:
        p = subprocess.run([CVC5, '--tlimit=%d' % int(timeout_s * 1000)] + opts + [path], stdout=subprocess.PIPE, stderr=subprocess.PIPE, text=True, timeout=timeout_s + 5)
        out = p.stdout + p.stderr
    except subprocess.TimeoutExpired:
        return 'unknown', 'timeout'
    finally:
        try: os.unlink(path)
        except OSError: pass
    errs = [l for l in out.split('\n') if ('(error' in l or l.lower().startswith('error')) and 'Cannot get model unless' not in l]
    if errs: return 'unknown', out[:300]
    first = out.strip().split('\n')[0].strip() if out.strip() else ''
    if first in ('sat', 'unsat'): return first, out
    return 'unknown', out[:300]


def _z3model_from_cvc5(assertions, out):
    vals = dict(re.findall(r'\(define-fun\s+(\S+)\s+\(\)\s+\(_ BitVec \d+\)\s+(#[xb][0-9a-fA-F]+)\)', out))
    s2 = z3.Solver(); s2.set('timeout', 20000); s2.add(*assertions)
    consts = {}
    seen = set(); todo = list(assertions)
    while todo:
        x = todo.pop()
        if x.get_id() in seen: continue
        seen.add(x.get_id())
        if z3.is_const(x) and x.decl().kind() == z3.Z3_OP_UNINTERPRETED and z3.is_bv(x): consts[str(x)] = x
        todo.extend(x.children())
    for nm, v in vals.items():
        nm = nm.strip('|')
        if nm in consts:
            c = consts[nm]
            iv = int(v[2:], 16) if v[1] == 'x' else int(v[2:], 2)
            s2.add(c == z3.BitVecVal(iv, c.size()))
    # floating-point constants: (define-fun x () (_ FloatingPoint e s) (fp #b. #b... #b...)) or special values
    fps = {}
    seen = set(); todo = list(assertions)
    while todo:
        x = todo.pop()
        if x.get_id() in seen: continue
        seen.add(x.get_id())
        if z3.is_const(x) and x.decl().kind() == z3.Z3_OP_UNINTERPRETED and z3.is_fp(x): fps[str(x)] = x
        todo.extend(x.children())
    for m_ in re.finditer(r'\(define-fun\s+(\S+)\s+\(\)\s+\(_ FloatingPoint (\d+) (\d+)\)\s+(\(fp (#b[01]+) (#b[01]+) (#b[01]+)\)|\(_ ([+-]?\w+) \d+ \d+\))\)', out):
        nm = m_.group(1).strip('|')
        if nm not in fps: continue
        c = fps[nm]; srt = c.sort()
        if m_.group(5):
            sg, ex, mn = m_.group(5)[2:], m_.group(6)[2:], m_.group(7)[2:]
            s2.add(z3.fpToIEEEBV(c) == z3.BitVecVal(int(sg + ex + mn, 2), len(sg + ex + mn)))
        else:
            k = m_.group(8)
            val = {'+oo': z3.fpPlusInfinity(srt), '-oo': z3.fpMinusInfinity(srt), 'NaN': z3.fpNaN(srt), '+zero': z3.fpPlusZero(srt), '-zero': z3.fpMinusZero(srt)}.get(k)
            if val is not None and k != 'NaN': s2.add(z3.fpToIEEEBV(c) == z3.fpToIEEEBV(val))
            elif k == 'NaN': s2.add(z3.fpIsNaN(c))
    return s2.model() if s2.check() == z3.sat else None


def solve(assertions, timeout_s=60, z3_first_s=None, tactic=None):
    """returns (status str, z3 model or None, info dict). For pure bit-vector queries cvc5 (int-blasting) runs as a
    subprocess CONCURRENTLY with z3; the first verdict wins (a cvc5 `sat` only after z3 confirms the model)."""
    t0 = time.time()
    info = {'solver': 'z3'}
    feats = logic_features(assertions)
    use_cvc5 = (feats['bv'] or feats['fp']) and not (feats['real'] or feats['int'] or (feats['fp'] and feats['array'])) and os.path.exists(CVC5)
    sol = z3.Solver() if tactic is None else z3.Tactic(tactic).solver()
    sol.add(*assertions)
    # quick attempt with z3 alone
    quick = min(timeout_s, 1.0 if use_cvc5 else timeout_s) if z3_first_s is None else z3_first_s
    sol.set('timeout', int(quick * 1000))
    r = sol.check(); STATS['z3'] += 1
    if r != z3.unknown: return str(r), (sol.model() if r == z3.sat else None), info
    if not use_cvc5:
        info['reason'] = sol.reason_unknown(); return 'unknown', None, info
    # concurrent phase
    s0 = z3.Solver(); s0.add(*assertions)
    logic = 'QF_BVFP' if feats['fp'] else ('QF_ABV' if feats['array'] else 'QF_BV')
    smt2 = '(set-logic %s)\n(set-option :produce-models true)\n' % logic + s0.sexpr() + '\n(check-sat)\n(get-model)\n'
    wd = os.environ.get('VERIF_WORK', '/verif/.work')
    fd, path = tempfile.mkstemp(suffix='.smt2', dir=wd if os.path.isdir(wd) else None); os.write(fd, smt2.encode()); os.close(fd)
    left = max(2.0, timeout_s - (time.time() - t0))
    proc = subprocess.Popen([CVC5, '--tlimit=%d' % int(left * 1000)] + ([] if feats['fp'] else ['--solve-bv-as-int=sum']) + [path], stdout=subprocess.PIPE, stderr=subprocess.PIPE, text=True)
    STATS['cvc5_calls'] += 1
    import threading
    done = {}
    def watch():
        try:
            out, err = proc.communicate()
        except Exception:
            return
        done['out'] = (out or '') + (err or '')
        first = done['out'].strip().split('\n')[0].strip() if done['out'].strip() else ''
        errs = [l for l in done['out'].split('\n') if ('(error' in l or l.lower().startswith('error')) and 'Cannot get model unless' not in l]
        if not errs and first in ('sat', 'unsat') and not done.get('z3done'):
            done['verdict'] = first
            try: z3.main_ctx().interrupt()      # cvc5 decided first: stop z3's (single, uninterrupted) run
            except Exception: pass
    th = threading.Thread(target=watch, daemon=True); th.start()
    try:
        left = max(1.0, timeout_s - (time.time() - t0))
        sol.set('timeout', int(left * 1000))
        try:
            r = sol.check()
        except z3.Z3Exception:
            r = z3.unknown
        done['z3done'] = True
        if r != z3.unknown: return str(r), (sol.model() if r == z3.sat else None), info
        th.join(timeout=max(0.0, timeout_s - (time.time() - t0)) + 1)
        v = done.get('verdict'); info['cvc5'] = v or 'unknown'
        if v == 'unsat':
            STATS['cvc5'] += 1; info['solver'] = 'cvc5' + ('' if feats['fp'] else ' --solve-bv-as-int=sum'); return 'unsat', None, info
        if v == 'sat':
            m = _z3model_from_cvc5(assertions, done['out'])
            if m is not None:
                STATS['cvc5'] += 1; info['solver'] = 'cvc5 model confirmed by z3'; return 'sat', m, info
        info['reason'] = 'timeout'
        return 'unknown', None, info
    finally:
        if proc.poll() is None: proc.kill()
        try: proc.wait(timeout=5)
        except Exception: pass
        try: os.unlink(path)
        except OSError: pass
