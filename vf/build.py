"""Lowering of /repo translation units to LLVM IR and native replay libraries.

Everything is regenerated from /repo's working tree: the cache key is the hash of the
preprocessed source, so an edited source (or header) is always re-lowered.
"""
import hashlib, os, re, subprocess, sys, json, tempfile, shutil

REPO = os.environ.get('VERIF_REPO', '/repo')
VERIF = os.path.dirname(os.path.dirname(os.path.abspath(__file__)))
WORK = os.environ.get('VERIF_WORK', os.path.join(VERIF, '.work'))
CLANG = 'clang-14'
CLANGXX = 'clang++-14'
OPT = 'opt-14'

INCLUDES = ['-I' + os.path.join(REPO, 'include'), '-I' + os.path.join(REPO, 'src'),
            '-I' + os.path.join(VERIF, 'shim', 'include'), '-I' + os.path.join(VERIF, 'harness', 'c')]


class BuildError(Exception):
    pass


def _run(cmd, **kw):
    p = subprocess.run(cmd, stdout=subprocess.PIPE, stderr=subprocess.PIPE, text=True, **kw)
    if p.returncode != 0:
        raise BuildError('command failed: %s\n%s' % (' '.join(cmd), p.stderr[-4000:]))
    return p.stdout


def _src(path):
    return path if os.path.isabs(path) else os.path.join(REPO, path)


def _is_cxx(path):
    return path.endswith(('.cc', '.cpp', '.cxx'))


def _cc(path):
    return [CLANGXX, '-std=c++20'] if _is_cxx(path) else [CLANG]


def preprocessed_hash(path, flags=(), salt=''):
    src = _src(path)
    out = subprocess.run(_cc(src) + ['-E', '-P'] + INCLUDES + list(flags) + [src], stdout=subprocess.PIPE,
                         stderr=subprocess.PIPE)
    if out.returncode != 0:
        raise BuildError('preprocess failed: %s\n%s' % (src, out.stderr.decode()[-3000:]))
    h = hashlib.sha256(out.stdout)
    h.update((repr(sorted(flags)) + salt).encode())
    return h.hexdigest()[:24]


def lower(path, flags=(), passes='mem2reg,simplifycfg', olevel='-O0'):
    """Lower one TU to textual IR (raw and optimised for symbolic execution). Returns (sym_ll, raw_ll, hash)."""
    os.makedirs(WORK, exist_ok=True)
    src = _src(path)
    h = preprocessed_hash(path, list(flags), olevel + passes)
    base = os.path.join(WORK, os.path.basename(src).replace('.', '_') + '.' + h)
    raw, sym = base + '.raw.ll', base + '.sym.ll'
    if not (os.path.exists(raw) and os.path.exists(sym)):
        tmp = base + '.tmp%d' % os.getpid()
        cmd = _cc(src) + ['-S', '-emit-llvm', olevel, '-fno-vectorize', '-fno-slp-vectorize', '-fno-unroll-loops',
                          '-ffp-contract=off', '-fno-builtin-memset', '-Wno-everything'] + INCLUDES + list(flags)
        if olevel == '-O0':
            cmd += ['-Xclang', '-disable-O0-optnone']
        _run(cmd + [src, '-o', tmp + '.raw.ll'])
        if passes:
            _run([OPT, '-S', '-passes=' + passes, tmp + '.raw.ll', '-o', tmp + '.sym.ll'])
        else:
            shutil.copy(tmp + '.raw.ll', tmp + '.sym.ll')
        os.replace(tmp + '.raw.ll', raw)
        os.replace(tmp + '.sym.ll', sym)
    return sym, raw, h


_UNDEF = re.compile(r"undefined (?:reference to|symbol:?) [`']?([A-Za-z_][A-Za-z0-9_]*)")

STUB_PRELUDE = r'''
#include <stdio.h>
#include <stdlib.h>
#include <unistd.h>
#include <string.h>
static void vf_abort_stub(const char* n) { fprintf(stderr, "VF-STUB-CALLED %s\n", n); fflush(stderr); _exit(43); }
/* error handler installed by the replay child: engine errors end the process with a recognisable status */
void vf_error_exit(const char* msg) { fprintf(stderr, "VF-MJU-ERROR %s\n", msg ? msg : ""); fflush(stderr); _exit(42); }
static int vf_nwarn = 0; static char vf_lastwarn[1024];
void vf_warning_count(const char* msg) { vf_nwarn++; if (msg) { strncpy(vf_lastwarn, msg, 1023); } }
int vf_get_nwarn(void) { return vf_nwarn; }
static char vf_calls[8192]; static int vf_ncalls = 0;
void vf_log_call(const char* name) { vf_ncalls++; if (strlen(vf_calls) + strlen(name) + 2 < sizeof(vf_calls)) { strcat(vf_calls, name); strcat(vf_calls, ";"); } }
const char* vf_get_calls(void) { return vf_calls; }
static void (*vf_sched_hook)(void) = 0;
void vf_set_sched_hook(void (*h)(void)) { vf_sched_hook = h; }
unsigned long vf_atomic_add_hook(unsigned long* p, unsigned long v) {
  if (vf_sched_hook) { void (*h)(void) = vf_sched_hook; vf_sched_hook = 0; h(); }
  return __atomic_fetch_add(p, v, __ATOMIC_SEQ_CST);
}
const char* vf_get_lastwarn(void) { return vf_lastwarn; }
'''


def native_lib(primary, support=(), flags=(), extra_c='', name=None, expose_static=True, sanitize=False, redirect=(), hook_atomics=False):
    """Build a shared library from real TUs for concrete replay / translator validation.

    primary: TUs whose static functions are made external (by rewriting `define internal` in their own IR).
    support: TUs compiled as they are. Undefined symbols get abort-stubs. Returns path of the .so.
    """
    os.makedirs(WORK, exist_ok=True)
    primary = list(primary); support = list(support)
    keys = []
    objs = []
    cflags = ['-O0', '-fPIC', '-g0', '-Wno-everything', '-ffp-contract=off'] + (['-fsanitize=address'] if sanitize else [])
    for tu in primary + support:
        keys.append(preprocessed_hash(tu, list(flags)))
    h = hashlib.sha256(('|'.join(keys) + extra_c + repr(flags) + repr(primary) + repr(sanitize) + repr(sorted(redirect)) + repr(hook_atomics) + 'v4' + STUB_PRELUDE).encode()).hexdigest()[:24]
    so = os.path.join(WORK, 'lib_%s_%s.so' % (name or 'native', h))
    if os.path.exists(so):
        return so
    tmpd = tempfile.mkdtemp(prefix='vfbuild', dir=WORK)
    try:
        for tu in primary:
            src = _src(tu)
            ll = os.path.join(tmpd, os.path.basename(src) + '.ll')
            _run(_cc(src) + ['-S', '-emit-llvm', '-O0', '-fPIC', '-ffp-contract=off', '-Wno-everything'] + (['-fsanitize=address'] if sanitize else []) + INCLUDES + list(flags) + [src, '-o', ll])
            txt = open(ll).read()
            if expose_static:
                txt = re.sub(r'^define internal ', 'define ', txt, flags=re.M)
            txt = redirect_calls(txt, redirect)
            if hook_atomics in ('points', 'stores'):
                # stall-injection replay: a hook runs before every atomic access of the translation unit (it may delay the calling thread)
                pat = r'^(\s+)((?:%[\w.]+ = )?(?:load atomic|atomicrmw|cmpxchg)\b|store atomic\b)' if hook_atomics == 'points' else r'^(\s+)((?:%[\w.]+ = )?(?:load atomic|atomicrmw|cmpxchg)\b|store\b)'
                txt, nh = re.subn(pat, r'\1call void @vf_atomic_point()\n\1\2', txt, flags=re.M)
                if nh and 'declare void @vf_atomic_point()' not in txt and 'define void @vf_atomic_point()' not in txt and not re.search(r'define [^\n]*@vf_atomic_point\(', txt): txt += '\ndeclare void @vf_atomic_point()\n'
            elif hook_atomics:
                # controlled-scheduler replay: every 64-bit atomic fetch-add goes through a hook that may run another thread's code first
                txt, nh = re.subn(r'(%[\w.]+) = atomicrmw add i64\* (%[\w.]+), i64 ([^ ]+) \w+(, align \d+)?', r'\1 = call i64 @vf_atomic_add_hook(i64* \2, i64 \3)', txt)
                if nh: txt += '\ndeclare i64 @vf_atomic_add_hook(i64*, i64)\n'
            open(ll, 'w').write(txt)
            o = ll + '.o'
            _run([CLANG, '-c'] + [f for f in cflags if f != '-fsanitize=address'] + [ll, '-o', o])    # IR is already instrumented at the emit step
            objs.append(o)
        for tu in support:
            src = _src(tu)
            o = os.path.join(tmpd, os.path.basename(src) + '.o')
            _run(_cc(src) + ['-c'] + cflags + INCLUDES + list(flags) + [src, '-o', o])
            objs.append(o)
        stub_c = os.path.join(tmpd, 'vf_stubs.c')
        open(stub_c, 'w').write(STUB_PRELUDE + extra_c)
        # first link: collect undefined symbols
        stub_o = stub_c + '.o'
        def cc_stub(): _run([CLANG, '-c', '-fPIC', '-O0', '-Wno-everything'] + INCLUDES + [stub_c, '-o', stub_o])
        cc_stub()
        link = [CLANGXX if any(_is_cxx(t) for t in primary + support) else CLANG, '-shared', '-o', so + '.tmp'] + \
               (['-fsanitize=address'] if sanitize else []) + objs
        p = subprocess.run(link + [stub_o, '-fPIC', '-lm', '-lpthread', '-Wl,--no-undefined'], stdout=subprocess.PIPE, stderr=subprocess.PIPE, text=True)
        if p.returncode != 0:
            und = sorted(set(_UNDEF.findall(p.stderr)))
            if not und:
                raise BuildError('link failed: %s' % p.stderr[-3000:])
            with open(stub_c, 'a') as f:
                for u in und:
                    f.write('void %s(void) { vf_abort_stub("%s"); }\n' % (u, u))
            cc_stub()
            _run(link + [stub_o, '-fPIC', '-lm', '-lpthread', '-Wl,--no-undefined'])
        os.replace(so + '.tmp', so)
    finally:
        shutil.rmtree(tmpd, ignore_errors=True)
    return so


def redirect_calls(txt, names):
    """Rewrite call sites of the given functions (defined or declared in this TU) to @vfstub_<name>, which the
    harness defines in extra_c as a logging stub. The definition itself is left in place."""
    decls = []
    for n in names:
        m = re.search(r'^(?:define|declare)\s+(.*?)@%s\((.*?)\)[^\n]*$' % re.escape(n), txt, re.M)
        if not m: continue
        ret = m.group(1)
        ret = re.sub(r'\b(dso_local|internal|noundef|signext|zeroext|nonnull|noalias|hidden|local_unnamed_addr|unnamed_addr)\b', '', ret).strip()
        params = []
        depth = 0; cur = ''
        for ch in m.group(2):
            if ch in '([{<': depth += 1
            if ch in ')]}>': depth -= 1
            if ch == ',' and depth == 0: params.append(cur); cur = ''
            else: cur += ch
        if cur.strip(): params.append(cur)
        ptys = []
        for p_ in params:
            p_ = re.sub(r'%[\w.]+\s*$', '', p_.strip())
            if p_.strip() == '...': ptys.append('...'); continue
            p_ = re.sub(r'\b(noundef|signext|zeroext|nonnull|noalias|nocapture|readonly|readnone|writeonly|returned|immarg)\b', '', p_)
            p_ = re.sub(r'\b(align|dereferenceable|dereferenceable_or_null)\s*\(?\d+\)?', '', p_)
            ptys.append(p_.strip())
        decls.append('declare %s @vfstub_%s(%s)' % (ret, n, ', '.join(ptys)))
        txt = re.sub(r'(\b(?:call|invoke)\b[^\n]*?)@%s\(' % re.escape(n), r'\1@vfstub_%s(' % n, txt)
    if decls: txt += '\n' + '\n'.join(decls) + '\n'
    return txt


# ----------------------------------------------------------------- struct layout from DWARF
class Layout:
    """Field offsets/sizes of the public C structs, read from clang's debug metadata on every run."""

    def __init__(self, header='mujoco/mujoco.h', decls=None, flags=(), extra_src=''):
        decls = decls or ['mjModel', 'mjData', 'mjvScene', 'mjContact', 'mjvGeom', 'mjOption', 'mjvOption',
                          'mjWarningStat', 'mjvPerturb', 'mjvCamera', 'mjLogMessage_vf']
        os.makedirs(WORK, exist_ok=True)
        src = '#include <%s>\n%s\n' % (header, extra_src)
        real = []
        for i, d in enumerate(decls):
            if d.endswith('_vf'):
                continue
            src += '%s vf_layout_%d;\n' % (d, i)
        h = hashlib.sha256(src.encode()).hexdigest()[:12]
        c = os.path.join(WORK, 'layout_%s.c' % h)
        open(c, 'w').write(src)
        hh = preprocessed_hash(c, flags)
        ll = os.path.join(WORK, 'layout_%s.ll' % hh)
        if not os.path.exists(ll):
            _run([CLANG, '-g', '-S', '-emit-llvm', '-O0', '-Wno-everything'] + INCLUDES + list(flags) + [c, '-o', ll + '.tmp'])
            os.replace(ll + '.tmp', ll)
        self._parse(open(ll).read())

    def _parse(self, txt):
        nodes = {}
        for m in re.finditer(r'^(!\d+) = (?:distinct )?!(\w+)\((.*)\)\s*$', txt, re.M):
            nid, kind, body = m.groups()
            attrs = {}
            for am in re.finditer(r'(\w+): ("(?:[^"\\]|\\.)*"|![\w]+|[\w.]+)', body):
                attrs[am.group(1)] = am.group(2).strip('"')
            nodes[nid] = (kind, attrs)
        lists = {}
        for m in re.finditer(r'^(!\d+) = !\{(.*)\}\s*$', txt, re.M):
            lists[m.group(1)] = [x.strip() for x in m.group(2).split(',') if x.strip()]
        self.nodes, self.lists = nodes, lists
        self.structs = {}
        for nid, (kind, a) in nodes.items():
            if kind == 'DICompositeType' and a.get('tag') == 'DW_TAG_structure_type' and 'elements' in a:
                self.structs[nid] = a
        self.byname = {a['name']: nid for nid, a in self.structs.items() if 'name' in a}
        # typedef names
        for nid, (kind, a) in nodes.items():
            if kind == 'DIDerivedType' and a.get('tag') == 'DW_TAG_typedef' and 'name' in a:
                t = self._strip(a.get('baseType'))
                if t in self.structs:
                    self.byname.setdefault(a['name'], t)

    def _strip(self, nid):
        while nid in self.nodes:
            kind, a = self.nodes[nid]
            if kind == 'DIDerivedType' and a.get('tag') in ('DW_TAG_typedef', 'DW_TAG_const_type', 'DW_TAG_volatile_type'):
                nid = a.get('baseType')
            else:
                break
        return nid

    def sizeof(self, struct):
        return int(self.structs[self.byname[struct]]['size']) // 8

    def fields(self, struct):
        sid = self.byname[struct]
        out = []
        for e in self.lists[self.structs[sid]['elements']]:
            kind, a = self.nodes[e]
            if a.get('tag') == 'DW_TAG_member':
                out.append((a['name'], int(a.get('offset', 0)) // 8, int(a['size']) // 8, a.get('baseType')))
        return out

    def field(self, struct, path):
        """(offset, size, kind) of struct.path where path may be dotted / indexed e.g. 'opt.timestep', 'warning[2].number'."""
        sid = self.byname[struct]
        off = 0
        parts = re.findall(r'[A-Za-z_]\w*|\[\d+\]', path)
        size = int(self.structs[sid]['size']) // 8
        cur = sid
        for p in parts:
            if p.startswith('['):
                kind, a = self.nodes[cur]
                assert a.get('tag') == 'DW_TAG_array_type', path
                el = self._strip(a['baseType'])
                esz = self._tysize(el)
                off += int(p[1:-1]) * esz
                cur = el; size = esz
                continue
            cur = self._strip(cur)
            found = None
            for e in self.lists[self.nodes[cur][1]['elements']]:
                kind, a = self.nodes[e]
                if a.get('tag') == 'DW_TAG_member' and a['name'] == p:
                    found = a; break
            if found is None:
                raise KeyError('%s has no field %s' % (struct, path))
            off += int(found.get('offset', 0)) // 8
            size = int(found['size']) // 8
            cur = self._strip(found['baseType'])
        return off, size, self._kind(cur)

    def _tysize(self, nid):
        nid = self._strip(nid)
        kind, a = self.nodes[nid]
        if 'size' in a:
            return int(a['size']) // 8
        raise KeyError('no size for %s' % nid)

    def _kind(self, nid):
        nid = self._strip(nid)
        if nid not in self.nodes:
            return 'void'
        kind, a = self.nodes[nid]
        if kind == 'DIBasicType':
            enc = a.get('encoding', '')
            if 'float' in enc: return 'fp'
            if 'unsigned' in enc or 'bool' in enc: return 'uint'
            return 'int'
        if kind == 'DIDerivedType' and a.get('tag') == 'DW_TAG_pointer_type': return 'ptr'
        if kind == 'DICompositeType':
            return {'DW_TAG_array_type': 'array', 'DW_TAG_structure_type': 'struct', 'DW_TAG_enumeration_type': 'int',
                    'DW_TAG_union_type': 'union'}.get(a.get('tag'), 'other')
        return 'other'

    def off(self, struct, path):
        return self.field(struct, path)[0]


def enum_values(prefix, header_rel=None):
    """Parse enum constants with a tiny C program (authoritative: uses the compiler)."""
    import glob
    hdr = ''.join(open(f).read() for f in sorted(glob.glob(os.path.join(REPO, 'include', 'mujoco', '*.h'))))
    names = sorted(set(re.findall(r'\b(%s\w*)\b' % prefix, hdr)))
    names = [n for n in names if re.search(r'^\s*%s\s*(=|,|//|$)' % re.escape(n), hdr, re.M)]
    os.makedirs(WORK, exist_ok=True)
    src = '#include <stdio.h>\n#include <mujoco/mujoco.h>\nint main(void){\n' + \
          ''.join('printf("%s %%lld\\n", (long long)%s);\n' % (n, n) for n in names) + 'return 0;}\n'
    h = hashlib.sha256((src + hdr).encode()).hexdigest()[:16]
    exe = os.path.join(WORK, 'enum_%s' % h)
    if not os.path.exists(exe):
        c = exe + '.%d.c' % os.getpid()
        open(c, 'w').write(src)
        _run([CLANG, '-Wno-everything'] + INCLUDES + [c, '-o', exe + '.tmp%d' % os.getpid()])
        os.replace(exe + '.tmp%d' % os.getpid(), exe)
    out = _run([exe])
    return {l.split()[0]: int(l.split()[1]) for l in out.splitlines()}


def xmacro_table(macro, preamble_sizes=None):
    """Expand an X-macro table of mjxmacro.h with the compiler: rows (ctype, name, nr expression text, sizeof(type), nc value).
    nc may depend on the nuser_* sizes of the preamble; they are taken from preamble_sizes (default 0)."""
    ps = dict(preamble_sizes or {})
    os.makedirs(WORK, exist_ok=True)
    src = '''#include <stdio.h>
#include <string.h>
#include <mujoco/mujoco.h>
#include <mujoco/mjxmacro.h>
#define STR2(x) #x
#define STR(x) STR2(x)
int main(void) {
  static mjModel mm; mjModel* m = &mm; memset(m, 0, sizeof(mm));
%s
  MJMODEL_POINTERS_PREAMBLE(m)
  (void)nq; (void)nv; (void)na; (void)nu;
#undef MJ_M
#define MJ_M(n) n
#undef MJ_D
#define MJ_D(n) n
#define X(type, name, nr, nc) printf("%%s|%%s|%%s|%%d|%%d\\n", #type, #name, STR(nr), (int)sizeof(type), (int)(nc));
#define XMJV X
#define XNV X
  %s
  return 0;
}
''' % (''.join('  m->%s = %d;\n' % kv for kv in ps.items()), macro)
    h = hashlib.sha256(src.encode()).hexdigest()[:16]
    c = os.path.join(WORK, 'xm_%s.%d.c' % (h, os.getpid()))
    exe = os.path.join(WORK, 'xm_%s' % preprocessed_hash_text(src))
    if not os.path.exists(exe):
        open(c, 'w').write(src)
        _run([CLANG, '-Wno-everything'] + INCLUDES + [c, '-o', exe + '.tmp%d' % os.getpid()])
        os.replace(exe + '.tmp%d' % os.getpid(), exe)
        os.unlink(c)
    out = _run([exe])
    rows = []
    for l in out.splitlines():
        ty, name, nr, es, nc = l.split('|')
        rows.append((ty.strip(), name.strip(), nr.replace(' ', ''), int(es), int(nc)))
    return rows


def preprocessed_hash_text(src):
    """hash of a generated source after preprocessing against the current headers"""
    out = subprocess.run([CLANG, '-E', '-P', '-x', 'c', '-'] + INCLUDES, input=src.encode(), stdout=subprocess.PIPE, stderr=subprocess.PIPE)
    if out.returncode != 0: raise BuildError('preprocess failed: %s' % out.stderr.decode()[-2000:])
    return hashlib.sha256(out.stdout).hexdigest()[:20]


def callees_of(tu, fnames, flags=()):
    """names of the functions called directly inside the given functions of a TU, with a C return type guess for stub generation"""
    sym, raw, h = lower(tu, flags)
    txt = open(raw).read()
    out = {}
    for fn in fnames:
        m = re.search(r'^define [^\n]*@%s\(.*?^}' % re.escape(fn), txt, re.M | re.S)
        if not m: continue
        for cm in re.finditer(r'call\s+(?:[\w]+\s+)*?(void|i\d+|double|float|%[\w.]+\*+|i\d+\*+)\s+(?:\([^)]*\)\s+)?@([A-Za-z_]\w*)\(', m.group(0)):
            rt, name = cm.group(1), cm.group(2)
            if name.startswith('llvm'): continue
            out[name] = 'double' if rt == 'double' else 'float' if rt == 'float' else 'void' if rt == 'void' else 'long'
    return out


def logging_stubs_c(callees, skip=()):
    s = ''
    for name, rt in sorted(callees.items()):
        if name in skip: continue
        s += '%s vfstub_%s(void) { vf_log_call("%s"); %s }\n' % (rt, name, name, '' if rt == 'void' else 'return 0;')
    return s
