"""Obligation bookkeeping, parallel unit scheduling, evidence files, known findings, CLI."""
import os, sys, time, json, importlib, traceback, multiprocessing, signal, random, re, hashlib
import z3

VERIF = os.path.dirname(os.path.dirname(os.path.abspath(__file__)))
EVID = os.environ.get('VERIF_EVIDENCE_DIR', os.path.join(VERIF, 'evidence'))
REPLAYS = os.environ.get('VERIF_REPLAYS_DIR', os.path.join(VERIF, 'replays'))
KNOWN = os.path.join(VERIF, 'known_findings.txt')

EXIT_OK, EXIT_VIOLATION, EXIT_HARNESS = 0, 1, 3


class Checker:
    """Collects obligations of one unit; every obligation is decided by an SMT query."""
    def __init__(self, unit, tier='quick', timeout_s=60, semantics='bv'):
        self.unit = unit; self.tier = tier; self.timeout_s = timeout_s; self.semantics = semantics
        self.obs = []; self.inconclusive = []; self.vacuity = []; self.functions = set(); self.paths = {}
        self.queries = 0; self.solver_s = 0.0; self.solvers_used = {}; self._seen_mem = set(); self.slicing = True; self._varcache = {}; self._keep = []; self.nviol = 0; self.nsat = 0; self.skipped = 0; self.prefer = None; self.max_violations = int(os.environ.get('VERIF_MAX_VIOLATIONS', '4'))
        self._known = [f for f in load_known()[0]]; self.selfchecks = []; self.notes = []; self.errors = []
        self.t0 = time.time()
    # --- core
    def _vars(self, e):
        c = self._varcache; k = e.get_id()
        if k in c: return c[k]
        out = set(); seen = set(); todo = [e]
        while todo:
            x = todo.pop(); i = x.get_id()
            if i in seen: continue
            seen.add(i)
            if z3.is_const(x):
                if x.decl().kind() == z3.Z3_OP_UNINTERPRETED: out.add(i)
            else: todo.extend(x.children())
        r = frozenset(out); c[k] = r; self._keep.append(e); return r
    def _slice(self, pc, extra):
        """constraints of pc that share variables (transitively) with `extra`; pc itself is satisfiable (path invariant)"""
        need = set()
        for e in extra: need |= self._vars(e)
        rest = [(c, self._vars(c)) for c in pc]; sel = []
        changed = True
        while changed:
            changed = False; keep = []
            for c, vs in rest:
                if vs & need or not vs: sel.append(c); need |= vs; changed = True
                else: keep.append((c, vs))
            rest = keep
        return sel
    def _solve(self, pc, extra, timeout_s=None, tactic=None):
        from . import smt
        t = time.time()
        pc = list(pc); extra = list(extra)
        sliced = self._slice(pc, extra) if (self.slicing and extra and len(pc) > 8) else pc
        r, model, info = smt.solve(sliced + extra, timeout_s or self.timeout_s, tactic=tactic)
        if r == 'sat' and len(sliced) != len(pc):
            # counterexample: extend to a model of the full path condition (values of the sliced part pinned, the rest is independent)
            pins = []
            for d in model.decls():
                if d.arity() == 0:
                    try: pins.append(d() == model[d])
                    except Exception: pass
            r2, model2, info2 = smt.solve(pc + extra + pins, timeout_s or self.timeout_s, tactic=tactic)
            if r2 == 'sat': model = model2
            else: r, model, info = smt.solve(pc + extra, timeout_s or self.timeout_s, tactic=tactic)
        dt = time.time() - t
        self.queries += 1; self.solver_s += dt
        if info.get('solver', 'z3') != 'z3': self.solvers_used[info['solver']] = self.solvers_used.get(info['solver'], 0) + 1
        return r, model, dt, info
    def prove(self, name, pc, claim, site=None, decode=None, replay=None, semantics=None, timeout_s=None, sample=None, tactic=None, kind='post', prefer=None):
        """claim must hold under pc. sat => counterexample (decoded, replayed)."""
        if self.nviol >= self.max_violations or self.nsat >= 3 * self.max_violations:
            # enough replayed, unlisted violations in this unit: the run already fails; remaining obligations are not attempted
            self.skipped += 1; return z3.unknown
        r, m, dt, info = self._solve(pc, [z3.Not(claim)], timeout_s, tactic)
        ob = {'name': name, 'site': site or name, 'status': r, 'time_s': round(dt, 3), 'semantics': semantics or self.semantics, 'kind': kind}
        if info.get('solver', 'z3') != 'z3': ob['solver'] = info['solver']
        ob['sample'] = sample if sample is not None else '%s [site %s; %d path constraints]' % (name, site or name, len(pc))
        if r == 'sat': self.nsat += 1
        if r == 'sat' and (prefer or self.prefer):
            # a counterexample exists: look for one that is convenient to replay (small sizes); the verdict does not depend on it
            r2, m2, dt2, info2 = self._solve(list(pc) + list(prefer or self.prefer), [z3.Not(claim)], timeout_s, tactic)
            if r2 == 'sat': m = m2
        if r == 'sat':
            try:
                ob['witness'] = decode(m) if decode else {str(d): str(m[d]) for d in m.decls()[:40]}
            except Exception as e:
                ob['witness'] = {'decode_error': repr(e)}
            if replay is not None:
                try:
                    ok, detail = replay(m, ob['witness'])
                    ob['replay'] = 'reproduced' if ok else 'not-reproduced'
                    ob['replay_detail'] = detail
                    if ok and not any(f['site'] == ob['site'] or (f['site'].endswith('*') and ob['site'].startswith(f['site'][:-1])) for f in self._known): self.nviol += 1
                except Exception as e:
                    ob['replay'] = 'replay-error'; ob['replay_detail'] = traceback.format_exc()[-1500:]
            else:
                ob['replay'] = 'no-replay'
        elif r == 'unknown':
            ob['reason'] = str(info)[:200]
        self.obs.append(ob)
        return {'sat': z3.sat, 'unsat': z3.unsat}.get(r, z3.unknown)
    def reach(self, name, pc, extra=(), timeout_s=None):
        """vacuity twin: the assumptions (and the point of the assertion) must be satisfiable"""
        r, m, dt, info = self._solve(pc, list(extra), timeout_s)
        self.vacuity.append({'name': name, 'status': r, 'time_s': round(dt, 3)})
        return r == 'sat'
    def note_results(self, ex, results, allowed=('return', 'error', 'infeasible')):
        """record path kinds; unsupported/unwind paths make the unit inconclusive"""
        for r in results:
            self.paths[r.kind] = self.paths.get(r.kind, 0) + 1
            if r.kind in ('unsupported', 'unwind', 'trap', 'unreachable') and r.kind not in allowed:
                self.inconclusive.append('%s: %s' % (r.kind, r.info))
        self.functions |= {f.lstrip('@') for f in ex.called if not f.startswith('@llvm.')}
        self.queries += ex.nq; self.solver_s += ex.tq
    def memory_obligations(self, results, site_prefix='', replay=None, decode=None, kinds=('mem',), dedupe=True, timeout_s=None):
        """discharge the bounds/null obligations collected on every path"""
        seen = self._seen_mem; n = 0
        for r in results:
            for ob in r.state.obls:
                pc, claim, what, kind, site = ob
                if kind not in kinds: continue
                key = (claim.get_id(), tuple(p.get_id() for p in pc)) if dedupe else None
                if key is not None and key in seen: continue
                seen.add(key); n += 1
                self.prove('%s%s @%s' % (site_prefix, what, site.lstrip('@')), pc, claim, site='%s:%s' % (site.lstrip('@'), what.split(' obj=')[0].split(' objsize')[0]),
                           replay=replay, decode=decode, kind=kind, sample='%s in %s' % (what, site), timeout_s=timeout_s)
        return n
    def selfcheck(self, name, ok, detail=''):
        self.selfchecks.append({'name': name, 'ok': bool(ok), 'detail': str(detail)[:300]})
    def error(self, msg):
        self.errors.append(msg)
    def report(self):
        return {'unit': self.unit, 'obligations': self.obs, 'inconclusive': self.inconclusive, 'vacuity': self.vacuity,
                'functions': sorted(self.functions), 'paths': self.paths, 'queries': self.queries, 'solver_s': round(self.solver_s, 3),
                'selfchecks': self.selfchecks, 'solvers_used': self.solvers_used, 'notes': self.notes + (['%d obligations not attempted after %d counterexamples (%d replayed)' % (self.skipped, self.nsat, self.nviol)] if self.skipped else []), 'errors': self.errors, 'wall_s': round(time.time() - self.t0, 2)}


class UnitTimeout(BaseException):
    """wall budget of a unit exceeded (BaseException so that no `except Exception` in a harness or replay swallows it)"""


# ------------------------------------------------------------------ parallel scheduling
def _unit_entry(args):
    modname, uname, fname, kwargs, tier, budget = args
    t0 = time.time()
    def on_alarm(sig, frm): raise UnitTimeout('unit wall budget %ds exceeded' % budget)
    signal.signal(signal.SIGALRM, on_alarm); signal.alarm(int(budget))
    try:
        mod = importlib.import_module(modname)
        rep = getattr(mod, fname)(tier=tier, **kwargs)
        if hasattr(rep, 'report') and not isinstance(rep, dict): rep = rep.report()
        rep['unit'] = uname
    except UnitTimeout as e:
        rep = {'unit': uname, 'obligations': [], 'inconclusive': ['timeout: %s' % e], 'vacuity': [], 'functions': [], 'paths': {}, 'queries': 0,
               'solver_s': 0, 'selfchecks': [], 'notes': [], 'errors': []}
    except BaseException as e:
        rep = {'unit': uname, 'obligations': [], 'inconclusive': [], 'vacuity': [], 'functions': [], 'paths': {}, 'queries': 0, 'solver_s': 0,
               'selfchecks': [], 'notes': [], 'errors': ['%s: %s' % (type(e).__name__, traceback.format_exc()[-3000:])]}
    finally:
        signal.alarm(0)
    rep['wall_s'] = round(time.time() - t0, 2)
    return rep


def load_known():
    findings, fixed = [], []
    if os.path.exists(KNOWN):
        for line in open(KNOWN):
            line = line.strip()
            if not line or line.startswith('#'): continue
            m = re.match(r'finding:\s+property=(\S+)\s+site=(\S+)\s*(.*)', line)
            if m: findings.append({'property': m.group(1), 'site': m.group(2), 'what': m.group(3)}); continue
            m = re.match(r'fixed:\s+property=(\S+)\s+(\S+)\s*(.*)', line)
            if m: fixed.append({'property': m.group(1), 'commit': m.group(2), 'what': m.group(3)})
    return findings, fixed


def site_matches(pattern, site):
    if pattern == site: return True
    if pattern.endswith('*') and site.startswith(pattern[:-1]): return True
    return False


def run_property(pid, tier='quick', seed=0, jobs=None, only=None, verbose=False):
    t0 = time.time()
    mod = importlib.import_module('props.' + pid)
    units = mod.units(tier)
    if only: units = [u for u in units if re.search(only, u[0])]
    rnd = random.Random(seed); order = list(units); rnd.shuffle(order)
    # longest-budget first helps packing
    order.sort(key=lambda u: -(u[3] if len(u) > 3 else 0))
    default_budget = getattr(mod, 'BUDGET', {'quick': 240, 'thorough': 1500})[tier]
    tasks = [('props.' + pid, u[0], u[1], u[2], tier, (u[3] if len(u) > 3 and u[3] else default_budget)) for u in order]
    jobs = jobs or int(os.environ.get('VERIF_JOBS', '0')) or min(16, os.cpu_count() or 4)
    if hasattr(mod, 'prepare'):
        mod.prepare(tier)   # build IR / native libs once, before forking
    reports = []
    if jobs == 1 or len(tasks) == 1:
        for t in tasks: reports.append(_unit_entry(t))
    else:
        ctx = multiprocessing.get_context('fork')
        with ctx.Pool(min(jobs, len(tasks)), maxtasksperchild=1) as pool:
            for rep in pool.imap_unordered(_unit_entry, tasks):
                reports.append(rep)
                if verbose: print('  unit %s done in %ss: %d obligations' % (rep['unit'], rep['wall_s'], len(rep['obligations'])), flush=True)
    reports.sort(key=lambda r: r['unit'])
    return finish(pid, mod, tier, seed, reports, time.time() - t0, verbose)


def finish(pid, mod, tier, seed, reports, wall, verbose=False):
    findings, fixed = load_known()
    obs = [dict(o, unit=r['unit']) for r in reports for o in r['obligations']]
    n_unsat = sum(1 for o in obs if o['status'] == 'unsat')
    sat = [o for o in obs if o['status'] == 'sat']
    unknown = [o for o in obs if o['status'] not in ('sat', 'unsat')]
    inconcl = [(r['unit'], x) for r in reports for x in r['inconclusive']]
    errors = [(r['unit'], x) for r in reports for x in r['errors']]
    vac_bad = [(r['unit'], v) for r in reports for v in r['vacuity'] if v['status'] != 'sat']
    self_bad = [(r['unit'], v) for r in reports for v in r['selfchecks'] if not v['ok']]
    violations, known_hits, unreplayed = [], [], []
    os.makedirs(REPLAYS, exist_ok=True)
    for o in sat:
        rp = o.get('replay')
        if rp == 'reproduced':
            hit = None
            for f in findings:
                if f['property'] == pid and site_matches(f['site'], o['site']): hit = f; break
            if hit: known_hits.append((o, hit))
            else: violations.append(o)
        else:
            unreplayed.append(o)
    lines = []
    seen_known = set()
    for o, f in known_hits:
        if f['site'] in seen_known: continue
        seen_known.add(f['site'])
        lines.append('KNOWN-FINDING: property=%s site=%s %s' % (pid, f['site'], f['what']))
    vio_files = []
    for i, o in enumerate(violations):
        d = os.path.join(REPLAYS, pid); os.makedirs(d, exist_ok=True)
        path = os.path.join(d, re.sub(r'[^A-Za-z0-9_.-]+', '_', '%s_%s' % (o['unit'], o['name']))[:120] + '.json')
        json.dump({'property': pid, 'obligation': o, 'tier': tier, 'how_to_replay': './check %s --replay %s' % (pid, path)}, open(path, 'w'), indent=1, default=str)
        if path not in vio_files: lines.append('VIOLATION property=%s replay=%s' % (pid, path))
        vio_files.append(path)
    harness_problem = bool(errors or vac_bad or self_bad or unreplayed or unknown or inconcl)
    # evidence
    samples = [o.get('sample', o['name']) for o in obs[:: max(1, len(obs) // 12)]][:14]
    nontrivial = len({o['name'] + '|' + o['unit'] for o in obs if o['status'] in ('sat', 'unsat') and o.get('kind') != 'trivial'})
    cov = {
        'explanation': getattr(mod, 'EXPLANATION', ''),
        'obligations': len(obs), 'discharged': n_unsat,
        'evaluations': len(obs), 'distinct_nontrivial': nontrivial,
        'rule': 'one evaluation = one SMT obligation generated by symbolic execution of the real code; distinct = distinct (unit, obligation name); '
                'non-trivial = decided sat/unsat by the solver over symbolic inputs (constant-folded checks are not emitted as obligations)',
        'samples': samples or ['(no obligations)'],
        'functions_encoded': sorted({f for r in reports for f in r['functions']}),
        'bounds': getattr(mod, 'BOUNDS', {}).get(tier, getattr(mod, 'BOUNDS', {})) if isinstance(getattr(mod, 'BOUNDS', {}), dict) else getattr(mod, 'BOUNDS'),
        'outside_claim': getattr(mod, 'OUTSIDE', ''),
        'semantics': sorted({o['semantics'] for o in obs}),
        'queries': sum(r['queries'] for r in reports), 'solver_time_s': round(sum(r['solver_s'] for r in reports), 2),
        'paths': {k: sum(r['paths'].get(k, 0) for r in reports) for k in {k for r in reports for k in r['paths']}},
        'units': [{'unit': r['unit'], 'obligations': len(r['obligations']), 'wall_s': r['wall_s'], 'paths': r['paths']} for r in reports],
        'vacuity_twins': {'total': sum(len(r['vacuity']) for r in reports), 'sat': sum(1 for r in reports for v in r['vacuity'] if v['status'] == 'sat')},
        'translator_selfcheck': {'total': sum(len(r['selfchecks']) for r in reports), 'ok': sum(1 for r in reports for v in r['selfchecks'] if v['ok'])},
        'unknown_or_inconclusive': [o['name'] for o in unknown] + ['%s: %s' % x for x in inconcl],
        'known_findings_hit': sorted(seen_known),
        'counterexamples': [{'name': o['name'], 'site': o['site'], 'witness': o.get('witness'), 'replay': o.get('replay')} for o in sat][:20],
        'exhaustive': False,
        'trusted_base': ['clang-14 lowering to LLVM IR', 'vf/irparse.py + vf/llsym.py (validated per run against the natively compiled function on concrete inputs)', 'z3 %s' % z3.get_version_string()],
    }
    if hasattr(mod, 'coverage_extra'):
        try: cov.update(mod.coverage_extra(reports, tier))
        except Exception as e: cov['coverage_extra_error'] = repr(e)
    ev = {'property_id': pid, 'tier': tier, 'seed': int(seed), 'level': getattr(mod, 'LEVEL', 'other'), 'coverage': cov,
          'assumptions': list(getattr(mod, 'ASSUMPTIONS', [])), 'wall_s': round(wall, 2), 'violations': len(violations)}
    os.makedirs(EVID, exist_ok=True)
    tmp = os.path.join(EVID, pid + '.json.tmp')
    json.dump(ev, open(tmp, 'w'), indent=1, default=str)
    os.replace(tmp, os.path.join(EVID, pid + '.json'))
    # console summary
    print('[%s %s] units=%d obligations=%d unsat=%d sat=%d unknown=%d queries=%d solver=%.1fs wall=%.1fs' % (
        pid, tier, len(reports), len(obs), n_unsat, len(sat), len(unknown), cov['queries'], cov['solver_time_s'], wall))
    for l in lines: print(l)
    for u, e in errors: print('HARNESS-ERROR unit=%s %s' % (u, e.strip().splitlines()[-1] if e.strip() else e));
    if verbose:
        for u, e in errors: print(e)
    for u, v in vac_bad: print('HARNESS-ERROR unit=%s vacuity twin %s is %s' % (u, v['name'], v['status']))
    for u, v in self_bad: print('HARNESS-ERROR unit=%s translator self-check failed: %s %s' % (u, v['name'], v['detail']))
    for o in unreplayed: print('HARNESS-ERROR unit=%s counterexample for "%s" was not reproduced on the real code (%s): %s' % (o['unit'], o['name'], o.get('replay'), str(o.get('replay_detail', ''))[:300]))
    for o in unknown: print('INCONCLUSIVE unit=%s obligation "%s" -> %s (%s)' % (o['unit'], o['name'], o['status'], o.get('reason', '')))
    for u, x in inconcl: print('INCONCLUSIVE unit=%s %s' % (u, x))
    sys.stdout.flush()
    if violations: return EXIT_VIOLATION
    if harness_problem: return EXIT_HARNESS
    return EXIT_OK


def main(argv=None):
    import argparse
    ap = argparse.ArgumentParser()
    ap.add_argument('pid'); ap.add_argument('--tier', default=os.environ.get('VERIF_TIER', 'quick'), choices=['quick', 'thorough'])
    ap.add_argument('--jobs', type=int, default=None); ap.add_argument('--only', default=None); ap.add_argument('-v', action='store_true')
    ap.add_argument('--replay', default=None)
    a = ap.parse_args(argv)
    seed = int(os.environ.get('VERIF_SEED', '0') or 0)
    sys.path.insert(0, VERIF)
    if a.replay:
        d = json.load(open(a.replay))
        only = '^' + re.escape(d['obligation']['unit']) + '$'
        return run_property(a.pid, d.get('tier', a.tier), seed, 1, only, True)
    return run_property(a.pid, a.tier, seed, a.jobs, a.only, a.v)


if __name__ == '__main__':
    sys.exit(main())
