"""symtok: finite-domain concolic execution of real Python code. Symbolic atoms are z3 Ints indexing an explicit vocabulary;
comparisons return symbolic booleans whose truth value is decided by following / extending a decision prefix (z3 decides which sides are
feasible); the unmodified code is re-executed depth-first until the decision tree is exhausted."""
import time
import z3


class Engine:
    def __init__(self): self.decisions = []; self.pos = 0; self.solver = z3.Solver(); self.nq = 0; self.base = []
    def branch(self, cond):
        c = z3.simplify(cond)
        if z3.is_true(c): return True
        if z3.is_false(c): return False
        if self.pos < len(self.decisions):
            v = self.decisions[self.pos][0]; self.pos += 1
            self.solver.add(c if v else z3.Not(c)); return v
        self.nq += 2
        self.solver.push(); self.solver.add(c); okT = self.solver.check() == z3.sat; self.solver.pop()
        self.solver.push(); self.solver.add(z3.Not(c)); okF = self.solver.check() == z3.sat; self.solver.pop()
        if okT and okF: self.decisions.append([True, True])
        elif okT: self.decisions.append([True, False])
        elif okF: self.decisions.append([False, False])
        else: raise RuntimeError('infeasible path reached')
        v = self.decisions[-1][0]; self.pos += 1
        self.solver.add(c if v else z3.Not(c)); return v
    def next_path(self):
        while self.decisions and not self.decisions[-1][1]: self.decisions.pop()
        if not self.decisions: return False
        self.decisions[-1] = [not self.decisions[-1][0], False]
        return True
    def reset(self):
        self.pos = 0; self.solver = z3.Solver(); self.solver.add(*self.base)
    def model(self):
        return self.solver.model() if self.solver.check() == z3.sat else None


class SymBool:
    def __init__(self, eng, e): self.eng = eng; self.e = e
    def __bool__(self): return self.eng.branch(self.e)


class SymAtom:
    """finite-domain symbolic string"""
    def __init__(self, eng, var, vocab): self.eng = eng; self.var = var; self.vocab = vocab
    def conc(self):
        for i, w in enumerate(self.vocab):
            if self.eng.branch(self.var == i): return w
        raise AssertionError('domain exhausted')
    def __eq__(self, o):
        if isinstance(o, SymAtom):
            if self.vocab is o.vocab: return SymBool(self.eng, self.var == o.var)
            return SymBool(self.eng, z3.Or(*[z3.And(self.var == i, o.var == j) for i, a in enumerate(self.vocab) for j, b in enumerate(o.vocab) if a == b]))
        if o in self.vocab: return SymBool(self.eng, self.var == self.vocab.index(o))
        return False
    def __ne__(self, o):
        r = self.__eq__(o)
        return SymBool(self.eng, z3.Not(r.e)) if isinstance(r, SymBool) else (not r)
    def __hash__(self): return hash(self.conc())
    def __str__(self): return self.conc()
    def __repr__(self): return repr(self.conc())
    def __format__(self, f): return format(self.conc(), f)
    def __float__(self): return float(self.conc())
    def __int__(self): return int(self.conc())
    def __len__(self): return len(self.conc())
    def __getitem__(self, k): return self.conc()[k]
    def __contains__(self, x): return x in self.conc()
    def __iter__(self): return iter(self.conc())
    def __add__(self, o): return self.conc() + str(o)
    def __radd__(self, o): return str(o) + self.conc()
    def __getattr__(self, name):
        if name.startswith('__'): raise AttributeError(name)
        return getattr(self.conc(), name)      # any other str method: concretise first


class SymSet:
    """frozenset facade: membership of a symbolic atom is a symbolic boolean"""
    def __init__(self, eng, items):
        # membership keeps the semantics of the ORIGINAL container (a str container means substring test, a dict means key test)
        self.eng = eng; self.orig = items; self.items = frozenset(items)
    def _has(self, w):
        try: return w in self.orig
        except TypeError: return False
    def __contains__(self, x):
        if isinstance(x, SymAtom): return bool(SymBool(self.eng, z3.Or(*[x.var == i for i, w in enumerate(x.vocab) if self._has(w)])))
        return self._has(x)
    def __iter__(self): return iter(self.items)
    def __len__(self): return len(self.items)
    def __or__(self, o): return SymSet(self.eng, self.items | frozenset(o))
    def __sub__(self, o): return SymSet(self.eng, self.items - frozenset(o))
