"""Helper for leaf numeric functions: arrays of mjtNum in/out, scalar args; one symbolic run with native replay per path."""
import z3
from . import llsym, world as W
from .irparse import IntT, FpT


class Leaf:
    def __init__(self, ck, mod, so, fname, spec, pre=None, fpmode='real', stubs=None, loop_bound=64, restype='void', merge=False, max_paths=20000, prefill=0.0, unknown_is_feasible=False, feasibility_timeout_s=None):
        """spec: list of ('arr', name, n[, mode]) with mode in {'in','out','inout'}; ('f64', name[, value]); ('i32', name[, value]); ('ptr0', name) NULL pointer.
        pre: callable(vars) -> list of z3 constraints."""
        self.ck = ck; self.fname = fname
        self.w = w = W.World(fpmode if fpmode != 'fp' else 'fp')
        self.v = {}; self.objs = {}; args_s = []; self.nargs = []
        for item in spec:
            kind, name = item[0], item[1]
            if kind == 'arr':
                n = item[2]; mode = item[3] if len(item) > 3 else 'in'
                if mode == 'out': o, vals = w.arr(name, 'f64', n, [prefill] * n)
                elif isinstance(mode, (list, tuple)): o, vals = w.arr(name, 'f64', n, list(mode))      # cells given as terms over other symbols
                else: o, vals = w.arr(name, 'f64', n)
                self.objs[name] = (o, n, 'f64'); self.v[name] = vals; self.nargs.append(('ptr', (o, 0)))
            elif kind == 'iarr':
                n = item[2]; vals_ = item[3] if len(item) > 3 else None
                o, vals = w.arr(name, 'i32', n, vals_)
                self.objs[name] = (o, n, 'i32'); self.v[name] = vals; self.nargs.append(('ptr', (o, 0)))
            elif kind in ('f64', 'i32', 'u8'):
                if len(item) > 2: val = item[2]
                else:
                    val = w.fresh(kind, name)
                self.v[name] = val; self.nargs.append((kind, val))
            elif kind == 'ptr0':
                self.nargs.append(('ptr', None))
            elif kind == 'str':
                data = item[2].encode() + b'\0'
                o = w.obj(name, len(data))
                for i, b in enumerate(data): o.put(i, 'u8', b)
                self.nargs.append(('ptr', (o, 0)))
        self.ex = ex = llsym.Exec(mod, fpmode=fpmode, stubs=stubs, loop_bound=loop_bound, merge=merge, max_paths=max_paths)
        if unknown_is_feasible: ex.unknown_is_feasible = True
        if feasibility_timeout_s: ex.feasibility_timeout_s = feasibility_timeout_s
        st = w.to_state(ex)
        self.pre = list(pre(self.v)) if pre else []
        st.pc += self.pre
        sargs = []
        for ty, v in self.nargs:
            if ty == 'ptr': sargs.append(llsym.NULL if v is None else w.P(*v))
            else: sargs.append(w._symval(ex, ty, v, w.map))
        self.res = ex.run('@' + fname, sargs, st)
        ck.note_results(ex, self.res)
        self.restype = restype; self.so = so; self.sem = 'real' if fpmode == 'real' else 'fp'
    def paths(self):
        """yield (pc, out dict name -> list of terms, ret, replay) for every returning path"""
        for r in self.res:
            if r.kind != 'return': continue
            out = {}; outputs = []
            for name, (o, n, ty) in self.objs.items():
                t = FpT('double') if ty == 'f64' else IntT(32); sz = 8 if ty == 'f64' else 4
                vals = [self.ex.load(r.state, self.w.P(o, sz * i), t) for i in range(n)]
                out[name] = vals
                outputs += [('%s%d' % (name, i), o, sz * i, ty, vals[i]) for i in range(n)]
            rp = W.make_replay(self.so, self.fname, self.w, self.nargs, restype=self.restype, outputs=outputs, semantics=self.sem,
                               ret_term=(r.value if self.restype != 'void' else None))
            self.state = r.state
            yield r.state.pc, out, r.value, rp
    def decode(self):
        def f(m):
            d = {}
            for k, v in self.v.items():
                if isinstance(v, list): d[k] = [str(W.evalnum(m, x)) for x in v]
                elif z3.is_expr(v): d[k] = str(W.evalnum(m, v))
            return d
        return f
